package rules

import (
	"go/constant"
	"encoding/json"
	"fmt"
	"go/ast"
	"go/token"
	"go/types"
	"os"
	"path/filepath"
	"strings"

	"golang.org/x/tools/go/ssa"

	"texelverif/internal/core"
)

func init() {
	reg("R37", r37GateFirst)
	reg("R38", r38QuadTreeConditions)
}

// nonNilEdges filters CFG edges to those on which errVal may be non-nil.
func nonNilEdges(errVal ssa.Value) func(b *ssa.BasicBlock, k int) bool {
	return func(b *ssa.BasicBlock, k int) bool {
		i := core.BlockIf(b)
		if i == nil {
			return true
		}
		if bo, ok := i.Cond.(*ssa.BinOp); ok && (bo.Op == token.NEQ || bo.Op == token.EQL) {
			x, y := bo.X, bo.Y
			if isNilConst(x) {
				x, y = y, x
			}
			if x == errVal && isNilConst(y) {
				nonNilSucc := 0
				if bo.Op == token.EQL {
					nonNilSucc = 1
				}
				return k == nonNilSucc
			}
		}
		return true
	}
}

var shapeAssuming = []string{"pointindex.FromTileMatrixSet", "tms20.TileMatrixSet.MatrixSize", "tms20.TileMatrixSet.MatrixBoundingBox"}

// fieldsRead collects the names of struct fields read (transitively) by v.
func fieldsRead(v ssa.Value, out map[string]bool, seen map[ssa.Value]bool) {
	if v == nil || seen[v] {
		return
	}
	seen[v] = true
	switch x := v.(type) {
	case *ssa.Field:
		if st, ok := x.X.Type().Underlying().(*types.Struct); ok {
			out[st.Field(x.Field).Name()] = true
		}
		fieldsRead(x.X, out, seen)
	case *ssa.FieldAddr:
		if pt, ok := x.X.Type().Underlying().(*types.Pointer); ok {
			if st, ok := pt.Elem().Underlying().(*types.Struct); ok {
				out[st.Field(x.Field).Name()] = true
			}
		}
		fieldsRead(x.X, out, seen)
	case *ssa.UnOp:
		fieldsRead(x.X, out, seen)
	case *ssa.BinOp:
		fieldsRead(x.X, out, seen)
		fieldsRead(x.Y, out, seen)
	case *ssa.Call:
		if _, isB := x.Call.Value.(*ssa.Builtin); isB {
			for _, a := range x.Call.Args {
				fieldsRead(a, out, seen)
			}
		}
		// a module predicate (a named condition on a struct): the fields its answer is computed from
		if g := x.Call.StaticCallee(); g != nil && len(g.Blocks) > 0 && len(g.Blocks) <= 6 && core.IsModPath(core.FuncPkgPath(g)) && isBoolType(x.Type()) {
			for _, b := range g.Blocks {
				for _, in := range b.Instrs {
					if ret, ok := in.(*ssa.Return); ok {
						for _, r := range ret.Results {
							fieldsRead(r, out, seen)
						}
					}
					if i, ok := in.(*ssa.If); ok {
						fieldsRead(i.Cond, out, seen)
					}
				}
			}
		}
	case *ssa.Phi:
		for _, e := range x.Edges {
			fieldsRead(e, out, seen)
		}
	case *ssa.Convert:
		fieldsRead(x.X, out, seen)
	case *ssa.ChangeType:
		fieldsRead(x.X, out, seen)
	}
}

// errorIfFields lists, for a validation function, the struct fields mentioned
// in conditions of if-statements whose body returns a non-nil error.
func errorIfFields(p *core.Prog, f *core.Func) map[string]bool {
	out := map[string]bool{}
	errorIfFieldsInto(p, f, out, 0)
	return out
}

func errorIfFieldsInto(p *core.Prog, f *core.Func, out map[string]bool, depth int) {
	info := f.Pkg.TypesInfo
	ast.Inspect(f.Decl.Body, func(n ast.Node) bool {
		// checks that live in an error-returning module helper (R38 verifies how its error is passed on)
		if call, ok := n.(*ast.CallExpr); ok && depth < 3 {
			if callee := core.Callee(info, call); callee != nil {
				if h := p.ByObj[callee.Origin()]; h != nil && h != f && h.Decl.Body != nil && core.IsModPath(h.Pkg.PkgPath) {
					if rs := h.Obj.Type().(*types.Signature).Results(); rs.Len() == 1 && types.Identical(rs.At(0).Type(), types.Universe.Lookup("error").Type()) {
						errorIfFieldsInto(p, h, out, depth+1)
					}
				}
			}
		}
		is, ok := n.(*ast.IfStmt)
		if !ok || !returnsError(p, info, is.Body) {
			return true
		}
		ast.Inspect(is.Cond, func(x ast.Node) bool {
			if sel, ok := x.(*ast.SelectorExpr); ok {
				if fv := core.FieldOf(info, sel); fv != nil {
					out[fv.Name()] = true
				}
			}
			return true
		})
		return true
	})
}

// returnsError: the block ends in `return <non-nil error>`.
func returnsError(p *core.Prog, info *types.Info, b *ast.BlockStmt) bool {
	if b == nil || len(b.List) == 0 {
		return false
	}
	ret, ok := b.List[len(b.List)-1].(*ast.ReturnStmt)
	if !ok || len(ret.Results) == 0 {
		return false
	}
	last := ast.Unparen(ret.Results[len(ret.Results)-1])
	if c, ok := last.(*ast.CallExpr); ok {
		return core.IsCallTo(info, c, "errors.New", "fmt.Errorf")
	}
	if id, ok := last.(*ast.Ident); ok {
		return id.Name != "nil" // `return err` inside `if err != nil`
	}
	return false
}

// R37: the quadtree gate comes first and nothing behind it can panic.
func r37GateFirst(c *core.Ctx) {
	const R = "R37"
	v := c.Anchor(R, "main.validateTileMatrixSet")
	iq := c.Anchor(R, "pointindex.IsQuadTree")
	if v == nil || iq == nil {
		return
	}
	info := v.Pkg.TypesInfo
	g := c.P.VTA()
	var shapeFns []*ssa.Function
	for _, n := range shapeAssuming {
		if f := c.Anchor(R, n); f != nil && f.SSA != nil {
			shapeFns = append(shapeFns, f.SSA)
		}
	}
	gates := core.CallsIn(info, v.Decl, "pointindex.IsQuadTree")
	if len(gates) != 1 {
		c.Bad(R, "gate-call/main.validateTileMatrixSet", v.Decl.Pos(), fmt.Sprintf("expected exactly one call to pointindex.IsQuadTree, found %d", len(gates)))
		return
	}
	gate, _ := core.CallAt(v.SSA, gates[0].Lparen).(*ssa.Call)
	if gate == nil {
		c.Bad(R, "gate-call/ssa", gates[0].Pos(), "cannot map IsQuadTree call to SSA")
		return
	}
	// (a) every call that can reach shape-assuming code is behind the gate, on its nil-error side
	n := 0
	for _, b := range v.SSA.Blocks {
		for _, in := range b.Instrs {
			call, ok := in.(*ssa.Call)
			if !ok || call == gate {
				continue
			}
			callee := call.Common().StaticCallee()
			if callee == nil {
				continue
			}
			reach := core.Reachable(g, callee)
			var hit *ssa.Function
			for _, sf := range shapeFns {
				if _, ok := reach[sf]; ok {
					hit = sf
					break
				}
			}
			if hit == nil {
				continue
			}
			n++
			construct := fmt.Sprintf("behind-gate/main.validateTileMatrixSet/%s", callee.Name())
			c.Saw(R, fmt.Sprintf("call %s reaches %s", callee.String(), hit.String()))
			dom := core.Dominates(gate, call)
			viaErr, _ := core.Search{Fn: v.SSA, From: gate, Target: func(i ssa.Instruction) bool { return i == ssa.Instruction(call) }, Edge: nonNilEdges(gate)}.Run()
			switch {
			case !dom:
				c.Bad(R, construct, call.Pos(), fmt.Sprintf("%s (which reaches %s, code that assumes the quadtree shape and panics on variable matrix widths) can run before pointindex.IsQuadTree has accepted the tile matrix set: a non-quadtree set panics instead of being rejected with an error", callee.Name(), hit.Name()),
					core.PathTo(reach, hit)...)
			case viaErr:
				c.Bad(R, construct, call.Pos(), callee.Name()+" is reachable although IsQuadTree returned an error (error not returned before continuing)")
			default:
				c.OK(R, construct, call.Pos(), "dominated by IsQuadTree and only reachable when it returned nil")
			}
		}
	}
	if n == 0 {
		c.Note(R, "validateTileMatrixSet calls nothing that reaches shape-assuming code")
	}
	// the gate's verdict must be what validation returns on rejection: every path with a non-nil IsQuadTree error returns that error
	okRet := true
	detail := ""
	seen := map[ssa.Instruction]bool{}
	for {
		found, in := core.Search{Fn: v.SSA, From: gate, Target: func(i ssa.Instruction) bool { return core.IsReturn(i) && !seen[i] }, Edge: nonNilEdges(gate)}.Run()
		if !found {
			break
		}
		seen[in] = true
		ret := in.(*ssa.Return)
		if !retMayBe(ret.Results[len(ret.Results)-1], gate, map[ssa.Value]bool{}) {
			okRet = false
			detail = "a return reachable with a non-nil IsQuadTree error does not return that error @" + c.P.Pos(ret.Pos())
		}
	}
	// the gate and the deviation statistics look at the set that was handed in, not at a copy or a part of it
	{
		okWhole, why := true, ""
		if len(v.SSA.Params) < 1 {
			okWhole, why = false, "validateTileMatrixSet has no tile matrix set parameter"
		} else {
			prm := ssa.Value(v.SSA.Params[0])
			if resolveValue(gate.Call.Args[0]) != prm {
				okWhole, why = false, "IsQuadTree is called with "+gate.Call.Args[0].String()+", not with the tile matrix set handed to validation"
			}
			for _, ds := range findCalls(v.SSA, core.ModPath+"/pointindex.DeviationStats") {
				if resolveValue(ds.Call.Args[0]) != prm {
					okWhole, why = false, "DeviationStats is called with something other than the tile matrix set handed to validation"
				}
			}
			// and that parameter is not modified before (a spilled parameter has exactly one store)
			for _, r := range *v.SSA.Params[0].Referrers() {
				if st, ok := r.(*ssa.Store); ok {
					if a, ok := st.Addr.(*ssa.Alloc); ok {
						n := 0
						var walk func(x ssa.Value)
						walk = func(x ssa.Value) {
							for _, rr := range *x.Referrers() {
								switch y := rr.(type) {
								case *ssa.Store:
									if y.Addr == x {
										n++
									}
								case *ssa.FieldAddr:
									walk(y)
								case *ssa.IndexAddr:
									walk(y)
								}
							}
						}
						walk(a)
						if n > 1 {
							okWhole, why = false, "the tile matrix set parameter is modified inside validation"
						}
					}
				}
			}
		}
		c.Check(R, "gate-checks-the-whole-set/main.validateTileMatrixSet", gates[0].Pos(), okWhole, "IsQuadTree and DeviationStats receive the tile matrix set as handed to validation", "validation does not examine the complete tile matrix set: "+why)
	}
	c.Check(R, "gate-error-returned/main.validateTileMatrixSet", gates[0].Pos(), okRet && len(seen) > 0, "IsQuadTree's error is returned to the caller", "IsQuadTree's verdict is dropped: "+detail)

	// every error produced inside validation is returned: no callee's error is downgraded to a log line
	// (the "ids start at 0" condition is enforced only through MatrixBoundingBox(0)'s error in DeviationStats)
	for _, b := range v.SSA.Blocks {
		for _, in := range b.Instrs {
			call, ok := in.(*ssa.Call)
			if !ok || call == gate {
				continue
			}
			var errVal ssa.Value
			if tup, isTup := call.Type().(*types.Tuple); isTup {
				if tup.Len() > 0 && types.Identical(tup.At(tup.Len()-1).Type(), types.Universe.Lookup("error").Type()) {
					errVal = extractOf(call, tup.Len()-1)
				}
			} else if types.Identical(call.Type(), types.Universe.Lookup("error").Type()) {
				errVal = call
			}
			if errVal == nil {
				continue
			}
			name := "call"
			if cal := call.Call.StaticCallee(); cal != nil {
				name = cal.Name()
			}
			okAll, nret := true, 0
			seenR := map[ssa.Instruction]bool{}
			for {
				found, rin := core.Search{Fn: v.SSA, From: call, Target: func(i ssa.Instruction) bool { return core.IsReturn(i) && !seenR[i] }, Edge: nonNilEdges(errVal)}.Run()
				if !found {
					break
				}
				seenR[rin] = true
				nret++
				ret := rin.(*ssa.Return)
				if !retMayBe(ret.Results[len(ret.Results)-1], errVal, map[ssa.Value]bool{}) {
					okAll = false
				}
			}
			c.Check(R, "error-returned/main.validateTileMatrixSet/"+name, call.Pos(), okAll && nret > 0, "a non-nil error of "+name+" is returned to the caller",
				"validation continues (or reports success) although "+name+" returned an error: a tile matrix set the rest of the program cannot work with is accepted")
		}
	}

	// (b) residual explicit panics behind the gate
	reach := core.Reachable(g, v.SSA)
	gateFields := errorIfFields(c.P, iq)
	allow := map[string]string{
		"tms20.ReferenceSystemCRS.Authority": "unimplemented CRS variant; no built-in document uses the referenceSystem form (checked below)",
		"tms20.ReferenceSystemCRS.Version":   "unimplemented CRS variant; no built-in document uses the referenceSystem form (checked below)",
		"tms20.ReferenceSystemCRS.Code":      "unimplemented CRS variant; no built-in document uses the referenceSystem form (checked below)",
	}
	usedAllow := false
	for _, f := range sortedFuncs(c.P) {
		if f.SSA == nil {
			continue
		}
		if _, ok := reach[f.SSA]; !ok {
			continue
		}
		k := 0
		for _, b := range f.SSA.Blocks {
			for _, in := range b.Instrs {
				pn, ok := in.(*ssa.Panic)
				if !ok {
					continue
				}
				k++
				construct := fmt.Sprintf("panic-excluded-by-gate/%s#%d", f.Name, k)
				if why, ok := allow[f.Name]; ok {
					usedAllow = true
					c.OK(R, construct, pn.Pos(), "allow-listed: "+why)
					continue
				}
				// controlling conditions
				fields := map[string]bool{}
				for _, d := range f.SSA.Blocks {
					i := core.BlockIf(d)
					if i == nil || !d.Dominates(b) || d == b {
						continue
					}
					fieldsRead(i.Cond, fields, map[ssa.Value]bool{})
				}
				covered := ""
				for fld := range fields {
					if gateFields[fld] {
						covered = fld
					}
				}
				if covered != "" {
					c.OK(R, construct, pn.Pos(), "guarded by a condition on field "+covered+", which IsQuadTree rejects with an error")
				} else {
					c.Bad(R, construct, pn.Pos(), fmt.Sprintf("explicit panic reachable from validateTileMatrixSet is not excluded by any check in IsQuadTree (controlling fields: %v): validation may panic instead of returning an error", keys(fields)), core.PathTo(reach, f.SSA)...)
				}
			}
		}
	}
	if usedAllow {
		r37BuiltinsAvoidReferenceSystem(c)
	}
	// (b') inside the gate itself: a call that reaches such a panic stands behind the gate's own rejection of the
	// field the panic is controlled by (a check added in front of it turns the rejected case into a panic)
	if iq.SSA != nil {
		type pf struct {
			fn     *ssa.Function
			fields map[string]bool
		}
		var panicFns []pf
		for _, f := range sortedFuncs(c.P) {
			if f.SSA == nil || allow[f.Name] != "" {
				continue
			}
			if _, ok := reach[f.SSA]; !ok {
				continue
			}
			for _, b := range f.SSA.Blocks {
				for _, in := range b.Instrs {
					if _, ok := in.(*ssa.Panic); !ok {
						continue
					}
					fields := map[string]bool{}
					for _, d := range f.SSA.Blocks {
						i := core.BlockIf(d)
						if i == nil || !d.Dominates(b) || d == b {
							continue
						}
						fieldsRead(i.Cond, fields, map[ssa.Value]bool{})
					}
					panicFns = append(panicFns, pf{f.SSA, fields})
				}
			}
		}
		// rejectedBefore: in fn, the call stands on the passing side of a test of one of the fields, made either by
		// an If of fn that returns on its other side, or inside an error-returning module helper whose verdict fn
		// tests
		var rejectedBefore func(fn *ssa.Function, call ssa.Instruction, fields map[string]bool) bool
		rejectedBefore = func(fn *ssa.Function, call ssa.Instruction, fields map[string]bool) bool {
			for _, d := range fn.Blocks {
				i := core.BlockIf(d)
				if i == nil || !d.Dominates(call.Block()) {
					continue
				}
				got := map[string]bool{}
				fieldsRead(i.Cond, got, map[ssa.Value]bool{})
				hit := false
				for fld := range got {
					if fields[fld] {
						hit = true
					}
				}
				if !hit {
					// the verdict of a helper that tests the field
					if bo, isB := i.Cond.(*ssa.BinOp); isB && (bo.Op == token.NEQ || bo.Op == token.EQL) {
						for _, side := range []ssa.Value{bo.X, bo.Y} {
							if hc, isC := side.(*ssa.Call); isC {
								if h := hc.Call.StaticCallee(); h != nil && len(h.Blocks) > 0 && core.IsModPath(core.FuncPkgPath(h)) {
									var hf *core.Func
									if fo, isFn := h.Object().(*types.Func); isFn {
										hf = c.P.ByObj[fo.Origin()]
									}
									if hf != nil && hf.Decl != nil && hf.Decl.Body != nil {
										for fld := range errorIfFields(c.P, hf) {
											if fields[fld] {
												hit = true
											}
										}
									}
								}
							}
						}
					}
				}
				if !hit {
					continue
				}
				for k, sx := range d.Succs {
					other := d.Succs[1-k]
					leaves := false
					for _, in := range other.Instrs {
						if _, isRet := in.(*ssa.Return); isRet {
							leaves = true
						}
					}
					if leaves && (sx == call.Block() || sx.Dominates(call.Block())) && len(sx.Preds) == 1 {
						return true
					}
				}
			}
			return false
		}
		ng := 0
		var scan func(fn *ssa.Function, depth int, outerOK bool)
		scan = func(fn *ssa.Function, depth int, outerOK bool) {
			for _, b := range fn.Blocks {
				for _, in := range b.Instrs {
					call, ok := in.(*ssa.Call)
					if !ok {
						continue
					}
					cal := call.Call.StaticCallee()
					if cal == nil || len(cal.Blocks) == 0 || !core.IsModPath(core.FuncPkgPath(cal)) {
						continue
					}
					creach := core.Reachable(g, cal)
					for _, p := range panicFns {
						if _, ok := creach[p.fn]; !ok {
							continue
						}
						ng++
						okHere := outerOK || rejectedBefore(fn, call, p.fields)
						if !okHere && depth < 1 && cal != p.fn && core.FuncPkgPath(cal) == core.FuncPkgPath(iq.SSA) {
							// a check helper of the gate: look inside it
							scan(cal, depth+1, false)
							continue
						}
						c.Check(R, fmt.Sprintf("gate-reaches-panic-only-behind-its-own-rejection/%s/%s", fn.Name(), cal.Name()), call.Pos(), okHere,
							"the call stands behind the gate's rejection of "+fmt.Sprint(keys(p.fields)), fmt.Sprintf("inside the gate, %s (which can panic in %s, controlled by %v) is called before the gate has rejected that case with an error: validation panics on a set it has to reject", cal.Name(), p.fn.Name(), keys(p.fields)))
					}
				}
			}
		}
		scan(iq.SSA, 0, false)
		c.Note(R, "%d calls inside the gate reach an explicit panic", ng)
	}
	// (c) all guards on VariableMatrixWidths use the same emptiness predicate
	type pred struct {
		kind string
		pos  token.Pos
		fn   string
	}
	var preds []pred
	for _, f := range sortedFuncs(c.P) {
		finfo := f.Pkg.TypesInfo
		ast.Inspect(f.Decl.Body, func(x ast.Node) bool {
			be, ok := x.(*ast.BinaryExpr)
			if !ok {
				return true
			}
			switch be.Op {
			case token.EQL, token.NEQ, token.GTR, token.LSS, token.GEQ, token.LEQ:
			default:
				return true
			}
			for _, side := range []ast.Expr{be.X, be.Y} {
				s := ast.Unparen(side)
				kind := "nil"
				if call, ok := s.(*ast.CallExpr); ok && core.IsBuiltinCall(finfo, call, "len") && len(call.Args) == 1 {
					s = ast.Unparen(call.Args[0])
					kind = "len"
				}
				if fv := core.FieldOf(finfo, s); fv != nil && fv.Name() == "VariableMatrixWidths" {
					preds = append(preds, pred{kind, be.Pos(), f.Name})
				}
			}
			return true
		})
	}
	kinds := map[string]bool{}
	for _, p := range preds {
		kinds[p.kind] = true
	}
	for i, p := range preds {
		_ = i
		construct := "vmw-predicate-agrees/" + p.fn
		if len(kinds) == 1 {
			c.OK(R, construct, p.pos, "all "+fmt.Sprint(len(preds))+" guards on VariableMatrixWidths use the "+p.kind+" predicate")
		} else if p.kind == "nil" {
			c.Bad(R, construct, p.pos, "guard on TileMatrix.VariableMatrixWidths tests `!= nil` while IsQuadTree (the gate) tests `len(...) != 0`: a document with \"variableMatrixWidths\": [] passes the gate and then panics here")
		} else {
			c.OK(R, construct, p.pos, "len predicate (reference)")
		}
	}
	c.FloorPrefix(R, "vmw-predicate-agrees/", 2)
	c.FloorPrefix(R, "panic-excluded-by-gate/", 1)
	c.FloorPrefix(R, "behind-gate/", 1)
}

func keys(m map[string]bool) []string {
	var l []string
	for k := range m {
		l = append(l, k)
	}
	sortStrings(l)
	return l
}

// retMayBe: the returned value is v (possibly through phis / interface changes).
func retMayBe(r ssa.Value, v ssa.Value, seen map[ssa.Value]bool) bool {
	r = core.Unwrap(r)
	if r == v {
		return true
	}
	if seen[r] {
		return false
	}
	seen[r] = true
	if p, ok := r.(*ssa.Phi); ok {
		for _, e := range p.Edges {
			if retMayBe(e, v, seen) {
				return true
			}
		}
	}
	return false
}

// static inspection of the embedded documents: none uses the referenceSystem CRS form
func r37BuiltinsAvoidReferenceSystem(c *core.Ctx) {
	const R = "R37"
	files, _ := filepath.Glob(filepath.Join(c.P.RepoDir, "tms20", "tilematrixsets", "*.json"))
	bad := ""
	for _, fn := range files {
		b, err := os.ReadFile(fn)
		if err != nil {
			bad += fn + ": " + err.Error() + "; "
			continue
		}
		var doc map[string]any
		if err := json.Unmarshal(b, &doc); err != nil {
			bad += filepath.Base(fn) + ": not JSON; "
			continue
		}
		var walk func(v any)
		walk = func(v any) {
			switch x := v.(type) {
			case map[string]any:
				for k, vv := range x {
					if k == "crs" {
						if m, ok := vv.(map[string]any); ok {
							if _, has := m["referenceSystem"]; has {
								bad += filepath.Base(fn) + " uses a referenceSystem crs; "
							}
						}
					}
					walk(vv)
				}
			case []any:
				for _, vv := range x {
					walk(vv)
				}
			}
		}
		walk(doc)
	}
	c.Check(R, "builtin-docs-avoid-referenceSystem-crs", token.NoPos, bad == "" && len(files) >= 14,
		fmt.Sprintf("%d embedded documents inspected, none uses the referenceSystem CRS form", len(files)),
		fmt.Sprintf("embedded documents (%d found): %s", len(files), bad))
}

// ---------------------------------------------------------------- R38

type qtCond struct {
	name     string
	atoms    []string // all must occur in the condition
	pairwise bool
	op       token.Token // required comparison operator at top level (ILLEGAL = any)
}

// R38: every quadtree condition is enforced for every matrix.
func r38QuadTreeConditions(c *core.Ctx) {
	const R = "R38"
	f := c.Anchor(R, "pointindex.IsQuadTree")
	if f == nil {
		return
	}
	info := f.Pkg.TypesInfo
	// the loop
	var loop *ast.RangeStmt
	for _, s := range f.Decl.Body.List {
		if r, ok := s.(*ast.RangeStmt); ok {
			if loop != nil {
				c.Bad(R, "single-loop", r.Pos(), "more than one top-level range loop in IsQuadTree")
			}
			loop = r
		}
	}
	if loop == nil {
		c.Bad(R, "loop", f.Decl.Pos(), "no top-level range loop over the tile matrix ids found in IsQuadTree")
		return
	}
	// range operand: complete sorted key set of tms.TileMatrices
	idsObj := core.ObjOf(info, loop.X)
	okKeys, okSort := false, false
	if idsObj != nil {
		for _, s := range f.Decl.Body.List {
			if s == ast.Stmt(loop) {
				break
			}
			switch st := s.(type) {
			case *ast.AssignStmt:
				if len(st.Lhs) == 1 && len(st.Rhs) == 1 && core.ObjOf(info, st.Lhs[0]) == idsObj {
					if call, ok := st.Rhs[0].(*ast.CallExpr); ok && core.IsCallTo(info, call, "golang.org/x/exp/maps.Keys", "maps.Keys") && len(call.Args) == 1 {
						if fv := core.FieldOf(info, call.Args[0]); fv != nil && fv.Name() == "TileMatrices" {
							okKeys = true
						}
					} else {
						okKeys = false
					}
				}
			case *ast.ExprStmt:
				if call, ok := st.X.(*ast.CallExpr); ok && core.IsCallTo(info, call, "slices.Sort", "sort.Ints", "golang.org/x/exp/slices.Sort") && len(call.Args) == 1 && core.ObjOf(info, call.Args[0]) == idsObj {
					okSort = okKeys
				}
			}
		}
	}
	c.Check(R, "iterates-all-sorted-ids/pointindex.IsQuadTree", loop.Pos(), okKeys && okSort,
		"loop ranges over maps.Keys(tms.TileMatrices), sorted, without sub-slicing",
		"the loop does not range over the complete sorted key set of tms.TileMatrices (some matrix would never be checked, or pairs would be compared in map order)")
	idVar := core.ObjOf(info, loop.Value)
	if idVar == nil {
		c.Bad(R, "range-var", loop.Pos(), "loop has no value variable (tile matrix id)")
		return
	}
	// no break/continue/goto in the body
	jump := token.NoPos
	ast.Inspect(loop.Body, func(n ast.Node) bool {
		if b, ok := n.(*ast.BranchStmt); ok {
			jump = b.Pos()
		}
		return true
	})
	c.Check(R, "no-skip-in-loop/pointindex.IsQuadTree", loop.Body.Pos(), jump == token.NoPos, "no break/continue/goto in the loop body", "break/continue/goto in the validation loop at "+c.P.Pos(jump)+": later checks or matrices are skipped")
	// roles: cur := tms.TileMatrices[id]; at the end prev = &cur, prevID = id
	var cur, prev, prevID types.Object
	body := loop.Body.List
	for _, s := range body {
		if as, ok := s.(*ast.AssignStmt); ok && len(as.Lhs) == 1 && len(as.Rhs) == 1 {
			if ix, ok := as.Rhs[0].(*ast.IndexExpr); ok && core.ObjOf(info, ix.Index) == idVar {
				if fv := core.FieldOf(info, ix.X); fv != nil && fv.Name() == "TileMatrices" && cur == nil {
					cur = core.ObjOf(info, as.Lhs[0])
				}
			}
		}
	}
	tail := 0
	for i := len(body) - 1; i >= 0; i-- {
		as, ok := body[i].(*ast.AssignStmt)
		if !ok || len(as.Lhs) != 1 || len(as.Rhs) != 1 {
			break
		}
		if u, ok := as.Rhs[0].(*ast.UnaryExpr); ok && u.Op == token.AND && cur != nil && core.ObjOf(info, u.X) == cur {
			prev = core.ObjOf(info, as.Lhs[0])
			tail++
		} else if core.ObjOf(info, as.Rhs[0]) == idVar {
			prevID = core.ObjOf(info, as.Lhs[0])
			tail++
		} else {
			break
		}
	}
	c.Check(R, "predecessor-updated-every-iteration/pointindex.IsQuadTree", loop.Body.End(), cur != nil && prev != nil && prevID != nil,
		"the current matrix and id become the predecessor unconditionally at the end of every iteration",
		"the loop does not end with unconditional `previous = &current; previousID = id` assignments: pairwise checks would compare against a stale matrix")
	if cur == nil || prev == nil || prevID == nil {
		return
	}
	role := func(o types.Object) string {
		switch o {
		case cur:
			return "cur"
		case prev:
			return "prev"
		case prevID:
			return "prevID"
		case idVar:
			return "id"
		}
		return ""
	}
	atomsOfIn := func(info *types.Info, role func(types.Object) string, e ast.Expr) map[string]bool {
		out := map[string]bool{}
		ast.Inspect(e, func(n ast.Node) bool {
			switch x := n.(type) {
			case *ast.SelectorExpr:
				if r := role(core.ObjOf(info, x.X)); r != "" {
					out[r+"."+x.Sel.Name] = true
					return false
				}
			case *ast.Ident:
				if r := role(core.ObjOf(info, x)); r != "" {
					out[r] = true
				}
			}
			return true
		})
		return out
	}
	conds := []qtCond{
		{"square-matrix", []string{"cur.MatrixHeight", "cur.MatrixWidth"}, false, token.NEQ},
		{"square-tiles", []string{"cur.TileHeight", "cur.TileWidth"}, false, token.NEQ},
		{"id-equals-index", []string{"id", "parsed"}, false, token.NEQ},
		{"no-variable-widths", []string{"cur.VariableMatrixWidths"}, false, token.ILLEGAL},
		{"consecutive-ids", []string{"id", "prevID"}, true, token.NEQ},
		{"same-point-of-origin", []string{"cur.PointOfOrigin", "prev.PointOfOrigin"}, true, token.NEQ},
		{"same-corner-of-origin", []string{"cur.CornerOfOrigin", "prev.CornerOfOrigin"}, true, token.NEQ},
		{"same-tile-size", []string{"cur.TileHeight|cur.TileWidth", "prev.TileHeight|prev.TileWidth"}, true, token.NEQ},
		{"matrix-doubles", []string{"cur.MatrixHeight|cur.MatrixWidth", "prev.MatrixHeight|prev.MatrixWidth"}, true, token.NEQ},
		{"cell-size-halves", []string{"cur.CellSize", "prev.CellSize"}, true, token.ILLEGAL},
	}
	// candidate ifs: all if statements with an error-returning body in the loop body, and in the bodies of the
	// module helpers the loop calls as `if err := helper(…); err != nil { return err }` (the helper's parameters
	// take the roles of the arguments).  A candidate carries every condition it sits under: enclosing ifs, and
	// earlier ifs of its statement list that leave without an error (a skip).
	type cand struct {
		is     *ast.IfStmt
		atoms  map[string]bool
		guards []qtGuard
		info   *types.Info
		role   func(types.Object) string
	}
	var cands []cand
	var collect func(body *ast.BlockStmt, info *types.Info, role func(types.Object) string, outer []qtGuard, depth int)
	collect = func(body *ast.BlockStmt, info *types.Info, role func(types.Object) string, outer []qtGuard, depth int) {
		// the id parsed from cur.ID
		var parsedID types.Object
		ast.Inspect(body, func(n ast.Node) bool {
			as, ok := n.(*ast.AssignStmt)
			if !ok || len(as.Rhs) != 1 {
				return true
			}
			if call, ok := as.Rhs[0].(*ast.CallExpr); ok && core.IsCallTo(info, call, "strconv.Atoi", "strconv.ParseInt") && len(call.Args) >= 1 {
				if atomsOfIn(info, role, call.Args[0])["cur.ID"] {
					parsedID = core.ObjOf(info, as.Lhs[0])
				}
			}
			return true
		})
		ast.Inspect(body, func(n ast.Node) bool {
			is, ok := n.(*ast.IfStmt)
			if !ok || !returnsError(c.P, info, is.Body) {
				return true
			}
			gs := append([]qtGuard{}, outer...)
			for _, g := range guardsBefore(c.P, info, body, is) {
				switch {
				case g.IsTrue:
					gs = append(gs, qtGuard{g, info, role, false})
				case g.Stmt != nil && g.Stmt.Else == nil && !returnsError(c.P, info, g.Stmt.Body):
					// an earlier `if … { return nil }`: later checks are skipped when it holds
					gs = append(gs, qtGuard{g, info, role, true})
				}
			}
			// a helper call whose error is passed on
			var hcall *ast.CallExpr
			if as, ok := is.Init.(*ast.AssignStmt); ok && len(as.Rhs) == 1 {
				hcall, _ = ast.Unparen(as.Rhs[0]).(*ast.CallExpr)
			} else if be, ok := ast.Unparen(is.Cond).(*ast.BinaryExpr); ok && be.Op == token.NEQ && canon(be.Y) == "nil" {
				if o := core.ObjOf(info, be.X); o != nil {
					if def := lastDefBefore(info, body, o, is.Pos()); def != nil {
						hcall, _ = ast.Unparen(def).(*ast.CallExpr)
					}
				}
			}
			if hcall != nil && depth < 3 {
				if callee := core.Callee(info, hcall); callee != nil {
					if h := c.P.ByObj[callee.Origin()]; h != nil && h.Decl.Body != nil && core.IsModPath(h.Pkg.PkgPath) {
						hs := h.Obj.Type().(*types.Signature)
						hroles := map[types.Object]string{}
						for i := 0; i < hs.Params().Len() && i < len(hcall.Args); i++ {
							arg := ast.Unparen(hcall.Args[i])
							if u, ok := arg.(*ast.UnaryExpr); ok && u.Op == token.AND {
								arg = ast.Unparen(u.X)
							}
							if r := role(core.ObjOf(info, arg)); r != "" && assignedCount(h.Pkg.TypesInfo, h.Decl.Body, hs.Params().At(i)) == 0 {
								hroles[hs.Params().At(i)] = r
							}
						}
						collect(h.Decl.Body, h.Pkg.TypesInfo, func(o types.Object) string { return hroles[o] }, gs, depth+1)
						return true
					}
				}
			}
			a := atomsOfIn(info, role, is.Cond)
			if parsedID != nil && core.UsesObj(info, is.Cond, parsedID) {
				a["parsed"] = true
			}
			cands = append(cands, cand{is, a, gs, info, role})
			return true
		})
	}
	collect(loop.Body, info, role, nil, 0)
	hasAtom := func(a map[string]bool, spec string) bool {
		for _, alt := range strings.Split(spec, "|") {
			if a[alt] {
				return true
			}
		}
		return false
	}
	for _, qc := range conds {
		construct := "condition-enforced/pointindex.IsQuadTree/" + qc.name
		var found *cand
		for i := range cands {
			all := true
			for _, at := range qc.atoms {
				if !hasAtom(cands[i].atoms, at) {
					all = false
				}
			}
			if all {
				found = &cands[i]
				break
			}
		}
		if found == nil {
			c.Bad(R, construct, loop.Pos(), fmt.Sprintf("no `if` in the validation loop compares %v and returns an error: the %s condition of a quadtree is not enforced", qc.atoms, qc.name))
			continue
		}
		c.Saw(R, fmt.Sprintf("%s: if %s @%s", qc.name, core.ExprStr(found.is.Cond), c.P.Pos(found.is.Pos())))
		// nesting: per-matrix conditions under no guard; pairwise only under `prev != nil`
		nestOK := true
		why := ""
		hasPrevGuard := false
		for _, g := range found.guards {
			if qc.pairwise && !g.skip && canonRole(g.info, g.Cond, g.role) == "prev!=nil" {
				hasPrevGuard = true
				continue
			}
			nestOK = false
			if g.skip {
				why = "skipped when `" + core.ExprStr(g.Cond) + "` holds (an earlier if leaves without an error)"
			} else {
				why = "nested under extra condition `" + core.ExprStr(g.Cond) + "`"
			}
		}
		if qc.pairwise && !hasPrevGuard {
			// fine only if the very first iteration cannot reach it; require the prev != nil guard
			nestOK = false
			why = "pairwise check not guarded by `previous != nil`"
		}
		opOK := true
		if qc.op != token.ILLEGAL {
			be, ok := ast.Unparen(found.is.Cond).(*ast.BinaryExpr)
			opOK = ok && be.Op == qc.op
			if !opOK {
				why += " top-level operator is not " + qc.op.String()
			}
		}
		extra := ""
		switch qc.name {
		case "consecutive-ids":
			if !strings.Contains(canon(found.is.Cond), "+1") {
				opOK = false
				why += " does not compare with predecessor id + 1"
			}
		case "matrix-doubles":
			if !strings.Contains(canon(found.is.Cond), "2*") && !strings.Contains(canon(found.is.Cond), "*2") {
				opOK = false
				why += " does not compare with 2 x predecessor"
			}
		case "no-variable-widths":
			cs := canon(found.is.Cond)
			if !(strings.HasPrefix(cs, "len(") && (strings.HasSuffix(cs, "!=0") || strings.HasSuffix(cs, ">0"))) && !strings.HasSuffix(cs, "!=nil") {
				opOK = false
				why += " is not a non-emptiness test"
			}
		case "cell-size-halves":
			lo, hi, ok := intervalAround(found.info, found.is.Cond)
			if !ok || !(lo < 2 && 2 < hi && lo > 1.5 && hi < 2.5) {
				opOK = false
				why += fmt.Sprintf(" ratio is not tested against a tolerance interval around 2 (found %v..%v)", lo, hi)
			} else {
				extra = fmt.Sprintf(" (ratio within [%v, %v])", lo, hi)
			}
		}
		c.Check(R, construct, found.is.Pos(), nestOK && opOK, "enforced for every matrix: if "+core.ExprStr(found.is.Cond)+" returns an error"+extra,
			"quadtree condition "+qc.name+" is not enforced as stated: "+why)
	}
	c.FloorPrefix(R, "condition-enforced/", 10)
}

// qtGuard is a condition a candidate check sits under, with the scope it was found in.
type qtGuard struct {
	guard
	info *types.Info
	role func(types.Object) string
	skip bool // an earlier if of the same statement list that leaves without an error when Cond holds
}

// lastDefBefore returns the right-hand side of the last single-value assignment to obj before pos in body.
func lastDefBefore(info *types.Info, body ast.Node, obj types.Object, pos token.Pos) ast.Expr {
	var def ast.Expr
	ast.Inspect(body, func(n ast.Node) bool {
		if as, ok := n.(*ast.AssignStmt); ok && as.Pos() < pos && len(as.Rhs) == 1 {
			for _, l := range as.Lhs {
				if core.ObjOf(info, l) == obj {
					def = as.Rhs[0]
				}
			}
		}
		return true
	})
	return def
}

func canonRole(info *types.Info, e ast.Expr, role func(types.Object) string) string {
	be, ok := ast.Unparen(e).(*ast.BinaryExpr)
	if !ok {
		return ""
	}
	l := role(core.ObjOf(info, be.X))
	r := canon(be.Y)
	return l + be.Op.String() + r
}

// intervalAround extracts the constant bounds of !FBetweenInc(x, lo, hi) or x < lo || x > hi.
func intervalAround(info *types.Info, cond ast.Expr) (lo, hi float64, ok bool) {
	var vals []float64
	// the largest constant sub-expressions (2.01, 2+eps, a named constant)
	ast.Inspect(cond, func(n ast.Node) bool {
		e, isExpr := n.(ast.Expr)
		if !isExpr {
			return true
		}
		tv, has := info.Types[e]
		if !has || tv.Value == nil || (tv.Value.Kind() != constant.Float && tv.Value.Kind() != constant.Int) {
			return true
		}
		f, _ := constant.Float64Val(constant.ToFloat(tv.Value))
		vals = append(vals, f)
		return false
	})
	if len(vals) != 2 {
		return 0, 0, false
	}
	lo, hi = vals[0], vals[1]
	if lo > hi {
		lo, hi = hi, lo
	}
	neg := false
	if u, isU := ast.Unparen(cond).(*ast.UnaryExpr); isU && u.Op == token.NOT {
		neg = true
	}
	_ = neg
	return lo, hi, true
}
