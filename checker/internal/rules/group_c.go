package rules

import (
	"fmt"
	"go/ast"
	"go/token"
	"go/types"

	"golang.org/x/tools/go/ssa"

	"texelverif/internal/core"
)

func init() {
	reg("R21", r21TruncDivBeforeRangeCheck)
	reg("R22", r22RejectionIsFinal)
}

// stripConv removes type conversions around e.
func stripConv(info *types.Info, e ast.Expr) ast.Expr {
	for {
		e = ast.Unparen(e)
		c, ok := e.(*ast.CallExpr)
		if !ok || len(c.Args) != 1 {
			return e
		}
		if tv, ok := info.Types[c.Fun]; ok && tv.IsType() {
			e = c.Args[0]
			continue
		}
		return e
	}
}

// singleDef finds the only assignment `obj := rhs` / `obj = rhs` in body.
func singleDef(info *types.Info, body ast.Node, obj types.Object) ast.Expr {
	var rhs ast.Expr
	n := 0
	ast.Inspect(body, func(x ast.Node) bool {
		if as, ok := x.(*ast.AssignStmt); ok {
			for i, l := range as.Lhs {
				if core.ObjOf(info, l) == obj {
					n++
					if len(as.Lhs) == len(as.Rhs) {
						rhs = as.Rhs[i]
					} else {
						rhs = nil
					}
				}
			}
		}
		return true
	})
	if n != 1 {
		return nil
	}
	return rhs
}

// R21: a `< 0` range check after a truncating signed division cannot see a
// numerator in (-divisor, 0).  Every quotient feeding InsertCoord's range
// check must have a numerator proven non-negative by a dominating rejection.
func r21TruncDivBeforeRangeCheck(c *core.Ctx) {
	const R = "R21"
	target := c.Anchor(R, "pointindex.PointIndex.InsertCoord")
	if target == nil {
		return
	}
	sites := 0
	for _, fn := range sortedFuncs(c.P) {
		info := fn.Pkg.TypesInfo
		for _, call := range core.CallsIn(info, fn.Decl.Body, "pointindex.PointIndex.InsertCoord") {
			sites++
			c.Saw(R, fmt.Sprintf("call %s in %s @%s", core.ExprStr(call.Fun), fn.Name, c.P.Pos(call.Pos())))
			for ai, arg := range call.Args {
				axis := []string{"x", "y"}[ai%2]
				construct := fmt.Sprintf("quotient-numerator-nonneg/%s/arg%d(%s)", fn.Name, ai, axis)
				e := stripConv(info, arg)
				if id, ok := e.(*ast.Ident); ok {
					if obj := core.ObjOf(info, id); obj != nil {
						if def := singleDef(info, fn.Decl.Body, obj); def != nil {
							e = stripConv(info, def)
						}
					}
				}
				bin, ok := e.(*ast.BinaryExpr)
				if !ok || bin.Op != token.QUO {
					c.Note(R, "%s: argument %d (%s) is not a quotient; no obligation", fn.Name, ai, core.ExprStr(arg))
					continue
				}
				if bt, ok := info.TypeOf(bin).Underlying().(*types.Basic); !ok || bt.Info()&types.IsInteger == 0 || bt.Info()&types.IsUnsigned != 0 {
					c.Note(R, "%s: quotient %s is not a signed integer division", fn.Name, core.ExprStr(bin))
					continue
				}
				num := ast.Unparen(bin.X)
				var wantFalse, wantTrue []string // canonical comparison strings
				var parts []ast.Expr
				// the numerator and everything it is a plain copy of (dx := offX; offX := a - b)
				cands := []ast.Expr{num}
				for cur, hops := num, 0; hops < 6; hops++ {
					id, isID := ast.Unparen(cur).(*ast.Ident)
					if !isID {
						break
					}
					obj := core.ObjOf(info, id)
					if obj == nil {
						break
					}
					def := singleDef(info, fn.Decl.Body, obj)
					if def == nil {
						break
					}
					def = stripConv(info, def)
					cands = append(cands, def)
					cur = def
				}
				for _, cand := range cands {
					ns := canon(cand)
					wantFalse = append(wantFalse, ns+"<0", "0>"+ns)
					wantTrue = append(wantTrue, ns+">=0", "0<="+ns)
					if sub, ok := ast.Unparen(cand).(*ast.BinaryExpr); ok && sub.Op == token.SUB {
						a, b := canon(sub.X), canon(sub.Y)
						wantFalse = append(wantFalse, a+"<"+b, b+">"+a)
						wantTrue = append(wantTrue, a+">="+b, b+"<="+a)
						parts = append(parts, sub.X, sub.Y)
					} else {
						parts = append(parts, cand)
					}
				}
				stable := true
				for _, pe := range parts {
					if !pureExpr(c.P, info, pe) {
						stable = false
					}
					for _, o := range rootObjs(info, pe) {
						if _, isParam := paramIndex(fn, o); isParam {
							if assignedCount(info, fn.Decl.Body, o) > 0 {
								stable = false
							}
						} else if assignedCount(info, fn.Decl.Body, o) > 1 {
							stable = false
						}
					}
				}
				proven := ""
				for _, g := range guardsBefore(c.P, info, fn.Decl.Body, bin) {
					if g.IsTrue {
						for _, cj := range conjuncts(g.Cond) {
							if contains(wantTrue, canon(cj)) {
								proven = fmt.Sprintf("enclosing condition %s @%s", core.ExprStr(cj), c.P.Pos(cj.Pos()))
							}
						}
					} else {
						for _, dj := range disjuncts(g.Cond) {
							if contains(wantFalse, canon(dj)) {
								proven = fmt.Sprintf("rejected earlier by `if %s` @%s", core.ExprStr(dj), c.P.Pos(dj.Pos()))
							}
						}
					}
				}
				switch {
				case proven != "" && stable:
					c.OK(R, construct, bin.OpPos, "numerator "+core.ExprStr(num)+" is non-negative: "+proven)
				case proven != "" && !stable:
					c.Unknown(R, construct, bin.OpPos, "a guard on "+core.ExprStr(num)+" exists but its operands are not pure/stable between guard and division")
				default:
					c.Bad(R, construct, bin.OpPos, fmt.Sprintf(
						"signed quotient %s feeds the `< 0` outside-grid check of InsertCoord, but Go's / truncates toward zero: every numerator in (-divisor, 0) gives 0, so a vertex less than one pixel left of / below the grid is accepted and snapped onto the border pixel; no dominating rejection of %s < 0 found",
						core.ExprStr(bin), core.ExprStr(num)))
				}
			}
		}
	}
	if sites == 0 {
		c.Bad(R, "call-sites", token.NoPos, "no call to PointIndex.InsertCoord found in the module")
	}
	c.Floor(R, 2)
}

func contains(l []string, s string) bool {
	for _, x := range l {
		if x == s {
			return true
		}
	}
	return false
}

func paramIndex(fn *core.Func, o types.Object) (int, bool) {
	sig := fn.Obj.Type().(*types.Signature)
	for i := 0; i < sig.Params().Len(); i++ {
		if sig.Params().At(i) == o {
			return i, true
		}
	}
	if sig.Recv() != nil && sig.Recv() == o {
		return -1, true
	}
	return 0, false
}

func sortedFuncs(p *core.Prog) []*core.Func {
	var names []string
	for n := range p.Funcs {
		names = append(names, n)
	}
	sortStrings(names)
	out := make([]*core.Func, 0, len(names))
	for _, n := range names {
		if p.Funcs[n].Decl.Body != nil {
			out = append(out, p.Funcs[n])
		}
	}
	return out
}

// R22: once InsertPolygon reported an error nothing is snapped: SnapPolygon
// panics or returns a fresh empty map, and the quiet exit is only taken for an
// OutsideGridError with IgnoreOutsideGrid set.
func r22RejectionIsFinal(c *core.Ctx) {
	const R = "R22"
	sp := c.Anchor(R, "snap.SnapPolygon")
	ip := c.Anchor(R, "pointindex.PointIndex.InsertPoint")
	if sp == nil || ip == nil {
		return
	}
	info := sp.Pkg.TypesInfo
	calls := core.CallsIn(info, sp.Decl.Body, "pointindex.PointIndex.InsertPolygon")
	snaps := core.CallsIn(info, sp.Decl.Body, "snap.addPointsAndSnap")
	if len(calls) != 1 || len(snaps) != 1 {
		c.Bad(R, "shape/snap.SnapPolygon", sp.Decl.Pos(), fmt.Sprintf("expected exactly one InsertPolygon call and one addPointsAndSnap call, found %d and %d", len(calls), len(snaps)))
		return
	}
	ci, _ := core.CallAt(sp.SSA, calls[0].Lparen).(*ssa.Call)
	cs, _ := core.CallAt(sp.SSA, snaps[0].Lparen).(*ssa.Call)
	if ci == nil || cs == nil {
		c.Bad(R, "ssa-map/snap.SnapPolygon", sp.Decl.Pos(), "cannot map calls to SSA instructions")
		return
	}
	c.Saw(R, "snap.SnapPolygon: "+c.P.InstrStr(ci))
	errVal := ssa.Value(ci)
	errEdge := nonNilEdges(errVal)
	// (1) snapping unreachable with err != nil
	r, _ := core.Search{Fn: sp.SSA, From: ci, Target: func(in ssa.Instruction) bool { return in == ssa.Instruction(cs) }, Edge: errEdge}.Run()
	c.Check(R, "no-snap-after-error/snap.SnapPolygon", snaps[0].Pos(), !r,
		"addPointsAndSnap is unreachable on every path where InsertPolygon's error is non-nil",
		"addPointsAndSnap is reachable on a path where InsertPolygon returned a non-nil error: the polygon would be snapped although a vertex was rejected")
	// no verdict without the check: every normal return of SnapPolygon lies behind the InsertPolygon call (a
	// shortcut that answers "nothing to snap" before the index is built never looks at the extent)
	{
		early, at := core.Search{Fn: sp.SSA, Target: core.IsReturn, Barrier: instrIs(ci)}.Run()
		detail := ""
		if early && at != nil {
			detail = " (return at " + c.P.Pos(at.Pos()) + ")"
		}
		c.Check(R, "no-return-before-range-check/snap.SnapPolygon", calls[0].Pos(), !early, "every return is preceded by InsertPolygon, whose error decides", "SnapPolygon can return without any vertex having been range-checked"+detail+": a polygon reaching outside the grid gets a quiet (empty) answer instead of a panic")
	}
	// also: snapping must be dominated by the InsertPolygon call at all
	c.Check(R, "insert-dominates-snap/snap.SnapPolygon", snaps[0].Pos(), core.Dominates(ci, cs),
		"InsertPolygon dominates addPointsAndSnap", "addPointsAndSnap can run without InsertPolygon having been called")

	// (2) every normal return reachable in the error region returns a fresh, never updated map
	var errReturns []*ssa.Return
	seen := map[ssa.Instruction]bool{}
	for {
		ok, in := core.Search{Fn: sp.SSA, From: ci, Target: func(in ssa.Instruction) bool { return core.IsReturn(in) && !seen[in] }, Edge: errEdge}.Run()
		if !ok {
			break
		}
		seen[in] = true
		errReturns = append(errReturns, in.(*ssa.Return))
	}
	for i, ret := range errReturns {
		construct := fmt.Sprintf("error-exit-returns-empty/snap.SnapPolygon/return%d", i)
		okEmpty := len(ret.Results) == 1
		why := ""
		if okEmpty {
			mm, isMake := core.Unwrap(ret.Results[0]).(*ssa.MakeMap)
			if !isMake {
				okEmpty = false
				why = "returned value is not a fresh make(map…): " + ret.Results[0].String()
			} else {
				for _, ref := range *mm.Referrers() {
					if _, upd := ref.(*ssa.MapUpdate); upd {
						okEmpty = false
						why = "the returned map is updated at " + c.P.Pos(ref.Pos())
					}
				}
			}
		}
		c.Check(R, construct, ret.Pos(), okEmpty, "returns a fresh make(map) that is never updated", "after a rejected vertex SnapPolygon returns something other than an empty result: "+why)
		// (3) the quiet exit needs errors.As(err, *OutsideGridError) and config.IgnoreOutsideGrid
		asIf, cfgIf := (*ssa.If)(nil), (*ssa.If)(nil)
		for _, b := range sp.SSA.Blocks {
			i := core.BlockIf(b)
			if i == nil {
				continue
			}
			if call, ok := i.Cond.(*ssa.Call); ok && core.StaticCalleeID(call) == "errors.As" && len(call.Call.Args) == 2 {
				if core.Unwrap(call.Call.Args[0]) == errVal && pointsToNamed(core.Unwrap(call.Call.Args[1]).Type(), core.ModPath+"/pointindex", "OutsideGridError") {
					asIf = i
				}
			}
			if isFieldRead(i.Cond, "IgnoreOutsideGrid") {
				cfgIf = i
			}
		}
		onlyVia := func(cond *ssa.If) bool {
			if cond == nil {
				return false
			}
			// search while never following the true edge of cond: the return must be unreachable
			r, _ := core.Search{Fn: sp.SSA, From: ci, Target: func(in ssa.Instruction) bool { return in == ssa.Instruction(ret) },
				Edge: func(b *ssa.BasicBlock, k int) bool {
					if !errEdge(b, k) {
						return false
					}
					if core.BlockIf(b) == cond && k == 0 {
						return false
					}
					return true
				}}.Run()
			return !r
		}
		c.Check(R, fmt.Sprintf("quiet-exit-needs-outside-grid-error/snap.SnapPolygon/return%d", i), ret.Pos(), onlyVia(asIf),
			"quiet exit only when errors.As(err, *OutsideGridError) holds", "the non-panicking exit after an insertion error is not guarded by errors.As(err, *pointindex.OutsideGridError)")
		c.Check(R, fmt.Sprintf("quiet-exit-needs-ignore-flag/snap.SnapPolygon/return%d", i), ret.Pos(), onlyVia(cfgIf),
			"quiet exit only when config.IgnoreOutsideGrid is set", "the non-panicking exit after an insertion error is not guarded by config.IgnoreOutsideGrid: outside-grid polygons would be dropped silently by default")
	}
	if len(errReturns) == 0 {
		c.Note(R, "no normal return reachable with a non-nil insertion error (always panics)")
	}

	// (4) InsertPoint hands InsertCoord's error (or its own OutsideGridError) to the caller, never nil on its own
	for _, b := range ip.SSA.Blocks {
		for _, in := range b.Instrs {
			ret, ok := in.(*ssa.Return)
			if !ok || len(ret.Results) != 1 {
				continue
			}
			construct := "insertpoint-propagates/" + ip.Name
			v := ret.Results[0]
			good := false
			why := v.String()
			if call, ok := v.(*ssa.Call); ok && core.StaticCalleeID(call) == core.ModPath+"/pointindex.PointIndex.InsertCoord" {
				good = true
				why = "returns InsertCoord's error unchanged"
			} else if mi, ok := v.(*ssa.MakeInterface); ok && namedIs(mi.X.Type(), core.ModPath+"/pointindex", "OutsideGridError") {
				good = true
				why = "returns an OutsideGridError"
			}
			c.Check(R, construct, ret.Pos(), good, why, "InsertPoint returns "+why+" instead of InsertCoord's verdict: a rejected coordinate could be reported as accepted")
		}
	}
	// (5) the error type produced on rejection is the type errors.As is asked for: As(err, *T) matches a T value, not a *T
	var asTarget types.Type
	for _, b := range sp.SSA.Blocks {
		for _, in := range b.Instrs {
			if call, ok := in.(*ssa.Call); ok && core.StaticCalleeID(call) == "errors.As" && len(call.Call.Args) == 2 {
				if pt, ok := core.Unwrap(call.Call.Args[1]).Type().(*types.Pointer); ok {
					asTarget = pt.Elem()
				}
			}
		}
	}
	if asTarget != nil {
		n := 0
		for _, name := range []string{"pointindex.PointIndex.InsertCoord", "pointindex.PointIndex.InsertPoint", "pointindex.PointIndex.InsertPolygon"} {
			f := c.P.Lookup(name)
			if f == nil || f.SSA == nil {
				continue
			}
			for _, b := range f.SSA.Blocks {
				for _, in := range b.Instrs {
					mi, ok := in.(*ssa.MakeInterface)
					if !ok || !types.Identical(mi.Type(), types.Universe.Lookup("error").Type()) {
						continue
					}
					n++
					c.Check(R, fmt.Sprintf("rejection-error-type-matches-as-target/%s", name), mi.Pos(), types.Identical(mi.X.Type(), asTarget),
						"rejection error has dynamic type "+mi.X.Type().String()+", the type SnapPolygon's errors.As asks for",
						fmt.Sprintf("%s returns an error of dynamic type %s but SnapPolygon tests errors.As(err, *%s): the test never matches, so with IgnoreOutsideGrid the polygon panics instead of being skipped", name, mi.X.Type(), asTarget))
				}
			}
		}
		if n == 0 {
			c.Bad(R, "rejection-error-type-matches-as-target/none", ip.Decl.Pos(), "no error construction found in InsertCoord/InsertPoint")
		}
	}
	c.Floor(R, 4)
}

func isNilConst(v ssa.Value) bool {
	k, ok := v.(*ssa.Const)
	return ok && k.IsNil()
}

func namedIs(t types.Type, pkg, name string) bool {
	n, ok := t.(*types.Named)
	return ok && n.Obj().Name() == name && n.Obj().Pkg() != nil && n.Obj().Pkg().Path() == pkg
}

func pointsToNamed(t types.Type, pkg, name string) bool {
	p, ok := t.(*types.Pointer)
	return ok && namedIs(p.Elem(), pkg, name)
}

// isFieldRead reports that v reads a struct field of the given name
// (Field on a struct value, or load through FieldAddr).
func isFieldRead(v ssa.Value, field string) bool {
	switch x := v.(type) {
	case *ssa.Field:
		st, _ := x.X.Type().Underlying().(*types.Struct)
		return st != nil && st.Field(x.Field).Name() == field
	case *ssa.UnOp:
		if x.Op == token.MUL {
			if fa, ok := x.X.(*ssa.FieldAddr); ok {
				pt, _ := fa.X.Type().Underlying().(*types.Pointer)
				if pt != nil {
					st, _ := pt.Elem().Underlying().(*types.Struct)
					return st != nil && st.Field(fa.Field).Name() == field
				}
			}
		}
	}
	return false
}
