package rules

import (
	"fmt"
	"go/ast"
	"go/token"
	"go/types"
	"golang.org/x/tools/go/ssa"
	"math/big"
	"strings"

	"texelverif/internal/core"
)

func init() {
	reg("R43", r43PixelFormulaShape)
	reg("R44", r44TileAddressingInverse)
}

func half() lpoly { return pConst(big.NewRat(1, 2)) }

// findLit finds the first composite literal of the named (short) type in n.
func findLit(info *types.Info, n ast.Node, typeShort string) *ast.CompositeLit {
	var out *ast.CompositeLit
	ast.Inspect(n, func(x ast.Node) bool {
		if cl, ok := x.(*ast.CompositeLit); ok && out == nil && core.TypeShort(info.TypeOf(cl)) == typeShort {
			out = cl
		}
		return out == nil
	})
	return out
}

// pRename renames a symbol (exact symbol name) in all monomials.
func pRename(p lpoly, from, to string) lpoly {
	out := lpoly{}
	for k, c := range p {
		m := parseMono(k)
		n := monoT{}
		for s, e := range m {
			// symbols can embed other symbols textually (2^(…)): rename inside as well
			n[strings.ReplaceAll(s, from, to)] += e
		}
		out = pAdd(out, lpoly{monoKey(n): c}, 1)
	}
	return out
}

// R43: shape of the pixel formulas — the grid is anchored at the root extent's
// min corner, a pixel at level l is span(l) = 2^(deepest-l)·res wide, its
// centre lies half a span from its min corner, res·2^deepest is the root span,
// and the pixel address of a point is (p - min)/span.  Decided as polynomial
// identities over the symbols of the code (integer truncation ignored).
func r43PixelFormulaShape(c *core.Ctx) {
	const R = "R43"
	g := c.Anchor(R, "pointindex.PointIndex.getQuadrantExtentAndCentroid")
	ft := c.Anchor(R, "pointindex.FromTileMatrixSet")
	ic := c.Anchor(R, "pointindex.PointIndex.insertCoord")
	ip := c.Anchor(R, "pointindex.PointIndex.InsertPoint")
	if g == nil || ft == nil || ic == nil || ip == nil {
		return
	}
	info := g.Pkg.TypesInfo
	env := newSymEnv(c.P, info)
	env.run(g.Decl.Body.List)
	sig := g.Obj.Type().(*types.Signature)
	lvl, px, py, rootE := sig.Params().At(0).Name(), sig.Params().At(1).Name(), sig.Params().At(2).Name(), sig.Params().At(3).Name()
	litHost := g
	ext := findLit(info, g.Decl.Body, "intgeom.Extent")
	cen := findLit(info, g.Decl.Body, "intgeom.Point")
	if ext == nil && cen == nil && len(g.Decl.Body.List) > 0 {
		// the extent and centre are put together by a package function this method hands its span and indices to
		if ret, ok := g.Decl.Body.List[len(g.Decl.Body.List)-1].(*ast.ReturnStmt); ok && len(ret.Results) == 1 {
			if call, ok := ast.Unparen(ret.Results[0]).(*ast.CallExpr); ok {
				if cal := core.Callee(info, call); cal != nil {
					if h := c.P.ByObj[cal.Origin()]; h != nil && h.Pkg == g.Pkg && h.Decl.Body != nil {
						hs := h.Obj.Type().(*types.Signature)
						for i, a := range call.Args {
							if i >= hs.Params().Len() {
								break
							}
							if v, ok := env.eval(a); ok {
								env.vars[hs.Params().At(i)] = v
							}
							// the names the expected formulas are written with: the helper's own parameter names
							if id, isID := ast.Unparen(a).(*ast.Ident); isID {
								switch id.Name {
								case px:
									px = hs.Params().At(i).Name()
								case py:
									py = hs.Params().At(i).Name()
								case rootE:
									rootE = hs.Params().At(i).Name()
								}
								if id.Name == px || id.Name == py || id.Name == rootE {
									delete(env.vars, hs.Params().At(i)) // stays the plain symbol of its own name
								}
							}
						}
						env.run(h.Decl.Body.List)
						ext = findLit(info, h.Decl.Body, "intgeom.Extent")
						cen = findLit(info, h.Decl.Body, "intgeom.Point")
						litHost = h
					}
				}
			}
		}
	}
	_ = litHost
	if ext == nil || cen == nil || len(ext.Elts) != 4 || len(cen.Elts) != 2 {
		c.Bad(R, "literals/"+g.Name, g.Decl.Pos(), "extent / centroid literals not found")
		return
	}
	E, ok1 := env.litElems(ext)
	C, ok2 := env.litElems(cen)
	if !ok1 || !ok2 {
		c.Unknown(R, "evaluable/"+g.Name, g.Decl.Pos(), "formulas cannot be evaluated symbolically: "+env.err)
		return
	}
	// span: the variable multiplied with the index
	S := pAdd(E[2], E[0], -1)
	c.Saw(R, "span = "+S.String()+"; minX = "+E[0].String()+"; centreX = "+C[0].String())
	c.Check(R, "pixel-is-square-span/"+g.Name, ext.Pos(), pEq(pAdd(E[3], E[1], -1), S) && len(S) == 1, "maxX - minX == maxY - minY == span (one term: "+S.String()+")",
		fmt.Sprintf("pixel width %s and height %s differ or are not a single span term", S.String(), pAdd(E[3], E[1], -1).String()))
	halfS := pSym("quo(" + S.String() + ",2)")
	c.Check(R, "centre-is-half-a-span-from-min/"+g.Name, cen.Pos(), pEq(pAdd(C[0], E[0], -1), halfS) && pEq(pAdd(C[1], E[1], -1), halfS),
		"centroid - min == span/2 (the truncated half added once, never multiplied) on both axes", fmt.Sprintf("centroid - min is %s / %s, expected the single term %s: output coordinates are not pixel centres (a truncated half-span that is multiplied amplifies the truncation error with the pixel index)", pAdd(C[0], E[0], -1).String(), pAdd(C[1], E[1], -1).String(), halfS.String()))
	wantX := pAdd(pSym(rootE+".MinX()"), pMul(pSym(px), S), 1)
	wantY := pAdd(pSym(rootE+".MinY()"), pMul(pSym(py), S), 1)
	c.Check(R, "grid-anchored-at-root-min/"+g.Name, ext.Pos(), pEq(E[0], wantX) && pEq(E[1], wantY), "min == rootMin + index·span on both axes", fmt.Sprintf("pixel min corner is %s / %s, expected %s / %s: the grid does not start at the corner of the extent", E[0].String(), E[1].String(), wantX.String(), wantY.String()))
	// span == 2^(deepest - level) * res
	recvName := func(fn *core.Func) string {
		if fn.Decl.Recv != nil && len(fn.Decl.Recv.List) == 1 && len(fn.Decl.Recv.List[0].Names) == 1 {
			return fn.Decl.Recv.List[0].Names[0].Name
		}
		return "ix"
	}
	rg := recvName(g)
	wantS := pMul(pSym("2^("+pAdd(pSym(rg+".deepestLevel"), pSym(lvl), -1).String()+")"), pSym(rg+".deepestRes"))
	c.Check(R, "span-is-res-times-power-of-two/"+g.Name, g.Decl.Pos(), pEq(S, wantS), "span == 2^(deepestLevel - level) · deepestRes", fmt.Sprintf("span is %s, expected %s", S.String(), wantS.String()))

	// FromTileMatrixSet: deepestRes · 2^deepestLevel == XSpan
	{
		finfo := ft.Pkg.TypesInfo
		fe := newSymEnv(c.P, finfo)
		fe.run(ft.Decl.Body.List)
		lit := findLit(finfo, ft.Decl.Body, "pointindex.PointIndex")
		okRes := false
		detail := "PointIndex literal not found"
		if lit != nil {
			var resE, sizeE ast.Expr
			for _, el := range lit.Elts {
				if kv, ok := el.(*ast.KeyValueExpr); ok {
					switch canon(kv.Key) {
					case "deepestRes":
						resE = kv.Value
					case "deepestSize":
						sizeE = kv.Value
					}
				}
			}
			if resE != nil && sizeE != nil {
				r, ok1 := fe.eval(resE)
				sz, ok2 := fe.eval(sizeE)
				if ok1 && ok2 {
					okRes = pEq(r, pSym("quo("+pSym("intExtent.XSpan()").String()+","+sz.String()+")")) && len(sz) == 1 && strings.HasPrefix(sz.String(), "2^(")
					detail = fmt.Sprintf("deepestRes = %s, deepestSize = %s", r.String(), sz.String())
				} else {
					detail = fe.err
				}
			}
		}
		c.Check(R, "res-times-size-is-root-span/"+ft.Name, ft.Decl.Pos(), okRes, "deepestRes · deepestSize == XSpan of the root extent, deepestSize == 2^deepestLevel", "the deepest pixel size is not root span / 2^deepestLevel: "+detail)
	}
	// insertCoord: the address handed to getQuadrantExtentAndCentroid for level l is quo(deepest address, 2^(deepest - l))
	{
		iinfo := ic.Pkg.TypesInfo
		isig := ic.Obj.Type().(*types.Signature)
		// the per-level work may sit in a helper insertCoord calls with its two addresses passed on
		host := ic
		px, py := isig.Params().At(0).Name(), isig.Params().At(1).Name()
		if len(core.CallsIn(iinfo, ic.Decl, "pointindex.PointIndex.getQuadrantExtentAndCentroid")) == 0 {
			ast.Inspect(ic.Decl.Body, func(n ast.Node) bool {
				call, ok := n.(*ast.CallExpr)
				if !ok || host != ic {
					return true
				}
				cal := core.Callee(iinfo, call)
				if cal == nil {
					return true
				}
				h := c.P.ByObj[cal.Origin()]
				if h == nil || h.Pkg != ic.Pkg || h.Decl.Body == nil || len(core.CallsIn(iinfo, h.Decl, "pointindex.PointIndex.getQuadrantExtentAndCentroid")) == 0 {
					return true
				}
				hs := h.Obj.Type().(*types.Signature)
				hx, hy := "", ""
				for i, a := range call.Args {
					if i >= hs.Params().Len() {
						break
					}
					switch core.ObjOf(iinfo, a) {
					case types.Object(isig.Params().At(0)):
						hx = hs.Params().At(i).Name()
					case types.Object(isig.Params().At(1)):
						hy = hs.Params().At(i).Name()
					}
				}
				if hx != "" && hy != "" {
					host, px, py = h, hx, hy
				}
				return true
			})
		}
		ie := newSymEnv(c.P, iinfo)
		ie.run(host.Decl.Body.List)
		okAddr := false
		detail := "no call of getQuadrantExtentAndCentroid"
		ri := recvName(host)
		for _, call := range core.CallsIn(iinfo, host.Decl, "pointindex.PointIndex.getQuadrantExtentAndCentroid") {
			if len(call.Args) != 4 {
				continue
			}
			lv, ok0 := ie.eval(call.Args[0])
			xv, ok1 := ie.eval(call.Args[1])
			yv, ok2 := ie.eval(call.Args[2])
			if !ok0 || !ok1 || !ok2 {
				detail = ie.err
				continue
			}
			pw := pSym("2^(" + pAdd(pSym(ri+".deepestLevel"), lv, -1).String() + ")")
			wantX := pSym("quo(" + pSym(px).String() + "," + pw.String() + ")")
			wantY := pSym("quo(" + pSym(py).String() + "," + pw.String() + ")")
			okAddr = pEq(xv, wantX) && pEq(yv, wantY) && canon(call.Args[3]) == ri+".intExtent"
			detail = fmt.Sprintf("x = %s, y = %s, level = %s", xv.String(), yv.String(), lv.String())
		}
		c.Check(R, "coarser-address-is-deepest-over-power-of-two/"+ic.Name, ic.Decl.Pos(), okAddr, "address at level l == deepest address / 2^(deepestLevel - l), extent anchored at the root extent", "the pixel address at a coarser level is not the deepest address divided by 2^(deepest - level): "+detail)
	}
	// InsertPoint: the address handed to InsertCoord is quo(p - min, res) on both axes
	{
		pinfo := ip.Pkg.TypesInfo
		pe := newSymEnv(c.P, pinfo)
		pe.run(ip.Decl.Body.List)
		okP := false
		detail := "no call of InsertCoord"
		rp := recvName(ip)
		pt := "intgeom.FromGeomPoint(" + ip.Obj.Type().(*types.Signature).Params().At(0).Name() + ")"
		for _, call := range core.CallsIn(pinfo, ip.Decl, "pointindex.PointIndex.InsertCoord") {
			if len(call.Args) < 2 {
				detail = "InsertCoord is not called with the two addresses"
				continue
			}
			dx, ok1 := pe.eval(call.Args[0])
			dy, ok2 := pe.eval(call.Args[1])
			if !ok1 || !ok2 {
				detail = pe.err
				continue
			}
			res := pSym(rp + ".deepestRes").String()
			wx := pSym("quo(" + pAdd(pSym(pt+".X()"), pSym(rp+".intExtent.MinX()"), -1).String() + "," + res + ")")
			wy := pSym("quo(" + pAdd(pSym(pt+".Y()"), pSym(rp+".intExtent.MinY()"), -1).String() + "," + res + ")")
			okP = pEq(dx, wx) && pEq(dy, wy)
			detail = fmt.Sprintf("x address = %s, y address = %s", dx.String(), dy.String())
		}
		c.Check(R, "address-is-offset-over-res/"+ip.Name, ip.Decl.Pos(), okP, "deepest address == (p - min) / deepestRes on both axes", "the deepest pixel address of a point is not (p - extent min) / deepestRes: "+detail)
	}
	c.Floor(R, 7)
}

// armValues evaluates the statements before the corner-of-origin switch and each arm.
type armEnv struct {
	common  *symEnv
	arms    map[string]*symEnv // "TopLeft", "BottomLeft"
	renames [][2]string
}

// cornerArms finds the case analysis on tm.CornerOfOrigin in f: a switch {default: fallthrough; case TopLeft;
// case BottomLeft} or the equivalent `if corner == BottomLeft {…} else {…}` (any value but BottomLeft means TopLeft).
// It returns the statement that holds it, the two arms, and a description of the form.
// cornerHelperBinding: the corner-of-origin decision made in a package helper that is handed the corner: the
// statement of the addressing function that calls it, the helper's parameters and the call's arguments.
type cornerHelperBinding struct {
	call   *ast.CallExpr
	lhs    []ast.Expr
	helper *core.Func
}

var cornerHelpers = map[ast.Stmt]*cornerHelperBinding{}

func cornerArms(c *core.Ctx, f *core.Func) (holder ast.Stmt, topLeft, bottomLeft []ast.Stmt, form string) {
	info := f.Pkg.TypesInfo
	isCornerField := func(e ast.Expr) bool {
		fv := core.FieldOf(info, e)
		return fv != nil && fv.Name() == "CornerOfOrigin"
	}
	holder, topLeft, bottomLeft, form = cornerArmsIn(info, f.Decl.Body.List, isCornerField)
	if holder != nil {
		return
	}
	// the decision in a helper: lhs… = helper(…, tm.CornerOfOrigin, …)
	for _, s := range f.Decl.Body.List {
		var call *ast.CallExpr
		var lhs []ast.Expr
		switch st := s.(type) {
		case *ast.AssignStmt:
			if len(st.Rhs) == 1 {
				call, _ = ast.Unparen(st.Rhs[0]).(*ast.CallExpr)
				lhs = st.Lhs
			}
		}
		if call == nil {
			continue
		}
		cal := core.Callee(info, call)
		if cal == nil {
			continue
		}
		h := c.P.ByObj[cal.Origin()]
		if h == nil || h.Pkg != f.Pkg || h.Decl.Body == nil {
			continue
		}
		hs := h.Obj.Type().(*types.Signature)
		var cornerParam types.Object
		for i, a := range call.Args {
			if i < hs.Params().Len() && isCornerField(a) {
				cornerParam = hs.Params().At(i)
			}
		}
		if cornerParam == nil {
			continue
		}
		hh, tl, bl, fm := cornerArmsIn(info, h.Decl.Body.List, func(e ast.Expr) bool { return core.ObjOf(info, e) == cornerParam })
		if hh == nil {
			continue
		}
		cornerHelpers[s] = &cornerHelperBinding{call: call, lhs: lhs, helper: h}
		return s, tl, bl, fm + " (in " + h.Name + ")"
	}
	return nil, nil, nil, form
}

func cornerArmsIn(info *types.Info, stmts []ast.Stmt, isCorner func(ast.Expr) bool) (holder ast.Stmt, topLeft, bottomLeft []ast.Stmt, form string) {
	constName := func(e ast.Expr) string {
		if o := core.ObjOf(info, e); o != nil {
			if _, ok := o.(*types.Const); ok {
				return o.Name()
			}
		}
		return ""
	}
	for _, s := range stmts {
		switch st := s.(type) {
		case *ast.SwitchStmt:
			if st.Tag == nil || !isCorner(st.Tag) {
				continue
			}
			defaultFallsIntoTopLeft := false
			var prevDefaultFT bool
			var labels []string
			for _, cc := range st.Body.List {
				cl := cc.(*ast.CaseClause)
				ft := len(cl.Body) > 0 && func() bool {
					b, ok := cl.Body[len(cl.Body)-1].(*ast.BranchStmt)
					return ok && b.Tok == token.FALLTHROUGH
				}()
				if cl.List == nil {
					labels = append(labels, "default")
					prevDefaultFT = ft && len(cl.Body) == 1
					continue
				}
				if len(cl.List) != 1 {
					labels = append(labels, "multi")
					continue
				}
				lab := constName(cl.List[0])
				labels = append(labels, lab)
				switch lab {
				case "TopLeft":
					topLeft = cl.Body
					if prevDefaultFT {
						defaultFallsIntoTopLeft = true
					}
				case "BottomLeft":
					bottomLeft = cl.Body
				}
				prevDefaultFT = false
			}
			form = "switch " + strings.Join(labels, ",")
			if !defaultFallsIntoTopLeft || len(labels) != 3 {
				form += " (default does not fall through to TopLeft)"
				return st, nil, nil, form
			}
			return st, topLeft, bottomLeft, form
		case *ast.IfStmt:
			be, ok := ast.Unparen(st.Cond).(*ast.BinaryExpr)
			if !ok || st.Init != nil || st.Else == nil || !(be.Op == token.EQL || be.Op == token.NEQ) {
				continue
			}
			var k string
			switch {
			case isCorner(be.X):
				k = constName(be.Y)
			case isCorner(be.Y):
				k = constName(be.X)
			default:
				continue
			}
			els, ok := st.Else.(*ast.BlockStmt)
			if !ok {
				continue
			}
			if k != "BottomLeft" {
				return st, nil, nil, "if on " + k + " (any unknown value would be treated as BottomLeft, siblings treat it as TopLeft)"
			}
			if be.Op == token.EQL {
				return st, els.List, st.Body.List, "if corner == BottomLeft … else …"
			}
			return st, st.Body.List, els.List, "if corner != BottomLeft … else …"
		}
	}
	return nil, nil, nil, "no case analysis on tm.CornerOfOrigin"
}

func evalWithCornerSwitch(c *core.Ctx, f *core.Func) *armEnv {
	info := f.Pkg.TypesInfo
	env := newSymEnv(c.P, info)
	out := &armEnv{common: env, arms: map[string]*symEnv{}}
	holder, tl, bl, _ := cornerArms(c, f)
	for _, s := range f.Decl.Body.List {
		if holder != nil && s == holder {
			if hb := cornerHelpers[s]; hb != nil && tl != nil && bl != nil {
				// the arm of the helper, with its parameters standing for the arguments; what it returns is
				// assigned to the left-hand sides of the call
				for name, arm := range map[string][]ast.Stmt{"TopLeft": tl, "BottomLeft": bl} {
					a := env.clone()
					hs := hb.helper.Obj.Type().(*types.Signature)
					for i, arg := range hb.call.Args {
						if i < hs.Params().Len() {
							if v, ok := a.eval(arg); ok {
								a.vars[hs.Params().At(i)] = v
							}
						}
					}
					a.run(arm)
					if len(arm) > 0 {
						if ret, ok := arm[len(arm)-1].(*ast.ReturnStmt); ok && len(ret.Results) == len(hb.lhs) {
							for i := range hb.lhs {
								a.assign(hb.lhs[i], ret.Results[i])
							}
						}
					}
					out.arms[name] = a
				}
				continue
			}
			if tl != nil && bl != nil {
				a := env.clone()
				a.run(tl)
				out.arms["TopLeft"] = a
				b := env.clone()
				b.run(bl)
				out.arms["BottomLeft"] = b
			}
			continue
		}
		env.run([]ast.Stmt{s})
		// what follows the corner-of-origin decision is computed per arm as well
		for _, a := range out.arms {
			a.run([]ast.Stmt{s})
		}
	}
	return out
}

// newTileArgs finds the column and row expressions of the slippy.NewTile(zoom, col, row) FromNative returns.
func newTileArgs(c *core.Ctx, f *core.Func) (col, row ast.Expr) {
	for _, call := range core.CallsIn(f.Pkg.TypesInfo, f.Decl, "github.com/go-spatial/geom/slippy.NewTile") {
		if len(call.Args) == 3 {
			col, row = call.Args[1], call.Args[2]
		}
	}
	return
}

func (e *symEnv) varNamed(n string) lpoly {
	for o, p := range e.vars {
		if o.Name() == n {
			return p
		}
	}
	return nil
}

// normaliseAddressingNames renames, in all symbolic values of one addressing function, the tile matrix local
// to "tm", the point parameter to "pt", the tile parameter to "tile", the ToXYPoint result to "pointOfOriginXY" and
// the elements of result arrays by position, so that the rules do not depend on the names chosen in the source.
func normaliseAddressingNames(c *core.Ctx, f *core.Func, ae *armEnv) {
	info := f.Pkg.TypesInfo
	ren := [][2]string{}
	pre := ""
	ast.Inspect(f.Decl.Body, func(n ast.Node) bool {
		if sel, ok := n.(*ast.SelectorExpr); ok && pre == "" && sel.Sel.Name == "CellSize" {
			pre = ae.common.symName(sel.X)
		}
		return pre == ""
	})
	if pre != "" {
		ren = append(ren, [2]string{pre + ".", "tm."})
	}
	sig := f.Obj.Type().(*types.Signature)
	for i := 0; i < sig.Params().Len(); i++ {
		pv := sig.Params().At(i)
		switch core.TypeShort(pv.Type()) {
		case "github.com/go-spatial/geom.Point":
			ren = append(ren, [2]string{pv.Name() + ".", "pt."})
		case "github.com/go-spatial/geom/slippy.Tile":
			ren = append(ren, [2]string{pv.Name() + ".", "tile."})
		}
	}
	for _, call := range core.CallsIn(info, f.Decl, "tms20.ToXYPoint") {
		for _, pn := range pathTo(f.Decl.Body, call) {
			if as, ok := pn.(*ast.AssignStmt); ok && len(as.Lhs) == 2 {
				ren = append(ren, [2]string{canon(as.Lhs[0]) + "[", "pointOfOriginXY["})
			}
		}
	}
	fix := func(e *symEnv) {
		for k, v := range e.vars {
			for _, r := range ren {
				v = pRename(v, r[0], r[1])
			}
			e.vars[k] = v
		}
		for k, v := range e.elem {
			for _, r := range ren {
				v = pRename(v, r[0], r[1])
			}
			e.elem[k] = v
		}
	}
	fix(ae.common)
	for _, a := range ae.arms {
		fix(a)
	}
	ae.renames = ren
}

// R44: FromNative is the inverse of ToNative (per axis and corner convention)
// and the matrix bounding box spans matrix-size tiles from the origin.
func r44TileAddressingInverse(c *core.Ctx) {
	const R = "R44"
	fn := c.Anchor(R, "tms20.TileMatrixSet.FromNative")
	tn := c.Anchor(R, "tms20.TileMatrixSet.ToNative")
	bb := c.Anchor(R, "tms20.TileMatrixSet.MatrixBoundingBox")
	ms := c.Anchor(R, "tms20.TileMatrixSet.MatrixSize")
	if fn == nil || tn == nil || bb == nil || ms == nil {
		return
	}
	F := evalWithCornerSwitch(c, fn)
	T := evalWithCornerSwitch(c, tn)
	B := evalWithCornerSwitch(c, bb)
	// the tile matrix is a local with a different definition in every function: name it TM everywhere
	tmPrefix := func(f *core.Func, e *symEnv) string {
		pre := ""
		ast.Inspect(f.Decl.Body, func(n ast.Node) bool {
			if sel, ok := n.(*ast.SelectorExpr); ok && pre == "" && sel.Sel.Name == "CellSize" {
				pre = e.symName(sel.X)
			}
			return pre == ""
		})
		return pre
	}
	normTM := func(f *core.Func, ae *armEnv) {
		normaliseAddressingNames(c, f, ae)
	}
	_ = tmPrefix
	normTM(fn, F)
	normTM(tn, T)
	normTM(bb, B)
	if len(F.arms) != 2 || len(T.arms) != 2 || len(B.arms) != 2 {
		c.Bad(R, "corner-arms", fn.Decl.Pos(), fmt.Sprintf("expected TopLeft and BottomLeft arms in all three functions, found %d/%d/%d", len(F.arms), len(T.arms), len(B.arms)))
		return
	}
	// column and row as FromNative hands them to slippy.NewTile (conversions to uint are transparent)
	colE, rowE := newTileArgs(c, fn)
	fx := F.common.varNamed("x")
	if colE != nil {
		if p, ok := F.common.eval(colE); ok {
			fx = p
			for _, r := range F.renames {
				fx = pRename(fx, r[0], r[1])
			}
		}
	}
	tx := T.common.elem["topLeftPt[0]"]
	okX := false
	detail := ""
	if fx != nil && tx != nil {
		if comp, ok := pSubst(fx, "pt.X()", tx); ok {
			okX = pEq(comp, pSym("tile.X"))
			detail = fmt.Sprintf("FromNative.x = %s ; ToNative.x = %s ; composition = %s", fx.String(), tx.String(), comp.String())
		}
	}
	c.Saw(R, detail)
	c.Check(R, "column-of-tile-corner-is-the-tile/x", fn.Decl.Pos(), okX, "FromNative.x(ToNative.x(tile)) == tile.X", "the column found for the x of a tile's corner is not that tile's column: "+detail)
	for _, arm := range []string{"TopLeft", "BottomLeft"} {
		fy := F.arms[arm].varNamed("y")
		if rowE != nil {
			if p, ok := F.arms[arm].eval(rowE); ok {
				fy = p
				for _, r := range F.renames {
					fy = pRename(fy, r[0], r[1])
				}
			}
		}
		ty := T.arms[arm].elem["topLeftPt[1]"]
		okY := false
		detail := "y formulas not found"
		if fy != nil && ty != nil {
			if comp, ok := pSubst(fy, "pt.Y()", ty); ok {
				want := pSym("tile.Y")
				if arm == "BottomLeft" {
					// ToNative returns the tile's upper edge; with rows counted upward that edge is the lower edge of row Y+1
					want = pAdd(want, pInt(1), 1)
				}
				okY = pEq(comp, want)
				detail = fmt.Sprintf("FromNative.y = %s ; ToNative.y = %s ; composition = %s ; expected %s", fy.String(), ty.String(), comp.String(), want.String())
			}
		}
		c.Saw(R, arm+": "+detail)
		c.Check(R, "row-of-tile-corner-is-the-tile/"+arm, fn.Decl.Pos(), okY, "FromNative.y(ToNative.y(tile)) is the tile's row (upper edge: row + 1 for bottomLeft numbering)", "tile rows and native y are not mutually consistent for cornerOfOrigin "+arm+": "+detail)
	}
	// MatrixSize
	M := newSymEnv(c.P, ms.Pkg.TypesInfo)
	M.run(ms.Decl.Body.List)
	normTM(ms, &armEnv{common: M, arms: map[string]*symEnv{}})
	w, h := M.varNamed("width"), M.varNamed("height")
	wantW := pMul(pMul(pSym("tm.MatrixWidth"), pSym("tm.TileWidth")), pSym("tm.CellSize"))
	wantH := pMul(pMul(pSym("tm.MatrixHeight"), pSym("tm.TileHeight")), pSym("tm.CellSize"))
	c.Check(R, "matrix-size-is-tiles-times-tile-size/"+ms.Name, ms.Decl.Pos(), w != nil && h != nil && pEq(w, wantW) && pEq(h, wantH), "width == MatrixWidth·TileWidth·CellSize, height == MatrixHeight·TileHeight·CellSize",
		fmt.Sprintf("MatrixSize computes width=%v height=%v", w, h))
	// bounding box spans the matrix size from the origin; x from tile column 0 to column MatrixWidth
	bl0, tr0 := B.common.elem["bottomLeft[0]"], B.common.elem["topRight[0]"]
	okBX := false
	if bl0 != nil && tr0 != nil && tx != nil {
		tx0, _ := pSubst(tx, "tile.X", pInt(0))
		txW, _ := pSubst(tx, "tile.X", pSym("tm.MatrixWidth"))
		span := pRename(pAdd(tr0, bl0, -1), "gridWidth", "GW")
		okBX = pEq(bl0, tx0) && pEq(span, pSym("GW")) && w != nil && pEq(pAdd(txW, tx0, -1), w)
	}
	c.Check(R, "bbox-x-spans-matrix-width/"+bb.Name, bb.Decl.Pos(), okBX, "bottomLeft.x == ToNative.x(0); topRight.x - bottomLeft.x == gridWidth == ToNative.x(MatrixWidth) - ToNative.x(0)", "the bounding box does not span from the x of tile column 0 to the x of column MatrixWidth")
	for _, arm := range []string{"TopLeft", "BottomLeft"} {
		bl1, tr1 := B.arms[arm].elem["bottomLeft[1]"], B.arms[arm].elem["topRight[1]"]
		okBY := false
		if bl1 != nil && tr1 != nil {
			span := pAdd(tr1, bl1, -1)
			okBY = pEq(span, pSym("gridHeight"))
			origin := pSym("pointOfOriginXY[1]")
			if arm == "TopLeft" {
				okBY = okBY && pEq(tr1, origin)
			} else {
				okBY = okBY && pEq(bl1, origin)
			}
		}
		c.Check(R, "bbox-y-spans-matrix-height/"+arm, bb.Decl.Pos(), okBY, "topRight.y - bottomLeft.y == gridHeight, anchored at the origin on the side the corner of origin names", "the bounding box's y range is not gridHeight measured from the point of origin for cornerOfOrigin "+arm)
	}
	r44OutsideMapsToNoTile(c, fn)
	r44RoundingOnlyOnResults(c, []*core.Func{fn, tn, bb, ms})
	r44ToNativeAcceptsFarCorner(c, tn)
	c.Floor(R, 7)
}

// r44OutsideMapsToNoTile: FromNative answers (tile, true) only if, for the column and for the row, the fractional
// index was tested `< 0` and the truncated index was tested `>=` the matrix width resp. height, with the failing side
// of each test not reaching the success return.  The tests may sit in FromNative or in a (value, ok) helper it calls
// once per axis.
func r44OutsideMapsToNoTile(c *core.Ctx, f *core.Func) {
	const R = "R44"
	fn := f.SSA
	if fn == nil {
		return
	}
	var newTile *ssa.Call
	for _, call := range findCalls(fn, "github.com/go-spatial/geom/slippy.NewTile") {
		newTile = call
	}
	var success *ssa.Return
	for _, b := range fn.Blocks {
		for _, in := range b.Instrs {
			if ret, ok := in.(*ssa.Return); ok && len(ret.Results) == 2 && isConstBool(ret.Results[1], true) {
				success = ret
			}
		}
	}
	if newTile == nil || success == nil || len(newTile.Call.Args) != 3 {
		for _, ax := range []string{"column", "row"} {
			c.Bad(R, "outside-maps-to-no-tile/"+ax, f.Decl.Pos(), "FromNative does not end in `return slippy.NewTile(zoom, column, row), true`")
		}
		return
	}
	// failing side of a test never reaches the success return of fn
	guards := func(fn *ssa.Function, succ ssa.Instruction, i *ssa.If, failEdge int) bool {
		found, _ := core.Search{Fn: fn, Target: instrIs(succ), Edge: func(b *ssa.BasicBlock, k int) bool {
			if b == i.Block() {
				return k == failEdge
			}
			return true
		}}.Run()
		return !found
	}
	// checkIndex: idx is uint(frac) with `frac < 0` and `idx >= bound` both guarding succ; returns the bound
	checkIndex := func(fn *ssa.Function, succ ssa.Instruction, idx ssa.Value) (ssa.Value, string) {
		cv, ok := idx.(*ssa.Convert)
		if !ok {
			return nil, "the index is not a truncated fractional index"
		}
		frac := cv.X
		var bound ssa.Value
		negOK := false
		for _, b := range fn.Blocks {
			i := core.BlockIf(b)
			if i == nil {
				continue
			}
			cmp, ok := i.Cond.(*ssa.BinOp)
			if !ok {
				continue
			}
			isZero := func(v ssa.Value) bool {
				k, ok := v.(*ssa.Const)
				return ok && k.Value != nil && k.Float64() == 0
			}
			sameIdx := func(v ssa.Value) bool {
				if v == idx {
					return true
				}
				c2, ok := v.(*ssa.Convert)
				return ok && c2.X == frac && types.Identical(c2.Type(), cv.Type())
			}
			switch {
			case cmp.Op == token.LSS && cmp.X == frac && isZero(cmp.Y):
				negOK = negOK || guards(fn, succ, i, 0)
			case cmp.Op == token.GEQ && cmp.X == frac && isZero(cmp.Y):
				negOK = negOK || guards(fn, succ, i, 1)
			case cmp.Op == token.GEQ && sameIdx(cmp.X):
				if guards(fn, succ, i, 0) {
					bound = cmp.Y
				}
			case cmp.Op == token.LSS && sameIdx(cmp.X):
				if guards(fn, succ, i, 1) {
					bound = cmp.Y
				}
			}
		}
		if !negOK {
			return nil, "a negative fractional index is not rejected"
		}
		if bound == nil {
			return nil, "an index at or beyond the matrix size is not rejected"
		}
		return bound, ""
	}
	isField := func(v ssa.Value, name string) bool { return isFieldRead(v, name) }
	for k, ax := range []string{"column", "row"} {
		want := []string{"MatrixWidth", "MatrixHeight"}[k]
		idx := newTile.Call.Args[k+1]
		construct := "outside-maps-to-no-tile/" + ax
		var bound ssa.Value
		why := ""
		if ex, ok := idx.(*ssa.Extract); ok && ex.Index == 0 {
			// (index, ok) helper
			call, isCall := ex.Tuple.(*ssa.Call)
			h := (*ssa.Function)(nil)
			if isCall {
				h = call.Call.StaticCallee()
			}
			if h == nil || len(h.Blocks) == 0 {
				why = "the index comes from a call the rule cannot follow"
			} else {
				okv := extractOf(call, 1)
				// in FromNative: success not reachable with ok == false
				okGuard := false
				for _, b := range fn.Blocks {
					i := core.BlockIf(b)
					if i == nil || okv == nil {
						continue
					}
					if i.Cond == okv {
						okGuard = okGuard || guards(fn, success, i, 1)
					} else if u, isU := i.Cond.(*ssa.UnOp); isU && u.Op == token.NOT && u.X == okv {
						okGuard = okGuard || guards(fn, success, i, 0)
					}
				}
				var hsucc *ssa.Return
				for _, b := range h.Blocks {
					for _, in := range b.Instrs {
						if ret, ok := in.(*ssa.Return); ok && len(ret.Results) == 2 && isConstBool(ret.Results[1], true) {
							hsucc = ret
						}
					}
				}
				switch {
				case !okGuard:
					why = "the helper's ok result does not guard the success return"
				case hsucc == nil:
					why = "the helper has no `return index, true`"
				default:
					hb, w := checkIndex(h, hsucc, hsucc.Results[0])
					why = w
					if hb != nil {
						for pi, prm := range h.Params {
							if hb == ssa.Value(prm) && pi < len(call.Call.Args) {
								bound = call.Call.Args[pi]
							}
						}
						if bound == nil {
							why = "the helper compares the index with something other than its size parameter"
						}
					}
				}
			}
		} else {
			bound, why = checkIndex(fn, success, idx)
		}
		if why == "" && !isField(bound, want) {
			why = "the " + ax + " index is bounded by " + bound.String() + " instead of tm." + want
		}
		c.Check(R, construct, newTile.Pos(), why == "", "a negative or >= tm."+want+" "+ax+" index never yields a tile", "points outside the matrix extent can map to a tile: "+why)
	}
}

// r44RoundingOnlyOnResults: the 9-decimal rounding of the addressing functions is applied to final coordinates and
// sizes only.  A rounded value that is truncated to a tile index or compared (FromNative) moves tile borders by the
// rounding error; a rounded value that is multiplied (a rounded tile size times a tile count) amplifies it.
func r44RoundingOnlyOnResults(c *core.Ctx, fs []*core.Func) {
	const R = "R44"
	seen := map[*ssa.Function]bool{}
	var fns []*ssa.Function
	for _, f := range fs {
		if f.SSA == nil {
			continue
		}
		for _, x := range core.AllSSAFuncs(f.SSA) {
			if !seen[x] {
				seen[x] = true
				fns = append(fns, x)
			}
		}
		// module helpers they call
		for _, b := range f.SSA.Blocks {
			for _, in := range b.Instrs {
				if ci, ok := in.(ssa.CallInstruction); ok {
					if g := ci.Common().StaticCallee(); g != nil && !seen[g] && len(g.Blocks) > 0 && core.ShortPkg(core.FuncPkgPath(g)) == "tms20" && g.Name() != "roundFloat" && g.Name() != "ToXYPoint" {
						seen[g] = true
						fns = append(fns, g)
					}
				}
			}
		}
	}
	isRound := func(v ssa.Value) bool {
		call, ok := v.(*ssa.Call)
		if !ok {
			return false
		}
		id := core.StaticCalleeID(call)
		return id == core.ModPath+"/tms20.roundFloat" || id == "math.Round"
	}
	n := 0
	bad := ""
	for _, fn := range fns {
		if fn.Name() == "roundFloat" {
			continue
		}
		for _, b := range fn.Blocks {
			for _, in := range b.Instrs {
				v, ok := in.(ssa.Value)
				if !ok || !isRound(v) {
					continue
				}
				n++
				work := []ssa.Value{v}
				visited := map[ssa.Value]bool{}
				for len(work) > 0 {
					x := work[len(work)-1]
					work = work[:len(work)-1]
					if visited[x] || x.Referrers() == nil {
						continue
					}
					visited[x] = true
					for _, r := range *x.Referrers() {
						switch y := r.(type) {
						case *ssa.Phi:
							work = append(work, y)
						case *ssa.Convert:
							if bt, ok := y.Type().Underlying().(*types.Basic); ok && bt.Info()&types.IsInteger != 0 {
								bad += fmt.Sprintf("%s: a rounded value is truncated to an integer @%s; ", fn.Name(), c.P.Pos(y.Pos()))
							}
						case *ssa.BinOp:
							switch y.Op {
							case token.MUL, token.QUO:
								bad += fmt.Sprintf("%s: a rounded value is multiplied or divided @%s; ", fn.Name(), c.P.Pos(y.Pos()))
							case token.LSS, token.LEQ, token.GTR, token.GEQ:
								bad += fmt.Sprintf("%s: a rounded value decides a comparison @%s; ", fn.Name(), c.P.Pos(y.Pos()))
							}
						}
					}
				}
			}
		}
	}
	c.Check(R, "rounding-only-on-results/tms20", fs[0].Decl.Pos(), bad == "" && n >= 5, fmt.Sprintf("%d rounding sites in the addressing functions, each applied to a final coordinate or size", n), "rounding is applied to an intermediate value: "+bad)
}

// r44ToNativeAcceptsFarCorner: ToNative answers for tile indices up to and including the matrix width/height (the
// corner of tile (width, height) is the far corner of the bounding box) and refuses beyond: the refusal is guarded
// by tile.X > MatrixWidth and tile.Y > MatrixHeight, strictly.
func r44ToNativeAcceptsFarCorner(c *core.Ctx, f *core.Func) {
	const R = "R44"
	fn := f.SSA
	if fn == nil {
		return
	}
	construct := "tonative-accepts-far-corner/" + f.Name
	tileField := func(v ssa.Value) string {
		v = core.Unwrap(v)
		for _, n := range []string{"X", "Y"} {
			if isFieldRead(v, n) {
				return n
			}
		}
		return ""
	}
	// the comparison as an atom: "X>" (tile.X > MatrixWidth, or its negation <=) or "X>=" (>= / <), same for Y
	atomOf := func(v ssa.Value) (string, bool, bool) {
		cmp, ok := v.(*ssa.BinOp)
		if !ok {
			return "", false, false
		}
		l, r, op := cmp.X, cmp.Y, cmp.Op
		if tileField(l) == "" && tileField(r) != "" {
			l, r = r, l
			op = map[token.Token]token.Token{token.GTR: token.LSS, token.LSS: token.GTR, token.GEQ: token.LEQ, token.LEQ: token.GEQ}[op]
		}
		ax := tileField(l)
		if ax == "" {
			return "", false, false
		}
		want := map[string]string{"X": "MatrixWidth", "Y": "MatrixHeight"}[ax]
		if !isFieldRead(core.Unwrap(r), want) {
			if isFieldRead(core.Unwrap(r), "MatrixWidth") || isFieldRead(core.Unwrap(r), "MatrixHeight") {
				return ax + "~other-axis", false, true
			}
			return "", false, false
		}
		switch op {
		case token.GTR:
			return ax + ">", false, true
		case token.LEQ:
			return ax + ">", true, true
		case token.GEQ:
			return ax + ">=", false, true
		case token.LSS:
			return ax + ">=", true, true
		}
		return "", false, false
	}
	// the block where the first of these comparisons is made
	var start *ssa.BasicBlock
	for _, b := range fn.Blocks {
		for _, in := range b.Instrs {
			if v, ok := in.(ssa.Value); ok && start == nil {
				if _, _, isAtom := atomOf(v); isAtom {
					start = b
				}
			}
		}
	}
	if start == nil {
		c.Bad(R, construct, f.Decl.Pos(), "ToNative has no range guard on tile.X / tile.Y against the matrix size")
		return
	}
	// decision table over (tile.X > width, tile.Y > height): refused (a return with ok == false before anything
	// else is decided) exactly when one of them holds.  A comparison with >= shows up as another atom and fails.
	bad := ""
	usedAll := map[string]bool{}
	for m := 0; m < 4; m++ {
		as := map[string]bool{"X>": m&1 != 0, "Y>": m&2 != 0, "X>=": m&1 != 0, "Y>=": m&2 != 0}
		bi := &boolInterp{roleOf: func(*boolFrame, ssa.Value) string { return "" }, atom: func(_ *boolFrame, v ssa.Value) (string, bool, bool) { return atomOf(v) }, assign: as, used: map[string]bool{}}
		fr := &boolFrame{fn: fn, roles: map[ssa.Value]string{}, env: map[ssa.Value]bool{}}
		if len(start.Preds) > 0 {
			fr.prev = start.Preds[0]
		}
		out, err := bi.run(fr, start, nil, 0)
		refused := err == nil && out.kind == "return" && out.ret != nil && len(out.ret.Results) == 2 && isConstBool(out.ret.Results[1], false)
		for k := range bi.used {
			usedAll[k] = true
		}
		want := as["X>"] || as["Y>"]
		if refused != want {
			bad += fmt.Sprintf("with tile.X > width = %v and tile.Y > height = %v the tile is refused = %v; ", as["X>"], as["Y>"], refused)
		}
	}
	for k := range usedAll {
		if k != "X>" && k != "Y>" {
			bad += "the guard compares with " + k + " (the index equal to the matrix size must be answered: it is the far corner of the bounding box); "
		}
	}
	if !usedAll["X>"] || !usedAll["Y>"] {
		bad += "one of the axes is not guarded; "
	}
	c.Check(R, construct, f.Decl.Pos(), bad == "", "refuses exactly tile.X > MatrixWidth or tile.Y > MatrixHeight (decision table over the two comparisons)", "ToNative's range guard is not `tile.X > MatrixWidth || tile.Y > MatrixHeight`: "+bad)
}
