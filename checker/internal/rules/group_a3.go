package rules

import (
	"fmt"
	"go/ast"
	"go/constant"
	"go/token"
	"go/types"
	"sort"
	"strings"

	"golang.org/x/tools/go/ssa"

	"texelverif/internal/core"
)

func init() {
	reg("R05", r05IndexSeesEveryVertex)
	reg("R06", r06EverySegmentRouted)
	reg("R07", r07CoordinateProvenance)
	reg("R08", r08HotPixelOwnership)
	reg("R09", r09LevelArithmetic)
	reg("R11", r11PresentLevelHasGeometry)
	reg("R12", r12RingSizeGuards)
	reg("R13", r13WindingOrder)
	reg("R14", r14OptionReads)
}

// hasJump: the node contains break/continue/goto/return (not inside nested function literals).
func hasJump(n ast.Node, kinds ...token.Token) token.Pos {
	pos := token.NoPos
	core.InspectNoLit(n, func(x ast.Node) bool {
		switch s := x.(type) {
		case *ast.BranchStmt:
			for _, k := range kinds {
				if s.Tok == k {
					pos = s.Pos()
				}
			}
		case *ast.ReturnStmt:
			for _, k := range kinds {
				if k == token.RETURN {
					pos = s.Pos()
				}
			}
		}
		return true
	})
	return pos
}

// rangesOverAllRings: range statement over polygon.LinearRings() (or the polygon itself).
func isLinearRingsOf(info *types.Info, e ast.Expr, poly types.Object) bool {
	e = ast.Unparen(e)
	if core.ObjOf(info, e) == poly && poly != nil {
		return true
	}
	call, ok := e.(*ast.CallExpr)
	if !ok || len(call.Args) != 0 {
		return false
	}
	sel, ok := call.Fun.(*ast.SelectorExpr)
	return ok && sel.Sel.Name == "LinearRings" && core.ObjOf(info, sel.X) == poly && poly != nil
}

// R05: the index sees every vertex of every ring before anything is snapped.
func r05IndexSeesEveryVertex(c *core.Ctx) {
	const R = "R05"
	ip := c.Anchor(R, "pointindex.PointIndex.InsertPolygon")
	sp := c.Anchor(R, "snap.SnapPolygon")
	if ip == nil || sp == nil {
		return
	}
	info := ip.Pkg.TypesInfo
	poly := ip.Obj.Type().(*types.Signature).Params().At(0)
	// the insertion loop: range over all rings, range over the whole ring, InsertPoint(vertex), error returned at once
	var found bool
	why := "no `for ring := range polygon.LinearRings() { for vertex := range ring { InsertPoint(vertex) } }` nest found"
	ast.Inspect(ip.Decl.Body, func(n ast.Node) bool {
		outer, ok := n.(*ast.RangeStmt)
		if !ok || !isLinearRingsOf(info, outer.X, poly) {
			return true
		}
		ring := core.ObjOf(info, outer.Value)
		for _, s := range outer.Body.List {
			inner, ok := s.(*ast.RangeStmt)
			if !ok || core.ObjOf(info, inner.X) != ring || ring == nil {
				continue
			}
			vertex := core.ObjOf(info, inner.Value)
			calls := core.CallsIn(info, inner.Body, "pointindex.PointIndex.InsertPoint")
			if len(calls) != 1 || core.ObjOf(info, calls[0].Args[0]) != vertex || vertex == nil {
				why = "InsertPoint is not called exactly once with the range value of the vertex loop"
				continue
			}
			if p := hasJump(outer.Body, token.BREAK, token.CONTINUE, token.GOTO); p.IsValid() {
				why = "break/continue in the insertion loops at " + c.P.Pos(p) + ": vertices are skipped"
				continue
			}
			// the only statement of the inner body: if err := InsertPoint(v); err != nil { return err }
			okBody := false
			if len(inner.Body.List) == 1 {
				if is, ok := inner.Body.List[0].(*ast.IfStmt); ok && is.Init != nil && is.Else == nil {
					if be, ok := ast.Unparen(is.Cond).(*ast.BinaryExpr); ok && be.Op == token.NEQ && canon(be.Y) == "nil" {
						if len(is.Body.List) == 1 {
							if ret, ok := is.Body.List[0].(*ast.ReturnStmt); ok && len(ret.Results) == 1 && core.SameObj(info, ret.Results[0], be.X) {
								okBody = true
							}
						}
					}
				}
			}
			if !okBody {
				why = "the vertex loop does more than `if err := InsertPoint(vertex); err != nil { return err }` (an error could be swallowed or a vertex filtered)"
				continue
			}
			if len(outer.Body.List) != 1 {
				why = "the ring loop contains statements besides the vertex loop"
				continue
			}
			found = true
		}
		return true
	})
	if !found {
		// the same on the SSA form, for loops written with indices: InsertPoint(rings[r][v]) with r and v counters of
		// full loops over polygon.LinearRings() and over the ring, no iteration that skips the call, the error
		// returned at once
		if w := insertLoopSSA(ip.SSA); w == "" {
			found = true
		} else {
			why += "; on the SSA form: " + w
		}
	}
	c.Check(R, "inserts-every-vertex-of-every-ring/"+ip.Name, ip.Decl.Pos(), found, "every vertex of every ring is passed to InsertPoint, the first error is returned unchanged", why)
	// InsertPolygon returns nil only at the end
	nilReturns := 0
	core.InspectNoLit(ip.Decl.Body, func(n ast.Node) bool {
		if ret, ok := n.(*ast.ReturnStmt); ok && len(ret.Results) == 1 && canon(ret.Results[0]) == "nil" {
			nilReturns++
			if ret != ip.Decl.Body.List[len(ip.Decl.Body.List)-1] {
				nilReturns += 10
			}
		}
		return true
	})
	c.Check(R, "success-only-after-all-vertices/"+ip.Name, ip.Decl.Pos(), nilReturns == 1, "`return nil` is the last statement only", "InsertPolygon can report success before all vertices were inserted")
	// SnapPolygon: same polygon and same index go to InsertPolygon and addPointsAndSnap, in that order
	sinfo := sp.Pkg.TypesInfo
	ins := core.CallsIn(sinfo, sp.Decl, "pointindex.PointIndex.InsertPolygon")
	snaps := core.CallsIn(sinfo, sp.Decl, "snap.addPointsAndSnap")
	if len(ins) == 1 && len(snaps) == 1 {
		spoly := sp.Obj.Type().(*types.Signature).Params().At(0)
		samePoly := core.ObjOf(sinfo, ins[0].Args[0]) == spoly && core.ObjOf(sinfo, snaps[0].Args[1]) == spoly && assignedCount(sinfo, sp.Decl.Body, spoly) == 0
		recv := ins[0].Fun.(*ast.SelectorExpr).X
		sameIx := core.SameObj(sinfo, recv, snaps[0].Args[0]) && assignedCount(sinfo, sp.Decl.Body, core.ObjOf(sinfo, recv)) == 1
		ci := core.CallAt(sp.SSA, ins[0].Lparen)
		cs := core.CallAt(sp.SSA, snaps[0].Lparen)
		c.Check(R, "same-polygon-indexed-and-snapped/"+sp.Name, snaps[0].Pos(), samePoly && sameIx && ci != nil && cs != nil && core.Dominates(ci, cs),
			"InsertPolygon(p) dominates addPointsAndSnap(ix, p, …) with the same, unmodified polygon and index", "the polygon that is snapped is not (provably) the polygon whose vertices were indexed, or the index differs")
		// the index is built for the deepest requested id
		okDeep := false
		for _, call := range core.CallsIn(sinfo, sp.Decl, "pointindex.FromTileMatrixSet") {
			if o := core.ObjOf(sinfo, call.Args[1]); o != nil {
				if def := singleDef(sinfo, sp.Decl.Body, o); def != nil {
					if mc, ok := def.(*ast.CallExpr); ok && core.IsCallTo(sinfo, mc, "slices.Max") && core.ObjOf(sinfo, mc.Args[0]) == sp.Obj.Type().(*types.Signature).Params().At(2) {
						okDeep = true
					}
				}
			}
		}
		c.Check(R, "index-built-for-deepest-id/"+sp.Name, sp.Decl.Pos(), okDeep, "FromTileMatrixSet(tms, slices.Max(tmIDs))", "the point index is not built at the deepest requested tile matrix")
	} else {
		c.Bad(R, "same-polygon-indexed-and-snapped/"+sp.Name, sp.Decl.Pos(), "expected one InsertPolygon and one addPointsAndSnap call")
	}
	c.Floor(R, 4)
}

// R06: every segment of every ring is routed, closing segment included.
func r06EverySegmentRouted(c *core.Ctx) {
	const R = "R06"
	f := c.Anchor(R, "snap.addPointsAndSnap")
	if f == nil {
		return
	}
	info := f.Pkg.TypesInfo
	sig := f.Obj.Type().(*types.Signature)
	poly := sig.Params().At(1)
	var ringLoop *ast.RangeStmt
	for _, s := range f.Decl.Body.List {
		if r, ok := s.(*ast.RangeStmt); ok && isLinearRingsOf(info, r.X, poly) {
			ringLoop = r
		}
	}
	if ringLoop == nil {
		c.Bad(R, "ring-loop/"+f.Name, f.Decl.Pos(), "no range loop over polygon.LinearRings() in addPointsAndSnap")
		return
	}
	ringIdx := core.ObjOf(info, ringLoop.Key)
	ring := core.ObjOf(info, ringLoop.Value)
	outerInfo, outerRing, outerRingIdx := info, ring, ringIdx
	// the only skip of a ring: `if len(levelMap) == 0 { continue }`
	skips := 0
	badSkip := ""
	for _, s := range ringLoop.Body.List {
		if p := hasJump(s, token.CONTINUE, token.BREAK, token.GOTO, token.RETURN); p.IsValid() {
			if is, ok := s.(*ast.IfStmt); ok && strings.HasPrefix(canon(is.Cond), "len(") && strings.HasSuffix(canon(is.Cond), ")==0") && len(is.Body.List) == 1 {
				skips++
				continue
			}
			if _, isRange := s.(*ast.RangeStmt); isRange {
				continue // inner loops are checked below
			}
			badSkip = c.P.Pos(p)
		}
	}
	c.Check(R, "no-ring-skipped/"+f.Name, ringLoop.Pos(), badSkip == "" && skips <= 1, "rings are only skipped when no level is alive any more", "a ring can be skipped at "+badSkip)
	// vertex loop: in the ring loop itself, or in a helper of the package that the ring loop hands the ring to
	// (the helper's parameters then stand for ring and ringIdx)
	var vloop *ast.RangeStmt
	hostBody := ringLoop.Body
	routedAt := token.NoPos // position in the ring loop from which the ring is routed
	for _, s := range ringLoop.Body.List {
		if r, ok := s.(*ast.RangeStmt); ok && core.ObjOf(info, r.X) == ring && ring != nil {
			vloop = r
			routedAt = r.Pos()
		}
	}
	if vloop == nil {
		for _, s := range ringLoop.Body.List {
			ast.Inspect(s, func(n ast.Node) bool {
				call, ok := n.(*ast.CallExpr)
				if !ok || vloop != nil {
					return true
				}
				callee := core.Callee(info, call)
				if callee == nil {
					return true
				}
				h := c.P.ByObj[callee.Origin()]
				if h == nil || h.Decl.Body == nil || h.Pkg != f.Pkg || len(core.CallsIn(h.Pkg.TypesInfo, h.Decl, "pointindex.PointIndex.SnapClosestPoints")) == 0 {
					return true
				}
				hs := h.Obj.Type().(*types.Signature)
				var hring, hidx types.Object
				for i, a := range call.Args {
					if i >= hs.Params().Len() {
						break
					}
					switch core.ObjOf(info, a) {
					case ring:
						hring = hs.Params().At(i)
					case ringIdx:
						hidx = hs.Params().At(i)
					}
				}
				if hring == nil || hidx == nil {
					return true
				}
				for _, hsn := range h.Decl.Body.List {
					if r, ok := hsn.(*ast.RangeStmt); ok && core.ObjOf(h.Pkg.TypesInfo, r.X) == hring {
						if assignedCount(h.Pkg.TypesInfo, h.Decl.Body, hring) == 0 && assignedCount(h.Pkg.TypesInfo, h.Decl.Body, hidx) == 0 {
							vloop, hostBody, routedAt = r, h.Decl.Body, s.Pos()
							info, ring, ringIdx = h.Pkg.TypesInfo, hring, hidx
						}
					}
				}
				return true
			})
		}
	}
	if vloop == nil {
		c.Bad(R, "vertex-loop/"+f.Name, ringLoop.Pos(), "no range loop over the (normalised) ring")
		return
	}
	vIdx, vertex := core.ObjOf(info, vloop.Key), core.ObjOf(info, vloop.Value)
	// segment = {vertex, ring[(idx+1) % len(ring)]}
	segOK := false
	var segObj types.Object
	var snapCall *ast.CallExpr
	ringLenOK := func(e ast.Expr) bool {
		s := canon(e)
		if s == "len("+ring.Name()+")" {
			return true
		}
		if o := core.ObjOf(info, e); o != nil {
			if def := singleDef(info, hostBody, o); def != nil && canon(def) == "len("+ring.Name()+")" {
				// defined after the last assignment to ring?
				return true
			}
		}
		return false
	}
	for _, s := range vloop.Body.List {
		as, ok := s.(*ast.AssignStmt)
		if !ok || len(as.Rhs) != 1 {
			continue
		}
		if cl, ok := as.Rhs[0].(*ast.CompositeLit); ok && len(cl.Elts) == 2 && core.ObjOf(info, cl.Elts[0]) == vertex && vertex != nil {
			if ix, ok := cl.Elts[1].(*ast.IndexExpr); ok && core.ObjOf(info, ix.X) == ring {
				// index: either (idx+1)%len or a variable defined so
				idxE := ast.Unparen(ix.Index)
				if o := core.ObjOf(info, idxE); o != nil {
					if def := singleDef(info, vloop.Body, o); def != nil {
						idxE = ast.Unparen(def)
					}
				}
				if be, ok := idxE.(*ast.BinaryExpr); ok && be.Op == token.REM && ringLenOK(be.Y) {
					if add, ok := ast.Unparen(be.X).(*ast.BinaryExpr); ok && add.Op == token.ADD && core.ObjOf(info, add.X) == vIdx && canon(add.Y) == "1" {
						segOK = true
						segObj = core.ObjOf(info, as.Lhs[0])
					}
				}
			}
		}
		if call, ok := as.Rhs[0].(*ast.CallExpr); ok && core.IsCallTo(info, call, "pointindex.PointIndex.SnapClosestPoints") {
			snapCall = call
		}
	}
	if p := hasJump(vloop.Body, token.CONTINUE, token.BREAK, token.GOTO, token.RETURN); p.IsValid() {
		segOK = false
	}
	c.Check(R, "segments-include-closing-edge/"+f.Name, vloop.Pos(), segOK, "for every vertex i the segment {ring[i], ring[(i+1) % len(ring)]} is built (closing edge included), no vertex is skipped",
		"the vertex loop does not build {ring[i], ring[(i+1)%len(ring)]} for every i: an edge (typically the closing one) is never routed")
	// SnapClosestPoints(segment, levelMap, ringIdx)
	okSnap := snapCall != nil && len(snapCall.Args) == 3 && core.ObjOf(info, snapCall.Args[0]) == segObj && segObj != nil && core.ObjOf(info, snapCall.Args[2]) == ringIdx && ringIdx != nil
	c.Check(R, "segment-routed-through-index/"+f.Name, vloop.Pos(), okSnap, "SnapClosestPoints(segment, levelMap, ringIdx) once per segment", "the segment is not passed to SnapClosestPoints together with the ring's index")
	// per live level the routed points (through cleanupNewVertices) are appended to that level's ring
	okApp := false
	if snapCall != nil {
		resObj := types.Object(nil)
		for _, s := range vloop.Body.List {
			if as, ok := s.(*ast.AssignStmt); ok && len(as.Rhs) == 1 && as.Rhs[0] == ast.Expr(snapCall) {
				resObj = core.ObjOf(info, as.Lhs[0])
			}
		}
		// the per-level append loop, in the vertex loop itself or in a package helper the loop hands the routed
		// points, the segment and the level set to
		appendLoopOK := func(linfo *types.Info, stmts []ast.Stmt, resObj, segObj types.Object, sameLevels func(ast.Expr) bool) bool {
			found := false
			for _, s := range stmts {
				lr, ok := s.(*ast.RangeStmt)
				if !ok || hasJump(lr.Body, token.CONTINUE, token.BREAK, token.RETURN, token.GOTO).IsValid() {
					continue
				}
				// ranges over the same level set that was handed to SnapClosestPoints
				if !sameLevels(lr.X) {
					continue
				}
				lvl := core.ObjOf(linfo, lr.Key)
				cleanCalls := core.CallsIn(linfo, lr.Body, "snap.cleanupNewVertices")
				if lvl == nil || resObj == nil || len(cleanCalls) != 1 {
					continue
				}
				cc := cleanCalls[0]
				a0, isIx := ast.Unparen(cc.Args[0]).(*ast.IndexExpr)
				if !isIx || core.ObjOf(linfo, a0.X) != resObj || core.ObjOf(linfo, a0.Index) != lvl || core.ObjOf(linfo, cc.Args[1]) != segObj || core.ObjOf(linfo, cc.Args[2]) != lvl {
					continue
				}
				// its result is appended to <ring map>[lvl], the same slot whose last element is handed in
				var cleaned types.Object
				for _, st := range lr.Body.List {
					if as, ok := st.(*ast.AssignStmt); ok && len(as.Rhs) == 1 && ast.Unparen(as.Rhs[0]) == ast.Expr(cc) {
						cleaned = core.ObjOf(linfo, as.Lhs[0])
					}
				}
				for _, st := range lr.Body.List {
					as, ok := st.(*ast.AssignStmt)
					if !ok || len(as.Lhs) != 1 || len(as.Rhs) != 1 {
						continue
					}
					lix, ok := as.Lhs[0].(*ast.IndexExpr)
					app, ok2 := as.Rhs[0].(*ast.CallExpr)
					if !ok || !ok2 || !core.IsBuiltinCall(linfo, app, "append") || len(app.Args) != 2 || !app.Ellipsis.IsValid() {
						continue
					}
					rix, ok := app.Args[0].(*ast.IndexExpr)
					if ok && core.ObjOf(linfo, lix.Index) == lvl && core.ObjOf(linfo, rix.Index) == lvl && core.SameObj(linfo, lix.X, rix.X) &&
						(core.ObjOf(linfo, app.Args[1]) == cleaned && cleaned != nil || ast.Unparen(app.Args[1]) == ast.Expr(cc)) {
						found = true
					}
				}
			}
			return found
		}
		okApp = appendLoopOK(info, vloop.Body.List, resObj, segObj, func(e ast.Expr) bool { return core.SameObj(info, e, snapCall.Args[1]) })
		if !okApp {
			for _, s := range vloop.Body.List {
				es, ok := s.(*ast.ExprStmt)
				if !ok {
					continue
				}
				call, ok := es.X.(*ast.CallExpr)
				if !ok {
					continue
				}
				cal := core.Callee(info, call)
				if cal == nil {
					continue
				}
				h := c.P.ByObj[cal.Origin()]
				if h == nil || h.Pkg != f.Pkg || h.Decl.Body == nil || hasJump(h.Decl.Body, token.RETURN, token.GOTO).IsValid() {
					continue
				}
				hs := h.Obj.Type().(*types.Signature)
				var hRes, hSeg, hLv types.Object
				for i, a := range call.Args {
					if i >= hs.Params().Len() {
						break
					}
					switch {
					case core.ObjOf(info, a) == resObj && resObj != nil:
						hRes = hs.Params().At(i)
					case core.ObjOf(info, a) == segObj && segObj != nil:
						hSeg = hs.Params().At(i)
					case core.SameObj(info, a, snapCall.Args[1]):
						hLv = hs.Params().At(i)
					}
				}
				if hRes != nil && hSeg != nil && hLv != nil && appendLoopOK(h.Pkg.TypesInfo, h.Decl.Body.List, hRes, hSeg, func(e ast.Expr) bool { return core.ObjOf(h.Pkg.TypesInfo, e) == hLv }) {
					okApp = true
				}
			}
		}
	}
	c.Check(R, "routed-points-appended-per-level/"+f.Name, vloop.Pos(), okApp, "for each live level: ring[level] = append(ring[level], cleanupNewVertices(result[level], segment, level, …)…)", "the routed points of a segment are not appended to every live level's ring")
	// the ring used is the normalised one: ring = ensureCorrectWindingOrder(ring, <is a hole>) -- or that helper
	// written out: if !windingOrderIsCorrect(ring, <is a hole>) { ring = ReverseClone(ring) } -- where <is a hole>
	// is !isOuter with isOuter := ringIdx == 0 (or ringIdx != 0 directly)
	okNorm := false
	isHole := func(e ast.Expr) bool {
		e = ast.Unparen(e)
		if u, ok := e.(*ast.UnaryExpr); ok && u.Op == token.NOT {
			if o := core.ObjOf(outerInfo, u.X); o != nil {
				if def := singleDef(outerInfo, ringLoop.Body, o); def != nil && canon(def) == outerRingIdx.Name()+"==0" {
					return true
				}
			}
			return canon(u.X) == outerRingIdx.Name()+"==0"
		}
		cs := canon(e)
		return cs == outerRingIdx.Name()+"!=0" || cs == outerRingIdx.Name()+">0"
	}
	for _, s := range ringLoop.Body.List {
		switch st := s.(type) {
		case *ast.AssignStmt:
			if len(st.Lhs) == 1 && len(st.Rhs) == 1 && core.ObjOf(outerInfo, st.Lhs[0]) == outerRing {
				if call, ok := st.Rhs[0].(*ast.CallExpr); ok && core.IsCallTo(outerInfo, call, "snap.ensureCorrectWindingOrder") && core.ObjOf(outerInfo, call.Args[0]) == outerRing && isHole(call.Args[1]) {
					okNorm = st.Pos() < routedAt
				}
			}
		case *ast.IfStmt:
			u, ok := ast.Unparen(st.Cond).(*ast.UnaryExpr)
			if !ok || u.Op != token.NOT || st.Else != nil || st.Init != nil || len(st.Body.List) != 1 {
				continue
			}
			call, ok := ast.Unparen(u.X).(*ast.CallExpr)
			if !ok || !core.IsCallTo(outerInfo, call, "snap.windingOrderIsCorrect") || len(call.Args) != 2 || core.ObjOf(outerInfo, call.Args[0]) != outerRing || !isHole(call.Args[1]) {
				continue
			}
			as, ok := st.Body.List[0].(*ast.AssignStmt)
			if !ok || len(as.Lhs) != 1 || len(as.Rhs) != 1 || core.ObjOf(outerInfo, as.Lhs[0]) != outerRing {
				continue
			}
			if rc, ok := as.Rhs[0].(*ast.CallExpr); ok && len(rc.Args) == 1 && core.ObjOf(outerInfo, rc.Args[0]) == outerRing {
				if cal := core.Callee(outerInfo, rc); cal != nil && cal.Name() == "ReverseClone" {
					okNorm = st.Pos() < routedAt
				}
			}
		}
	}
	r06RoutedPointsKept(c)
	c.Check(R, "ring-normalised-before-routing/"+f.Name, ringLoop.Pos(), okNorm, "ring = ensureCorrectWindingOrder(ring, !isOuter) with isOuter := ringIdx == 0, before the vertex loop", "rings are not normalised to CCW shell / CW holes before they are routed")
	c.Floor(R, 5)
}

// callersIndex: static callers of each function among module functions.
func callersIndex(c *core.Ctx) func(*ssa.Function) []ssa.CallInstruction {
	idx := map[*ssa.Function][]ssa.CallInstruction{}
	for _, fn := range allModFuncs(c.P) {
		for _, b := range fn.Blocks {
			for _, in := range b.Instrs {
				if ci, ok := in.(ssa.CallInstruction); ok {
					if cal := ci.Common().StaticCallee(); cal != nil {
						idx[cal] = append(idx[cal], ci)
					}
				}
			}
		}
	}
	return func(f *ssa.Function) []ssa.CallInstruction { return idx[f] }
}

func isFloatPair(t types.Type) bool {
	a, ok := t.Underlying().(*types.Array)
	if !ok || a.Len() != 2 {
		return false
	}
	b, ok := a.Elem().Underlying().(*types.Basic)
	return ok && b.Kind() == types.Float64
}

func containsFloatPair(t types.Type, depth int) bool {
	if depth > 6 {
		return false
	}
	if isFloatPair(t) {
		return true
	}
	switch u := t.Underlying().(type) {
	case *types.Slice:
		return containsFloatPair(u.Elem(), depth+1)
	case *types.Array:
		return containsFloatPair(u.Elem(), depth+1)
	case *types.Pointer:
		return containsFloatPair(u.Elem(), depth+1)
	case *types.Map:
		return containsFloatPair(u.Elem(), depth+1) || containsFloatPair(u.Key(), depth+1)
	}
	return false
}

// R07: coordinate provenance — output coordinates are centroids handed out by the index.
func r07CoordinateProvenance(c *core.Ctx) {
	const R = "R07"
	aps := c.Anchor(R, "snap.addPointsAndSnap")
	if aps == nil {
		return
	}
	reach := core.ReachableNoStdlibTransit(c.P.VTA(), aps.SSA)
	// (a) no fabrication of [2]float64 outside pointindex/intgeom
	fabricators := 0
	scanned := 0
	var fns []*ssa.Function
	for f := range reach {
		fns = append(fns, f)
	}
	sortFns(fns)
	for _, f := range fns {
		pkg := core.FuncPkgPath(f)
		sp := core.ShortPkg(pkg)
		if !core.IsModPath(pkg) && pkg != "slices" {
			continue
		}
		if sp == "pointindex" || sp == "intgeom" || sp == "morton" || sp == "mathhelp" || sp == "tms20" {
			continue
		}
		scanned++
		var fab []ssa.Instruction
		for _, b := range f.Blocks {
			for _, in := range b.Instrs {
				switch x := in.(type) {
				case *ssa.Store:
					// store of a single float into an element of a [2]float64
					if ia, ok := x.Addr.(*ssa.IndexAddr); ok {
						if pt, ok := ia.X.Type().Underlying().(*types.Pointer); ok && isFloatPair(pt.Elem()) {
							fab = append(fab, in)
						}
					}
				case *ssa.Convert:
					if isFloatPair(x.Type()) && !isFloatPair(x.X.Type()) {
						fab = append(fab, in)
					}
				}
			}
		}
		if len(fab) == 0 {
			continue
		}
		fabricators++
		construct := "fabricator-cannot-leak/" + shortFn(f)
		leaks := ""
		for i := 0; i < f.Signature.Results().Len(); i++ {
			if containsFloatPair(f.Signature.Results().At(i).Type(), 0) {
				leaks += "returns " + f.Signature.Results().At(i).Type().String() + "; "
			}
		}
		for i := 0; i < f.Signature.Params().Len(); i++ {
			t := f.Signature.Params().At(i).Type()
			switch t.Underlying().(type) {
			case *types.Slice, *types.Pointer, *types.Map:
				if containsFloatPair(t, 0) {
					leaks += "can write through parameter " + f.Signature.Params().At(i).Name() + "; "
				}
			}
		}
		c.Check(R, construct, fab[0].Pos(), leaks == "", fmt.Sprintf("computes coordinates (%d element stores) only in by-value copies; nothing of type [2]float64 can leave the function", len(fab)),
			fmt.Sprintf("%s builds or alters a coordinate pair outside the point index and %s: an output vertex that is not a pixel centre of an input vertex becomes possible", f.Name(), leaks))
	}
	c.Check(R, "fabricators-inventory", aps.Decl.Pos(), scanned >= 20, fmt.Sprintf("%d module functions below addPointsAndSnap (outside pointindex/intgeom) scanned, %d compute coordinates", scanned, fabricators), fmt.Sprintf("only %d functions scanned", scanned))

	// (b) input vertices are confined
	idx := c.P.SiteIndex(c.P.VTA())
	followSet := func(f *ssa.Function) bool {
		sp := core.ShortPkg(core.FuncPkgPath(f))
		return sp == "snap" || sp == "mapslicehelp" || sp == "geomhelp"
	}
	polyParam := aps.SSA.Params[1]
	seeds := []ssa.Value{polyParam}
	var T map[ssa.Value]bool
	for round := 0; round < 4; round++ {
		T = core.FlowOpts{Idx: idx, Follow: followSet, Returns: true, Callers: callersIndex(c), Containers: true}.Run(seeds)
		grew := false
		// geom.Polygon.LinearRings() hands out the polygon's own rings
		for v := range T {
			if refs := v.Referrers(); refs != nil {
				for _, r := range *refs {
					if call, ok := r.(*ssa.Call); ok && core.StaticCalleeID(call) == "github.com/go-spatial/geom.Polygon.LinearRings" && !T[call] {
						seeds = append(seeds, call)
						grew = true
					}
				}
			}
		}
		if !grew {
			break
		}
	}
	allowedCallees := map[string]bool{
		"github.com/go-spatial/geom.Polygon.LinearRings":          true,
		core.ModPath + "/pointindex.PointIndex.SnapClosestPoints": true,
		"github.com/go-spatial/geom/winding.Order.OfPoints":       true,
		"fmt.Sprintf": true, "fmt.Sprint": true,
	}
	leaks := 0
	sinksSeen := map[string]bool{}
	for v := range T {
		refs := v.Referrers()
		if refs == nil {
			continue
		}
		for _, r := range *refs {
			fn := r.Parent()
			if !followSet(fn) {
				continue
			}
			report := func(msg string) {
				leaks++
				c.Bad(R, fmt.Sprintf("input-vertices-confined/%s#%d", shortFn(fn), leaks), r.Pos(), "a value derived from the input polygon "+msg+": raw input coordinates can reach the output instead of pixel centres")
			}
			switch x := r.(type) {
			case *ssa.MapUpdate:
				if x.Value == v {
					report("is stored into a map (" + x.String() + ")")
				}
			case *ssa.Send:
				report("is sent on a channel")
			case *ssa.Store:
				if x.Val != v {
					continue
				}
				base := x.Addr
				for {
					if ia, ok := base.(*ssa.IndexAddr); ok {
						base = ia.X
					} else if fa, ok := base.(*ssa.FieldAddr); ok {
						base = fa.X
					} else {
						break
					}
				}
				a, isAlloc := base.(*ssa.Alloc)
				switch {
				case isAlloc && !a.Heap:
				case isAlloc && (a.Comment == "complit" || a.Comment == "varargs"):
					// local composite literal / varargs array (segment, panic message)
				case strings.HasPrefix(fn.Name(), "ReverseClone"):
					sinksSeen["ReverseClone (input copy)"] = true
				default:
					report("is stored into heap memory (" + x.String() + " in " + fn.Name() + ")")
				}
			case ssa.CallInstruction:
				com := x.Common()
				if b, ok := com.Value.(*ssa.Builtin); ok {
					if b.Name() == "append" {
						for i, a := range com.Args {
							if a == v && i >= 1 {
								report("is appended to a slice (" + x.String() + " in " + fn.Name() + ")")
							}
						}
					}
					continue
				}
				cal := com.StaticCallee()
				if cal == nil {
					if com.IsInvoke() {
						report("is passed to a dynamic call")
					}
					continue
				}
				if followSet(cal) {
					sinksSeen[cal.Name()] = true
					continue
				}
				id := core.FuncID(funcObj(cal))
				if !allowedCallees[id] && !strings.HasPrefix(id, "slices.") && core.FuncPkgPath(cal) != "fmt" {
					report("is passed to " + cal.String())
				} else {
					sinksSeen[cal.Name()] = true
				}
			}
		}
	}
	c.Check(R, "input-vertices-confined/summary", aps.Decl.Pos(), leaks == 0 && sinksSeen["SnapClosestPoints"],
		fmt.Sprintf("values derived from addPointsAndSnap's polygon (%d SSA values) only reach: %v; never an append/store/map update of an output structure", len(T), keys(sinksSeen)),
		fmt.Sprintf("%d leaks of input-derived values", leaks))

	// (c) what the index hands out
	sp := c.Anchor(R, "snap.SnapPolygon")
	if sp != nil {
		reachAll := core.ReachableNoStdlibTransit(c.P.VTA(), sp.SSA)
		n := 0
		for f := range reachAll {
			spk := core.ShortPkg(core.FuncPkgPath(f))
			if spk != "pointindex" && spk != "snap" {
				continue
			}
			for _, b := range f.Blocks {
				for _, in := range b.Instrs {
					call, ok := in.(*ssa.Call)
					if !ok {
						continue
					}
					id := core.StaticCalleeID(call)
					if !strings.HasPrefix(id, core.ModPath+"/intgeom.") || !strings.Contains(id, "ToGeom") {
						continue
					}
					n++
					construct := fmt.Sprintf("int-to-float-only-for-centroids/%s/%s", shortFn(f), call.Call.StaticCallee().Name())
					okc := false
					why := "ToGeomPoint applied to a stored Quadrant.intCentroid"
					if call.Call.StaticCallee().Name() == "ToGeomPoint" && len(call.Call.Args) == 1 {
						okc = isFieldRead(call.Call.Args[0], "intCentroid")
						if !okc {
							// used as a lookup key only (never stored as a value, appended or returned)
							keyOnly := len(*call.Referrers()) > 0
							var chk func(v ssa.Value)
							chk = func(v ssa.Value) {
								for _, r := range *v.Referrers() {
									switch x := r.(type) {
									case *ssa.ChangeType:
										chk(x)
									case *ssa.MapUpdate:
										if x.Key != v || x.Value == v {
											keyOnly = false
										}
									case *ssa.DebugRef:
									default:
										keyOnly = false
									}
								}
							}
							chk(call)
							if keyOnly {
								okc = true
								why = "converted value is only used as a map key (lookup set), it cannot become an output coordinate"
							}
						}
					}
					c.Check(R, construct, call.Pos(), okc, why, "integer coordinates other than a stored pixel centre are converted to output floats: "+call.String())
				}
			}
		}
		if n == 0 {
			c.Bad(R, "int-to-float-only-for-centroids/none", sp.Decl.Pos(), "no ToGeomPoint call found on the snapping call graph in pointindex/snap (floor 1)")
		}
	}
	// stores to Quadrant.intCentroid / intExtent
	pk := c.P.PkgShort("pointindex")
	if pk != nil {
		for _, fn := range sortedFuncs(c.P) {
			if fn.Pkg != pk || fn.SSA == nil {
				continue
			}
			for _, b := range fn.SSA.Blocks {
				for _, in := range b.Instrs {
					st, ok := in.(*ssa.Store)
					if !ok {
						continue
					}
					// the field itself, or one ordinate of it (an array literal is built in place, element by element)
					addr, partial := st.Addr, false
					for {
						ia, isIdx := addr.(*ssa.IndexAddr)
						if !isIdx {
							break
						}
						addr, partial = ia.X, true
					}
					fa, ok := addr.(*ssa.FieldAddr)
					if !ok {
						continue
					}
					pt, _ := fa.X.Type().Underlying().(*types.Pointer)
					if pt == nil || core.TypeShort(pt.Elem()) != "pointindex.Quadrant" {
						continue
					}
					stt := pt.Elem().Underlying().(*types.Struct)
					field := stt.Field(fa.Field).Name()
					if field != "intCentroid" && field != "intExtent" {
						continue
					}
					construct := fmt.Sprintf("centroid-writer/%s/%s", fn.Name, field)
					okw := false
					why := st.Val.String()
					if partial {
						construct += "/ordinate"
						why = "one ordinate computed in place: " + why
					}
					if e, ok := st.Val.(*ssa.Extract); ok && !partial {
						if call, ok := e.Tuple.(*ssa.Call); ok && call.Call.StaticCallee() != nil && call.Call.StaticCallee().Name() == "getQuadrantExtentAndCentroid" {
							want := map[string]int{"intExtent": 0, "intCentroid": 1}[field]
							okw = e.Index == want
							why = fmt.Sprintf("result #%d of getQuadrantExtentAndCentroid", e.Index)
						}
					}
					if fn.Name == "pointindex.FromTileMatrixSet" && field == "intExtent" {
						okw = true
						why = "root extent from the tile matrix set bounding box"
					}
					c.Check(R, construct, st.Pos(), okw, field+" <- "+why, "Quadrant."+field+" is written with "+why+" (pixel centres must come from getQuadrantExtentAndCentroid, index-aligned)")
				}
			}
		}
	}
	c.FloorPrefix(R, "centroid-writer/", 3)
	c.Floor(R, 7)
}

// R08: ownership of the hot-pixel set.
func r08HotPixelOwnership(c *core.Ctx) {
	const R = "R08"
	ic := c.Anchor(R, "pointindex.PointIndex.InsertCoord")
	ici := c.Anchor(R, "pointindex.PointIndex.insertCoord")
	scp := c.Anchor(R, "pointindex.PointIndex.snapClosestPoints")
	if ic == nil || ici == nil || scp == nil {
		return
	}
	// inner-map updates of ix.quadrants
	isQuadrantsInner := func(m ssa.Value) bool {
		lk, ok := m.(*ssa.Lookup)
		return ok && isFieldRead(lk.X, "quadrants")
	}
	n := 0
	// insertCoord itself, or a helper that only insertCoord (or such a helper) calls
	callersOf := callersIndex(c)
	var ownedByInsertCoord func(fn *ssa.Function, depth int) bool
	ownedByInsertCoord = func(fn *ssa.Function, depth int) bool {
		if fn == ici.SSA {
			return true
		}
		sites := callersOf(fn)
		if depth > 3 || len(sites) == 0 {
			return false
		}
		for _, s := range sites {
			if !ownedByInsertCoord(s.Parent(), depth+1) {
				return false
			}
		}
		return true
	}
	for _, fn := range allModFuncs(c.P) {
		for _, b := range fn.Blocks {
			for _, in := range b.Instrs {
				mu, ok := in.(*ssa.MapUpdate)
				if !ok {
					continue
				}
				switch {
				case isQuadrantsInner(mu.Map):
					n++
					c.Check(R, "hot-pixel-writer/"+shortFn(fn), mu.Pos(), ownedByInsertCoord(fn, 0), "pixels are stored by insertCoord only", "the hot-pixel set is written in "+fn.String()+" (only insertCoord may add pixels, after the range check)")
				case isFieldRead(mu.Map, "quadrants"):
					_, isMake := mu.Value.(*ssa.MakeMap)
					c.Check(R, "level-table-init/"+shortFn(fn), mu.Pos(), isMake, "per-level table initialised with an empty map", "ix.quadrants[level] is assigned something other than a fresh empty map in "+fn.String())
				}
			}
		}
	}
	if n == 0 {
		c.Bad(R, "hot-pixel-writer/none", ici.Decl.Pos(), "no store into ix.quadrants[level][z] found")
	}
	// insertCoord called only from InsertCoord, behind the failed range check
	callers := callersIndex(c)
	sites := callers(ici.SSA)
	okCall := len(sites) == 1 && sites[0].Parent() == ic.SSA
	if okCall {
		// dominated by the false edge of the first If (the range check)
		site := sites[0]
		var guard *ssa.If
		for _, b := range ic.SSA.Blocks {
			if i := core.BlockIf(b); i != nil && guard == nil {
				guard = i
			}
		}
		// search from entry never entering the "return error" region: the call must be unreachable if we refuse every edge that leads away from MakeInterface/return
		r, _ := core.Search{Fn: ic.SSA, Target: func(in ssa.Instruction) bool { return in == ssa.Instruction(site.(*ssa.Call)) }, Barrier: func(in ssa.Instruction) bool {
			_, isRet := in.(*ssa.Return)
			return isRet
		}}.Run()
		// all returns before the call return a non-nil error
		errRetOK := true
		for _, b := range ic.SSA.Blocks {
			for _, in := range b.Instrs {
				if ret, ok := in.(*ssa.Return); ok {
					if !core.Dominates(site.(*ssa.Call), ret) {
						if _, isMI := ret.Results[0].(*ssa.MakeInterface); !isMI {
							errRetOK = false
						}
					} else if !isNilConst(ret.Results[0]) {
						errRetOK = false
					}
				}
			}
		}
		okCall = r && guard != nil && errRetOK
	}
	c.Check(R, "insert-only-after-range-check/"+ic.Name, ic.Decl.Pos(), okCall, "insertCoord has one call site, in InsertCoord, after the range check; rejected coordinates return an error and success is reported only after insertion",
		"insertCoord is called from elsewhere, or not strictly behind InsertCoord's range check (a clamped or unchecked coordinate could be stored)")
	// arguments of insertCoord are InsertCoord's own parameters, unmodified
	if len(sites) == 1 {
		com := sites[0].Common()
		same := len(com.Args) == 3 && com.Args[1] == ssa.Value(ic.SSA.Params[1]) && com.Args[2] == ssa.Value(ic.SSA.Params[2])
		c.Check(R, "checked-coordinate-is-inserted/"+ic.Name, sites[0].Pos(), same, "the coordinates that were range-checked are the ones inserted", "InsertCoord inserts values other than the ones it checked (e.g. clamped)")
	}
	// InsertCoord's callers
	var who []string
	for _, s := range callers(ic.SSA) {
		who = append(who, shortFn(s.Parent()))
	}
	c.Check(R, "insertcoord-callers", ic.Decl.Pos(), len(who) == 1 && who[0] == "(*pointindex.PointIndex).InsertPoint", "InsertCoord is called only from InsertPoint", fmt.Sprintf("InsertCoord callers: %v", who))
	// routed pixels are looked up in ix.quadrants / the root quadrant
	okSrc := true
	detail := ""
	for _, b := range scp.SSA.Blocks {
		for _, in := range b.Instrs {
			mu, ok := in.(*ssa.MapUpdate)
			if !ok {
				continue
			}
			// quadrantsWithPoints[q] = quadrant  where quadrant, exists := ix.quadrants[level][z]
			if core.TypeShort(mu.Value.Type()) == "pointindex.Quadrant" {
				e, isE := mu.Value.(*ssa.Extract)
				if !isE {
					okSrc = false
					detail = mu.String()
					continue
				}
				lk, isL := e.Tuple.(*ssa.Lookup)
				if !isL || !isQuadrantsInner(lk.X) {
					okSrc = false
					detail = mu.String()
				}
			}
		}
	}
	c.Check(R, "routed-pixels-come-from-the-index/"+scp.Name, scp.Decl.Pos(), okSrc, "candidate pixels are values looked up in ix.quadrants[level]", "snapClosestPoints routes through a pixel that was not looked up in the hot-pixel set: "+detail)
	c.Floor(R, 5)
}

// R09: both copies of the level arithmetic agree.
func r09LevelArithmetic(c *core.Ctx) {
	const R = "R09"
	a := c.Anchor(R, "pointindex.FromTileMatrixSet")
	b := c.Anchor(R, "snap.tileMatrixIDsByLevels")
	if a == nil || b == nil {
		return
	}
	// the level as a polynomial over the code's symbols, temporaries inlined
	norm := func(p lpoly, idSym string, f *core.Func) lpoly {
		p = pRename(p, "pointindex.", "")
		// the tile matrix set parameter has a different name in the two functions
		p = pRename(p, f.Obj.Type().(*types.Signature).Params().At(0).Name()+".", "TMS.")
		return pRename(p, idSym, "ID")
	}
	// (a) FromTileMatrixSet: the value of the deepestLevel field of the PointIndex literal
	var la lpoly
	{
		info := a.Pkg.TypesInfo
		env := newSymEnv(c.P, info)
		env.run(a.Decl.Body.List)
		if lit := findLit(info, a.Decl.Body, "pointindex.PointIndex"); lit != nil {
			for _, el := range lit.Elts {
				if kv, ok := el.(*ast.KeyValueExpr); ok && canon(kv.Key) == "deepestLevel" {
					if p, ok := env.eval(kv.Value); ok {
						la = norm(p, a.Obj.Type().(*types.Signature).Params().At(1).Name(), a)
					}
				}
			}
		}
	}
	// (b) tileMatrixIDsByLevels: the key under which an id is stored
	var lb lpoly
	{
		info := b.Pkg.TypesInfo
		env := newSymEnv(c.P, info)
		env.run(b.Decl.Body.List)
		ast.Inspect(b.Decl.Body, func(n ast.Node) bool {
			as, ok := n.(*ast.AssignStmt)
			if !ok || len(as.Lhs) != 1 {
				return true
			}
			if ix, ok := as.Lhs[0].(*ast.IndexExpr); ok && isLevelKeyed(info.TypeOf(ix.X)) {
				if p, ok := env.eval(ix.Index); ok {
					idName := canon(as.Rhs[0])
					lb = norm(p, idName, b)
				}
			}
			return true
		})
	}
	same := la != nil && lb != nil && pEq(la, lb)
	sa, sb := "?", "?"
	if la != nil {
		sa = la.String()
	}
	if lb != nil {
		sb = lb.String()
	}
	c.Check(R, "level-diff-agrees", a.Decl.Pos(), same, "level is computed identically in pointindex.FromTileMatrixSet and snap.tileMatrixIDsByLevels: "+sa,
		fmt.Sprintf("the two copies of the level arithmetic differ: %q vs %q — the index is built at a different depth than the levels that are requested from it", sa, sb))
	// shape: ID + log2(root tile width) + log2(16), each with coefficient 1
	want := pAdd(pAdd(pSym("ID"), pSym("math.Log2(float64(TMS.TileMatrices[0].TileWidth))"), 1), pSym("math.Log2(float64(VectorTileInternalPixelResolution))"), 1)
	kv := int64(0)
	if pk := c.P.PkgShort("pointindex"); pk != nil {
		if k, ok := pk.Types.Scope().Lookup("VectorTileInternalPixelResolution").(*types.Const); ok {
			fmt.Sscan(k.Val().ExactString(), &kv)
		}
	}
	rootOK := true
	for _, f := range []*core.Func{a, b} {
		src := canonNode(c.P, f.Decl.Body)
		if !strings.Contains(src, ".TileMatrices[0]") {
			rootOK = false
		}
	}
	c.Check(R, "level-diff-operands", a.Decl.Pos(), la != nil && pEq(la, want) && kv == 16 && rootOK, "level = id + log2(tile width of matrix 0) + log2(VectorTileInternalPixelResolution = 16 = 4096/256)",
		fmt.Sprintf("the level is %s, expected id + log2(root tile width) + log2(16) (constant is %d)", sa, kv))
	c.Check(R, "level-is-id-plus-diff", b.Decl.Pos(), lb != nil && pEq(lb, want), "snap's copy has the same shape", "snap's level formula is "+sb)
	c.Floor(R, 3)
}

// R11: a level that is present has geometry.
func r11PresentLevelHasGeometry(c *core.Ctx) {
	const R = "R11"
	f := c.Anchor(R, "snap.addPointsAndSnap")
	conv := c.Anchor(R, "geomhelp.FloatPolygonsToGeomPolygonsForAllKeys")
	sp := c.Anchor(R, "snap.SnapPolygon")
	if f == nil || conv == nil || sp == nil {
		return
	}
	res, updates, _ := resultMapUpdates(c, f, conv)
	if res == nil {
		c.Bad(R, "result-map/"+f.Name, f.Decl.Pos(), "addPointsAndSnap does not return FloatPolygonsToGeomPolygonsForAllKeys(<map>)")
		return
	}
	n := 0
	for _, mu := range updates {
		n++
		construct := fmt.Sprintf("stored-level-is-non-empty/%s#%d", f.Name, n)
		okc := false
		why := ""
		if call, isCall := mu.Value.(*ssa.Call); isCall {
			if _, isApp := isBuiltinCall(call, "append"); isApp && len(sliceLitElems(call.Call.Args[1])) >= 1 {
				okc = true
				why = "append with at least one element"
			}
		}
		if !okc {
			// dominated by len(value) > 0
			for _, b := range mu.Parent().Blocks {
				i := core.BlockIf(b)
				if i == nil {
					continue
				}
				cmp, isCmp := i.Cond.(*ssa.BinOp)
				if !isCmp || cmp.Op != token.GTR || !isConstInt(cmp.Y, 0) {
					continue
				}
				lc, isLen := cmp.X.(*ssa.Call)
				if !isLen {
					continue
				}
				if _, ok := isBuiltinCall(lc, "len"); ok && lc.Call.Args[0] == mu.Value && b.Succs[0].Dominates(mu.Block()) {
					okc = true
					why = "guarded by len(value) > 0"
				}
			}
		}
		c.Check(R, construct, mu.Pos(), okc, why, "a level can be stored with an empty polygon list: the consumer (processing.processFeatures) panics on `len(newPolygons) == 0`")
	}
	// converter keeps keys 1:1
	okConv := false
	{
		info := conv.Pkg.TypesInfo
		for _, s := range conv.Decl.Body.List {
			if r, ok := s.(*ast.RangeStmt); ok && len(r.Body.List) == 1 && !hasJump(r.Body, token.CONTINUE, token.BREAK).IsValid() {
				if as, ok := r.Body.List[0].(*ast.AssignStmt); ok && len(as.Lhs) == 1 {
					if ix, ok := as.Lhs[0].(*ast.IndexExpr); ok && core.ObjOf(info, ix.Index) == core.ObjOf(info, r.Key) {
						okConv = strings.Contains(canon(as.Rhs[0]), "["+canon(r.Key)+"]")
					}
				}
			}
		}
	}
	c.Check(R, "converter-keeps-keys/"+conv.Name, conv.Decl.Pos(), okConv, "out[k] = convert(in[k]) for every key", "FloatPolygonsToGeomPolygonsForAllKeys does not map every key to its own value")
	// SnapPolygon copies level -> id per key (R15 proves injectivity)
	okCopy := false
	{
		info := sp.Pkg.TypesInfo
		for _, s := range sp.Decl.Body.List {
			if r, ok := s.(*ast.RangeStmt); ok && len(r.Body.List) == 1 {
				if as, ok := r.Body.List[0].(*ast.AssignStmt); ok && len(as.Lhs) == 1 && core.ObjOf(info, as.Rhs[0]) == core.ObjOf(info, r.Value) && r.Value != nil {
					if ix, ok := as.Lhs[0].(*ast.IndexExpr); ok {
						if inner, ok := ix.Index.(*ast.IndexExpr); ok && core.ObjOf(info, inner.Index) == core.ObjOf(info, r.Key) {
							okCopy = true
						}
					}
				}
			}
		}
	}
	c.Check(R, "result-copied-per-level/"+sp.Name, sp.Decl.Pos(), okCopy, "result[tmIDsByLevels[level]] = polygons of that level", "SnapPolygon does not copy each level's polygons under that level's tile matrix id")
	c.Floor(R, 4)
}

// resultMapUpdates finds the map addPointsAndSnap hands to the converter in its return statement and every store
// into that map, in addPointsAndSnap itself or in a module helper the map is handed to (sorted by position).
func resultMapUpdates(c *core.Ctx, f, conv *core.Func) (ssa.Value, []*ssa.MapUpdate, map[ssa.Value]bool) {
	var res ssa.Value
	for _, b := range f.SSA.Blocks {
		for _, in := range b.Instrs {
			if ret, ok := in.(*ssa.Return); ok && len(ret.Results) == 1 {
				if call, ok := ret.Results[0].(*ssa.Call); ok && call.Call.StaticCallee() != nil && call.Call.StaticCallee().Origin() == conv.SSA {
					res = call.Call.Args[0]
				}
			}
		}
	}
	if res == nil {
		return nil, nil, nil
	}
	flow := core.FlowOpts{Idx: c.P.SiteIndex(c.P.VTA()), Follow: func(g *ssa.Function) bool {
		return core.IsModPath(core.FuncPkgPath(g)) && g.Origin() != conv.SSA && g != conv.SSA
	}}.Run([]ssa.Value{res})
	var updates []*ssa.MapUpdate
	hosts := map[*ssa.Function]bool{f.SSA: true}
	for v := range flow {
		if prm, ok := v.(*ssa.Parameter); ok && prm.Parent() != nil {
			hosts[prm.Parent()] = true
		}
	}
	for h := range hosts {
		for _, b := range h.Blocks {
			for _, in := range b.Instrs {
				if mu, ok := in.(*ssa.MapUpdate); ok && flow[mu.Map] {
					updates = append(updates, mu)
				}
			}
		}
	}
	sort.Slice(updates, func(i, j int) bool { return updates[i].Pos() < updates[j].Pos() })
	return res, updates, flow
}

func isConstInt(v ssa.Value, want int64) bool {
	k, ok := v.(*ssa.Const)
	return ok && k.Value != nil && k.Value.Kind() == constant.Int && k.Int64() == want
}

// R12: ring-size guards in cleanupNewRing and the keep/drop policy in addPointsAndSnap.
func r12RingSizeGuards(c *core.Ctx) {
	const R = "R12"
	f := c.Anchor(R, "snap.cleanupNewRing")
	aps := c.Anchor(R, "snap.addPointsAndSnap")
	if f == nil || aps == nil {
		return
	}
	fn := f.SSA
	kd := findCallsByName(fn, "kmpDeduplicate")
	sr := findCallsByName(fn, "splitRing")
	if len(kd) != 1 || len(sr) != 1 {
		c.Bad(R, "shape/"+f.Name, f.Decl.Pos(), "expected one kmpDeduplicate and one splitRing call")
		return
	}
	// guarded: call only reachable through the false edge of `len(arg) < 3`
	guarded := func(call *ssa.Call) bool {
		arg := call.Call.Args[0]
		for _, b := range fn.Blocks {
			i := core.BlockIf(b)
			if i == nil {
				continue
			}
			cmp, ok := i.Cond.(*ssa.BinOp)
			if !ok {
				continue
			}
			// the edge on which the ring is known to have at least three vertices: len < 3 false, len <= 2 false,
			// len >= 3 true, len > 2 true (and the mirrored spellings)
			x, y, op := cmp.X, cmp.Y, cmp.Op
			if _, isK := x.(*ssa.Const); isK {
				x, y = y, x
				op = map[token.Token]token.Token{token.LSS: token.GTR, token.GTR: token.LSS, token.LEQ: token.GEQ, token.GEQ: token.LEQ}[op]
			}
			bigEdge := -1
			switch {
			case op == token.LSS && isConstInt(y, 3), op == token.LEQ && isConstInt(y, 2):
				bigEdge = 1
			case op == token.GEQ && isConstInt(y, 3), op == token.GTR && isConstInt(y, 2):
				bigEdge = 0
			}
			if bigEdge < 0 || !isLenOf(x, arg) {
				continue
			}
			r, _ := core.Search{Fn: fn, Target: instrIs(call), Edge: func(bb *ssa.BasicBlock, k int) bool { return !(bb == b && k == bigEdge) }}.Run()
			if !r {
				return true
			}
		}
		return false
	}
	c.Check(R, "dedup-needs-three-vertices/"+f.Name, kd[0].Pos(), guarded(kd[0]), "kmpDeduplicate only runs on rings with at least 3 vertices (after the closing vertex was removed)", "kmpDeduplicate can be reached with a ring of fewer than 3 vertices (it indexes backwards into the ring)")
	c.Check(R, "split-needs-three-vertices/"+f.Name, sr[0].Pos(), guarded(sr[0]) && sr[0].Call.Args[0] == ssa.Value(kd[0]), "splitRing only runs on the de-duplicated ring when it still has at least 3 vertices", "splitRing can be reached with fewer than 3 vertices, or not on the de-duplicated ring")
	// short rings leave through the third result only
	okShort := true
	nshort := 0
	for _, b := range fn.Blocks {
		for _, in := range b.Instrs {
			ret, ok := in.(*ssa.Return)
			if !ok || len(ret.Results) != 3 {
				continue
			}
			if core.Dominates(sr[0], ret) {
				continue
			}
			nshort++
			if !isNilConst(ret.Results[0]) || !isNilConst(ret.Results[1]) || len(sliceLitElems(ret.Results[2])) != 1 {
				okShort = false
			}
		}
	}
	c.Check(R, "short-rings-are-points-and-lines/"+f.Name, f.Decl.Pos(), okShort && nshort >= 1, "every short-ring exit returns the ring only as points-and-lines", "a ring with fewer than 3 vertices is returned as an outer or inner ring")
	// closing vertex removed before the first size test: the ring handed to kmpDeduplicate is, on every path, the
	// parameter itself or parameter[:len-1], the latter exactly when len > 1 && ring[0] == ring[len-1]; the
	// removal may live in cleanupNewRing or in a helper it calls
	{
		why := closingVertexDropped(c.P, fn, fn.Params[0], kd[0].Call.Args[0])
		c.Check(R, "closing-vertex-removed-first/"+f.Name, f.Decl.Pos(), why == "", "a repeated closing vertex is dropped (exactly when the ring has more than one vertex and first == last) before the size test", "the closing vertex is not removed before rings are measured: "+why)
	}
	// keep/drop policy in addPointsAndSnap
	info := aps.Pkg.TypesInfo
	var call *ast.CallExpr
	for _, cl := range core.CallsIn(info, aps.Decl, "snap.cleanupNewRing") {
		call = cl
	}
	if call == nil {
		c.Bad(R, "policy/"+aps.Name, aps.Decl.Pos(), "no cleanupNewRing call")
		return
	}
	var loop *ast.RangeStmt
	var resAssign *ast.AssignStmt
	for _, pn := range pathTo(aps.Decl.Body, call) {
		if r, ok := pn.(*ast.RangeStmt); ok {
			loop = r
		}
		if as, ok := pn.(*ast.AssignStmt); ok {
			resAssign = as
		}
	}
	if loop == nil || resAssign == nil || len(resAssign.Lhs) != 3 {
		c.Bad(R, "policy/"+aps.Name, call.Pos(), "cleanupNewRing's three results are not assigned inside a per-level loop")
		return
	}
	outerRes, plRes := core.ObjOf(info, resAssign.Lhs[0]), core.ObjOf(info, resAssign.Lhs[2])
	lvl := core.ObjOf(info, loop.Key)
	isOuterArg := core.ObjOf(info, call.Args[1])
	isKeep := func(e ast.Expr) bool { return core.SelFieldID(info, e) == "snap.Config.KeepPointsAndLines" }
	isLenZero := func(e ast.Expr, o types.Object) bool {
		be, ok := ast.Unparen(e).(*ast.BinaryExpr)
		if !ok || be.Op != token.EQL || canon(be.Y) != "0" {
			return false
		}
		lc, ok := ast.Unparen(be.X).(*ast.CallExpr)
		return ok && core.IsBuiltinCall(info, lc, "len") && core.ObjOf(info, lc.Args[0]) == o && o != nil
	}
	// delete(levelMap, level) exactly when isOuter && len(outer)==0 && (!keep || len(pl)==0): decision table over
	// the four conditions, read from the SSA of the loop body (whatever the form: one condition, named parts, …)
	dropOK := false
	dropWhy := "no delete(levelMap, level) after cleanupNewRing"
	if cs, _ := core.CallAt(aps.SSA, call.Lparen).(*ssa.Call); cs != nil {
		var del *ssa.Call
		for _, b := range aps.SSA.Blocks {
			for _, in := range b.Instrs {
				if dc, ok := isBuiltinCall(in, "delete"); ok && core.Dominates(cs, dc) {
					del = dc
				}
			}
		}
		outerV, plV := extractOf(cs, 0), extractOf(cs, 2)
		var isOuterV ssa.Value
		if len(cs.Call.Args) > 1 {
			isOuterV = cs.Call.Args[1]
		}
		if del != nil && outerV != nil && plV != nil && isOuterV != nil {
			var header *ssa.BasicBlock
			if nx, _ := rangeNextOf(del.Call.Args[1]); nx != nil {
				header = nx.Block()
			}
			lenZero := func(v ssa.Value, of ssa.Value) (bool, bool) { // (matches, negated)
				bo, ok := v.(*ssa.BinOp)
				if !ok || !isConstInt(bo.Y, 0) {
					return false, false
				}
				lc, ok := bo.X.(*ssa.Call)
				if !ok {
					return false, false
				}
				if _, isLen := isBuiltinCall(lc, "len"); !isLen || lc.Call.Args[0] != of {
					return false, false
				}
				switch bo.Op {
				case token.EQL:
					return true, false
				case token.NEQ, token.GTR:
					return true, true
				}
				return false, false
			}
			atom := func(_ *boolFrame, v ssa.Value) (string, bool, bool) {
				if v == isOuterV {
					return "O", false, true
				}
				if isFieldRead(v, "KeepPointsAndLines") {
					return "K", false, true
				}
				if m, neg := lenZero(v, outerV); m {
					return "E", neg, true
				}
				if m, neg := lenZero(v, plV); m {
					return "P", neg, true
				}
				return "", false, false
			}
			dropOK, dropWhy = true, ""
			names := []string{"O", "E", "K", "P"}
			for m := 0; m < 16 && dropOK; m++ {
				as := map[string]bool{}
				for i, n := range names {
					as[n] = m&(1<<i) != 0
				}
				bi := &boolInterp{roleOf: func(*boolFrame, ssa.Value) string { return "" }, atom: atom, assign: as, used: map[string]bool{}}
				fr := &boolFrame{fn: aps.SSA, roles: map[ssa.Value]string{}, env: map[ssa.Value]bool{}}
				stop := map[*ssa.BasicBlock]bool{del.Block(): true}
				if header != nil {
					stop[header] = true
				}
				// start right after the call: the rest of its block, then on
				out, err := bi.runFrom(fr, cs, stop)
				if err != nil {
					dropOK, dropWhy = false, "whether the level is dropped depends on more than the four conditions of the policy: "+err.Error()
					break
				}
				deleted := out.kind == "block" && out.blk == del.Block()
				want := as["O"] && as["E"] && (!as["K"] || as["P"])
				if deleted != want {
					dropOK, dropWhy = false, fmt.Sprintf("with shell=%v, no outer rings=%v, keep=%v, no points/lines=%v the level is dropped=%v, the policy says %v", as["O"], as["E"], as["K"], as["P"], deleted, want)
				}
			}
		}
	}
	_ = isKeep
	_ = isLenZero
	_ = lvl
	_ = isOuterArg
	_, _ = outerRes, plRes
	c.Check(R, "level-dropped-only-when-shell-collapses/"+aps.Name, call.Pos(), dropOK, "delete(levelMap, level) iff isOuter && no outer rings && (!keep || no points/lines) (decision table, 16 rows)", "the condition under which a level is dropped changed: a level can be dropped for a collapsing hole, or kept/dropped against the keep-points-and-lines policy: "+dropWhy)
	// points and lines appended only under the option, to the level's own slot
	keepOK, napp := false, 0
	ast.Inspect(loop.Body, func(n ast.Node) bool {
		app, ok := n.(*ast.CallExpr)
		if !ok || !core.IsBuiltinCall(info, app, "append") || len(app.Args) != 2 || core.ObjOf(info, app.Args[1]) != plRes {
			return true
		}
		napp++
		facts := enclosingFacts(loop.Body, app)
		for _, pn := range pathTo(loop.Body, app) {
			if is, ok := pn.(*ast.IfStmt); ok && isKeep(is.Cond) && hasFact(facts, canon(is.Cond), true) {
				if ix, ok := ast.Unparen(app.Args[0]).(*ast.IndexExpr); ok && core.ObjOf(info, ix.Index) == lvl {
					keepOK = true
				}
			}
		}
		return true
	})
	c.Check(R, "points-and-lines-only-when-kept/"+aps.Name, call.Pos(), keepOK && napp == 1, "collapsed parts are appended (to the level's own list) only under config.KeepPointsAndLines", "points and lines are appended regardless of the keep-points-and-lines option (or not at all)")
	// points and lines come after the polygons: once a collapsed part has been appended to a level's list in the
	// result map, no path leads to a store of that level's polygons (which would overwrite it)
	if conv := c.P.Lookup("geomhelp.FloatPolygonsToGeomPolygonsForAllKeys"); conv != nil {
		res, updates, flow := resultMapUpdates(c, aps, conv)
		var plSites, polySites []ssa.Instruction
		why := ""
		for _, mu := range updates {
			isPL := false
			if ac, isCall := mu.Value.(*ssa.Call); isCall {
				if _, isApp := isBuiltinCall(ac, "append"); isApp && len(sliceLitElems(ac.Call.Args[1])) >= 1 {
					isPL = true
				}
			}
			site := ssa.Instruction(mu)
			if mu.Parent() != aps.SSA {
				site = nil
				for _, bb := range aps.SSA.Blocks {
					for _, in := range bb.Instrs {
						if ci, ok := in.(ssa.CallInstruction); ok && ci.Common().StaticCallee() == mu.Parent() {
							for _, a := range ci.Common().Args {
								if flow[a] {
									site = in
								}
							}
						}
					}
				}
				if site == nil {
					why = "a store into the result map happens in " + mu.Parent().String() + ", which addPointsAndSnap does not call directly with the map"
					continue
				}
			}
			if isPL {
				plSites = append(plSites, site)
			} else {
				polySites = append(polySites, site)
			}
		}
		okOrder := res != nil && why == "" && len(plSites) >= 1 && len(polySites) >= 1
		for _, pl := range plSites {
			for _, ps := range polySites {
				if found, _ := (core.Search{Fn: aps.SSA, From: pl, Target: instrIs(ps)}).Run(); found {
					okOrder = false
					why = "a store of a level's polygons at " + c.P.Pos(ps.Pos()) + " can follow the append of collapsed parts at " + c.P.Pos(pl.Pos())
				}
			}
		}
		c.Check(R, "points-and-lines-after-polygons/"+aps.Name, aps.Decl.Pos(), okOrder, fmt.Sprintf("%d append(s) of collapsed parts, none followed by a store of polygons (%d)", len(plSites), len(polySites)), "collapsed parts are not appended after the polygons: "+why)
	}
	c.Floor(R, 6)
}

// isNotOf: v is the negation of a read of the named field.
func isNotOf(v ssa.Value, field string) bool {
	u, ok := v.(*ssa.UnOp)
	return ok && u.Op == token.NOT && isFieldRead(u.X, field)
}

func findCallsByName(fn *ssa.Function, name string) []*ssa.Call {
	var out []*ssa.Call
	for _, b := range fn.Blocks {
		for _, in := range b.Instrs {
			if call, ok := in.(*ssa.Call); ok && call.Call.StaticCallee() != nil && call.Call.StaticCallee().Name() == name {
				out = append(out, call)
			}
		}
	}
	return out
}

// isLenOf: v is len(x) or a phi/value tracking len of x.
func isLenOf(v ssa.Value, x ssa.Value) bool {
	if call, ok := v.(*ssa.Call); ok {
		if _, isLen := isBuiltinCall(call, "len"); isLen && call.Call.Args[0] == x {
			return true
		}
	}
	// newRingLen phi paired with the newRing phi in the same block: every edge of the length phi is the
	// length of the corresponding edge of the ring phi (len(s) for s, len(s)-1 for s[:len(s)-1])
	if p, ok := v.(*ssa.Phi); ok {
		if px, ok := x.(*ssa.Phi); ok && px.Block() == p.Block() && len(p.Edges) == len(px.Edges) {
			for i := range p.Edges {
				if isLenOf(p.Edges[i], px.Edges[i]) {
					continue
				}
				if sl, ok := px.Edges[i].(*ssa.Slice); ok && sl.Low == nil && sl.High != nil && isLenMinusOne(p.Edges[i], sl.X) && isLenMinusOne(sl.High, sl.X) {
					continue
				}
				return false
			}
			return true
		}
	}
	return false
}

// isLenMinusOne: v is len(x) - 1.
func isLenMinusOne(v ssa.Value, x ssa.Value) bool {
	b, ok := v.(*ssa.BinOp)
	return ok && b.Op == token.SUB && isLenOf(b.X, x) && isConstInt(b.Y, 1)
}

// closingVertexDropped checks that out is in on every path except that it is in[:len(in)-1] exactly when
// len(in) > 1 && in[0] == in[len(in)-1].  out may be a phi in fn or the result of a one-result module helper.
// It returns "" or the reason the shape was not recognised.
func closingVertexDropped(p *core.Prog, fn *ssa.Function, in ssa.Value, out ssa.Value) string {
	if call, ok := out.(*ssa.Call); ok {
		g := call.Call.StaticCallee()
		if g == nil || len(g.Blocks) == 0 || !core.IsModPath(core.FuncPkgPath(g)) || g.Signature.Results().Len() != 1 {
			return "the ring measured is the result of a call that is not a one-result module helper"
		}
		j := -1
		for i, a := range call.Call.Args {
			if a == in {
				j = i
			}
		}
		if j < 0 {
			return "the helper is not called with the ring"
		}
		fn, in = g, g.Params[j]
		out = nil
	}
	type exit struct {
		val      ssa.Value
		from, to *ssa.BasicBlock // edge (phi form); to == nil: the return in block from
	}
	var exits []exit
	expand := func(v ssa.Value, retBlock *ssa.BasicBlock) {
		if ph, ok := v.(*ssa.Phi); ok {
			for i, e := range ph.Edges {
				exits = append(exits, exit{e, ph.Block().Preds[i], ph.Block()})
			}
			return
		}
		exits = append(exits, exit{v, retBlock, nil})
	}
	if out != nil {
		if _, ok := out.(*ssa.Phi); !ok {
			if out == in {
				return "the ring is measured as it came in"
			}
			return "the ring measured is not a merge of the ring and the ring without its last vertex"
		}
		expand(out, nil)
	} else {
		for _, b := range fn.Blocks {
			if len(b.Instrs) == 0 {
				continue
			}
			if r, ok := b.Instrs[len(b.Instrs)-1].(*ssa.Return); ok && len(r.Results) == 1 {
				expand(r.Results[0], b)
			}
		}
	}
	// the two conditions
	var ifLen, ifEq *ssa.If
	for _, b := range fn.Blocks {
		if len(b.Instrs) == 0 {
			continue
		}
		i, ok := b.Instrs[len(b.Instrs)-1].(*ssa.If)
		if !ok {
			continue
		}
		cmp, ok := i.Cond.(*ssa.BinOp)
		if !ok {
			continue
		}
		switch {
		case cmp.Op == token.GTR && isLenOf(cmp.X, in) && isConstInt(cmp.Y, 1),
			cmp.Op == token.GEQ && isLenOf(cmp.X, in) && isConstInt(cmp.Y, 2),
			cmp.Op == token.LSS && isLenOf(cmp.Y, in) && isConstInt(cmp.X, 1),
			cmp.Op == token.LEQ && isLenOf(cmp.Y, in) && isConstInt(cmp.X, 2):
			if ifLen != nil {
				return "more than one length test"
			}
			ifLen = i
		case cmp.Op == token.EQL:
			elem := func(v ssa.Value) (ssa.Value, bool) {
				u, ok := v.(*ssa.UnOp)
				if !ok || u.Op != token.MUL {
					return nil, false
				}
				ia, ok := u.X.(*ssa.IndexAddr)
				if !ok || ia.X != in {
					return nil, false
				}
				return ia.Index, true
			}
			l, lok := elem(cmp.X)
			r, rok := elem(cmp.Y)
			if lok && rok && ((isConstInt(l, 0) && isLenMinusOne(r, in)) || (isConstInt(r, 0) && isLenMinusOne(l, in))) {
				if ifEq != nil {
					return "more than one first==last test"
				}
				ifEq = i
			}
		}
	}
	if ifLen == nil {
		return "no test that the ring has more than one vertex (len > 1)"
	}
	if ifEq == nil {
		return "no test ring[0] == ring[len-1]"
	}
	reach := func(disabled func(b *ssa.BasicBlock, k int) bool) map[*ssa.BasicBlock]map[*ssa.BasicBlock]bool {
		// reachable edges: from -> to (to == nil marks that the block itself is reachable)
		seen := map[*ssa.BasicBlock]map[*ssa.BasicBlock]bool{}
		var visit func(b *ssa.BasicBlock)
		visit = func(b *ssa.BasicBlock) {
			if seen[b] != nil {
				return
			}
			seen[b] = map[*ssa.BasicBlock]bool{nil: true}
			for k, sb := range b.Succs {
				if disabled(b, k) {
					continue
				}
				seen[b][sb] = true
				visit(sb)
			}
		}
		visit(fn.Blocks[0])
		return seen
	}
	noTrueLen := reach(func(b *ssa.BasicBlock, k int) bool { return b == ifLen.Block() && k == 0 })
	noTrueEq := reach(func(b *ssa.BasicBlock, k int) bool { return b == ifEq.Block() && k == 0 })
	noFalse := reach(func(b *ssa.BasicBlock, k int) bool {
		return (b == ifLen.Block() || b == ifEq.Block()) && k == 1
	})
	nIn, nSl := 0, 0
	for _, e := range exits {
		switch {
		case e.val == in:
			nIn++
			if noFalse[e.from] != nil && noFalse[e.from][e.to] {
				return "the ring keeps its last vertex on a path where len > 1 and first == last"
			}
		default:
			sl, ok := e.val.(*ssa.Slice)
			if !ok || sl.X != in || sl.Low != nil || sl.High == nil || !isLenMinusOne(sl.High, in) {
				return "an exit yields something other than ring or ring[:len-1]"
			}
			nSl++
			if (noTrueLen[e.from] != nil && noTrueLen[e.from][e.to]) || (noTrueEq[e.from] != nil && noTrueEq[e.from][e.to]) {
				return "the last vertex is dropped on a path where len > 1 && first == last does not hold"
			}
		}
	}
	if nIn == 0 || nSl == 0 {
		return "the ring is not conditionally shortened"
	}
	return ""
}

// callTakes: v is one of the call's arguments (receiver included).
func callTakes(call *ssa.Call, v ssa.Value) bool {
	for _, a := range call.Call.Args {
		if a == v {
			return true
		}
	}
	return false
}

// R13: winding normalisation first, reversal last.
func r13WindingOrder(c *core.Ctx) {
	const R = "R13"
	aps := c.Anchor(R, "snap.addPointsAndSnap")
	rev := c.Anchor(R, "snap.reverseWindingOrderIfConfigured")
	if aps == nil || rev == nil {
		return
	}
	fn := aps.SSA
	dd := findCallsByName(fn, "dedupeInnersOuters")
	mi := findCallsByName(fn, "matchInnersToPolygons")
	rv := findCallsByName(fn, "reverseWindingOrderIfConfigured")
	// matching and reversal may stand together in a helper whose result is what they worked on
	var piped *ssa.Call // the value that is stored for the level
	okInner := true
	if len(dd) == 1 && len(mi) == 0 && len(rv) == 0 {
		for _, b := range fn.Blocks {
			for _, in := range b.Instrs {
				call, ok := in.(*ssa.Call)
				if !ok {
					continue
				}
				h := call.Call.StaticCallee()
				if h == nil || len(h.Blocks) == 0 || h.Pkg != fn.Pkg {
					continue
				}
				hm, hr := findCallsByName(h, "matchInnersToPolygons"), findCallsByName(h, "reverseWindingOrderIfConfigured")
				if len(hm) != 1 || len(hr) != 1 {
					continue
				}
				if piped != nil {
					okInner = false
				}
				piped = call
				mi, rv = hm, hr
				okInner = okInner && core.Dominates(hm[0], hr[0]) && callTakes(hr[0], hm[0])
				for _, hb := range h.Blocks {
					for _, hin := range hb.Instrs {
						if ret, isRet := hin.(*ssa.Return); isRet {
							if len(ret.Results) != 1 || ret.Results[0] != ssa.Value(hm[0]) || !core.Dominates(hr[0], ret) {
								okInner = false
							}
						}
					}
				}
				for _, r := range *hm[0].Referrers() {
					if c2, isC := r.(*ssa.Call); isC && c2 != hr[0] {
						if _, isLen := isBuiltinCall(c2, "len"); !isLen {
							okInner = false
						}
					}
				}
			}
		}
	}
	if len(dd) != 1 || len(mi) != 1 || len(rv) != 1 {
		c.Bad(R, "pipeline/"+aps.Name, aps.Decl.Pos(), "expected one call each of dedupeInnersOuters, matchInnersToPolygons, reverseWindingOrderIfConfigured")
		return
	}
	// order and value identity: reverse(x) where x = matchInners(...) result; stored value is x
	var okOrder, stored bool
	after := 0
	if piped == nil {
		okOrder = core.Dominates(dd[0], mi[0]) && core.Dominates(mi[0], rv[0]) && callTakes(rv[0], mi[0])
		for _, r := range *mi[0].Referrers() {
			if mu, ok := r.(*ssa.MapUpdate); ok && mu.Value == ssa.Value(mi[0]) {
				stored = core.Dominates(rv[0], mu)
			}
		}
		// nothing between reversal and store rewrites the polygons: no other call takes the value after rv
		for _, r := range *mi[0].Referrers() {
			if call, ok := r.(*ssa.Call); ok && call != rv[0] && core.Dominates(rv[0], call) {
				if _, isLen := isBuiltinCall(call, "len"); !isLen {
					after++
				}
			}
		}
	} else {
		okOrder = okInner && core.Dominates(dd[0], piped)
		for _, r := range *piped.Referrers() {
			if mu, ok := r.(*ssa.MapUpdate); ok && mu.Value == ssa.Value(piped) {
				stored = true
			}
			if call, ok := r.(*ssa.Call); ok {
				if _, isLen := isBuiltinCall(call, "len"); !isLen {
					after++
				}
			}
		}
	}
	c.Check(R, "reversal-is-last/"+aps.Name, rv[0].Pos(), okOrder && stored && after == 0, "dedupeInnersOuters -> matchInnersToPolygons -> reverseWindingOrderIfConfigured -> store, on the same value", "the configured reversal is not the last transformation before the level's polygons are stored (hole matching relies on normalised orientation)")
	// reversal covers every ring of every polygon, iff configured (SSA: independent of loop form)
	info := rev.Pkg.TypesInfo
	_ = info
	okRev := false
	revWhy := "no slices.Reverse call"
	{
		rfn := rev.SSA
		var rcall *ssa.Call
		for _, bb := range rfn.Blocks {
			for _, in := range bb.Instrs {
				if call, ok := in.(*ssa.Call); ok && strings.HasPrefix(core.StaticCalleeID(call), "slices.Reverse") {
					rcall = call
				}
			}
		}
		if rcall != nil {
			revWhy = ""
			// argument: element of element of the polygons parameter, indexed by two full-range loop counters
			elemOf := func(v ssa.Value) (base ssa.Value, idx *ssa.BinOp) {
				ia := sliceElemLoad(v)
				if ia == nil {
					return nil, nil
				}
				bo, _ := ia.Index.(*ssa.BinOp)
				return ia.X, bo
			}
			poly, j := elemOf(rcall.Call.Args[0])
			var param ssa.Value
			var i *ssa.BinOp
			if poly != nil {
				param, i = elemOf(poly)
			}
			_, isParam := param.(*ssa.Parameter) // the polygons, wherever they stand in the parameter list
			if !isParam || i == nil || j == nil {
				revWhy = "the reversed value is not polygons[i][j] for loop counters i, j"
			} else {
				inner, outer := sliceLoopOf(j, poly), sliceLoopOf(i, param)
				if inner == nil || outer == nil {
					revWhy = "the counters do not belong to range loops over the whole slices"
				} else {
					bodyEdge := func(l *loopInfo) func(*ssa.BasicBlock, int) bool {
						return func(bb *ssa.BasicBlock, k int) bool {
							if bb == l.header {
								return k == 0
							}
							return true
						}
					}
					skipInner, _ := core.Search{Fn: rfn, From: j, Target: instrIs(j), Barrier: instrIs(rcall), Edge: bodyEdge(inner)}.Run()
					skipOuter, _ := core.Search{Fn: rfn, From: i, Target: instrIs(i), Barrier: instrIs(j), Edge: bodyEdge(outer)}.Run()
					if skipInner || skipOuter {
						revWhy = "an iteration can complete without reversing its ring (skip)"
					}
					// only under the flag, and always under the flag
					// the flag: config.ReverseWindingOrder read here, or a bool parameter that every caller fills with it
					isFlag := func(v ssa.Value) bool {
						if isFieldRead(v, "ReverseWindingOrder") {
							return true
						}
						prm, ok := v.(*ssa.Parameter)
						if !ok || !isBoolType(prm.Type()) {
							return false
						}
						pi := -1
						for k, q := range rfn.Params {
							if q == prm {
								pi = k
							}
						}
						sites := callersIndex(c)(rfn)
						if pi < 0 || len(sites) == 0 {
							return false
						}
						for _, site := range sites {
							if pi >= len(site.Common().Args) || !isFieldRead(site.Common().Args[pi], "ReverseWindingOrder") {
								return false
							}
						}
						return true
					}
					var flagIf *ssa.If
					negated := false
					for _, bb := range rfn.Blocks {
						fi := core.BlockIf(bb)
						if fi == nil {
							continue
						}
						if isFlag(fi.Cond) {
							flagIf, negated = fi, false
						} else if u, ok := fi.Cond.(*ssa.UnOp); ok && u.Op == token.NOT && isFlag(u.X) {
							flagIf, negated = fi, true
						}
					}
					if flagIf == nil {
						revWhy += " no test of config.ReverseWindingOrder"
					} else {
						onSucc := 0
						if negated {
							onSucc = 1
						}
						without, _ := core.Search{Fn: rfn, Target: instrIs(rcall), Edge: func(bb *ssa.BasicBlock, k int) bool { return !(core.BlockIf(bb) == flagIf && k == onSucc) }}.Run()
						missed, _ := core.Search{Fn: rfn, Target: core.IsReturn, Barrier: instrIs(i), Edge: func(bb *ssa.BasicBlock, k int) bool { return !(core.BlockIf(bb) == flagIf && k != onSucc) }}.Run()
						if without {
							revWhy += " rings are reversed although the flag is not set"
						}
						if missed {
							revWhy += " with the flag set the function can return without entering the loops"
						}
					}
				}
			}
			okRev = revWhy == ""
		}
	}
	c.Check(R, "reversal-covers-every-ring/"+rev.Name, rev.Decl.Pos(), okRev, "iff config.ReverseWindingOrder: slices.Reverse(polygons[i][j]) for every i and j, no skip", "reverseWindingOrderIfConfigured does not reverse exactly every ring when (and only when) configured: "+revWhy)
	// the orientation predicate itself: decided by the trusted library primitive on the whole ring
	if w := c.Anchor(R, "snap.windingOrderIsCorrect"); w != nil {
		winfo := w.Pkg.TypesInfo
		calls := core.CallsIn(winfo, w.Decl, "github.com/go-spatial/geom/winding.Order.OfPoints")
		ring := w.Obj.Type().(*types.Signature).Params().At(0)
		okPrim := len(calls) == 1 && len(calls[0].Args) == 1 && calls[0].Ellipsis.IsValid() && core.ObjOf(winfo, calls[0].Args[0]) == ring
		if okPrim {
			c.OK(R, "orientation-by-trusted-primitive/"+w.Name, w.Decl.Pos(), "orientation of a ring is winding.Order{}.OfPoints(ring...) of go-spatial (translates to the first vertex before summing), the trusted base of the orientation clauses")
		} else {
			c.Unknown(R, "orientation-by-trusted-primitive/"+w.Name, w.Decl.Pos(), "the orientation of a ring is no longer decided by go-spatial's winding.Order.OfPoints on the whole ring. That primitive is the trusted base of the orientation clauses (a shoelace sum over absolute coordinates, for instance, cancels to noise for small rings far from the origin): the rule cannot vouch for a replacement")
		}
		// and it is the only orientation test used by normalisation and by the split classification
		// (wherever in package snap those live: every orientation test goes through windingOrderIsCorrect, and nothing
		// else in the package asks the library for an orientation)
		users, others := 0, 0
		for _, f := range sortedFuncs(c.P) {
			if f.Pkg != w.Pkg || f == w || f.Decl.Body == nil {
				continue
			}
			users += len(core.CallsIn(f.Pkg.TypesInfo, f.Decl, "snap.windingOrderIsCorrect"))
			others += len(core.CallsIn(f.Pkg.TypesInfo, f.Decl, "github.com/go-spatial/geom/winding.Order.OfPoints", "github.com/go-spatial/geom/winding.Order.OfGeomPoints", "github.com/go-spatial/geom/winding.Orient"))
		}
		c.Check(R, "orientation-predicate-shared/snap", w.Decl.Pos(), users >= 2 && others == 0, fmt.Sprintf("%d uses of windingOrderIsCorrect in package snap (normalisation and split classification), no other orientation test", users), fmt.Sprintf("normalisation and split classification no longer share one orientation predicate (%d uses of windingOrderIsCorrect, %d other orientation tests)", users, others))
	}
	// splitRing never hands the ring on as it came in: every ring it returns is assembled from the visited vertices
	// and classified by its orientation
	if sr := c.Anchor(R, "snap.splitRing"); sr != nil && sr.SSA != nil && len(sr.SSA.Params) > 0 {
		ring := ssa.Value(sr.SSA.Params[0])
		bad := ""
		for _, r := range *ring.Referrers() {
			switch x := r.(type) {
			case *ssa.Store:
				if x.Val == ring {
					if _, isSpill := x.Addr.(*ssa.Alloc); isSpill && onceStored(x.Addr.(*ssa.Alloc)) == ring {
						// a spilled parameter, followed below
						for _, rr := range *x.Addr.Referrers() {
							if ld, ok := rr.(*ssa.UnOp); ok && ld.Op == token.MUL {
								for _, r3 := range *ld.Referrers() {
									if st, ok := r3.(*ssa.Store); ok && st.Val == ssa.Value(ld) {
										bad = c.P.Pos(st.Pos())
									}
									if _, ok := r3.(*ssa.Return); ok {
										bad = c.P.Pos(r3.Pos())
									}
								}
							}
						}
						continue
					}
					bad = c.P.Pos(x.Pos())
				}
			case *ssa.Return:
				bad = c.P.Pos(x.Pos())
			}
		}
		c.Check(R, "unsplit-ring-is-never-passed-on/"+sr.Name, sr.Decl.Pos(), bad == "", "the ring parameter is only read (indexed, appended from); returned rings are rebuilt and classified", "splitRing returns or stores the ring as it came in (at "+bad+"), bypassing the classification by orientation: a ring that was turned around by snapping keeps the wrong role/orientation")
	}
	r13SplitClassification(c)
	// an inner ring that becomes the shell of a polygon of its own is turned around first
	if mf := c.Anchor(R, "snap.matchInnersToPolygons"); mf != nil {
		r13TurnedOuter(c, mf)
	}
	c.Floor(R, 3)
}

// r13TurnedOuter: in matchInnersToPolygons the inner rings arrive clockwise (normalised before routing, classified
// by orientation in splitRing).  A ring of that parameter that is stored as ring 0 of a newly made polygon must
// have passed through ReverseClone or ensureCorrectWindingOrder(·, false); a raw inner ring, or one that passed
// through anything else, as ring 0 of a new polygon is a clockwise shell.
func r13TurnedOuter(c *core.Ctx, mf *core.Func) {
	const R = "R13"
	key := "turned-outer-is-reversed/" + mf.Name
	fn := mf.SSA
	var inner *ssa.Parameter
	for _, prm := range fn.Params {
		if prm.Name() == "innerRings" || (inner == nil && isRingSliceType(prm.Type()) && prm != fn.Params[0]) {
			inner = prm
		}
	}
	if inner == nil || !isRingSliceType(inner.Type()) {
		c.Unknown(R, key, mf.Decl.Pos(), "cannot identify the inner-rings parameter of matchInnersToPolygons")
		return
	}
	idx := c.P.SiteIndex(c.P.VTA())
	isTurner := func(f *ssa.Function) bool {
		if f == nil {
			return false
		}
		n := f.Name()
		if o := f.Origin(); o != nil {
			n = o.Name()
		}
		return (n == "ReverseClone" && strings.HasSuffix(core.FuncPkgPath(f), "/mapslicehelp")) || (n == "ensureCorrectWindingOrder" && strings.HasSuffix(core.FuncPkgPath(f), "/snap"))
	}
	follow := func(f *ssa.Function) bool {
		return core.IsModPath(core.FuncPkgPath(f)) && !isTurner(f) && f.Name() != "ringContains"
	}
	opts := core.FlowOpts{Idx: idx, Follow: follow, Containers: true, Appends: true}
	raw := opts.Run([]ssa.Value{inner})
	// classify the calls that take a raw ring and give back a ring
	var okSeeds, otherSeeds []ssa.Value
	funcs := map[*ssa.Function]bool{fn: true}
	for v := range raw {
		if in, ok := v.(ssa.Instruction); ok && in.Parent() != nil {
			funcs[in.Parent()] = true
		}
		if prm, ok := v.(*ssa.Parameter); ok && prm.Parent() != nil {
			funcs[prm.Parent()] = true
		}
	}
	for f := range funcs {
		for _, b := range f.Blocks {
			for _, in := range b.Instrs {
				call, ok := in.(*ssa.Call)
				if !ok || !isRingType(call.Type()) {
					continue
				}
				takes := false
				for _, a := range call.Call.Args {
					if raw[a] && isRingType(a.Type()) {
						takes = true
					}
				}
				if !takes {
					continue
				}
				if _, isB := call.Call.Value.(*ssa.Builtin); isB {
					continue
				}
				callee := call.Call.StaticCallee()
				switch {
				case isTurner(callee) && strings.HasPrefix(callee.Name(), "ReverseClone") && raw[call.Call.Args[0]]:
					okSeeds = append(okSeeds, call)
				case isTurner(callee) && callee.Name() == "ensureCorrectWindingOrder" && raw[call.Call.Args[0]] && isConstBool(call.Call.Args[1], false):
					okSeeds = append(okSeeds, call)
				case callee != nil && follow(callee) && len(callee.Blocks) > 0:
					// followed: its body is inspected like the rest
				default:
					otherSeeds = append(otherSeeds, call)
				}
			}
		}
	}
	good := opts.Run(okSeeds)
	other := opts.Run(otherSeeds)
	for v := range good {
		if in, ok := v.(ssa.Instruction); ok && in.Parent() != nil {
			funcs[in.Parent()] = true
		}
	}
	nGood := 0
	var bad []string
	for f := range funcs {
		for _, b := range f.Blocks {
			for _, in := range b.Instrs {
				st, ok := in.(*ssa.Store)
				if !ok || !isRingType(st.Val.Type()) {
					continue
				}
				ia, ok := st.Addr.(*ssa.IndexAddr)
				if !ok || !isConstInt(ia.Index, 0) {
					continue
				}
				if !ringZeroOfNewPolygon(ia) {
					continue
				}
				// ring 0 of a polygon literal
				switch {
				case rawRing(raw, st.Val) || other[st.Val]:
					bad = append(bad, c.P.Fset.Position(st.Pos()).String())
				case good[st.Val]:
					nGood++
				}
			}
		}
	}
	sort.Strings(bad)
	switch {
	case len(bad) > 0:
		c.Bad(R, key, mf.Decl.Pos(), fmt.Sprintf("an inner ring becomes ring 0 of a new polygon without being turned around (ReverseClone / ensureCorrectWindingOrder(ring, false)) at %v: inner rings are clockwise here, so the new shell is clockwise", bad))
	case nGood == 0:
		c.Unknown(R, key, mf.Decl.Pos(), "no polygon literal whose ring 0 is a turned-around inner ring was found in matchInnersToPolygons or the helpers it passes inner rings to: the way unmatched inner rings become polygons is not recognised")
	default:
		c.OK(R, key, mf.Decl.Pos(), fmt.Sprintf("%d new-polygon literal(s) take a turned-around inner ring as ring 0, none a raw one", nGood))
	}
}

// ringZeroOfNewPolygon: the element address is index 0 of a freshly made polygon: a composite literal, a make, or
// the variadic argument list of an append to nil / to an empty fresh slice.  (append(existingPolygon, ring) adds a
// hole and does not count.)
func ringZeroOfNewPolygon(ia *ssa.IndexAddr) bool {
	freshEmpty := func(v ssa.Value) bool {
		switch x := v.(type) {
		case *ssa.Const:
			return x.IsNil()
		case *ssa.MakeSlice:
			return isConstInt(x.Len, 0)
		case *ssa.Slice:
			if a, ok := x.X.(*ssa.Alloc); ok {
				if pt, ok := a.Type().Underlying().(*types.Pointer); ok {
					if ar, ok := pt.Elem().Underlying().(*types.Array); ok {
						return ar.Len() == 0
					}
				}
			}
		}
		return false
	}
	switch x := ia.X.(type) {
	case *ssa.MakeSlice:
		return true
	case *ssa.Alloc:
		if x.Comment != "varargs" {
			return true
		}
		for _, r := range *x.Referrers() {
			sl, ok := r.(*ssa.Slice)
			if !ok {
				continue
			}
			for _, rr := range *sl.Referrers() {
				if call, ok := rr.(*ssa.Call); ok {
					if b, isB := call.Call.Value.(*ssa.Builtin); isB && b.Name() == "append" && len(call.Call.Args) == 2 && call.Call.Args[1] == ssa.Value(sl) {
						return freshEmpty(call.Call.Args[0])
					}
				}
			}
		}
	}
	return false
}

// rawRing: v holds a ring of the tracked set itself (not a container of it).
func rawRing(T map[ssa.Value]bool, v ssa.Value) bool { return T[v] && isRingType(v.Type()) }

func isRingType(t types.Type) bool {
	sl, ok := t.Underlying().(*types.Slice)
	if !ok {
		return false
	}
	ar, ok := sl.Elem().Underlying().(*types.Array)
	if !ok || ar.Len() != 2 {
		return false
	}
	b, ok := ar.Elem().Underlying().(*types.Basic)
	return ok && b.Kind() == types.Float64
}

func isRingSliceType(t types.Type) bool {
	sl, ok := t.Underlying().(*types.Slice)
	return ok && isRingType(sl.Elem())
}

func isConstBool(v ssa.Value, want bool) bool {
	k, ok := v.(*ssa.Const)
	if !ok || k.Value == nil || k.Value.Kind() != constant.Bool {
		return false
	}
	return constant.BoolVal(k.Value) == want
}

// R14: each option is read where it takes effect.
func r14OptionReads(c *core.Ctx) {
	const R = "R14"
	// the function in which each option acts (its exact effect there is decided by R22, R12 and R13); a read is
	// accepted in that function, in a package-snap function that calls it directly (passing the flag on)
	// -- nowhere else, and in particular not outside package snap
	home := map[string]string{
		"IgnoreOutsideGrid":   "snap.SnapPolygon",
		"KeepPointsAndLines":  "snap.addPointsAndSnap",
		"ReverseWindingOrder": "snap.reverseWindingOrderIfConfigured",
	}
	calls := map[string]map[string]bool{} // caller -> callees (static, module)
	for _, fn := range sortedFuncs(c.P) {
		info := fn.Pkg.TypesInfo
		ast.Inspect(fn.Decl.Body, func(n ast.Node) bool {
			if call, ok := n.(*ast.CallExpr); ok {
				if cal := core.Callee(info, call); cal != nil {
					if cf := c.P.ByObj[cal.Origin()]; cf != nil {
						if calls[fn.Name] == nil {
							calls[fn.Name] = map[string]bool{}
						}
						calls[fn.Name][cf.Name] = true
					}
				}
			}
			return true
		})
	}
	got := map[string][]string{}
	for _, fn := range sortedFuncs(c.P) {
		info := fn.Pkg.TypesInfo
		ast.Inspect(fn.Decl.Body, func(n ast.Node) bool {
			sel, ok := n.(*ast.SelectorExpr)
			if !ok {
				return true
			}
			if core.SelFieldID(info, sel) == "snap.Config."+sel.Sel.Name {
				// a read, not the composite literal key
				got[sel.Sel.Name] = append(got[sel.Sel.Name], fn.Name)
			}
			return true
		})
	}
	for field, h := range home {
		if hf := c.P.Lookup(h); hf != nil {
			h = hf.Name // the same function, should it have become a method (or the reverse)
		}
		g := got[field]
		sortStrings(g)
		bad := ""
		for _, where := range g {
			okSite := where == h || (strings.HasPrefix(where, "snap.") && calls[where][h])
			if !okSite {
				bad += where + " "
			}
		}
		c.Check(R, "option-read-where-it-acts/snap.Config."+field, token.NoPos, len(g) >= 1 && bad == "", "read in "+strings.Join(g, ", "), fmt.Sprintf("snap.Config.%s is read in %v; it acts in %s, a read in [%s] lets the option influence another stage (or it is never read)", field, g, h, strings.TrimSpace(bad)))
	}
	c.Floor(R, 3)
}

// r06RoutedPointsKept: cleanupNewVertices drops the last routed point of a segment only when there is more than one
// (the next segment starts with it), and the first one only when it equals the point added last.  A segment that
// routes to a single pixel keeps that pixel: a ring lying inside one pixel must come out as one point, not as an
// empty ring.
func r06RoutedPointsKept(c *core.Ctx) {
	const R = "R06"
	f := c.Anchor(R, "snap.cleanupNewVertices")
	if f == nil || f.SSA == nil {
		return
	}
	fn := f.SSA
	in := ssa.Value(fn.Params[0])
	construct := "single-routed-point-is-kept/" + f.Name
	// the first re-slice of the parameter: in[:high]
	var first *ssa.Slice
	for _, b := range fn.Blocks {
		for _, ins := range b.Instrs {
			if sl, ok := ins.(*ssa.Slice); ok && sl.X == in && sl.Low == nil && sl.High != nil && first == nil {
				first = sl
			}
		}
	}
	if first == nil {
		// no trimming at all would duplicate the shared point of consecutive segments; not this rule's business
		c.Unknown(R, construct, f.Decl.Pos(), "cleanupNewVertices does not re-slice its input: the way the shared point of consecutive segments is removed is not recognised")
		return
	}
	okHigh, why := false, ""
	if sub, ok := first.High.(*ssa.BinOp); ok && sub.Op == token.SUB && isLenOf(sub.X, in) {
		switch m := sub.Y.(type) {
		case *ssa.Call:
			// len - min(len-1, 1)
			if b, isB := m.Call.Value.(*ssa.Builtin); isB && b.Name() == "min" && len(m.Call.Args) == 2 {
				a0, a1 := m.Call.Args[0], m.Call.Args[1]
				if isConstInt(a0, 1) {
					a0, a1 = a1, a0
				}
				if isLenMinusOne(a0, in) && isConstInt(a1, 1) {
					okHigh = true
				}
			}
		case *ssa.Const:
			// len - 1: only under the guard len > 1
			if isConstInt(m, 1) {
				guarded := false
				for _, b := range fn.Blocks {
					i := core.BlockIf(b)
					if i == nil {
						continue
					}
					cmp, ok := i.Cond.(*ssa.BinOp)
					if !ok {
						continue
					}
					if (cmp.Op == token.GTR && isLenOf(cmp.X, in) && isConstInt(cmp.Y, 1)) || (cmp.Op == token.GEQ && isLenOf(cmp.X, in) && isConstInt(cmp.Y, 2)) {
						if b.Succs[0].Dominates(first.Block()) {
							guarded = true
						}
					}
				}
				okHigh = guarded
				if !guarded {
					why = "the last routed point is dropped unconditionally: a segment that routes to one pixel contributes nothing"
				}
			}
		}
	}
	if !okHigh && why == "" {
		why = "the upper bound of the re-slice is not len - min(len-1, 1) (nor len-1 under len > 1)"
	}
	// the first point is dropped only when it equals the point added last
	okFirst := true
	for _, b := range fn.Blocks {
		for _, ins := range b.Instrs {
			sl, ok := ins.(*ssa.Slice)
			if !ok || sl.Low == nil || !isConstInt(sl.Low, 1) {
				continue
			}
			// dominated by the true edge of an equality between element 0 and the last-vertex parameter
			dom := false
			for _, bb := range fn.Blocks {
				i := core.BlockIf(bb)
				if i == nil {
					continue
				}
				if cmp, ok := i.Cond.(*ssa.BinOp); ok && cmp.Op == token.EQL && bb.Succs[0].Dominates(sl.Block()) {
					dom = true
				}
			}
			if !dom {
				okFirst = false
				why += " the first routed point is dropped without comparing it with the point added last"
			}
		}
	}
	c.Check(R, construct, first.Pos(), okHigh && okFirst, "in[:len-min(len-1,1)], then the first point only if it repeats the last one added", "cleanupNewVertices can return nothing for a segment that was routed: "+why)
}

// splitClassificationLoop finds the loop that sorts the completed rings of a split (in splitRing or a helper of
// package snap it calls) and its three accumulators, named after the results as go/ssa keeps them on the phis.
func splitClassificationLoop(srFn *ssa.Function) (*ssa.Function, *ssa.BasicBlock, map[string]*ssa.Phi, string) {
	// candidate functions: splitRing and its static callees in package snap
	cands := []*ssa.Function{srFn}
	for _, b := range srFn.Blocks {
		for _, in := range b.Instrs {
			if call, ok := in.(*ssa.Call); ok {
				if g := call.Call.StaticCallee(); g != nil && len(g.Blocks) > 0 && core.ShortPkg(core.FuncPkgPath(g)) == "snap" {
					cands = append(cands, g)
				}
			}
		}
	}
	var fn *ssa.Function
	var header *ssa.BasicBlock
	for _, g := range cands {
		for _, b := range g.Blocks {
			i := core.BlockIf(b)
			if i == nil || len(b.Succs) != 2 {
				continue
			}
			// a loop header whose body region calls windingOrderIsCorrect
			hasPhi := false
			for _, in := range b.Instrs {
				if _, ok := in.(*ssa.Phi); ok {
					hasPhi = true
				}
			}
			if !hasPhi {
				continue
			}
			calls := false
			for _, bb := range g.Blocks {
				if !b.Succs[0].Dominates(bb) {
					continue
				}
				for _, in := range bb.Instrs {
					if call, ok := in.(*ssa.Call); ok && call.Call.StaticCallee() != nil && call.Call.StaticCallee().Name() == "windingOrderIsCorrect" {
						calls = true
					}
				}
			}
			if calls && header == nil {
				fn, header = g, b
			}
		}
	}
	if header == nil {
		return nil, nil, nil, "no loop that classifies the completed rings with windingOrderIsCorrect found in splitRing or the helpers it calls"
	}
	acc := map[string]*ssa.Phi{}
	for _, in := range header.Instrs {
		if ph, ok := in.(*ssa.Phi); ok {
			switch ph.Comment {
			case "outerRings", "innerRings", "pointsAndLines":
				acc[ph.Comment] = ph
			}
		}
	}
	if len(acc) != 3 {
		return nil, nil, nil, "the three accumulators outerRings / innerRings / pointsAndLines are not recognisable in the classification loop (results renamed?)"
	}
	return fn, header, acc, ""
}

// r13SplitClassification: the loop that sorts the completed rings of a split into outer rings, inner rings and
// points-and-lines, as a decision table over (ring has fewer than 3 vertices, the ring was a shell, the orientation
// predicate asked for counter-clockwise, the predicate asked for clockwise): short -> points and lines; a shell's
// piece is an outer ring iff it is counter-clockwise, a hole's piece an inner ring iff it is clockwise.  Lives in
// splitRing or in a helper of package snap it calls; which accumulator is which is taken from the names of the
// results (outerRings, innerRings, pointsAndLines), as go/ssa keeps them on the loop's phis.
func r13SplitClassification(c *core.Ctx) {
	const R = "R13"
	sr := c.P.Lookup("snap.splitRing")
	if sr == nil || sr.SSA == nil {
		return
	}
	construct := "split-pieces-classified-by-orientation/snap.splitRing"
	fn, header, acc, why := splitClassificationLoop(sr.SSA)
	if why != "" {
		c.Unknown(R, construct, sr.Decl.Pos(), why)
		return
	}
	var isOuter ssa.Value
	for _, prm := range fn.Params {
		if isBoolType(prm.Type()) {
			isOuter = prm
		}
	}
	atom := func(fr *boolFrame, v ssa.Value) (string, bool, bool) {
		if isOuter != nil && v == isOuter {
			return "O", false, true
		}
		switch x := v.(type) {
		case *ssa.BinOp:
			if x.Op == token.LSS && isConstInt(x.Y, 3) {
				if lc, ok := x.X.(*ssa.Call); ok {
					if _, isLen := isBuiltinCall(lc, "len"); isLen {
						return "S", false, true
					}
				}
			}
			if x.Op == token.GEQ && isConstInt(x.Y, 3) {
				if lc, ok := x.X.(*ssa.Call); ok {
					if _, isLen := isBuiltinCall(lc, "len"); isLen {
						return "S", true, true
					}
				}
			}
		case *ssa.Call:
			if x.Call.StaticCallee() != nil && x.Call.StaticCallee().Name() == "windingOrderIsCorrect" && len(x.Call.Args) == 2 {
				// which orientation is asked for: a constant, or an expression over isOuter
				if k, ok := x.Call.Args[1].(*ssa.Const); ok && k.Value != nil {
					if constant.BoolVal(k.Value) {
						return "WT", false, true
					}
					return "WF", false, true
				}
				if u, ok := x.Call.Args[1].(*ssa.UnOp); ok && u.Op == token.NOT && u.X == isOuter {
					// !isOuter: clockwise wanted for a hole, counter-clockwise for a shell
					if fr.env != nil {
						if ov, known := fr.env[isOuter]; known {
							if !ov {
								return "WT", false, true
							}
							return "WF", false, true
						}
					}
					return "W!O", false, true
				}
			}
		}
		return "", false, false
	}
	names := []string{"S", "O", "WF", "WT"}
	for m := 0; m < 1<<len(names); m++ {
		as := map[string]bool{}
		for i, n := range names {
			as[n] = m&(1<<i) != 0
		}
		// windingOrderIsCorrect(ring, !isOuter) asks WT for a hole and WF for a shell
		if as["O"] {
			as["W!O"] = as["WF"]
		} else {
			as["W!O"] = as["WT"]
		}
		bi := &boolInterp{roleOf: func(*boolFrame, ssa.Value) string { return "" }, atom: atom, assign: as, used: map[string]bool{}}
		fr := &boolFrame{fn: fn, roles: map[ssa.Value]string{}, env: map[ssa.Value]bool{}, prev: header}
		out, err := bi.run(fr, header.Succs[0], map[*ssa.BasicBlock]bool{header: true}, 0)
		if err != nil {
			c.Unknown(R, construct, sr.Decl.Pos(), "the classification of a completed ring is not understood: "+err.Error())
			return
		}
		if out.kind != "block" {
			c.Bad(R, construct, sr.Decl.Pos(), "the classification loop can end early for a ring")
			return
		}
		pi := -1
		for i, p := range header.Preds {
			if p == fr.prev {
				pi = i
			}
		}
		got := ""
		for name, ph := range acc {
			if pi >= 0 && ph.Edges[pi] != ssa.Value(ph) {
				if call, ok := ph.Edges[pi].(*ssa.Call); ok {
					if _, isApp := isBuiltinCall(call, "append"); isApp && call.Call.Args[0] == ssa.Value(ph) {
						got += name
						continue
					}
				}
				got += name + "(?)"
			}
		}
		want := ""
		switch {
		case as["S"]:
			want = "pointsAndLines"
		case as["O"]:
			if as["WF"] {
				want = "outerRings"
			} else {
				want = "innerRings"
			}
		default:
			if as["WT"] {
				want = "innerRings"
			} else {
				want = "outerRings"
			}
		}
		if got != want {
			c.Bad(R, construct, sr.Decl.Pos(), fmt.Sprintf("a completed ring with short=%v, was-a-shell=%v, counter-clockwise-ok=%v, clockwise-ok=%v goes to %q where the rule gives %q: pieces of a split get the wrong role", as["S"], as["O"], as["WF"], as["WT"], got, want))
			return
		}
	}
	c.OK(R, construct, sr.Decl.Pos(), "decision table of the classification loop agrees with the rule on all 16 valuations (in "+fn.Name()+")")
}

// fullLoopOver: index is the counter of a loop over the whole slice x (range form or `for i := 0; i < len(x); i++`).
func fullLoopOver(index ssa.Value, x ssa.Value) *loopInfo {
	switch v := index.(type) {
	case *ssa.BinOp:
		return sliceLoopOf(v, x)
	case *ssa.Phi:
		return sliceLoopOfCounter(v, x)
	}
	return nil
}

// insertLoopSSA: see r05IndexSeesEveryVertex.  Returns "" when the nest is as required.
func insertLoopSSA(fn *ssa.Function) string {
	if fn == nil || len(fn.Params) < 2 {
		return "no SSA"
	}
	poly := fn.Params[len(fn.Params)-1]
	var calls []*ssa.Call
	for _, b := range fn.Blocks {
		for _, in := range b.Instrs {
			if call, ok := in.(*ssa.Call); ok && call.Call.StaticCallee() != nil && call.Call.StaticCallee().Name() == "InsertPoint" {
				calls = append(calls, call)
			}
		}
	}
	if len(calls) != 1 || len(calls[0].Call.Args) != 2 {
		return fmt.Sprintf("%d calls of InsertPoint", len(calls))
	}
	call := calls[0]
	via := sliceElemLoad(core.Unwrap(call.Call.Args[1]))
	if via == nil {
		return "the argument of InsertPoint is not an element of a ring"
	}
	ringV := resolveValue(via.X)
	ria := sliceElemLoad(ringV)
	if ria == nil {
		return "the ring is not an element of the list of rings"
	}
	ringsV := resolveValue(ria.X)
	isRings := ringsV == ssa.Value(poly)
	if rc, ok := ringsV.(*ssa.Call); ok && rc.Call.StaticCallee() != nil && rc.Call.StaticCallee().Name() == "LinearRings" && len(rc.Call.Args) == 1 && resolveValue(rc.Call.Args[0]) == ssa.Value(poly) {
		isRings = true
	}
	if ct, ok := ringsV.(*ssa.ChangeType); ok && resolveValue(ct.X) == ssa.Value(poly) {
		isRings = true
	}
	if !isRings {
		return "the rings are not polygon.LinearRings()"
	}
	inner, outer := fullLoopOver(via.Index, via.X), fullLoopOver(ria.Index, ria.X)
	if inner == nil || outer == nil {
		// the loads may sit on a local copy of the element: try the resolved values
		if inner == nil {
			inner = fullLoopOver(via.Index, ringV)
		}
		if inner == nil || outer == nil {
			return "the indices are not counters of loops over the whole ring / the whole list of rings"
		}
	}
	bodyOnly := func(l *loopInfo) func(*ssa.BasicBlock, int) bool {
		return func(bb *ssa.BasicBlock, k int) bool {
			if bb == l.header {
				return k == 0
			}
			return true
		}
	}
	first := func(b *ssa.BasicBlock) ssa.Instruction { return b.Instrs[0] }
	// an iteration of the vertex loop that comes round without the call
	if skip, _ := (core.Search{Fn: fn, From: first(inner.body0), Target: instrIs(first(inner.header)), Barrier: instrIs(call), Edge: bodyOnly(inner)}).Run(); skip {
		return "an iteration of the vertex loop can complete without calling InsertPoint"
	}
	if call.Block() == inner.body0 && !core.Dominates(call, inner.body0.Instrs[len(inner.body0.Instrs)-1]) {
		return "InsertPoint is not on every path through the vertex loop's body"
	}
	// an iteration of the ring loop that comes round without entering the vertex loop
	if skip, _ := (core.Search{Fn: fn, From: first(outer.body0), Target: instrIs(first(outer.header)), Barrier: instrIs(first(inner.header)), Edge: bodyOnly(outer)}).Run(); skip {
		return "an iteration of the ring loop can complete without walking the ring"
	}
	// the error: returned at once and unchanged
	errV := ssa.Value(call)
	if swallowed, _ := (core.Search{Fn: fn, From: call, Target: func(in ssa.Instruction) bool { return in == first(inner.header) || in == first(outer.header) }, Edge: nonNilEdges(errV)}).Run(); swallowed {
		return "after InsertPoint returned an error the loops go on"
	}
	for _, b := range fn.Blocks {
		for _, in := range b.Instrs {
			ret, ok := in.(*ssa.Return)
			if !ok || len(ret.Results) != 1 {
				continue
			}
			reach, _ := core.Search{Fn: fn, From: call, Target: instrIs(ret), Edge: nonNilEdges(errV)}.Run()
			if reach && core.Dominates(call, ret) && inner.blocks[ret.Block()] && !retMayBe(ret.Results[0], errV, map[ssa.Value]bool{}) {
				return "the error of InsertPoint is not what is returned"
			}
		}
	}
	return ""
}
