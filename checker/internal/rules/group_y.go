package rules

import (
	"encoding/json"
	"fmt"
	"go/ast"
	"go/constant"
	"go/token"
	"go/types"
	"math/big"
	"os"
	"path/filepath"
	"regexp"
	"strconv"
	"strings"

	"golang.org/x/tools/go/ssa"

	"texelverif/internal/core"
)

// Rules added after the sixth round of independently written property-breaking changes.  Each is a further part
// of an existing rule (same rule id, new obligations).
func init() {
	reg("R48", r48DeepestRequestedID)
	reg("R37", r37RejectionsOnlyFromGateAndStats)
}

// isMaxOf: v is slices.Max(list), directly or through one module helper all of whose results are that.
func isMaxOf(v, list ssa.Value, depth int) bool {
	call, ok := resolveValue(core.Unwrap(v)).(*ssa.Call)
	if !ok {
		return false
	}
	if core.StaticCalleeID(call) == "slices.Max" && len(call.Call.Args) == 1 {
		return resolveValue(call.Call.Args[0]) == list
	}
	h := call.Call.StaticCallee()
	if h == nil || depth <= 0 || len(h.Blocks) == 0 || !core.IsModPath(core.FuncPkgPath(h)) {
		return false
	}
	k := -1
	for i, a := range call.Call.Args {
		if resolveValue(a) == list {
			k = i
		}
	}
	if k < 0 || k >= len(h.Params) {
		return false
	}
	n := 0
	for _, b := range h.Blocks {
		for _, in := range b.Instrs {
			if ret, ok := in.(*ssa.Return); ok {
				if len(ret.Results) != 1 || !isMaxOf(ret.Results[0], h.Params[k], depth-1) {
					return false
				}
				n++
			}
		}
	}
	return n > 0
}

// r48DeepestRequestedID: the deviation the tool reports is the one of the deepest requested matrix -- the largest
// of the requested ids, wherever it stands in the list.  A deviation measured on a shallower matrix understates the
// distance to the ideal pixel centre on the deeper ones.
func r48DeepestRequestedID(c *core.Ctx) {
	const R = "R48"
	v := c.Anchor(R, "main.validateTileMatrixSet")
	if v == nil || v.SSA == nil {
		return
	}
	construct := "deviation-measured-on-deepest-requested-matrix/" + v.Name
	var ids ssa.Value
	for _, p := range v.SSA.Params {
		if sl, ok := p.Type().Underlying().(*types.Slice); ok {
			if b, ok := sl.Elem().Underlying().(*types.Basic); ok && b.Info()&types.IsInteger != 0 {
				ids = p
			}
		}
	}
	calls := effectiveCalls(v.SSA, core.ModPath+"/pointindex.DeviationStats", 1)
	if ids == nil || len(calls) != 1 || len(calls[0].Args) != 2 {
		c.Bad(R, construct, v.Decl.Pos(), "expected the list of requested ids as a parameter and one call of pointindex.DeviationStats(tms, id)")
		return
	}
	arg := calls[0].Args[1]
	c.Check(R, construct, calls[0].Site.Pos(), arg != nil && isMaxOf(arg, ids, 1), "DeviationStats is asked about slices.Max of the requested ids", "the matrix whose deviation is measured and reported is not the maximum of the requested ids (the list is not ordered: the deepest requested matrix can stand anywhere in it)")
}

// r37RejectionsOnlyFromGateAndStats: validation turns a tile matrix set down only for a reason IsQuadTree or
// DeviationStats gave.  A rejection of its own making refuses sets and id lists the library handles, and then the
// tool writes nothing where the property promises one file per requested matrix.
func r37RejectionsOnlyFromGateAndStats(c *core.Ctx) {
	const R = "R37"
	v := c.Anchor(R, "main.validateTileMatrixSet")
	if v == nil || v.SSA == nil {
		return
	}
	construct := "rejections-come-from-gate-or-stats/" + v.Name
	allowed := map[ssa.Value]bool{}
	for _, ec := range effectiveCalls(v.SSA, core.ModPath+"/pointindex.IsQuadTree", 1) {
		allowed[ec.Site] = true
	}
	for _, ec := range effectiveCalls(v.SSA, core.ModPath+"/pointindex.DeviationStats", 1) {
		res := ec.Site.Call.Signature().Results()
		for i := 0; i < res.Len(); i++ {
			if isErrorType(res.At(i).Type()) {
				if e := extractOf(ec.Site, i); e != nil {
					allowed[e] = true
				}
			}
		}
		if res.Len() == 1 {
			allowed[ec.Site] = true
		}
	}
	var fromAllowed func(x ssa.Value, seen map[ssa.Value]bool) bool
	fromAllowed = func(x ssa.Value, seen map[ssa.Value]bool) bool {
		x = resolveValue(core.Unwrap(x))
		if seen[x] {
			return true
		}
		seen[x] = true
		if allowed[x] || isNilConst(x) {
			return true
		}
		switch y := x.(type) {
		case *ssa.Phi:
			for _, e := range y.Edges {
				if !fromAllowed(e, seen) {
					return false
				}
			}
			return true
		case *ssa.Call:
			// wrapped: fmt.Errorf("…%w", err)
			if core.StaticCalleeID(y) == "fmt.Errorf" && len(y.Call.Args) == 2 {
				for _, e := range sliceLitElems(y.Call.Args[1]) {
					if ev := resolveValue(core.Unwrap(e)); allowed[ev] {
						return true
					}
				}
			}
		}
		return false
	}
	bad := ""
	n := 0
	for _, b := range v.SSA.Blocks {
		for _, in := range b.Instrs {
			ret, ok := in.(*ssa.Return)
			if !ok {
				continue
			}
			for _, r := range ret.Results {
				if !isErrorType(r.Type()) {
					continue
				}
				n++
				if !fromAllowed(r, map[ssa.Value]bool{}) {
					bad += fmt.Sprintf("%s returns %s; ", c.P.Pos(ret.Pos()), strings.TrimSpace(r.String()))
				}
			}
		}
	}
	c.Check(R, construct, v.Decl.Pos(), n > 0 && bad == "", fmt.Sprintf("%d exits: nil, the error of IsQuadTree or the error of DeviationStats", n), "validation rejects for a reason of its own (neither IsQuadTree's nor DeviationStats' error): "+bad)
}

func isErrorType(t types.Type) bool {
	n, ok := t.(*types.Named)
	return ok && n.Obj().Pkg() == nil && n.Obj().Name() == "error"
}

var _ = token.NoPos

func init() {
	reg("R13", r13RoleSwapTurnsRings)
}

// r13RoleSwapTurnsRings: after the completed rings of a split have been sorted by orientation, a ring can still
// change role wholesale (all pieces of a shell came out clockwise, or all pieces of a hole counter-clockwise).
// Whatever the form of that exchange, a ring that was classified for one role reaches the result of the other role
// only after it has been turned around: the outer result is made of the outer accumulator, fresh memory, and
// reversed elements of the inner accumulator -- and the reverse for the inner result.  Backward trace over phis,
// appends and range loops of the function that holds the classification loop.
func r13RoleSwapTurnsRings(c *core.Ctx) {
	const R = "R13"
	sr := c.P.Lookup("snap.splitRing")
	if sr == nil || sr.SSA == nil {
		return
	}
	construct := "role-change-turns-the-ring/snap.splitRing"
	fn, _, acc, why := splitClassificationLoop(sr.SSA)
	if why != "" {
		c.Unknown(R, construct, sr.Decl.Pos(), why)
		return
	}
	tagOf := map[ssa.Value]string{acc["outerRings"]: "O", acc["innerRings"]: "I", acc["pointsAndLines"]: "P"}
	// element of a range over a slice: the slice ranged over
	rangedSlice := func(v ssa.Value) ssa.Value {
		if ia := sliceElemLoad(v); ia != nil {
			return ia.X
		}
		return nil
	}
	reversedBefore := func(elem ssa.Value, at ssa.Instruction) bool {
		for _, r := range *elem.Referrers() {
			if call, ok := r.(*ssa.Call); ok && strings.HasPrefix(core.StaticCalleeID(call), "slices.Reverse") && len(call.Call.Args) == 1 && call.Call.Args[0] == elem && core.Dominates(call, at) {
				return true
			}
		}
		return false
	}
	// env: in a helper the rings arrive as parameters; each parameter stands for what the caller passed
	env := map[ssa.Value]map[string]bool{}
	var origin func(v ssa.Value, seen map[ssa.Value]bool, out map[string]bool)
	elemOrigin := func(e ssa.Value, at ssa.Instruction, seen map[ssa.Value]bool, out map[string]bool) {
		turned := false
		if call, ok := e.(*ssa.Call); ok && strings.Contains(core.StaticCalleeID(call), "ReverseClone") && len(call.Call.Args) == 1 {
			e, turned = call.Call.Args[0], true
		}
		src := rangedSlice(e)
		if src == nil {
			out["?"] = true
			return
		}
		if reversedBefore(e, at) {
			turned = !turned
		}
		sub := map[string]bool{}
		origin(src, seen, sub)
		for t := range sub {
			switch {
			case t == "fresh":
			case turned && (t == "O" || t == "I"):
				out["turned-"+t] = true
			case turned && strings.HasPrefix(t, "turned-"):
				out[strings.TrimPrefix(t, "turned-")] = true
			default:
				out[t] = true
			}
		}
	}
	origin = func(v ssa.Value, seen map[ssa.Value]bool, out map[string]bool) {
		v = resolveValue(v)
		if t, ok := tagOf[v]; ok {
			out[t] = true
			// the accumulator itself grows from fresh memory inside the classification loop: not followed
			return
		}
		if tags, ok := env[v]; ok {
			for t := range tags {
				out[t] = true
			}
			return
		}
		if seen[v] {
			return
		}
		seen[v] = true
		// the exchange done by a helper of the package: its results, with its parameters standing for the
		// caller's values
		helperResult := func(call *ssa.Call, idx int) bool {
			h := call.Call.StaticCallee()
			if h == nil || len(h.Blocks) == 0 || core.ShortPkg(core.FuncPkgPath(h)) != "snap" || len(env) > 0 {
				return false
			}
			for i, a := range call.Call.Args {
				if i < len(h.Params) {
					if _, isSlice := a.Type().Underlying().(*types.Slice); isSlice {
						sub := map[string]bool{}
						origin(a, map[ssa.Value]bool{}, sub)
						env[h.Params[i]] = sub
					}
				}
			}
			n := 0
			for _, b := range h.Blocks {
				for _, in := range b.Instrs {
					if ret, ok := in.(*ssa.Return); ok && idx < len(ret.Results) {
						n++
						// the helper's own values are looked at with the parameter environment in place
						origin(ret.Results[idx], map[ssa.Value]bool{}, out)
					}
				}
			}
			for k := range env {
				delete(env, k)
			}
			return n > 0
		}
		switch x := v.(type) {
		case *ssa.Extract:
			if call, ok := x.Tuple.(*ssa.Call); ok && helperResult(call, x.Index) {
				return
			}
		case *ssa.Const:
			if x.Value == nil {
				out["fresh"] = true
				return
			}
		case *ssa.MakeSlice:
			out["fresh"] = true
			return
		case *ssa.Alloc:
			if x.Comment == "makeslice" {
				out["fresh"] = true
				return
			}
		case *ssa.Phi:
			for _, e := range x.Edges {
				origin(e, seen, out)
			}
			return
		case *ssa.Slice:
			origin(x.X, seen, out)
			return
		case *ssa.Call:
			if _, isApp := isBuiltinCall(x, "append"); isApp && len(x.Call.Args) == 2 {
				origin(x.Call.Args[0], seen, out)
				if elems := sliceLitElems(x.Call.Args[1]); len(elems) > 0 {
					for _, e := range elems {
						elemOrigin(e, x, seen, out)
					}
				} else {
					origin(x.Call.Args[1], seen, out) // append(a, b...)
				}
				return
			}
			if x.Call.Signature().Results().Len() == 1 && helperResult(x, 0) {
				return
			}
		}
		out["?"] = true
	}
	res := fn.Signature.Results()
	idx := map[string]int{"outerRings": 0, "innerRings": 1}
	for i := 0; i < res.Len(); i++ {
		if _, ok := idx[res.At(i).Name()]; ok {
			idx[res.At(i).Name()] = i
		}
	}
	bad, unknown := "", ""
	n := 0
	for _, b := range fn.Blocks {
		for _, in := range b.Instrs {
			ret, ok := in.(*ssa.Return)
			if !ok || len(ret.Results) < 2 {
				continue
			}
			n++
			for name, forbidden := range map[string]string{"outerRings": "I", "innerRings": "O"} {
				out := map[string]bool{}
				origin(ret.Results[idx[name]], map[ssa.Value]bool{}, out)
				if out[forbidden] || out["P"] {
					bad += fmt.Sprintf("%s: %s can hold rings the classification put aside for the other role, not turned around (%v); ", c.P.Pos(ret.Pos()), name, keys(out))
				}
				if out["turned-"+map[string]string{"I": "O", "O": "I"}[forbidden]] {
					bad += fmt.Sprintf("%s: %s can hold its own rings turned the wrong way round; ", c.P.Pos(ret.Pos()), name)
				}
				if out["?"] {
					unknown += fmt.Sprintf("%s: where %s comes from is not understood; ", c.P.Pos(ret.Pos()), name)
				}
			}
		}
	}
	switch {
	case bad != "":
		c.Bad(R, construct, sr.Decl.Pos(), bad)
	case unknown != "" || n == 0:
		c.Unknown(R, construct, sr.Decl.Pos(), unknown+fmt.Sprintf("(%d return statements)", n))
	default:
		c.OK(R, construct, sr.Decl.Pos(), fmt.Sprintf("%d exits of %s: each result holds its own accumulator, fresh memory, or rings of the other accumulator reversed one by one", n, fn.Name()))
	}
}

func init() {
	reg("R13", r13NormalisationDecidedByOrientationOnly)
}

// r13NormalisationDecidedByOrientationOnly: ensureCorrectWindingOrder hands back the ring itself when the
// orientation predicate is satisfied and the ring turned around when it is not -- and nothing else has a say (the
// length of the ring, a flag): decision table of the function over the one atom "windingOrderIsCorrect(ring,
// clockwise?)".  A branch on anything else is not understood and fails.
func r13NormalisationDecidedByOrientationOnly(c *core.Ctx) {
	const R = "R13"
	f := c.P.Lookup("snap.ensureCorrectWindingOrder")
	if f == nil || f.SSA == nil {
		return // normalisation written in place: decided where it is used (R06 ring-normalised-before-routing)
	}
	construct := "normalisation-decided-by-orientation-only/" + f.Name
	fn := f.SSA
	var ring, cw ssa.Value
	for _, p := range fn.Params {
		if isBoolType(p.Type()) {
			cw = p
		} else if _, ok := p.Type().Underlying().(*types.Slice); ok {
			ring = p
		}
	}
	if ring == nil || cw == nil {
		c.Unknown(R, construct, f.Decl.Pos(), "expected a ring and a boolean (clockwise wanted) as parameters")
		return
	}
	atom := func(fr *boolFrame, v ssa.Value) (string, bool, bool) {
		if call, ok := v.(*ssa.Call); ok && call.Call.StaticCallee() != nil && call.Call.StaticCallee().Name() == "windingOrderIsCorrect" && len(call.Call.Args) == 2 {
			if resolveValue(call.Call.Args[0]) == ring && resolveValue(call.Call.Args[1]) == cw {
				return "W", false, true
			}
		}
		return "", false, false
	}
	for _, w := range []bool{false, true} {
		bi := &boolInterp{roleOf: func(*boolFrame, ssa.Value) string { return "" }, atom: atom, assign: map[string]bool{"W": w}, used: map[string]bool{}}
		fr := &boolFrame{fn: fn, roles: map[ssa.Value]string{}, env: map[ssa.Value]bool{}}
		out, err := bi.run(fr, fn.Blocks[0], nil, 0)
		if err != nil {
			c.Unknown(R, construct, f.Decl.Pos(), "whether a ring is turned depends on more than its orientation: "+err.Error())
			return
		}
		if out.kind != "return" || out.ret == nil || len(out.ret.Results) != 1 {
			c.Bad(R, construct, f.Decl.Pos(), "ensureCorrectWindingOrder does not return a ring on every path")
			return
		}
		if !bi.used["W"] {
			c.Bad(R, construct, f.Decl.Pos(), "a path through ensureCorrectWindingOrder never asks the orientation predicate")
			return
		}
		res := resolveValue(out.ret.Results[0])
		if ph, ok := res.(*ssa.Phi); ok {
			for i, p := range ph.Block().Preds {
				if p == fr.prev {
					res = resolveValue(ph.Edges[i])
				}
			}
		}
		turned := false
		if call, ok := res.(*ssa.Call); ok && strings.Contains(core.StaticCalleeID(call), "ReverseClone") && len(call.Call.Args) == 1 && resolveValue(call.Call.Args[0]) == ring {
			turned = true
		} else if res != ring {
			c.Unknown(R, construct, out.ret.Pos(), "the value returned is neither the ring nor ReverseClone(ring)")
			return
		}
		if turned == w {
			c.Bad(R, construct, out.ret.Pos(), fmt.Sprintf("with the orientation predicate answering %v the ring is turned=%v: normalisation is inverted", w, turned))
			return
		}
	}
	c.OK(R, construct, f.Decl.Pos(), "returns the ring when windingOrderIsCorrect(ring, clockwise) holds and ReverseClone(ring) when not; no other condition")
}

func init() {
	reg("R22", r22ErrorTextCannotPanic)
}

func nilable(t types.Type) bool {
	switch t.Underlying().(type) {
	case *types.Pointer, *types.Interface, *types.Map, *types.Slice, *types.Signature, *types.Chan:
		return true
	}
	return false
}

// r22ErrorTextCannotPanic: "reported as an error, never a panic" includes the moment the error is printed.  Every
// field of OutsideGridError that can be nil and that its Error method reads is given a value at every place in the
// module where such an error is made (sibling agreement of the construction sites with the one consumer).
func r22ErrorTextCannotPanic(c *core.Ctx) {
	const R = "R22"
	em := c.P.Lookup("pointindex.OutsideGridError.Error")
	construct := "error-text-cannot-panic/pointindex.OutsideGridError"
	if em == nil || em.SSA == nil {
		c.Bad(R, "anchor/pointindex.OutsideGridError.Error", token.NoPos, "reason=anchor-unresolved: method Error of pointindex.OutsideGridError not found")
		return
	}
	recv := em.SSA.Params[0]
	st, _ := core.DerefStruct(recv.Type())
	if st == nil {
		c.Unknown(R, construct, em.Decl.Pos(), "the receiver is not a struct")
		return
	}
	read := map[int]bool{}
	var visit func(v ssa.Value, seen map[ssa.Value]bool)
	visit = func(v ssa.Value, seen map[ssa.Value]bool) {
		if seen[v] || v.Referrers() == nil {
			return
		}
		seen[v] = true
		for _, r := range *v.Referrers() {
			switch x := r.(type) {
			case *ssa.Field:
				read[x.Field] = true
			case *ssa.FieldAddr:
				read[x.Field] = true
			case *ssa.Store:
				if x.Val == v { // spilled receiver
					visit(x.Addr, seen)
				}
			case *ssa.UnOp:
				if x.Op == token.MUL {
					visit(x, seen)
				}
			}
		}
	}
	visit(recv, map[ssa.Value]bool{})
	var need []int
	for k := range read {
		if nilable(st.Field(k).Type()) {
			need = append(need, k)
		}
	}
	// construction sites: composite literals of the type anywhere in the module
	sites, bad := 0, ""
	for _, fn := range sortedFuncs(c.P) {
		if fn.SSA == nil {
			continue
		}
		for _, g := range core.AllSSAFuncs(fn.SSA) {
			for _, b := range g.Blocks {
				for _, in := range b.Instrs {
					al, ok := in.(*ssa.Alloc)
					if !ok || al.Comment != "complit" {
						continue
					}
					if s2, _ := core.DerefStruct(al.Type()); s2 == nil || !types.Identical(al.Type().Underlying().(*types.Pointer).Elem(), derefType(recv.Type())) {
						continue
					}
					sites++
					set := map[int]bool{}
					for _, r := range *al.Referrers() {
						if fa, ok := r.(*ssa.FieldAddr); ok {
							for _, rr := range *fa.Referrers() {
								if stI, ok := rr.(*ssa.Store); ok && stI.Addr == ssa.Value(fa) && !isNilConst(stI.Val) {
									set[fa.Field] = true
								}
							}
						}
					}
					for _, k := range need {
						if !set[k] {
							bad += fmt.Sprintf("%s makes the error without %s, which Error() reads; ", c.P.Pos(al.Pos()), st.Field(k).Name())
						}
					}
				}
			}
		}
	}
	c.Check(R, construct, em.Decl.Pos(), bad == "" && sites >= 2, fmt.Sprintf("%d construction sites; Error() reads %d fields that can be nil, each set at every site", sites, len(need)), "printing an outside-grid error can dereference nil: "+bad+fmt.Sprintf("(%d construction sites found, 2 confirmed by hand)", sites))
}

func init() {
	reg("R27", r27GoroutineWritesJoinedBeforeRead)
}

// writesThrough: fn stores through the pointer v (a parameter or captured variable), directly or in a module
// function it hands v to (depth bounded).
func writesThrough(v ssa.Value, depth int, seen map[ssa.Value]bool) bool {
	if v == nil || seen[v] || v.Referrers() == nil {
		return false
	}
	seen[v] = true
	for _, r := range *v.Referrers() {
		switch x := r.(type) {
		case *ssa.Store:
			if x.Addr == v {
				return true
			}
		case *ssa.FieldAddr:
			if writesThrough(x, depth, seen) {
				return true
			}
		case *ssa.IndexAddr:
			if x.X == v && writesThrough(x, depth, seen) {
				return true
			}
		case *ssa.UnOp:
			// a captured variable that itself holds a pointer: *fv is the pointer
			if x.Op == token.MUL && pointerLike(x.Type()) && writesThrough(x, depth, seen) {
				return true
			}
		case *ssa.MapUpdate:
			if x.Map == v {
				return true
			}
		case ssa.CallInstruction:
			if depth <= 0 {
				continue
			}
			h := x.Common().StaticCallee()
			if h == nil || len(h.Blocks) == 0 || !modFollow(h) {
				continue
			}
			for i, a := range x.Common().Args {
				if a == v && i < len(h.Params) && writesThrough(h.Params[i], depth-1, seen) {
					return true
				}
			}
		}
	}
	return false
}

// r27GoroutineWritesJoinedBeforeRead: a goroutine that is given the address of one of its starter's variables and
// writes through it, while the starter uses that variable again after the go statement, is joined first: the
// goroutine signals a wait group when it is done and the starter waits on that group before the use.  Waiting for
// another goroutine further down the pipeline orders nothing (the write may come after that one finished).
func r27GoroutineWritesJoinedBeforeRead(c *core.Ctx) {
	const R = "R27"
	pl := buildPipeline(c, R)
	wgs := findWaitGroups(c, pl)
	construct := "goroutine-writes-joined-before-read/processing"
	n, bad := 0, ""
	for _, fn := range pl.funcs {
		for _, b := range fn.Blocks {
			for _, in := range b.Instrs {
				g, ok := in.(*ssa.Go)
				if !ok {
					continue
				}
				n++
				tf := goTarget(g)
				if tf == nil || len(tf.Blocks) == 0 {
					continue
				}
				type pair struct {
					actual *ssa.Alloc
					formal ssa.Value
				}
				var pairs []pair
				if mc, ok := g.Call.Value.(*ssa.MakeClosure); ok {
					for j, bnd := range mc.Bindings {
						if a, ok := bnd.(*ssa.Alloc); ok && j < len(tf.FreeVars) {
							pairs = append(pairs, pair{a, tf.FreeVars[j]})
						}
					}
				}
				off := len(tf.Params) - len(g.Call.Args)
				for i, arg := range g.Call.Args {
					if a, ok := arg.(*ssa.Alloc); ok && off >= 0 && i+off < len(tf.Params) {
						pairs = append(pairs, pair{a, tf.Params[i+off]})
					}
				}
				for _, p := range pairs {
					et := p.actual.Type().(*types.Pointer).Elem()
					if namedIs(et, "sync", "WaitGroup") || namedIs(et, "sync", "Mutex") || namedIs(et, "sync", "RWMutex") {
						continue
					}
					if _, isChan := et.Underlying().(*types.Chan); isChan {
						continue
					}
					if !writesThrough(p.formal, 2, map[ssa.Value]bool{}) {
						continue
					}
					// joined: the goroutine signals a group, and every later use of the variable by the starter is
					// behind a Wait on that group
					var waits []*ssa.Call
					for _, w := range wgs {
						for _, d := range w.dones {
							if d.Parent() == tf {
								waits = append(waits, w.waits...)
							}
						}
					}
					isWait := func(i ssa.Instruction) bool {
						for _, w := range waits {
							if i == ssa.Instruction(w) {
								return true
							}
						}
						return false
					}
					uses := map[ssa.Instruction]bool{}
					for _, r := range *p.actual.Referrers() {
						if r != ssa.Instruction(g) {
							if mc, ok := r.(*ssa.MakeClosure); ok && ssa.Value(mc) == g.Call.Value {
								continue
							}
							uses[r] = true
						}
					}
					found, at := core.Search{Fn: fn, From: g, Target: func(i ssa.Instruction) bool { return uses[i] }, Barrier: isWait}.Run()
					if found {
						bad += fmt.Sprintf("%s: the goroutine %s writes through %s and %s uses that variable again at %s without having waited for that goroutine; ", c.P.Pos(g.Pos()), tf.Name(), p.actual.Comment, fn.Name(), c.P.Pos(at.Pos()))
					}
				}
			}
		}
	}
	c.Check(R, construct, token.NoPos, bad == "" && n >= 3, fmt.Sprintf("%d go statements: no goroutine writes a variable of its starter that the starter touches again before joining it", n), "unsynchronised access to shared data: "+bad)
}

func init() {
	reg("R44", r44RoundFloatIsSymmetric)
}

// r44RoundFloatIsSymmetric: the identities of R44 treat roundFloat(v, p) as v; that is sound only while roundFloat
// is rounding to the nearest multiple of 10^-p on both sides of zero: its result is math.Round(f*r)/r (or
// RoundToEven) with the one scale r.  A conversion to an integer type in its place truncates towards zero and
// moves negative coordinates by a whole unit of the last decimal.
func r44RoundFloatIsSymmetric(c *core.Ctx) {
	const R = "R44"
	f := c.P.Lookup("tms20.roundFloat")
	if f == nil || f.SSA == nil {
		return // no rounding helper: nothing to trust
	}
	construct := "rounding-is-to-nearest-on-both-sides-of-zero/" + f.Name
	fn := f.SSA
	var val ssa.Value
	for _, p := range fn.Params {
		if b, ok := p.Type().Underlying().(*types.Basic); ok && b.Info()&types.IsFloat != 0 {
			val = p
		}
	}
	n, why := 0, ""
	for _, b := range fn.Blocks {
		for _, in := range b.Instrs {
			ret, ok := in.(*ssa.Return)
			if !ok {
				continue
			}
			n++
			if len(ret.Results) != 1 {
				why = "unexpected results"
				continue
			}
			q, ok := resolveValue(ret.Results[0]).(*ssa.BinOp)
			if !ok || q.Op != token.QUO {
				why = "the result is not rounded(f*r) / r"
				continue
			}
			call, ok := resolveValue(q.X).(*ssa.Call)
			if !ok || (core.StaticCalleeID(call) != "math.Round" && core.StaticCalleeID(call) != "math.RoundToEven") {
				why = "the scaled value is not rounded with math.Round / math.RoundToEven (a conversion to an integer truncates towards zero)"
				continue
			}
			m, ok := resolveValue(call.Call.Args[0]).(*ssa.BinOp)
			if !ok || m.Op != token.MUL {
				why = "what is rounded is not f*r"
				continue
			}
			x, y := resolveValue(m.X), resolveValue(m.Y)
			if y == val {
				x, y = y, x
			}
			if x != val || y != resolveValue(q.Y) {
				why = "the value is scaled up and down by different factors"
				continue
			}
			pw, ok := y.(*ssa.Call)
			if !ok || core.StaticCalleeID(pw) != "math.Pow" || len(pw.Call.Args) != 2 {
				why = "the scale is not math.Pow(10, p)"
				continue
			}
			if k, ok := pw.Call.Args[0].(*ssa.Const); !ok || k.Value == nil || k.Float64() != 10 {
				why = "the scale is not a power of ten"
			}
		}
	}
	c.Check(R, construct, f.Decl.Pos(), n > 0 && why == "", "math.Round(f*r)/r with r = math.Pow(10, p)", "roundFloat no longer rounds to the nearest decimal on both sides of zero: "+why)
}

func init() {
	reg("R18", r18NoLevelWideEffectInsideLevelLoop)
}

// isLevelLoop: a loop whose iterations are levels (the forms levelKeyKind accepts as "the current level").
func isLevelLoop(info *types.Info, n ast.Node) (*ast.BlockStmt, bool) {
	switch s := n.(type) {
	case *ast.RangeStmt:
		if s.Key != nil && isLevelKeyed(info.TypeOf(s.X)) {
			return s.Body, true
		}
		if sl, ok := info.TypeOf(s.X).Underlying().(*types.Slice); ok && s.Value != nil {
			if b, ok := sl.Elem().Underlying().(*types.Basic); ok && b.Kind() == types.Uint {
				return s.Body, true
			}
		}
	case *ast.ForStmt:
		if cond, ok := s.Cond.(*ast.BinaryExpr); ok && strings.HasSuffix(canon(cond.Y), "deepestLevel") {
			return s.Body, true
		}
	}
	return nil, false
}

// r18NoLevelWideEffectInsideLevelLoop: R18 shows that inside a loop over levels only the loop's own level is
// touched -- in that function.  A function called from inside such a loop must then not work on all levels itself:
// no loop over levels of its own, no replacement or clearing of a whole per-level map of the index (transitively,
// within packages snap and pointindex).  Otherwise finishing one level wipes or rewrites state of the others.
func r18NoLevelWideEffectInsideLevelLoop(c *core.Ctx) {
	const R = "R18"
	root := c.Anchor(R, "snap.SnapPolygon")
	if root == nil {
		return
	}
	reach := core.ReachableNoStdlibTransit(c.P.VTA(), root.SSA)
	inScope := func(fn *core.Func) bool {
		sp := core.ShortPkg(fn.Pkg.PkgPath)
		return (sp == "snap" || sp == "pointindex") && fn.Decl.Body != nil
	}
	// what a function does to all levels at once
	direct := map[*core.Func]string{}
	calls := map[*core.Func][]*core.Func{}
	for _, fn := range sortedFuncs(c.P) {
		if !inScope(fn) {
			continue
		}
		info := fn.Pkg.TypesInfo
		ast.Inspect(fn.Decl.Body, func(n ast.Node) bool {
			if _, ok := isLevelLoop(info, n); ok && direct[fn] == "" {
				direct[fn] = "has a loop over levels at " + c.P.Pos(n.Pos())
			}
			switch x := n.(type) {
			case *ast.AssignStmt:
				for _, l := range x.Lhs {
					if sel, ok := ast.Unparen(l).(*ast.SelectorExpr); ok && isLevelKeyed(info.TypeOf(sel)) && core.FieldOf(info, sel) != nil {
						direct[fn] = "replaces the whole per-level map " + canon(sel) + " at " + c.P.Pos(x.Pos())
					}
				}
			case *ast.CallExpr:
				if core.IsBuiltinCall(info, x, "clear") && len(x.Args) == 1 && isLevelKeyed(info.TypeOf(x.Args[0])) {
					direct[fn] = "clears the whole per-level map " + canon(x.Args[0]) + " at " + c.P.Pos(x.Pos())
				}
				if cal := core.Callee(info, x); cal != nil {
					if cf := c.P.ByObj[cal.Origin()]; cf != nil && inScope(cf) {
						calls[fn] = append(calls[fn], cf)
					}
				}
			}
			return true
		})
	}
	var wide func(fn *core.Func, seen map[*core.Func]bool) string
	wide = func(fn *core.Func, seen map[*core.Func]bool) string {
		if seen[fn] {
			return ""
		}
		seen[fn] = true
		if d := direct[fn]; d != "" {
			return fn.Name + " " + d
		}
		for _, g := range calls[fn] {
			if w := wide(g, seen); w != "" {
				return fn.Name + " -> " + w
			}
		}
		return ""
	}
	n, bad := 0, ""
	for _, fn := range sortedFuncs(c.P) {
		if !inScope(fn) || fn.SSA == nil {
			continue
		}
		if _, ok := reach[fn.SSA]; !ok {
			continue
		}
		info := fn.Pkg.TypesInfo
		ast.Inspect(fn.Decl.Body, func(nd ast.Node) bool {
			body, ok := isLevelLoop(info, nd)
			if !ok {
				return true
			}
			ast.Inspect(body, func(x ast.Node) bool {
				call, ok := x.(*ast.CallExpr)
				if !ok {
					return true
				}
				cal := core.Callee(info, call)
				if cal == nil {
					return true
				}
				cf := c.P.ByObj[cal.Origin()]
				if cf == nil || !inScope(cf) {
					return true
				}
				n++
				if w := wide(cf, map[*core.Func]bool{}); w != "" {
					bad += fmt.Sprintf("%s: inside the loop over levels of %s, %s; ", c.P.Pos(call.Pos()), fn.Name, w)
				}
				return true
			})
			return true
		})
	}
	c.Check(R, "no-level-wide-effect-inside-level-loop/snap+pointindex", root.Decl.Pos(), bad == "" && n >= 8, fmt.Sprintf("%d calls made from inside loops over levels; none of the callees loops over levels or replaces a per-level map itself", n), "while one level is being processed, state of all levels is rewritten: "+bad)
}

func init() {
	reg("R46", r46RayIntersectTable)
}

var ordSymRe = regexp.MustCompile(`^(pt|start|end)\[([01])\]([+-]*)$`)

// r46RayIntersectTable: geomhelp.RayIntersect looks at its six ordinates only through comparisons, plus one
// comparison of two slopes.  Its SSA is interpreted over that abstract domain: every weak ordering of the three x
// ordinates (13) times every weak ordering of the three y ordinates (13) times the side of the segment's line the
// point lies on (below, on, above -- where the orderings do not already settle it), with math.Nextafter as "the
// next larger value".  For each of these cases the exit taken is compared with what ray casting in +y direction
// with an x range closed on the left and open on the right must answer.  Independent of the form of the code;
// a comparison the abstract domain cannot answer fails the obligation.
func r46RayIntersectTable(c *core.Ctx) {
	const R = "R46"
	f := c.Anchor(R, "geomhelp.RayIntersect")
	if f == nil || f.SSA == nil {
		return
	}
	construct := "ray-test-agrees-with-ray-casting/" + f.Name
	fn := f.SSA
	if len(fn.Params) != 3 {
		c.Unknown(R, construct, f.Decl.Pos(), "expected (pt, start, end)")
		return
	}
	var orders [][3]int
	for a := 0; a < 3; a++ {
		for b := 0; b < 3; b++ {
			for d := 0; d < 3; d++ {
				used := map[int]bool{a: true, b: true, d: true}
				dense := true
				for k := 0; k < len(used); k++ {
					if !used[k] {
						dense = false
					}
				}
				if dense {
					orders = append(orders, [3]int{a, b, d})
				}
			}
		}
	}
	sign := func(x int) int {
		switch {
		case x < 0:
			return -1
		case x > 0:
			return 1
		}
		return 0
	}
	prevExtern := evalExtern
	defer func() { evalExtern = prevExtern }()
	evalExtern = func(id string, args []interface{}) (interface{}, bool) {
		switch id {
		case "math.Inf":
			if k, ok := args[0].(int64); ok && len(args) == 1 {
				if k >= 0 {
					return evSym("+Inf"), true
				}
				return evSym("-Inf"), true
			}
		case "math.Nextafter":
			if len(args) == 2 {
				x, ok1 := args[0].(evSym)
				d, ok2 := args[1].(evSym)
				if ok1 && ok2 && d == "+Inf" {
					return x + "+", true
				}
				if ok1 && ok2 && d == "-Inf" {
					return x + "-", true
				}
			}
		}
		return nil, false
	}
	cases, bad := 0, ""
	for _, xo := range orders {
		for _, yo := range orders {
			px, sx, ex := xo[0], xo[1], xo[2]
			py, sy, ey := yo[0], yo[1], yo[2]
			// the specification, on the end points put in x order
			ax, ay, bx, by := sx, sy, ex, ey
			if sx > ex {
				ax, ay, bx, by = ex, ey, sx, sy
			}
			miny, maxy := ay, by
			if miny > maxy {
				miny, maxy = maxy, miny
			}
			vertex := (px == sx && py == sy) || (px == ex && py == ey)
			sides := []int{0}
			reachesSlope := !vertex && ax < bx && ax <= px && px < bx && miny <= py && py <= maxy
			if reachesSlope {
				switch {
				case px == ax:
					sides = []int{sign(py - ay)}
				case ay == by:
					sides = []int{sign(py - ay)}
				case py == ay:
					sides = []int{-sign(by - ay)}
				case py == by:
					sides = []int{sign(by - ay)}
				default:
					sides = []int{-1, 0, 1}
				}
			}
			for _, side := range sides {
				var wantHit, wantOn bool
				switch {
				case vertex:
					wantOn = true
				case ax == bx:
					wantOn = px == ax && miny <= py && py <= maxy
				case px < ax || px >= bx:
				case py > maxy:
				case py < miny:
					wantHit = true
				default:
					wantOn = side == 0
					wantHit = side < 0
				}
				rank := func(s evSym) (axis int, r int, ok bool) {
					m := ordSymRe.FindStringSubmatch(string(s))
					if m == nil {
						return 0, 0, false
					}
					k := map[string]int{"pt": 0, "start": 1, "end": 2}[m[1]]
					axis = int(m[2][0] - '0')
					if axis == 0 {
						r = 2 * xo[k] * 8
					} else {
						r = 2 * yo[k] * 8
					}
					for _, ch := range m[3] {
						if ch == '+' {
							r++
						} else {
							r--
						}
					}
					return axis, r, true
				}
				answer := func(op token.Token, cmp int) bool {
					switch op {
					case token.EQL:
						return cmp == 0
					case token.NEQ:
						return cmp != 0
					case token.LSS:
						return cmp < 0
					case token.LEQ:
						return cmp <= 0
					case token.GTR:
						return cmp > 0
					default:
						return cmp >= 0
					}
				}
				oracle := func(op token.Token, l, r evSym) (bool, bool) {
					switch op {
					case token.EQL, token.NEQ, token.LSS, token.LEQ, token.GTR, token.GEQ:
					default:
						return false, false
					}
					la, lr, lok := rank(l)
					ra, rr, rok := rank(r)
					if lok && rok {
						if la != ra {
							return false, false // an x ordinate compared with a y ordinate
						}
						return answer(op, sign(lr-rr)), true
					}
					if !lok && !rok && reachesSlope {
						// two slopes: the one of pt against the segment's own
						lp, rp := strings.Contains(string(l), "pt[1]"), strings.Contains(string(r), "pt[1]")
						if lp && !rp {
							return answer(op, side), true
						}
						if rp && !lp {
							return answer(op, -side), true
						}
					}
					return false, false
				}
				cases++
				res, oc, err := evalPureWith(fn, []interface{}{evSym("pt"), evSym("start"), evSym("end")}, 0, oracle)
				desc := fmt.Sprintf("x order (pt,start,end)=%v, y order=%v, side=%d", xo, yo, side)
				if err != nil {
					c.Unknown(R, construct, f.Decl.Pos(), "the test is not a function of the orderings of its ordinates and one slope comparison: "+err.Error()+" ["+desc+"]")
					return
				}
				if oc != "return" || len(res) != 2 {
					bad += desc + ": does not return; "
					continue
				}
				if res[0] != interface{}(wantHit) || res[1] != interface{}(wantOn) {
					if len(bad) < 600 {
						bad += fmt.Sprintf("%s: answers (intersects=%v, on=%v), ray casting gives (%v, %v); ", desc, res[0], res[1], wantHit, wantOn)
					}
				}
			}
		}
	}
	c.Check(R, construct, f.Decl.Pos(), bad == "" && cases >= 169, fmt.Sprintf("%d cases (13 x 13 orderings, side of the line where free): every exit agrees with ray casting in +y with the x range closed left / open right", cases), "RayIntersect disagrees with ray casting: "+bad)
}

func init() {
	reg("R46", r46RingsEqualInStep)
}

// r46RingsEqualInStep: ringsAreEqual compares vertex k of the first ring with the vertex of the second ring that
// lies k steps from the matching start vertex -- forwards when both rings turn the same way, backwards when a shell
// is compared with a hole.  The index expression of every comparison made in one iteration is evaluated as a linear
// form over (idx, k, n) and reduced modulo the ring length n: it must be idx + k, or idx - k for shell against hole.
// Decided for the four combinations of the two role flags, whatever the form of the code (two guarded comparisons,
// one comparison with a computed index, ...).  The duplicate test of dedupeInnersOuters relies on it: a wrong index
// makes different rings "equal" (one is dropped) or equal rings different (a hole and the shell that fills it both
// stay).
func r46RingsEqualInStep(c *core.Ctx) {
	const R = "R46"
	f := c.P.Lookup("snap.ringsAreEqual")
	if f == nil || f.SSA == nil {
		return // no such helper: duplicate detection written differently, nothing to decide here
	}
	construct := "ring-equality-walks-both-rings-in-step/" + f.Name
	fn := f.SSA
	var rings, flags []ssa.Value
	for _, p := range fn.Params {
		if isBoolType(p.Type()) {
			flags = append(flags, p)
		} else if _, ok := p.Type().Underlying().(*types.Slice); ok {
			rings = append(rings, p)
		}
	}
	if len(rings) != 2 || len(flags) != 2 {
		c.Unknown(R, construct, f.Decl.Pos(), "expected two rings and two role flags as parameters")
		return
	}
	ringI, ringJ := rings[0], rings[1]
	// the loop(s) over k: one loop with guarded comparisons, or one loop per direction -- in ringsAreEqual itself or
	// in helpers of the package it hands the rings to
	countingLoops := func(g *ssa.Function) map[*ssa.BasicBlock]*ssa.Phi {
		out := map[*ssa.BasicBlock]*ssa.Phi{}
		for _, b := range g.Blocks {
			for _, in := range b.Instrs {
				ph, ok := in.(*ssa.Phi)
				if !ok || len(ph.Edges) != 2 {
					continue
				}
				for i, e := range ph.Edges {
					if isConstInt(e, 0) {
						if inc, ok := ph.Edges[1-i].(*ssa.BinOp); ok && inc.Op == token.ADD && inc.X == ssa.Value(ph) && isConstInt(inc.Y, 1) && core.BlockIf(b) != nil {
							out[b] = ph
						}
					}
				}
			}
		}
		return out
	}
	loops := countingLoops(fn)
	hostCalls := map[*ssa.BasicBlock]*ssa.Call{}
	if len(loops) == 0 {
		for _, b := range fn.Blocks {
			for _, in := range b.Instrs {
				if call, ok := in.(*ssa.Call); ok {
					if h := call.Call.StaticCallee(); h != nil && len(h.Blocks) > 0 && h.Pkg == fn.Pkg && len(countingLoops(h)) > 0 {
						hostCalls[b] = call
					}
				}
			}
		}
	}
	if len(loops) == 0 && len(hostCalls) == 0 {
		c.Unknown(R, construct, f.Decl.Pos(), "no counting loop `for k := 0; k < n; k++` found")
		return
	}
	stopAtLoops := map[*ssa.BasicBlock]bool{}
	for h := range loops {
		stopAtLoops[h] = true
	}
	for b := range hostCalls {
		stopAtLoops[b] = true
	}
	// inside a helper, its parameters stand for the values ringsAreEqual passed
	sub := map[ssa.Value]ssa.Value{}
	toCaller := func(v ssa.Value) ssa.Value {
		v = resolveValue(v)
		if m, ok := sub[v]; ok {
			return m
		}
		return v
	}
	var kPhi *ssa.Phi
	isLenOfRing := func(v ssa.Value) bool {
		call, ok := resolveValue(v).(*ssa.Call)
		if !ok {
			return false
		}
		if _, isLen := isBuiltinCall(call, "len"); !isLen {
			return false
		}
		a := toCaller(call.Call.Args[0])
		return a == ringI || a == ringJ
	}
	elemIndex := func(v ssa.Value, ring ssa.Value) (ssa.Value, bool) {
		ia := sliceElemLoad(resolveValue(v))
		if ia == nil || toCaller(ia.X) != ring {
			return nil, false
		}
		return ia.Index, true
	}
	type lin map[string]int
	var linear func(fr *boolFrame, v ssa.Value, depth int) (lin, bool)
	linear = func(fr *boolFrame, v ssa.Value, depth int) (lin, bool) {
		if depth > 12 {
			return nil, false
		}
		v = toCaller(v)
		if kPhi != nil && v == ssa.Value(kPhi) {
			return lin{"k": 1}, true
		}
		if isLenOfRing(v) {
			return lin{"n": 1}, true
		}
		switch x := v.(type) {
		case *ssa.Const:
			if x.Value != nil && x.Value.Kind() == constant.Int {
				return lin{"1": int(x.Int64())}, true
			}
		case *ssa.Convert:
			return linear(fr, x.X, depth+1)
		case *ssa.Phi:
			if sel, ok := fr.phiSel[x]; ok {
				return linear(fr, sel, depth+1)
			}
		case *ssa.Call:
			if strings.HasPrefix(core.StaticCalleeID(x), "slices.Index") && len(x.Call.Args) == 2 && toCaller(x.Call.Args[0]) == ringJ {
				if i0, ok := elemIndex(x.Call.Args[1], ringI); ok && isConstInt(i0, 0) {
					return lin{"idx": 1}, true
				}
			}
		case *ssa.BinOp:
			l, ok1 := linear(fr, x.X, depth+1)
			r, ok2 := linear(fr, x.Y, depth+1)
			if !ok1 || !ok2 {
				return nil, false
			}
			out := lin{}
			switch x.Op {
			case token.ADD, token.SUB:
				sg := 1
				if x.Op == token.SUB {
					sg = -1
				}
				for k, cf := range l {
					out[k] += cf
				}
				for k, cf := range r {
					out[k] += sg * cf
				}
				return out, true
			case token.REM:
				// x mod n: the same residue
				if len(r) == 1 && r["n"] == 1 {
					return l, true
				}
			case token.MUL:
				if len(l) == 1 && l["1"] != 0 {
					l, r = r, l
				}
				if len(r) == 1 && r["1"] != 0 {
					for k, cf := range l {
						out[k] = cf * r["1"]
					}
					return out, true
				}
			}
		}
		return nil, false
	}
	nCmp := 0
	for _, iv := range []bool{false, true} {
		for _, jv := range []bool{false, true} {
			if !iv && jv {
				continue // a hole is never compared with a shell that comes after it: shells are listed first
			}
			wantK := 1
			if iv && !jv {
				wantK = -1
			}
			var seen []ssa.Value
			var fr *boolFrame
			atom := func(_ *boolFrame, v ssa.Value) (string, bool, bool) {
				switch v {
				case flags[0]:
					return "I", false, true
				case flags[1]:
					return "J", false, true
				}
				bo, ok := v.(*ssa.BinOp)
				if !ok {
					return "", false, false
				}
				switch bo.Op {
				case token.NEQ, token.EQL:
					if isLenOfRing(bo.X) && isLenOfRing(bo.Y) {
						return "LENDIFF", bo.Op == token.EQL, true
					}
					if _, ok := elemIndex(bo.X, ringI); ok {
						if e, ok := elemIndex(bo.Y, ringJ); ok {
							seen = append(seen, e)
							return "NE", bo.Op == token.EQL, true
						}
					}
					if _, ok := elemIndex(bo.Y, ringI); ok {
						if e, ok := elemIndex(bo.X, ringJ); ok {
							seen = append(seen, e)
							return "NE", bo.Op == token.EQL, true
						}
					}
				case token.LSS, token.GEQ:
					if isConstInt(bo.Y, 0) {
						if l, ok := linear(fr, bo.X, 0); ok && len(l) == 1 && l["idx"] == 1 {
							return "NOTFOUND", bo.Op == token.GEQ, true
						}
					}
				}
				return "", false, false
			}
			bi := &boolInterp{roleOf: func(*boolFrame, ssa.Value) string { return "" }, atom: atom, assign: map[string]bool{"I": iv, "J": jv}, used: map[string]bool{}}
			fr = &boolFrame{fn: fn, roles: map[ssa.Value]string{}, env: map[ssa.Value]bool{}, phiSel: map[ssa.Value]ssa.Value{}}
			desc := fmt.Sprintf("first ring a shell=%v, second ring a shell=%v", iv, jv)
			for k := range sub {
				delete(sub, k)
			}
			var out boolOutcome
			var err error
			if _, atEntry := hostCalls[fn.Blocks[0]]; atEntry {
				out = boolOutcome{kind: "block", blk: fn.Blocks[0]}
			} else {
				out, err = bi.run(fr, fn.Blocks[0], stopAtLoops, 0)
			}
			if err != nil || out.kind != "block" {
				c.Unknown(R, construct, f.Decl.Pos(), fmt.Sprintf("the way to the loop is not understood (%s): %v", desc, err))
				return
			}
			header := out.blk
			host := fn
			if call, viaHelper := hostCalls[out.blk]; viaHelper {
				host = call.Call.StaticCallee()
				for i, a := range call.Call.Args {
					if i < len(host.Params) {
						sub[host.Params[i]] = resolveValue(a)
					}
				}
				hl := countingLoops(host)
				stopH := map[*ssa.BasicBlock]bool{}
				for h := range hl {
					stopH[h] = true
				}
				fr = &boolFrame{fn: host, roles: map[ssa.Value]string{}, env: map[ssa.Value]bool{}, phiSel: map[ssa.Value]ssa.Value{}}
				out, err = bi.run(fr, host.Blocks[0], stopH, 0)
				if err != nil || out.kind != "block" {
					c.Unknown(R, construct, f.Decl.Pos(), fmt.Sprintf("the way to the loop inside %s is not understood (%s): %v", host.Name(), desc, err))
					return
				}
				header = out.blk
				kPhi = hl[header]
			} else {
				kPhi = loops[header]
			}
			seen = nil
			fr.prev = header
			out, err = bi.run(fr, header.Succs[0], map[*ssa.BasicBlock]bool{header: true}, 0)
			if err != nil {
				c.Unknown(R, construct, f.Decl.Pos(), fmt.Sprintf("one iteration of the comparison loop is not understood (%s): %v", desc, err))
				return
			}
			if out.kind != "block" {
				c.Bad(R, construct, f.Decl.Pos(), "with equal vertices an iteration leaves the loop ("+desc+")")
				return
			}
			if len(seen) == 0 {
				c.Bad(R, construct, f.Decl.Pos(), "an iteration compares no vertex of the two rings ("+desc+")")
				return
			}
			for _, e := range seen {
				nCmp++
				l, ok := linear(fr, e, 0)
				if !ok {
					c.Unknown(R, construct, e.Pos(), "the index into the second ring is not a linear expression of the start index, the counter and the ring length ("+desc+")")
					return
				}
				delete(l, "n")
				if l["idx"] != 1 || l["k"] != wantK || l["1"] != 0 || len(l) > 3 {
					c.Bad(R, construct, e.Pos(), fmt.Sprintf("%s: vertex k of the first ring is compared with vertex %d*idx%+d*k%+d (mod n) of the second; it should be idx%+d*k", desc, l["idx"], l["k"], l["1"], wantK))
					return
				}
			}
		}
	}
	c.OK(R, construct, f.Decl.Pos(), fmt.Sprintf("%d comparisons over the 3 reachable role combinations: second ring indexed idx+k (same direction) or idx-k (shell against hole), modulo the ring length", nCmp))
}

func init() {
	reg("R33", r33AttributesPassedThrough)
}

// r33AttributesPassedThrough: what the reader puts into a feature's attribute list is the value the driver scanned
// for that column: the scanned interface value itself, its dynamic value after a type assertion, or -- for byte
// slices, whose storage the driver reuses -- a string made of a fresh copy.  A value that went through a method or
// function on the way (a time re-formatted, a number rounded) is no longer "the attributes of that feature".
func r33AttributesPassedThrough(c *core.Ctx) {
	const R = "R33"
	f := c.Anchor(R, "gpkg.SourceGeopackage.ReadFeatures")
	if f == nil || f.SSA == nil {
		return
	}
	construct := "attributes-passed-through-unchanged/" + f.Name
	fns := []*ssa.Function{f.SSA}
	// the per-row work may sit in a package helper
	for _, b := range f.SSA.Blocks {
		for _, in := range b.Instrs {
			if call, ok := in.(*ssa.Call); ok {
				if g := call.Call.StaticCallee(); g != nil && len(g.Blocks) > 0 && g.Pkg == f.SSA.Pkg {
					fns = append(fns, g)
				}
			}
		}
	}
	var scanned func(v ssa.Value, depth int) bool
	scanned = func(v ssa.Value, depth int) bool {
		if depth > 6 {
			return false
		}
		v = resolveValue(v)
		switch x := v.(type) {
		case *ssa.MakeInterface:
			return scanned(x.X, depth+1)
		case *ssa.ChangeInterface:
			return scanned(x.X, depth+1)
		case *ssa.Extract:
			if ta, ok := x.Tuple.(*ssa.TypeAssert); ok && x.Index == 0 {
				return scanned(ta.X, depth+1)
			}
		case *ssa.TypeAssert:
			return scanned(x.X, depth+1)
		case *ssa.Phi:
			for _, e := range x.Edges {
				if !scanned(e, depth+1) {
					return false
				}
			}
			return len(x.Edges) > 0
		case *ssa.UnOp:
			// an element of the []interface{} the row was scanned into (or a parameter of a helper holding one)
			if x.Op == token.MUL {
				if ia, ok := x.X.(*ssa.IndexAddr); ok {
					if sl, ok := ia.X.Type().Underlying().(*types.Slice); ok {
						if _, isIface := sl.Elem().Underlying().(*types.Interface); isIface {
							return true
						}
					}
				}
			}
		case *ssa.Parameter:
			_, isIface := x.Type().Underlying().(*types.Interface)
			return isIface
		case *ssa.Convert:
			// string(fresh copy of the scanned bytes)
			if b, ok := x.Type().Underlying().(*types.Basic); ok && b.Kind() == types.String {
				src := resolveValue(x.X)
				if _, fresh := src.(*ssa.MakeSlice); fresh {
					for _, r := range *src.Referrers() {
						if call, ok := r.(*ssa.Call); ok {
							if _, isCopy := isBuiltinCall(call, "copy"); isCopy && call.Call.Args[0] == src && scanned(call.Call.Args[1], depth+1) {
								return true
							}
						}
					}
				}
				// string(v) of the scanned bytes directly
				return scanned(src, depth+1)
			}
		}
		return false
	}
	n, bad := 0, ""
	for _, fn := range fns {
		for _, b := range fn.Blocks {
			for _, in := range b.Instrs {
				call, ok := in.(*ssa.Call)
				if !ok {
					continue
				}
				if _, isApp := isBuiltinCall(call, "append"); !isApp || len(call.Call.Args) != 2 {
					continue
				}
				sl, ok := call.Type().Underlying().(*types.Slice)
				if !ok {
					continue
				}
				if it, isIface := sl.Elem().Underlying().(*types.Interface); !isIface || it.NumMethods() != 0 {
					continue
				}
				for _, e := range sliceLitElems(call.Call.Args[1]) {
					n++
					if !scanned(e, 0) {
						bad += fmt.Sprintf("%s appends %s; ", c.P.Pos(call.Pos()), strings.TrimSpace(e.String()))
					}
				}
			}
		}
	}
	c.Check(R, construct, f.Decl.Pos(), bad == "" && n >= 2, fmt.Sprintf("%d values appended to the attribute list, each the scanned value itself (or a fresh string copy of scanned bytes)", n), "an attribute value is transformed between the source row and the feature: "+bad)
}

func init() {
	reg("R01", r01CodecIsPlainScaling)
}

// r01CodecIsPlainScaling: every coordinate enters the integer domain through FromGeomOrd and leaves it through
// ToGeomOrd.  Both are the plain scaling by 10^Precision the other rules take them for: ToGeomOrd(o) is
// float64(o) / 10^Precision (or the constant 0), FromGeomOrd(o) is int64(o * 10^Precision).  Anything else (whole
// and fractional part converted apart, an offset, another rounding) is not understood and fails.
func r01CodecIsPlainScaling(c *core.Ctx) {
	const R = "R01"
	depthScale := 0
	var isScale func(v ssa.Value) bool
	isScale = func(v ssa.Value) bool {
		v = resolveValue(v)
		switch x := v.(type) {
		case *ssa.Const:
			return x.Value != nil && x.Value.Kind() == constant.Float && x.Float64() == 1e10
		case *ssa.Convert:
			if k, ok := x.X.(*ssa.Const); ok && k.Value != nil {
				f, _ := constant.Float64Val(constant.ToFloat(k.Value))
				return f == 1e10
			}
		case *ssa.Call:
			// a module function without parameters that returns the scale
			if g := x.Call.StaticCallee(); g != nil && len(g.Blocks) > 0 && len(g.Params) == 0 && core.IsModPath(core.FuncPkgPath(g)) && depthScale < 2 {
				depthScale++
				defer func() { depthScale-- }()
				n := 0
				for _, b := range g.Blocks {
					for _, in := range b.Instrs {
						if ret, ok := in.(*ssa.Return); ok {
							n++
							if len(ret.Results) != 1 || !isScale(ret.Results[0]) {
								return false
							}
						}
					}
				}
				return n > 0
			}
			if core.StaticCalleeID(x) == "math.Pow" && len(x.Call.Args) == 2 {
				b, ok1 := x.Call.Args[0].(*ssa.Const)
				e, ok2 := x.Call.Args[1].(*ssa.Const)
				if ok1 && ok2 && b.Value != nil && e.Value != nil {
					bf, _ := constant.Float64Val(constant.ToFloat(b.Value))
					ef, _ := constant.Float64Val(constant.ToFloat(e.Value))
					return bf == 10 && ef == 10
				}
			}
		}
		return false
	}
	check := func(name string, shape func(fn *ssa.Function, r ssa.Value) string) {
		f := c.Anchor(R, name)
		if f == nil || f.SSA == nil {
			return
		}
		n, why := 0, ""
		for _, b := range f.SSA.Blocks {
			for _, in := range b.Instrs {
				if ret, ok := in.(*ssa.Return); ok && len(ret.Results) == 1 {
					n++
					if w := shape(f.SSA, ret.Results[0]); w != "" {
						why = w
					}
				}
			}
		}
		c.Check(R, "codec-is-plain-scaling/"+name, f.Decl.Pos(), n > 0 && why == "", "scaling by 10^Precision and one conversion, nothing else", name+" is no longer the plain scaling by 10^Precision: "+why)
	}
	check("intgeom.ToGeomOrd", func(fn *ssa.Function, r ssa.Value) string {
		r = resolveValue(r)
		if k, ok := r.(*ssa.Const); ok && k.Value != nil && k.Float64() == 0 {
			return ""
		}
		q, ok := r.(*ssa.BinOp)
		if !ok || q.Op != token.QUO || !isScale(q.Y) {
			return "the result is not <float of the ordinate> / 10^Precision"
		}
		cv, ok := resolveValue(q.X).(*ssa.Convert)
		if !ok || resolveValue(cv.X) != ssa.Value(fn.Params[0]) {
			return "what is divided is not float64(o) of the whole ordinate"
		}
		return ""
	})
	check("intgeom.FromGeomOrd", func(fn *ssa.Function, r ssa.Value) string {
		cv, ok := resolveValue(r).(*ssa.Convert)
		if !ok {
			return "the result is not a conversion of the scaled ordinate"
		}
		m, ok := resolveValue(cv.X).(*ssa.BinOp)
		if !ok || m.Op != token.MUL {
			return "what is converted is not o * 10^Precision"
		}
		x, y := resolveValue(m.X), m.Y
		if isScale(x) {
			x, y = resolveValue(m.Y), m.X
		}
		if x != ssa.Value(fn.Params[0]) || !isScale(y) {
			return "what is converted is not o * 10^Precision"
		}
		return ""
	})
	// The two-ordinate conversions are the codec applied to each ordinate and nothing else: no arithmetic of their
	// own (a rounding to some number of decimals, an offset) and no call but the codec, however the body is spelled
	// (locals, literal, element stores).  Round 12: ToGeomPoint rounded its result to 7 decimals.
	for _, pc := range []struct{ name, codec string }{{"intgeom.Point.ToGeomPoint", "intgeom.ToGeomOrd"}, {"intgeom.FromGeomPoint", "intgeom.FromGeomOrd"}} {
		f := c.Anchor(R, pc.name)
		if f == nil || f.SSA == nil {
			continue
		}
		n, why := 0, ""
		for _, b := range f.SSA.Blocks {
			for _, in := range b.Instrs {
				switch x := in.(type) {
				case *ssa.BinOp:
					switch x.Op {
					case token.ADD, token.SUB, token.MUL, token.QUO, token.REM, token.SHL, token.SHR, token.AND, token.OR, token.XOR, token.AND_NOT:
						// the counter of a loop over the two ordinates is plain int arithmetic; ordinates are float64 / M
						if bt, isB := x.Type().Underlying().(*types.Basic); isB && bt.Kind() == types.Int {
							continue
						}
						why += fmt.Sprintf("arithmetic %s at %s; ", x.Op, c.P.Pos(x.Pos()))
					}
				case *ssa.Convert:
					why += fmt.Sprintf("conversion to %s at %s; ", x.Type(), c.P.Pos(x.Pos()))
				case *ssa.Call:
					if _, isBuiltin := x.Call.Value.(*ssa.Builtin); isBuiltin {
						continue
					}
					if id := core.StaticCalleeID(x); strings.HasSuffix(id, "/"+pc.codec) {
						n++
					} else {
						why += fmt.Sprintf("call of %s at %s; ", id, c.P.Pos(x.Pos()))
					}
				}
			}
		}
		if n < 1 && why == "" {
			why = fmt.Sprintf("%d calls of %s, two ordinates to convert", n, pc.codec)
		}
		c.Check(R, "point-conversion-is-the-codec-per-ordinate/"+pc.name, f.Decl.Pos(), why == "", fmt.Sprintf("%d call sites of %s, no ordinate arithmetic, conversion or other call in the body", n, pc.codec), pc.name+" does more than apply "+pc.codec+" to each ordinate, so a returned coordinate is no longer the stored pixel centre scaled by 10^Precision: "+why)
	}
}

func init() {
	reg("R19", r19NoScalarCarriedBetweenLevels)
}

// r19NoScalarCarriedBetweenLevels: the iterations of a loop over the requested levels are independent: inside such
// a loop (a range over a level-keyed map or over the level list; not the coarse-to-fine descent, whose iterations
// are dependent by design) no variable of basic type declared outside the loop is assigned.  A flag or counter set
// while one level is processed and read later makes what happens to the other levels -- in this or a later
// iteration of an enclosing loop -- depend on which levels were requested together.
func r19NoScalarCarriedBetweenLevels(c *core.Ctx) {
	const R = "R19"
	root := c.Anchor(R, "snap.SnapPolygon")
	if root == nil {
		return
	}
	reach := core.ReachableNoStdlibTransit(c.P.VTA(), root.SSA)
	n, bad := 0, ""
	for _, fn := range sortedFuncs(c.P) {
		sp := core.ShortPkg(fn.Pkg.PkgPath)
		if (sp != "snap" && sp != "pointindex") || fn.SSA == nil || fn.Decl.Body == nil {
			continue
		}
		if _, ok := reach[fn.SSA]; !ok {
			continue
		}
		info := fn.Pkg.TypesInfo
		ast.Inspect(fn.Decl.Body, func(nd ast.Node) bool {
			body, ok := isLevelLoop(info, nd)
			if !ok {
				return true
			}
			if _, isFor := nd.(*ast.ForStmt); isFor {
				return true // the descent
			}
			n++
			outer := func(e ast.Expr) (types.Object, bool) {
				id, ok := ast.Unparen(e).(*ast.Ident)
				if !ok {
					return nil, false
				}
				o := core.ObjOf(info, id)
				v, isVar := o.(*types.Var)
				if !isVar || v.IsField() {
					return nil, false
				}
				if _, basic := v.Type().Underlying().(*types.Basic); !basic {
					return nil, false
				}
				if v.Pos() >= nd.Pos() && v.Pos() <= nd.End() {
					return nil, false // the loop's own variables
				}
				return o, true
			}
			ast.Inspect(body, func(x ast.Node) bool {
				switch s := x.(type) {
				case *ast.AssignStmt:
					if s.Tok == token.DEFINE {
						return true
					}
					for _, l := range s.Lhs {
						if o, isOuter := outer(l); isOuter {
							bad += fmt.Sprintf("%s: %s is assigned inside the loop over levels at %s; ", c.P.Pos(s.Pos()), o.Name(), c.P.Pos(nd.Pos()))
						}
					}
				case *ast.IncDecStmt:
					if o, isOuter := outer(s.X); isOuter {
						bad += fmt.Sprintf("%s: %s is counted inside the loop over levels at %s; ", c.P.Pos(s.Pos()), o.Name(), c.P.Pos(nd.Pos()))
					}
				}
				return true
			})
			return true
		})
	}
	// the same one storey up: the results per requested tile matrix are delivered by loops over id-keyed maps
	n2, bad2 := 0, ""
	for _, fn := range sortedFuncs(c.P) {
		if core.ShortPkg(fn.Pkg.PkgPath) != "processing" || fn.Decl.Body == nil {
			continue
		}
		info := fn.Pkg.TypesInfo
		// a scalar only counts as carried when a loop over tile matrix ids also reads it (a tally for the log,
		// read after the loops, decides nothing)
		readIn := map[types.Object]bool{}
		ast.Inspect(fn.Decl.Body, func(nd ast.Node) bool {
			rs, ok := nd.(*ast.RangeStmt)
			if !ok {
				return true
			}
			m, isMap := types.Unalias(info.TypeOf(rs.X)).Underlying().(*types.Map)
			if !isMap {
				return true
			}
			if a, isAlias := m.Key().(*types.Alias); !isAlias || a.Obj().Name() != "TMID" {
				return true
			}
			ast.Inspect(rs.Body, func(x ast.Node) bool {
				switch st := x.(type) {
				case *ast.IncDecStmt:
					if _, isId := ast.Unparen(st.X).(*ast.Ident); isId {
						return false
					}
				case *ast.AssignStmt:
					// x = x op ..., x op= ...: reading its own old value
					own := map[types.Object]bool{}
					for _, l := range st.Lhs {
						if id, isId := ast.Unparen(l).(*ast.Ident); isId {
							own[core.ObjOf(info, id)] = true
						}
					}
					for _, r := range st.Rhs {
						ast.Inspect(r, func(y ast.Node) bool {
							if id, isId := y.(*ast.Ident); isId {
								if o := info.Uses[id]; o != nil && !own[o] {
									readIn[o] = true
								}
							}
							return true
						})
					}
					for _, l := range st.Lhs {
						if _, isId := ast.Unparen(l).(*ast.Ident); !isId {
							ast.Inspect(l, func(y ast.Node) bool {
								if id, isId := y.(*ast.Ident); isId {
									if o := info.Uses[id]; o != nil {
										readIn[o] = true
									}
								}
								return true
							})
						}
					}
					return false
				case *ast.Ident:
					if o := info.Uses[st]; o != nil {
						readIn[o] = true
					}
				}
				return true
			})
			return true
		})
		ast.Inspect(fn.Decl.Body, func(nd ast.Node) bool {
			rs, ok := nd.(*ast.RangeStmt)
			if !ok {
				return true
			}
			m, isMap := types.Unalias(info.TypeOf(rs.X)).Underlying().(*types.Map)
			if !isMap {
				return true
			}
			if a, isAlias := m.Key().(*types.Alias); !isAlias || a.Obj().Name() != "TMID" {
				return true
			}
			n2++
			ast.Inspect(rs.Body, func(x ast.Node) bool {
				var lhs []ast.Expr
				switch s := x.(type) {
				case *ast.AssignStmt:
					if s.Tok != token.DEFINE {
						lhs = s.Lhs
					}
				case *ast.IncDecStmt:
					lhs = []ast.Expr{s.X}
				}
				for _, l := range lhs {
					id, ok := ast.Unparen(l).(*ast.Ident)
					if !ok {
						continue
					}
					v, isVar := core.ObjOf(info, id).(*types.Var)
					if !isVar || v.IsField() {
						continue
					}
					if _, basic := v.Type().Underlying().(*types.Basic); !basic {
						continue
					}
					if v.Pos() >= nd.Pos() && v.Pos() <= nd.End() {
						continue
					}
					if !readIn[v] {
						continue
					}
					bad2 += fmt.Sprintf("%s: %s is assigned inside the loop over tile matrix ids at %s; ", c.P.Pos(x.Pos()), v.Name(), c.P.Pos(nd.Pos()))
				}
				return true
			})
			return true
		})
	}
	c.Check(R, "no-scalar-carried-between-tile-matrices/processing", root.Decl.Pos(), bad2 == "" && n2 >= 2, fmt.Sprintf("%d loops over the results per tile matrix id; none assigns a flag, counter or other scalar that outlives the iteration", n2), "what is delivered for one tile matrix depends on the others requested with it: "+bad2)
	c.Check(R, "no-scalar-carried-between-levels/snap+pointindex", root.Decl.Pos(), bad == "" && n >= 5, fmt.Sprintf("%d loops over requested levels; none assigns a flag, counter or other scalar that outlives the iteration", n), "state is carried from one level to another: "+bad)
}

func init() {
	reg("R39", r39RawMembersReencodedRaw)
}

// r39RawMembersReencodedRaw: where a decoder keeps a member of the document as it came (a field of type
// map[string]interface{} it stores into), that copy is what the encoder of the same type reads.  Encoding a typed
// subset in its place drops every member the typed form does not model, and decode(encode(v)) differs from v.
func r39RawMembersReencodedRaw(c *core.Ctx) {
	const R = "R39"
	pk := c.P.PkgShort("tms20")
	if pk == nil {
		return
	}
	type acc struct{ dec, enc bool }
	fields := map[*types.Var]*acc{}
	isRaw := func(t types.Type) bool {
		m, ok := t.Underlying().(*types.Map)
		if !ok {
			return false
		}
		it, ok := m.Elem().Underlying().(*types.Interface)
		return ok && it.NumMethods() == 0
	}
	owner := map[*types.Var]string{}
	hasEnc := map[string]bool{}
	for _, f := range sortedFuncs(c.P) {
		if f.Pkg != pk || f.SSA == nil || f.Decl.Recv == nil {
			continue
		}
		name := f.Decl.Name.Name
		isDec := strings.HasPrefix(name, "UnmarshalJSON")
		isEnc := name == "MarshalJSON"
		if !isDec && !isEnc {
			continue
		}
		st, ok := core.DerefStruct(f.SSA.Params[0].Type())
		if !ok {
			continue
		}
		tname := core.TypeShort(f.SSA.Params[0].Type())
		if isEnc {
			hasEnc[tname] = true
		}
		// the method, its closures and the package helpers it calls (one level)
		fns := core.AllSSAFuncs(f.SSA)
		for _, b := range f.SSA.Blocks {
			for _, in := range b.Instrs {
				if ci, ok := in.(ssa.CallInstruction); ok {
					if g := ci.Common().StaticCallee(); g != nil && len(g.Blocks) > 0 && g.Pkg == f.SSA.Pkg && !strings.Contains(g.Name(), "arshalJSON") {
						fns = append(fns, core.AllSSAFuncs(g)...)
					}
				}
			}
		}
		for _, fn := range fns {
			for _, b := range fn.Blocks {
				for _, in := range b.Instrs {
					var fa *ssa.FieldAddr
					write := false
					switch x := in.(type) {
					case *ssa.Store:
						fa, _ = x.Addr.(*ssa.FieldAddr)
						write = true
					case *ssa.UnOp:
						if x.Op == token.MUL {
							fa, _ = x.X.(*ssa.FieldAddr)
						}
					}
					if fa == nil {
						continue
					}
					s2, ok := core.DerefStruct(fa.X.Type())
					if !ok || s2 != st {
						continue
					}
					fv := st.Field(fa.Field)
					if !isRaw(fv.Type()) {
						continue
					}
					if fields[fv] == nil {
						fields[fv] = &acc{}
						owner[fv] = tname
					}
					if isDec && write {
						fields[fv].dec = true
					}
					if isEnc && !write {
						fields[fv].enc = true
					}
				}
			}
		}
	}
	n := 0
	for fv, a := range fields {
		if !a.dec || !hasEnc[owner[fv]] {
			continue
		}
		n++
		c.Check(R, "raw-member-reencoded-raw/"+owner[fv]+"."+fv.Name(), fv.Pos(), a.enc, "kept as decoded and read by the encoder", "the decoder keeps the member as it came in "+owner[fv]+"."+fv.Name()+" but the encoder does not read it: what is written is a typed subset and the rest of the member is lost")
	}
	if n < 2 {
		c.Bad(R, "raw-member-reencoded-raw/inventory", token.NoPos, fmt.Sprintf("%d raw members found (the wkt and referenceSystem forms of the crs were confirmed by hand)", n))
	}
}

func init() {
	reg("R37", r37NoAcceptanceWithoutGate)
}

// r37NoAcceptanceWithoutGate: validation cannot answer "accepted" without having asked: every return of
// validateTileMatrixSet that can carry a nil error lies behind the IsQuadTree call.  A shortcut before it (an empty
// id list, a cached answer) accepts sets nobody looked at.
func r37NoAcceptanceWithoutGate(c *core.Ctx) {
	const R = "R37"
	v := c.Anchor(R, "main.validateTileMatrixSet")
	if v == nil || v.SSA == nil {
		return
	}
	construct := "no-acceptance-without-gate/" + v.Name
	gates := effectiveCalls(v.SSA, core.ModPath+"/pointindex.IsQuadTree", 1)
	if len(gates) != 1 {
		c.Bad(R, construct, v.Decl.Pos(), fmt.Sprintf("expected one call of pointindex.IsQuadTree, found %d", len(gates)))
		return
	}
	gate := gates[0].Site
	n, bad := 0, ""
	for _, b := range v.SSA.Blocks {
		for _, in := range b.Instrs {
			ret, ok := in.(*ssa.Return)
			if !ok {
				continue
			}
			n++
			if !core.Dominates(gate, ret) {
				bad += c.P.Pos(ret.Pos()) + " "
			}
		}
	}
	c.Check(R, construct, v.Decl.Pos(), n > 0 && bad == "", fmt.Sprintf("all %d returns lie behind the IsQuadTree call", n), "validation can return without having called IsQuadTree: "+bad)
}

func init() {
	reg("R46", r46SmallestContainingShell)
}

// r46SmallestContainingShell: when several shells contain a hole, the hole goes to the smallest of them: the
// candidates are looked up in the list of shells sorted by area, descending, and the last match of *that list* is
// taken.  Decided: matchInnersToPolygons hands LastMatch the area-sorted list first and the containing shells
// second, and whatever LastMatch returns (other than the zero value) is an element of its first parameter.
func r46SmallestContainingShell(c *core.Ctx) {
	const R = "R46"
	mf := c.Anchor(R, "snap.matchInnersToPolygons")
	lm := c.P.Lookup("mapslicehelp.LastMatch")
	if mf == nil || mf.SSA == nil {
		return
	}
	construct := "hole-goes-to-smallest-containing-shell/" + mf.Name
	if lm == nil || lm.SSA == nil {
		c.Unknown(R, construct, mf.Decl.Pos(), "mapslicehelp.LastMatch not found: how the shell is chosen among several containing ones is not understood")
		return
	}
	// (a) LastMatch returns elements of its first parameter only
	why := ""
	nret := 0
	hay := lm.SSA.Params[0]
	for _, b := range lm.SSA.Blocks {
		for _, in := range b.Instrs {
			ret, ok := in.(*ssa.Return)
			if !ok || len(ret.Results) != 1 {
				continue
			}
			nret++
			var check func(v ssa.Value, seen map[ssa.Value]bool)
			check = func(v ssa.Value, seen map[ssa.Value]bool) {
				v = resolveValue(v)
				if seen[v] {
					return
				}
				seen[v] = true
				switch x := v.(type) {
				case *ssa.Phi:
					for _, e := range x.Edges {
						check(e, seen)
					}
					return
				case *ssa.Const:
					return // the zero value
				case *ssa.UnOp:
					if x.Op == token.MUL {
						if ia, ok := x.X.(*ssa.IndexAddr); ok && resolveValue(ia.X) == ssa.Value(hay) {
							return
						}
						if a, ok := x.X.(*ssa.Alloc); ok {
							// `var empty T` / a result variable: what is stored into it
							for _, r := range *a.Referrers() {
								if st, ok := r.(*ssa.Store); ok && st.Addr == ssa.Value(a) {
									check(st.Val, seen)
								}
							}
							return
						}
					}
				}
				why = "a result of LastMatch is not an element of its first parameter (" + strings.TrimSpace(v.String()) + ")"
			}
			check(ret.Results[0], map[ssa.Value]bool{})
		}
	}
	// (b) the call: sorted list first, containing shells second
	okCall, n := false, 0
	for _, b := range mf.SSA.Blocks {
		for _, in := range b.Instrs {
			call, ok := in.(*ssa.Call)
			if !ok || call.Call.StaticCallee() == nil || call.Call.StaticCallee().Origin() != lm.SSA && call.Call.StaticCallee() != lm.SSA {
				continue
			}
			n++
			fromSort := func(v ssa.Value) bool {
				found := false
				var walk func(v ssa.Value, seen map[ssa.Value]bool)
				walk = func(v ssa.Value, seen map[ssa.Value]bool) {
					v = resolveValue(v)
					if seen[v] {
						return
					}
					seen[v] = true
					switch x := v.(type) {
					case *ssa.Phi:
						for _, e := range x.Edges {
							walk(e, seen)
						}
					case *ssa.Call:
						if g := x.Call.StaticCallee(); g != nil && strings.Contains(g.Name(), "AreaDesc") {
							found = true
						}
					}
				}
				walk(v, map[ssa.Value]bool{})
				return found
			}
			if len(call.Call.Args) == 2 && fromSort(call.Call.Args[0]) && !fromSort(call.Call.Args[1]) {
				okCall = true
			}
		}
	}
	switch {
	case why != "" || nret == 0:
		c.Bad(R, construct, lm.Decl.Pos(), "the shell chosen among several containing ones is not taken from the area-sorted list: "+why)
	case n != 1 || !okCall:
		c.Bad(R, construct, mf.Decl.Pos(), "matchInnersToPolygons does not hand LastMatch the area-sorted shell list as first and the containing shells as second argument")
	default:
		c.OK(R, construct, mf.Decl.Pos(), "LastMatch(shells by area descending, containing shells) and LastMatch returns elements of its first parameter")
	}
}

func init() {
	reg("R22", func(c *core.Ctx) { noRecoverInModule(c, "R22") })
	reg("R41", func(c *core.Ctx) { noRecoverInModule(c, "R41") })
}

// noRecoverInModule: "reported" means the panic or the error reaches the caller.  The module has no recover();
// one added anywhere between the point index and the command line can turn a reported rejection (outside the grid,
// address not encodable) into a silent success.
func noRecoverInModule(c *core.Ctx, R string) {
	n, bad := 0, ""
	for _, fn := range allModFuncs(c.P) {
		n++
		for _, b := range fn.Blocks {
			for _, in := range b.Instrs {
				if call, ok := in.(*ssa.Call); ok {
					if _, isRec := isBuiltinCall(call, "recover"); isRec {
						bad += fmt.Sprintf("%s in %s; ", c.P.Pos(call.Pos()), fn.String())
					}
				}
			}
		}
	}
	c.Check(R, "no-recover-in-module", token.NoPos, bad == "" && n > 50, fmt.Sprintf("%d module functions, none calls recover()", n), "a recover() can swallow the panic that reports a rejected vertex or a pixel address that cannot be encoded: "+bad)
}

func init() {
	reg("R33", r33CreateDeclaresSourceColumns)
}

// r33CreateDeclaresSourceColumns: the target table's columns are the source's: in createSQL the text appended for a
// column is put together from constants and that column's own `name` and `ctype` fields, nothing else (the
// geometry column included: its declared type is the one the source table declared, whatever geometry type the
// catalogue registers).  String concatenation tree of the appended element, through the `+=` phis.
func r33CreateDeclaresSourceColumns(c *core.Ctx) {
	const R = "R33"
	f := c.Anchor(R, "gpkg.Table.createSQL")
	if f == nil || f.SSA == nil {
		return
	}
	construct := "create-declares-each-column-as-in-source/" + f.Name
	fn := f.SSA
	n, bad := 0, ""
	fieldsSeen := map[string]bool{}
	var leaves func(v ssa.Value, seen map[ssa.Value]bool)
	leaves = func(v ssa.Value, seen map[ssa.Value]bool) {
		v = resolveValue(v)
		if seen[v] {
			return
		}
		seen[v] = true
		switch x := v.(type) {
		case *ssa.Const:
			return
		case *ssa.Phi:
			for _, e := range x.Edges {
				leaves(e, seen)
			}
			return
		case *ssa.BinOp:
			if x.Op == token.ADD {
				leaves(x.X, seen)
				leaves(x.Y, seen)
				return
			}
		case *ssa.Field:
			if st, ok := x.X.Type().Underlying().(*types.Struct); ok && core.TypeShort(x.X.Type()) == "gpkg.column" {
				fieldsSeen[st.Field(x.Field).Name()] = true
				if sliceElemLoad(resolveValue(x.X)) != nil || true {
					return
				}
			}
		case *ssa.UnOp:
			if fa, ok := x.X.(*ssa.FieldAddr); ok && x.Op == token.MUL {
				if st, ok := core.DerefStruct(fa.X.Type()); ok && core.TypeShort(fa.X.Type()) == "gpkg.column" {
					fieldsSeen[st.Field(fa.Field).Name()] = true
					return
				}
			}
		}
		bad += fmt.Sprintf("%s (%s); ", strings.TrimSpace(v.String()), c.P.Pos(v.Pos()))
	}
	for _, b := range fn.Blocks {
		for _, in := range b.Instrs {
			call, ok := in.(*ssa.Call)
			if !ok {
				continue
			}
			if _, isApp := isBuiltinCall(call, "append"); !isApp || len(call.Call.Args) != 2 {
				continue
			}
			if sl, ok := call.Type().Underlying().(*types.Slice); !ok || !isStringType(sl.Elem()) {
				continue
			}
			for _, e := range sliceLitElems(call.Call.Args[1]) {
				n++
				leaves(e, map[ssa.Value]bool{})
			}
		}
	}
	okc := n == 1 && bad == "" && fieldsSeen["name"] && fieldsSeen["ctype"]
	for k := range fieldsSeen {
		if k != "name" && k != "ctype" {
			okc = false
			bad += "field " + k + " is written into the declaration; "
		}
	}
	c.Check(R, construct, f.Decl.Pos(), okc, "each column is declared as `name ctype [NOT NULL] [PRIMARY KEY]` from its own description", "a column of the target table is not declared with the source column's own name and type: "+bad)
}

func isStringType(t types.Type) bool {
	b, ok := t.Underlying().(*types.Basic)
	return ok && b.Kind() == types.String
}

func init() {
	reg("R09", r09BuiltinCellSizesHalve)
}

// r09BuiltinCellSizesHalve: the index derives every pixel size from matrix 0 (root span / 2^level), so "the pixel
// size used for tile matrix z is its cell size / 16" holds exactly when cellSize(z) = cellSize(0) / 2^z.  IsQuadTree
// accepts a ratio between 1.99 and 2.01, which a mistyped digit passes.  For every embedded document that has the
// structure of a quadtree (ids 0..n, square matrices of 2^z tiles, no variable widths) the declared cell sizes are
// therefore read from the source tree and compared: relative deviation from cellSize(0)/2^z at most 1e-6 (the
// shipped documents stay below 3e-8).
func r09BuiltinCellSizesHalve(c *core.Ctx) {
	const R = "R09"
	files, _ := filepath.Glob(filepath.Join(c.P.RepoDir, "tms20", "tilematrixsets", "*.json"))
	checked := 0
	for _, fn := range files {
		name := strings.TrimSuffix(filepath.Base(fn), ".json")
		construct := "builtin-cell-sizes-halve/" + name
		b, err := os.ReadFile(fn)
		if err != nil {
			c.Bad(R, construct, token.NoPos, err.Error())
			continue
		}
		var doc struct {
			TileMatrices []struct {
				ID                   string          `json:"id"`
				CellSize             json.Number     `json:"cellSize"`
				MatrixWidth          int64           `json:"matrixWidth"`
				MatrixHeight         int64           `json:"matrixHeight"`
				VariableMatrixWidths json.RawMessage `json:"variableMatrixWidths"`
			} `json:"tileMatrices"`
		}
		dec := json.NewDecoder(strings.NewReader(string(b)))
		dec.UseNumber()
		if err := dec.Decode(&doc); err != nil {
			c.Bad(R, construct, token.NoPos, "document does not parse: "+err.Error())
			continue
		}
		byID := map[int64]int{}
		structural := len(doc.TileMatrices) > 0
		for i, m := range doc.TileMatrices {
			id, err := strconv.ParseInt(m.ID, 10, 64)
			if err != nil || id < 0 || id > 62 {
				structural = false
				break
			}
			byID[id] = i
			if m.MatrixWidth != m.MatrixHeight || m.MatrixWidth != int64(1)<<uint(id) || len(m.VariableMatrixWidths) > 0 {
				structural = false
			}
		}
		if structural {
			for id := int64(0); id < int64(len(doc.TileMatrices)); id++ {
				if _, ok := byID[id]; !ok {
					structural = false
				}
			}
		}
		if !structural {
			continue // not a quadtree by its shape: IsQuadTree's own conditions (R38) turn it down
		}
		checked++
		// each declared value v_z stands for the interval v_z +/- 2 units of its last printed digit; scaled by 2^z
		// all intervals must have a point in common: the one cell size of matrix 0 that explains them all
		type iv struct{ lo, hi *big.Rat }
		ivs := make([]iv, len(doc.TileMatrices))
		okParse := true
		for id := int64(0); id < int64(len(doc.TileMatrices)); id++ {
			txt := doc.TileMatrices[byID[id]].CellSize.String()
			v, ok := new(big.Rat).SetString(txt)
			if !ok {
				okParse = false
				break
			}
			digits := 0
			mant := txt
			exp := 0
			if k := strings.IndexAny(txt, "eE"); k >= 0 {
				mant = txt[:k]
				exp, _ = strconv.Atoi(txt[k+1:])
			}
			if k := strings.Index(mant, "."); k >= 0 {
				digits = len(mant) - k - 1
			}
			ulp := new(big.Rat).SetFrac(big.NewInt(1), new(big.Int).Exp(big.NewInt(10), big.NewInt(int64(digits)), nil))
			if exp != 0 {
				sc := new(big.Rat).SetInt(new(big.Int).Exp(big.NewInt(10), big.NewInt(int64(abs(exp))), nil))
				if exp > 0 {
					ulp.Mul(ulp, sc)
				} else {
					ulp.Quo(ulp, sc)
				}
			}
			tol := new(big.Rat).Mul(ulp, big.NewRat(2, 1))
			scale := new(big.Rat).SetInt(new(big.Int).Lsh(big.NewInt(1), uint(id)))
			ivs[id] = iv{new(big.Rat).Mul(new(big.Rat).Sub(v, tol), scale), new(big.Rat).Mul(new(big.Rat).Add(v, tol), scale)}
		}
		if !okParse {
			c.Bad(R, construct, token.NoPos, "a cell size is not a number")
			continue
		}
		common := func(skip int) bool {
			var lo, hi *big.Rat
			for i, x := range ivs {
				if i == skip {
					continue
				}
				if lo == nil || x.lo.Cmp(lo) > 0 {
					lo = x.lo
				}
				if hi == nil || x.hi.Cmp(hi) < 0 {
					hi = x.hi
				}
			}
			return lo == nil || lo.Cmp(hi) <= 0
		}
		if common(-1) {
			c.OK(R, construct, token.NoPos, fmt.Sprintf("%d matrices: one cell size of matrix 0 explains every declared value to 2 units of its last printed digit (cellSize(z) = cellSize(0) / 2^z)", len(ivs)))
			continue
		}
		culprit := ""
		for i := range ivs {
			if common(i) {
				culprit += fmt.Sprintf("%d ", i)
			}
		}
		if culprit == "" {
			culprit = "several"
		}
		c.Bad(R, construct, token.NoPos, "the declared cell sizes do not halve per level: no cell size of matrix 0 explains them all to 2 units of their last printed digit (odd one out: tile matrix "+strings.TrimSpace(culprit)+"); the set still passes IsQuadTree's 1% tolerance, but the index takes every pixel size and the whole extent from matrix 0, so coordinates of the other matrices are no longer on their own grid")
	}
	if checked < 7 {
		c.Bad(R, "builtin-cell-sizes-halve/inventory", token.NoPos, fmt.Sprintf("%d embedded documents have the shape of a quadtree, 7 confirmed by hand", checked))
	}
}

func abs(x int) int {
	if x < 0 {
		return -x
	}
	return x
}

func init() {
	reg("R01", r01IntersectionAnswerIsTheLibrarys)
	reg("R46", r46ContainmentCountedOverAllVertices)
}

// r01IntersectionAnswerIsTheLibrarys: intgeom.SegmentIntersect answers what the planar primitive answers for its
// two lines, on every path: each return carries the primitive's own "intersects" result, and the primitive is
// given l1 and l2 in that order.  A shortcut exit in front of it answers "no" from a guess about the segments
// (their direction, their bounding boxes) the callers do not promise.
func r01IntersectionAnswerIsTheLibrarys(c *core.Ctx) {
	const R = "R01"
	f := c.Anchor(R, "intgeom.SegmentIntersect")
	if f == nil || f.SSA == nil {
		return
	}
	construct := "intersection-answer-is-the-primitive's/" + f.Name
	fn := f.SSA
	var prim *ssa.Call
	n := 0
	for _, b := range fn.Blocks {
		for _, in := range b.Instrs {
			if call, ok := in.(*ssa.Call); ok && strings.HasSuffix(core.StaticCalleeID(call), "planar.SegmentIntersect") {
				prim = call
				n++
			}
		}
	}
	if prim == nil || n != 1 {
		c.Bad(R, construct, f.Decl.Pos(), fmt.Sprintf("expected one call of planar.SegmentIntersect, found %d", n))
		return
	}
	okArgs := len(prim.Call.Args) == 2
	for i := 0; okArgs && i < 2; i++ {
		conv, ok := resolveValue(prim.Call.Args[i]).(*ssa.Call)
		if !ok || conv.Call.StaticCallee() == nil || conv.Call.StaticCallee().Name() != "ToGeomLine" || len(conv.Call.Args) != 1 || resolveValue(conv.Call.Args[0]) != ssa.Value(fn.Params[i]) {
			okArgs = false
		}
	}
	ans := extractOf(prim, 1)
	bad := ""
	if !okArgs {
		bad = "the primitive is not handed l1.ToGeomLine() and l2.ToGeomLine() in that order; "
	}
	for _, b := range fn.Blocks {
		for _, in := range b.Instrs {
			ret, ok := in.(*ssa.Return)
			if !ok || len(ret.Results) != 2 {
				continue
			}
			if ans == nil || !retMayBe(ret.Results[1], ans, map[ssa.Value]bool{}) || !core.Dominates(prim, ret) {
				bad += fmt.Sprintf("%s answers without (or instead of) the primitive; ", c.P.Pos(ret.Pos()))
			} else if ph, isPhi := resolveValue(ret.Results[1]).(*ssa.Phi); isPhi {
				for _, e := range ph.Edges {
					if resolveValue(e) != ans {
						bad += fmt.Sprintf("%s can answer something else than the primitive; ", c.P.Pos(ret.Pos()))
					}
				}
			}
		}
	}
	c.Check(R, construct, f.Decl.Pos(), bad == "", "every return carries planar.SegmentIntersect(l1, l2)'s own answer", "SegmentIntersect does not simply pass on the primitive's answer: "+bad)
}

// r46ContainmentCountedOverAllVertices: which shells contain a hole is asked for the vertices of the hole one after
// the other (until one shell leads alone, which unique-leader-decides covers): the point handed to ringContains is
// the element of a loop over the whole hole, inside a loop over all holes, and the ring it is tested against is
// shell 0 of the element of a loop over all polygons.  One vertex alone can lie on the shared boundary of two
// shells.
func r46ContainmentCountedOverAllVertices(c *core.Ctx) {
	const R = "R46"
	mf := c.Anchor(R, "snap.matchInnersToPolygons")
	if mf == nil || mf.SSA == nil {
		return
	}
	construct := "containment-asked-for-every-vertex/" + mf.Name
	fn := mf.SSA
	// the call, in matchInnersToPolygons or in a package helper it hands the hole to
	var calls []effCall
	find := func(g *ssa.Function, site *ssa.Call) {
		for _, b := range g.Blocks {
			for _, in := range b.Instrs {
				if call, ok := in.(*ssa.Call); ok && call.Call.StaticCallee() != nil && call.Call.StaticCallee().Name() == "ringContains" {
					s0 := site
					if s0 == nil {
						s0 = call
					}
					calls = append(calls, effCall{s0, call, call.Call.Args})
				}
			}
		}
	}
	find(fn, nil)
	if len(calls) == 0 {
		for _, b := range fn.Blocks {
			for _, in := range b.Instrs {
				if call, ok := in.(*ssa.Call); ok {
					if h := call.Call.StaticCallee(); h != nil && len(h.Blocks) > 0 && h.Pkg == fn.Pkg && h.Name() != "ringContains" {
						find(h, call)
					}
				}
			}
		}
	}
	if len(calls) != 1 || len(calls[0].Args) != 2 {
		c.Unknown(R, construct, mf.Decl.Pos(), fmt.Sprintf("expected one call of ringContains in matchInnersToPolygons (or a helper it calls), found %d", len(calls)))
		return
	}
	var inners ssa.Value
	for _, p := range fn.Params {
		if p.Type().String() == "[][][2]float64" {
			inners = p
		}
	}
	// a value of the helper that is one of its parameters stands for the caller's argument
	toCaller := func(v ssa.Value) ssa.Value {
		v = resolveValue(v)
		if calls[0].Inner != calls[0].Site {
			h := calls[0].Inner.Parent()
			for i, prm := range h.Params {
				if v == ssa.Value(prm) && i < len(calls[0].Site.Call.Args) {
					return resolveValue(calls[0].Site.Call.Args[i])
				}
			}
		}
		return v
	}
	why := ""
	vtx := sliceElemLoad(toCaller(calls[0].Args[1]))
	switch {
	case vtx == nil:
		why = "the point tested is not an element of a ring"
	case fullLoopOver(vtx.Index, vtx.X) == nil && fullLoopOver(vtx.Index, resolveValue(vtx.X)) == nil:
		why = "the point tested is not the element of a loop over the whole hole (a fixed vertex is tested)"
	default:
		ring := sliceElemLoad(toCaller(vtx.X))
		if ring == nil || inners == nil || resolveValue(ring.X) != inners {
			why = "the hole is not an element of the list of inner rings"
		} else if fullLoopOver(ring.Index, ring.X) == nil {
			why = "the holes are not walked in a loop over all inner rings"
		}
	}
	c.Check(R, construct, calls[0].Site.Pos(), why == "", "ringContains(shell, v) for v over all vertices of each hole", "hole matching does not look at every vertex of a hole: "+why)
}

func init() {
	reg("R15p", r15pSnapperStageSequential)
}

// r15pSnapperStageSequential: what the snapper stage sends for one feature is computed in one goroutine, in the
// order of the input: no function reachable from processing.processFeatures starts a goroutine.  Parts of a
// multipolygon snapped concurrently come back in the order the goroutines finish, which differs from run to run.
func r15pSnapperStageSequential(c *core.Ctx) {
	const R = "R15p"
	pf := c.Anchor(R, "processing.processFeatures")
	if pf == nil || pf.SSA == nil {
		return
	}
	reach := core.ReachableNoStdlibTransit(c.P.VTA(), pf.SSA)
	n, bad := 0, ""
	var fns []*ssa.Function
	for f := range reach {
		if modFollow(f) {
			fns = append(fns, f)
		}
	}
	sortFns(fns)
	for _, f := range fns {
		n++
		for _, b := range f.Blocks {
			for _, in := range b.Instrs {
				if g, ok := in.(*ssa.Go); ok {
					bad += fmt.Sprintf("%s in %s; ", c.P.Pos(g.Pos()), f.String())
				}
			}
		}
	}
	c.Check(R, "snapper-stage-starts-no-goroutines/processing.processFeatures", pf.Decl.Pos(), bad == "" && n >= 10, fmt.Sprintf("%d module functions below processFeatures, no go statement", n), "the snapper stage computes a feature's result in several goroutines: the order of what it assembles depends on the schedule: "+bad)
}

func init() {
	reg("R47", r47TypeNamesCaseInsensitive)
	reg("R40", r40BuiltinIDsUnique)
	reg("R44", r44SingleSuccessExit)
}

// r47TypeNamesCaseInsensitive: the geometry type name of a source table is matched whatever its case (GeoPackages
// in the wild say "MultiPolygon" as well as "MULTIPOLYGON"): the name parameter of geometryTypeFromString is used
// only as the argument of strings.ToUpper / ToLower / EqualFold (or handed on to a helper), never compared as it is.
func r47TypeNamesCaseInsensitive(c *core.Ctx) {
	const R = "R47"
	f := c.Anchor(R, "gpkg.geometryTypeFromString")
	if f == nil {
		return
	}
	info := f.Pkg.TypesInfo
	sig := f.Obj.Type().(*types.Signature)
	if sig.Params().Len() != 1 {
		return
	}
	prm := sig.Params().At(0)
	n, bad := 0, ""
	ast.Inspect(f.Decl.Body, func(x ast.Node) bool {
		id, ok := x.(*ast.Ident)
		if !ok || info.Uses[id] != prm {
			return true
		}
		n++
		path := pathTo(f.Decl.Body, id)
		okUse := false
		if len(path) >= 2 {
			if call, isCall := path[len(path)-2].(*ast.CallExpr); isCall && core.IsCallTo(info, call, "strings.ToUpper", "strings.ToLower", "strings.EqualFold", "strings.TrimSpace") {
				okUse = true
			}
		}
		if !okUse {
			bad += c.P.Pos(id.Pos()) + " "
		}
		return true
	})
	c.Check(R, "geometry-type-names-case-insensitive/"+f.Name, f.Decl.Pos(), bad == "" && n >= 1, "the name is folded to one case before it is looked up", "the geometry type name of the source is used as written (case-sensitively) at "+bad+": a source that says MultiPolygon is registered as GEOMETRY in the target")
}

// r40BuiltinIDsUnique: the decoder files tile matrices under their parsed id; two matrices with one id in a shipped
// document silently become one.  For every embedded document the ids are pairwise distinct integers.
func r40BuiltinIDsUnique(c *core.Ctx) {
	const R = "R40"
	files, _ := filepath.Glob(filepath.Join(c.P.RepoDir, "tms20", "tilematrixsets", "*.json"))
	bad := ""
	for _, fn := range files {
		b, err := os.ReadFile(fn)
		if err != nil {
			bad += err.Error() + "; "
			continue
		}
		var doc struct {
			TileMatrices []struct {
				ID string `json:"id"`
			} `json:"tileMatrices"`
		}
		if err := json.Unmarshal(b, &doc); err != nil {
			bad += filepath.Base(fn) + " does not parse; "
			continue
		}
		seen := map[int64]bool{}
		for _, m := range doc.TileMatrices {
			id, err := strconv.ParseInt(m.ID, 10, 64)
			if err != nil {
				bad += fmt.Sprintf("%s: id %q is not an integer; ", filepath.Base(fn), m.ID)
				continue
			}
			if seen[id] {
				bad += fmt.Sprintf("%s: id %d occurs twice (the second matrix replaces the first when decoded); ", filepath.Base(fn), id)
			}
			seen[id] = true
		}
		if len(doc.TileMatrices) == 0 {
			bad += filepath.Base(fn) + " has no tile matrices; "
		}
	}
	c.Check(R, "builtin-tile-matrix-ids-unique", token.NoPos, bad == "" && len(files) >= 14, fmt.Sprintf("%d embedded documents, ids pairwise distinct integers", len(files)), "an embedded document does not survive decoding: "+bad)
}

// r44SingleSuccessExit: the identities of R44 are about the value ToNative / FromNative compute on their way to the
// one successful return; a second successful exit (a shortcut for tile (0,0), a cached answer) is not covered by
// them.  Each of the two has exactly one return whose ok result can be true.
func r44SingleSuccessExit(c *core.Ctx) {
	const R = "R44"
	for _, name := range []string{"tms20.TileMatrixSet.ToNative", "tms20.TileMatrixSet.FromNative"} {
		f := c.Anchor(R, name)
		if f == nil || f.SSA == nil {
			continue
		}
		n, where := 0, ""
		for _, b := range f.SSA.Blocks {
			for _, in := range b.Instrs {
				ret, ok := in.(*ssa.Return)
				if !ok || len(ret.Results) != 2 {
					continue
				}
				if !isConstBool(ret.Results[1], false) {
					n++
					where += c.P.Pos(ret.Pos()) + " "
				}
			}
		}
		c.Check(R, "single-success-exit/"+name, f.Decl.Pos(), n == 1, "one successful return, the one the identities are about", fmt.Sprintf("%d returns can answer successfully (%s): a shortcut exit bypasses the formulas the other rules decide", n, where))
	}
}

func init() {
	reg("R37", r37MissingMatrixIsAnError)
}

// r37MissingMatrixIsAnError: a tile matrix that is looked up by id in TileMatrices and then dereferenced through one
// of its pointer members (the point of origin) is known to be there: the lookup is the comma-ok form and the
// dereference lies on its ok side, or the id is a key of the same map (an element of its Keys, or the key of a range
// over it).  Otherwise an id that the set does not have gives the zero matrix, and validation panics on its nil
// pointer where it has to answer with an error (DeviationStats asks for matrix 0 of whatever set it is given).
// Looked at: every function validateTileMatrixSet can reach.
func r37MissingMatrixIsAnError(c *core.Ctx) {
	const R = "R37"
	v := c.Anchor(R, "main.validateTileMatrixSet")
	if v == nil || v.SSA == nil {
		return
	}
	reach := core.Reachable(c.P.VTA(), v.SSA)
	n := 0
	for _, f := range sortedFuncs(c.P) {
		if f.SSA == nil {
			continue
		}
		if _, ok := reach[f.SSA]; !ok {
			continue
		}
		k := 0
		for _, b := range f.SSA.Blocks {
			for _, in := range b.Instrs {
				lk, ok := in.(*ssa.Lookup)
				if !ok || !isFieldRead(lk.X, "TileMatrices") {
					continue
				}
				// pointers taken out of the looked-up matrix
				var val ssa.Value = lk
				var okVal ssa.Value
				if lk.CommaOk {
					val = nil
					for _, r := range *lk.Referrers() {
						if e, isE := r.(*ssa.Extract); isE {
							if e.Index == 0 {
								val = e
							} else {
								okVal = e
							}
						}
					}
				}
				if val == nil {
					continue
				}
				var ptrs []ssa.Value
				holders := []ssa.Value{val}
				for _, r := range *val.Referrers() {
					if st, isSt := r.(*ssa.Store); isSt && st.Val == val {
						holders = append(holders, st.Addr)
					}
				}
				for _, h := range holders {
					for _, r := range *h.Referrers() {
						switch x := r.(type) {
						case *ssa.Field:
							if _, isP := x.Type().Underlying().(*types.Pointer); isP {
								ptrs = append(ptrs, x)
							}
						case *ssa.FieldAddr:
							if pt, isP := x.Type().Underlying().(*types.Pointer); isP {
								if _, isPP := pt.Elem().Underlying().(*types.Pointer); isPP {
									for _, rr := range *x.Referrers() {
										if u, isU := rr.(*ssa.UnOp); isU && u.Op == token.MUL {
											ptrs = append(ptrs, u)
										}
									}
								}
							}
						}
					}
				}
				var derefs []ssa.Instruction
				for _, p := range ptrs {
					for _, r := range *p.Referrers() {
						switch x := r.(type) {
						case *ssa.UnOp:
							if x.Op == token.MUL && x.X == p {
								derefs = append(derefs, x)
							}
						case *ssa.FieldAddr:
							if x.X == p {
								derefs = append(derefs, x)
							}
						case *ssa.IndexAddr:
							if x.X == p {
								derefs = append(derefs, x)
							}
						}
					}
				}
				if len(derefs) == 0 {
					continue
				}
				k++
				n++
				construct := fmt.Sprintf("missing-matrix-is-an-error/%s#%d", f.Name, k)
				if lk.CommaOk {
					bad := ""
					for _, d := range derefs {
						guarded := false
						if okVal != nil {
							for _, r := range *okVal.Referrers() {
								if i, isIf := r.(*ssa.If); isIf && i.Cond == okVal {
									t := i.Block().Succs[0]
									if len(t.Preds) == 1 && t.Dominates(d.Block()) {
										guarded = true
									}
								}
							}
						}
						if !guarded {
							bad += c.P.Pos(d.Pos()) + " "
						}
					}
					c.Check(R, construct, lk.Pos(), bad == "", fmt.Sprintf("comma-ok lookup; all %d dereferences of the matrix's pointer members lie on the ok side", len(derefs)),
						"a pointer member of the looked-up tile matrix is dereferenced where the id may be missing (zero matrix, nil pointer): "+bad)
					continue
				}
				// the id is a key of the same map
				why := ""
				switch key := lk.Index.(type) {
				case *ssa.UnOp:
					if ia, isIA := key.X.(*ssa.IndexAddr); isIA && key.Op == token.MUL {
						if call, isC := ia.X.(*ssa.Call); isC && len(call.Call.Args) == 1 && isFieldRead(call.Call.Args[0], "TileMatrices") {
							if cal := call.Call.StaticCallee(); cal != nil && strings.Contains(cal.Name(), "Keys") {
								name := cal.Name()
								if i := strings.Index(name, "["); i > 0 {
									name = name[:i]
								}
								why = "the id is an element of " + name + "(TileMatrices)"
							}
						}
					}
				case *ssa.Extract:
					if nx, isN := key.Tuple.(*ssa.Next); isN && key.Index == 1 {
						if rg, isR := nx.Iter.(*ssa.Range); isR && isFieldRead(rg.X, "TileMatrices") {
							why = "the id is the key of a range over TileMatrices"
						}
					}
				}
				c.Check(R, construct, lk.Pos(), why != "", why, fmt.Sprintf("the tile matrix is looked up without the comma-ok form by an id that is not known to be a key of the map, and %d pointer member dereference(s) follow (%s): an id the set does not have panics instead of giving an error",
					len(derefs), c.P.Pos(derefs[0].Pos())))
			}
		}
	}
	if n == 0 {
		c.Bad(R, "missing-matrix-is-an-error/none", v.Decl.Pos(), "no lookup of a tile matrix followed by a dereference of its point of origin found behind validateTileMatrixSet (floor 1)")
	}
}

func init() {
	reg("R12", func(c *core.Ctx) { levelLoopVisitsEveryLevel(c, "R12") })
	reg("R18", func(c *core.Ctx) { levelLoopVisitsEveryLevel(c, "R18") })
}

// levelLoopVisitsEveryLevel: what happens at one level (the ring collapses there and the level is dropped, nothing
// to add, ...) ends that level's iteration only: a loop over levels on the snapping call graph is left through its
// header alone -- no break, goto or return out of its body, other than on the way to a panic.  Otherwise the levels
// the loop has not reached yet (for a map, a random subset) lose their result.
func levelLoopVisitsEveryLevel(c *core.Ctx, R string) {
	root := c.Anchor(R, "snap.SnapPolygon")
	if root == nil {
		return
	}
	reach := core.ReachableNoStdlibTransit(c.P.VTA(), root.SSA)
	n := 0
	for _, fn := range sortedFuncs(c.P) {
		sp := core.ShortPkg(fn.Pkg.PkgPath)
		if (sp != "snap" && sp != "pointindex") || fn.Decl.Body == nil || fn.SSA == nil {
			continue
		}
		if _, ok := reach[fn.SSA]; !ok {
			continue
		}
		info := fn.Pkg.TypesInfo
		k := 0
		var labels = map[ast.Stmt]string{}
		ast.Inspect(fn.Decl.Body, func(x ast.Node) bool {
			if ls, ok := x.(*ast.LabeledStmt); ok {
				labels[ls.Stmt] = ls.Label.Name
			}
			return true
		})
		ast.Inspect(fn.Decl.Body, func(x ast.Node) bool {
			body, ok := isLevelLoop(info, x)
			if !ok {
				return true
			}
			k++
			n++
			construct := fmt.Sprintf("level-loop-visits-every-level/%s#%d", fn.Name, k)
			own := labels[x.(ast.Stmt)]
			bad := ""
			// labels declared inside the body: a jump to one of them stays inside
			inner := map[string]bool{}
			ast.Inspect(body, func(y ast.Node) bool {
				if ls, ok := y.(*ast.LabeledStmt); ok {
					inner[ls.Label.Name] = true
				}
				return true
			})
			var walk func(y ast.Node, breakable bool)
			walk = func(y ast.Node, breakable bool) {
				ast.Inspect(y, func(z ast.Node) bool {
					switch s := z.(type) {
					case *ast.FuncLit:
						return false
					case *ast.ForStmt:
						if z != y {
							walk(s.Body, true)
							return false
						}
					case *ast.RangeStmt:
						if z != y {
							walk(s.Body, true)
							return false
						}
					case *ast.SwitchStmt:
						walk(s.Body, true)
						return false
					case *ast.TypeSwitchStmt:
						walk(s.Body, true)
						return false
					case *ast.SelectStmt:
						walk(s.Body, true)
						return false
					case *ast.ReturnStmt:
						// giving up with an error ends the whole call, not one level
						if n := len(s.Results); n > 0 {
							last := ast.Unparen(s.Results[n-1])
							if t := info.TypeOf(last); t != nil && types.Identical(t, types.Universe.Lookup("error").Type()) {
								if id, isId := last.(*ast.Ident); !isId || id.Name != "nil" {
									break
								}
							}
						}
						bad += "return at " + c.P.Pos(s.Pos()) + "; "
					case *ast.BranchStmt:
						switch s.Tok {
						case token.BREAK:
							if s.Label == nil && !breakable {
								bad += "break at " + c.P.Pos(s.Pos()) + "; "
							}
							if s.Label != nil && !inner[s.Label.Name] {
								bad += "break " + s.Label.Name + " at " + c.P.Pos(s.Pos()) + "; "
							}
						case token.GOTO:
							if s.Label != nil && !inner[s.Label.Name] {
								bad += "goto " + s.Label.Name + " at " + c.P.Pos(s.Pos()) + "; "
							}
						case token.CONTINUE:
							if s.Label != nil && !inner[s.Label.Name] && s.Label.Name != own {
								bad += "continue " + s.Label.Name + " at " + c.P.Pos(s.Pos()) + "; "
							}
						}
					}
					return true
				})
			}
			walk(body, false)
			// a loop that writes nothing per level (a search) may stop where it likes
			writes := false
			ast.Inspect(body, func(y ast.Node) bool {
				switch s := y.(type) {
				case *ast.AssignStmt:
					for _, l := range s.Lhs {
						switch ast.Unparen(l).(type) {
						case *ast.IndexExpr, *ast.SelectorExpr, *ast.StarExpr:
							writes = true
						}
					}
				case *ast.CallExpr:
					if core.IsBuiltinCall(info, s, "delete") || core.IsBuiltinCall(info, s, "clear") {
						writes = true
					}
				case *ast.IncDecStmt:
					if _, isId := ast.Unparen(s.X).(*ast.Ident); !isId {
						writes = true
					}
				}
				return true
			})
			if bad != "" && !writes {
				c.OK(R, construct, x.Pos(), "a search over levels that stores nothing per level; it may stop early ("+bad+")")
				return true
			}
			c.Check(R, construct, x.Pos(), bad == "", "the loop over levels is left through its header only", "a loop over levels is cut short ("+bad+"): the levels it has not reached yet lose their result")
			return true
		})
	}
	if n < 3 {
		c.Bad(R, "level-loop-visits-every-level/floor", root.Decl.Pos(), fmt.Sprintf("only %d loops over levels found on the snapping call graph (floor 3)", n))
	}
}

func init() {
	reg("R27", r27FeatureAccessorsReadOnly)
}

// r27FeatureAccessorsReadOnly: one source feature is wrapped once per tile matrix and the wrappers are consumed by
// the target goroutines concurrently, so the accessors of every module type that implements processing.Feature
// (Columns, Geometry) only read: no store through the receiver, directly or in a module function it is handed to,
// and no store into an element of a slice or map the receiver holds.  A lazily filled cache in an accessor is an
// unsynchronised write shared by all writers.
func r27FeatureAccessorsReadOnly(c *core.Ctx) {
	const R = "R27"
	n := 0
	for _, m := range []string{"Columns", "Geometry"} {
		for _, f := range moduleImpls(c, "processing", "Feature", m) {
			if f.SSA == nil || len(f.SSA.Params) == 0 {
				continue
			}
			n++
			recv := f.SSA.Params[0]
			bad := ""
			if writesThrough(recv, 2, map[ssa.Value]bool{}) {
				bad = "stores through its receiver"
			}
			// a value receiver is spilled to a local: stores into what its slice/map members point at
			for _, b := range f.SSA.Blocks {
				for _, in := range b.Instrs {
					var target ssa.Value
					switch x := in.(type) {
					case *ssa.Store:
						if ia, ok := x.Addr.(*ssa.IndexAddr); ok {
							target = ia.X
						}
					case *ssa.MapUpdate:
						target = x.Map
					}
					if target == nil {
						continue
					}
					// the container was read out of the receiver
					for k := 0; k < 6 && target != nil; k++ {
						switch y := target.(type) {
						case *ssa.UnOp:
							target = y.X
						case *ssa.FieldAddr:
							target = y.X
						case *ssa.Field:
							target = y.X
						case *ssa.Alloc:
							if s := onceStoredC(y); s != nil {
								target = s
							} else {
								target = nil
							}
						default:
							k = 6
						}
					}
					if target == ssa.Value(recv) {
						bad = "stores into a slice or map held by its receiver (" + c.P.Pos(in.Pos()) + ")"
					}
				}
			}
			c.Check(R, "feature-accessor-only-reads/"+f.Name, f.Decl.Pos(), bad == "", "no store through the receiver or into what it holds", "accessor "+f.Name+" "+bad+": the feature is shared by the target goroutines of all tile matrices, which call it without synchronisation")
		}
	}
	if n < 3 {
		c.Bad(R, "feature-accessor-only-reads/floor", token.NoPos, fmt.Sprintf("only %d accessors of processing.Feature implementations found in the module (floor 3)", n))
	}
}

func init() {
	reg("R37w", r37BuiltinQuadtreesPassTheGate)
}

// r37BuiltinQuadtreesPassTheGate: the tolerance of the gate's cell-size test admits every embedded document that
// has the shape of a quadtree (square matrices of 2^id tiles, ids 0..n-1, no variable widths -- the documents the
// tool is shipped to serve).  The window is read from the code (the constant bounds handed to FBetweenInc on the
// gate's call graph); the ratios are computed as the gate computes them, previous cell size over this one in
// float64.  Narrowing the window below the rounding of the published cell sizes turns built-in sets away.
func r37BuiltinQuadtreesPassTheGate(c *core.Ctx) {
	const R = "R37w"
	iq := c.Anchor(R, "pointindex.IsQuadTree")
	if iq == nil || iq.SSA == nil {
		return
	}
	lo, hi, found := 0.0, 0.0, 0
	var pos token.Pos
	for fn := range core.Reachable(c.P.VTA(), iq.SSA) {
		if !core.IsModPath(core.FuncPkgPath(fn)) {
			continue
		}
		for _, b := range fn.Blocks {
			for _, in := range b.Instrs {
				call, ok := in.(*ssa.Call)
				if !ok || core.StaticCalleeID(call) != core.ModPath+"/mathhelp.FBetweenInc" || len(call.Call.Args) != 3 {
					continue
				}
				if _, isQuo := call.Call.Args[0].(*ssa.BinOp); !isQuo {
					continue
				}
				kl, ok1 := call.Call.Args[1].(*ssa.Const)
				kh, ok2 := call.Call.Args[2].(*ssa.Const)
				if ok1 && ok2 && kl.Value != nil && kh.Value != nil {
					lo, hi = kl.Float64(), kh.Float64()
					pos = call.Pos()
					found++
				}
			}
		}
	}
	if found != 1 {
		c.Note(R, "the gate's cell-size window is not a single FBetweenInc(ratio, const, const): built-in documents are not tested against it")
		return
	}
	files, _ := filepath.Glob(filepath.Join(c.P.RepoDir, "tms20", "tilematrixsets", "*.json"))
	checked := 0
	for _, fn := range files {
		name := strings.TrimSuffix(filepath.Base(fn), ".json")
		b, err := os.ReadFile(fn)
		if err != nil {
			continue
		}
		var doc struct {
			TileMatrices []struct {
				ID                   string          `json:"id"`
				CellSize             float64         `json:"cellSize"`
				MatrixWidth          int64           `json:"matrixWidth"`
				MatrixHeight         int64           `json:"matrixHeight"`
				VariableMatrixWidths json.RawMessage `json:"variableMatrixWidths"`
			} `json:"tileMatrices"`
		}
		if err := json.Unmarshal(b, &doc); err != nil {
			continue // R09/R40 report documents that do not parse
		}
		byID := map[int64]int{}
		structural := len(doc.TileMatrices) > 0
		for i, m := range doc.TileMatrices {
			id, err := strconv.ParseInt(m.ID, 10, 64)
			if err != nil || id < 0 || id > 62 || m.MatrixWidth != m.MatrixHeight || m.MatrixWidth != int64(1)<<uint(id) || len(m.VariableMatrixWidths) > 0 {
				structural = false
				break
			}
			byID[id] = i
		}
		for id := int64(0); structural && id < int64(len(doc.TileMatrices)); id++ {
			if _, ok := byID[id]; !ok {
				structural = false
			}
		}
		if !structural {
			continue
		}
		checked++
		bad := ""
		for id := int64(1); id < int64(len(doc.TileMatrices)); id++ {
			r := doc.TileMatrices[byID[id-1]].CellSize / doc.TileMatrices[byID[id]].CellSize
			if !(lo <= r && r <= hi) {
				bad += fmt.Sprintf("matrix %d: ratio %.12g; ", id, r)
			}
		}
		c.Check(R, "builtin-quadtree-passes-cell-size-window/"+name, pos, bad == "", fmt.Sprintf("all cell-size ratios within [%v, %v]", lo, hi),
			fmt.Sprintf("the gate's window [%v, %v] turns away the built-in set %s, which has the shape of a quadtree: %s", lo, hi, name, bad))
	}
	if checked < 5 {
		c.Bad(R, "builtin-quadtree-passes-cell-size-window/floor", pos, fmt.Sprintf("only %d embedded documents with the shape of a quadtree found (floor 5)", checked))
	}
}
