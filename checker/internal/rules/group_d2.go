package rules

import (
	"fmt"
	"go/ast"
	"go/token"
	"go/types"
	"sort"
	"strings"

	"golang.org/x/tools/go/ssa"

	"texelverif/internal/core"
)

func init() {
	reg("R29", r29WrapperTransparent)
	reg("R30", r30MultiPolygonMerge)
}

// ---------------------------------------------------------------- R27

// sharedSliceWrites finds in-place writes (append with spare capacity, copy,
// element store) to slices returned by the source calls, in funcs and the
// module functions they pass the slice to.
type sliceWrite struct {
	at   ssa.Instruction
	kind string
	src  ssa.CallInstruction
}

func sharedSliceWrites(funcs []*ssa.Function, isSource func(ssa.CallInstruction) bool, idx core.SiteCallees, follow func(*ssa.Function) bool) (sources []ssa.CallInstruction, writes []sliceWrite) {
	for _, fn := range funcs {
		for _, b := range fn.Blocks {
			for _, in := range b.Instrs {
				ci, ok := in.(ssa.CallInstruction)
				if !ok || !isSource(ci) {
					continue
				}
				v := ci.Value()
				if v == nil {
					continue
				}
				sources = append(sources, ci)
				flow := core.ForwardFlow([]ssa.Value{v}, idx, follow)
				for x := range flow {
					if _, isSlice := x.Type().Underlying().(*types.Slice); !isSlice {
						continue
					}
					for _, r := range *x.Referrers() {
						switch u := r.(type) {
						case *ssa.Call:
							if call, ok := isBuiltinCall(u, "append"); ok && call.Call.Args[0] == x {
								if sl, isSl := x.(*ssa.Slice); isSl && sl.Max != nil {
									continue // capacity clipped: append must reallocate
								}
								writes = append(writes, sliceWrite{u, "append(shared, …) may write into the shared backing array when it has spare capacity", ci})
							}
							if call, ok := isBuiltinCall(u, "copy"); ok && call.Call.Args[0] == x {
								writes = append(writes, sliceWrite{u, "copy(shared, …) overwrites shared elements", ci})
							}
						case *ssa.IndexAddr:
							if u.X == x {
								for _, rr := range *u.Referrers() {
									if st, ok := rr.(*ssa.Store); ok && st.Addr == u {
										writes = append(writes, sliceWrite{st, "element store into the shared slice", ci})
									}
								}
							}
						}
					}
				}
			}
		}
	}
	return
}

// R27: shared data is not written by concurrently running stages.
func r27SharedData(c *core.Ctx) {
	const R = "R27"
	pl := buildPipeline(c, R)
	// (a) variables captured by goroutine closures are not assigned after the go statement
	ngo := 0
	for _, fn := range pl.funcs {
		for _, b := range fn.Blocks {
			for _, in := range b.Instrs {
				g, ok := in.(*ssa.Go)
				if !ok {
					continue
				}
				ngo++ // every go statement of the module is looked at; only closures can capture variables
				mc, ok := g.Call.Value.(*ssa.MakeClosure)
				if !ok {
					continue
				}
				tf, _ := mc.Fn.(*ssa.Function)
				for j, bnd := range mc.Bindings {
					vname := "?"
					if tf != nil && j < len(tf.FreeVars) {
						vname = tf.FreeVars[j].Name()
					}
					construct := fmt.Sprintf("captured-not-reassigned/%s/%s", fn.Name(), vname)
					a, isAlloc := bnd.(*ssa.Alloc)
					if !isAlloc {
						c.OK(R, construct, g.Pos(), "captured value is not a local variable cell")
						continue
					}
					found, at := core.Search{Fn: fn, From: g, Target: func(i ssa.Instruction) bool {
						st, ok := i.(*ssa.Store)
						return ok && st.Addr == ssa.Value(a)
					}, Barrier: instrIs(a)}.Run()
					detail := ""
					if found {
						detail = fmt.Sprintf("variable %s is captured by a goroutine closure and assigned again at %s while the goroutine may be running (data race; with the module's go 1.21 loop-variable semantics every goroutine sees the last value)", vname, c.P.Pos(at.Pos()))
					}
					c.Check(R, construct, g.Pos(), !found, "no store to the captured variable is reachable from the go statement (a fresh variable per loop iteration)", detail)
				}
			}
		}
	}
	if ngo < 3 {
		c.Bad(R, "closure-goroutines", token.NoPos, fmt.Sprintf("found %d go statements in the module, expected >= 3 (reader, router, writers)", ngo))
	}
	// (b) storage handed out by Feature.Columns() is shared between all target goroutines
	pk := c.P.PkgShort("processing")
	var featureIface *types.Interface
	if pk != nil {
		if tn, ok := pk.Types.Scope().Lookup("Feature").(*types.TypeName); ok {
			featureIface, _ = tn.Type().Underlying().(*types.Interface)
		}
	}
	if featureIface == nil {
		c.Bad(R, "anchor/processing.Feature", token.NoPos, "reason=anchor-unresolved: interface processing.Feature not found")
		return
	}
	isColumns := func(ci ssa.CallInstruction) bool {
		com := ci.Common()
		if com.IsInvoke() {
			return com.Method.Name() == "Columns" && types.Implements(com.Value.Type(), featureIface)
		}
		if f := com.StaticCallee(); f != nil && f.Name() == "Columns" && f.Signature.Recv() != nil {
			rt := f.Signature.Recv().Type()
			return types.Implements(rt, featureIface) || types.Implements(types.NewPointer(rt), featureIface)
		}
		return false
	}
	var roots []*ssa.Function
	for _, f := range moduleImpls(c, "processing", "Target", "WriteFeatures") {
		if f.SSA != nil {
			roots = append(roots, f.SSA)
		}
	}
	if len(roots) == 0 {
		c.Bad(R, "target-impls", token.NoPos, "no module implementation of processing.Target found")
		return
	}
	reach := core.Reachable(c.P.VTA(), roots...)
	var scan []*ssa.Function
	for f := range reach {
		if modFollow(f) && len(f.Blocks) > 0 {
			scan = append(scan, f)
		}
	}
	sources, writes := sharedSliceWrites(scan, isColumns, pl.idx, modFollow)
	for _, s := range sources {
		c.Saw(R, "Columns() call "+c.P.InstrStr(s)+" in "+s.Parent().String())
	}
	bySource := map[ssa.CallInstruction][]sliceWrite{}
	for _, w := range writes {
		bySource[w.src] = append(bySource[w.src], w)
	}
	for _, s := range sources {
		construct := fmt.Sprintf("columns-not-written-in-place/%s", s.Parent().Name())
		ws := bySource[s]
		if len(ws) == 0 {
			c.OK(R, construct, s.Pos(), "the slice returned by Columns() is only read or copied into fresh memory")
			continue
		}
		for _, w := range ws {
			c.Bad(R, construct, w.at.Pos(), fmt.Sprintf(
				"%s. The same Feature (and its column slice) is wrapped once per tile matrix and handed to every target's writer goroutine; %s in %s is a data race between targets: one target's geometry blob can be written as another target's row (Columns() called @%s)",
				w.kind, w.at.String(), w.at.Parent().Name(), c.P.Pos(s.Pos())), core.PathTo(reach, w.at.Parent())...)
		}
	}
	if len(sources) < 1 {
		c.Bad(R, "columns-uses", token.NoPos, "no call of Feature.Columns() reachable from a Target.WriteFeatures implementation (floor 1): the writer no longer writes attributes, or the rule lost its anchor")
	}
	// (c) the per-tile-matrix wrapper is handed to another goroutine: its fields are written only while it is
	// being constructed, on a fresh allocation, by its constructor
	r27WrapperImmutable(c, pl)
	// canary: the rule must flag the textbook positive on every run
	cfuncs, cidx, err := core.LoadCanary("sharedslice")
	if err != nil {
		c.Bad(R, "canary/sharedslice", token.NoPos, "cannot load canary: "+err.Error())
	} else {
		_, cw := sharedSliceWrites(cfuncs, func(ci ssa.CallInstruction) bool {
			com := ci.Common()
			return com.IsInvoke() && com.Method.Name() == "Columns"
		}, cidx, nil)
		kinds := map[string]bool{}
		for _, w := range cw {
			kinds[strings.SplitN(w.kind, "(", 2)[0]] = true
		}
		c.Check(R, "canary/sharedslice", token.NoPos, len(cw) >= 3 && len(kinds) >= 3, fmt.Sprintf("rule flags the %d seeded in-place writes of the canary package (append, copy, element store) and not the cloned ones", len(cw)),
			fmt.Sprintf("canary produced %d findings of %d kinds; the rule is blind", len(cw), len(kinds)))
		for _, w := range cw {
			if strings.Contains(w.at.Parent().Name(), "Good") {
				c.Bad(R, "canary/sharedslice-negative", token.NoPos, "rule flags the cloned (correct) canary variant "+w.at.Parent().Name())
			}
		}
	}
}

func r27WrapperImmutable(c *core.Ctx, pl *pipeline) {
	const R = "R27"
	ctor := c.Anchor(R, "processing.wrapFeatureForTileMatrix")
	if ctor == nil {
		return
	}
	n := 0
	bad := ""
	for _, fn := range pl.funcs {
		for _, b := range fn.Blocks {
			for _, in := range b.Instrs {
				st, ok := in.(*ssa.Store)
				if !ok {
					continue
				}
				fa, ok := st.Addr.(*ssa.FieldAddr)
				if !ok {
					continue
				}
				pt, _ := fa.X.Type().Underlying().(*types.Pointer)
				if pt == nil || core.TypeShort(pt.Elem()) != "processing.featureForTileMatrixWrapper" {
					continue
				}
				n++
				_, fresh := fa.X.(*ssa.Alloc)
				if fn != ctor.SSA || !fresh {
					bad += fmt.Sprintf("field store %s in %s @%s; ", st.String(), fn.Name(), c.P.Pos(st.Pos()))
				}
			}
		}
	}
	// the constructor hands out a fresh wrapper on every call
	ea := newEffAnalysis(c.P)
	sum := ea.summary(ctor.SSA)
	if !sum.returnsFresh || len(sum.globals) > 0 || len(sum.comm) > 0 {
		bad += fmt.Sprintf("wrapFeatureForTileMatrix does not simply return a fresh wrapper (fresh=%v globals=%v comm=%v); ", sum.returnsFresh, sum.globals, sum.comm)
	}
	c.Check(R, "wrapper-written-only-at-construction/processing.featureForTileMatrixWrapper", ctor.Decl.Pos(), bad == "" && n >= 3,
		fmt.Sprintf("%d field stores, all in the constructor on a fresh allocation that is returned", n),
		"a wrapped feature is mutated or recycled after it may have been sent to the router/target goroutines (unsynchronised shared data; a target sees another feature's id, attributes or geometry): "+bad)
}

// ---------------------------------------------------------------- R28

// derivedOnlyFrom: every leaf of v's backward slice (through phis, interface
// conversions, element loads and module calls) is `from`.
func derivedOnlyFrom(v ssa.Value, from ssa.Value, seen map[ssa.Value]bool) bool {
	v = core.Unwrap(v)
	if v == from {
		return true
	}
	if seen[v] {
		return true
	}
	seen[v] = true
	switch x := v.(type) {
	case *ssa.Phi:
		for _, e := range x.Edges {
			if !derivedOnlyFrom(e, from, seen) {
				return false
			}
		}
		return len(x.Edges) > 0
	case *ssa.UnOp:
		return derivedOnlyFrom(x.X, from, seen)
	case *ssa.IndexAddr:
		return derivedOnlyFrom(x.X, from, seen)
	case *ssa.Index:
		return derivedOnlyFrom(x.X, from, seen)
	case *ssa.Slice:
		return derivedOnlyFrom(x.X, from, seen)
	case *ssa.Call:
		if f := x.Call.StaticCallee(); f != nil && modFollow(f) && len(x.Call.Args) > 0 {
			for _, a := range x.Call.Args {
				if !pointerLike(a.Type()) {
					// scalars (the key of the same iteration, flags) cannot carry another tile matrix' geometry
					if e, ok := a.(*ssa.Extract); ok {
						if fe, ok2 := from.(*ssa.Extract); ok2 && e.Tuple == fe.Tuple {
							continue
						}
					}
					if _, isConst := a.(*ssa.Const); isConst {
						continue
					}
				}
				if !derivedOnlyFrom(a, from, seen) {
					return false
				}
			}
			return true
		}
	}
	return false
}

func r28OneDelivery(c *core.Ctx) {
	const R = "R28"
	pl := buildPipeline(c, R)
	pfF := c.Anchor(R, "processing.processFeatures")
	wtF := c.Anchor(R, "processing.writeFeaturesToTargets")
	wrapF := c.Anchor(R, "processing.wrapFeatureForTileMatrix")
	pmF := c.Anchor(R, "processing.processMultiPolygon")
	if pfF == nil || wtF == nil || wrapF == nil || pmF == nil {
		return
	}
	// ---- snapper
	fn := pfF.SSA
	var recv *ssa.UnOp
	for _, ci := range pl.chans {
		for _, r := range ci.recvs {
			if r.Parent() == fn {
				recv = r
			}
		}
	}
	var outSends []*ssa.Send
	for _, ci := range pl.chans {
		for _, s := range ci.sends {
			if s.Parent() == fn {
				outSends = append(outSends, s)
			}
		}
	}
	if recv == nil || len(outSends) == 0 {
		c.Bad(R, "snapper-shape/processing.processFeatures", pfF.Decl.Pos(), "no receive / no send on pipeline channels found in processFeatures")
		return
	}
	var feature ssa.Value
	for _, r := range *recv.Referrers() {
		if e, ok := r.(*ssa.Extract); ok && e.Index == 0 {
			feature = e
		}
	}
	tmIDs := fn.Params[2]
	fParam := fn.Params[3]
	var headers []ssa.Instruction
	isSendOut := func(in ssa.Instruction) bool {
		for _, s := range outSends {
			if in == ssa.Instruction(s) {
				return true
			}
		}
		return false
	}
	for i, s := range outSends {
		name := fmt.Sprintf("processing.processFeatures/send%d", i)
		c.Saw(R, "send "+c.P.InstrStr(s))
		call, ok := core.Unwrap(s.X).(*ssa.Call)
		if !ok || call.Call.StaticCallee() != wrapF.SSA || len(call.Call.Args) != 3 {
			c.Bad(R, "send-is-wrapped-feature/"+name, s.Pos(), "the value sent to the router is not wrapFeatureForTileMatrix(feature, tmID, geometry)")
			continue
		}
		// arguments by role (the constructor's parameters are told apart by their types; R29 checks that each is
		// stored in the field of its type)
		fi, ki, gi := wrapperParamRoles(wrapF.SSA)
		if fi < 0 || ki < 0 || gi < 0 {
			c.Bad(R, "send-is-wrapped-feature/"+name, s.Pos(), "wrapFeatureForTileMatrix does not take a feature, a tile matrix id and a geometry")
			continue
		}
		a0, a1, a2 := call.Call.Args[fi], call.Call.Args[ki], call.Call.Args[gi]
		c.Check(R, "send-carries-received-feature/"+name, s.Pos(), feature != nil && core.Unwrap(a0) == feature,
			"wraps the feature received in this iteration", "the wrapped feature is not the one just received (attributes of another feature would be written)")
		var header ssa.Instruction
		var edge func(*ssa.BasicBlock, int) bool
		if nx, ranged := rangeNextOf2(a1, 1); nx != nil {
			header = nx
			edge = tupleOkEdge(nx, 0, 0)
			// ranged map is the snapping result for this feature
			srcOK, srcWhy := false, ""
			if rc, ok := ranged.(*ssa.Call); ok {
				switch {
				case rc.Call.Value == ssa.Value(fParam) && len(rc.Call.Args) == 2:
					srcOK = geometryOfFeature(rc.Call.Args[0], feature) && rc.Call.Args[1] == ssa.Value(tmIDs)
					srcWhy = "f(feature's polygon, tmIDs)"
				case rc.Call.StaticCallee() == pmF.SSA && len(rc.Call.Args) == 3:
					srcOK = geometryOfFeature(rc.Call.Args[0], feature) && rc.Call.Args[1] == ssa.Value(tmIDs) && rc.Call.Args[2] == ssa.Value(fParam)
					srcWhy = "processMultiPolygon(feature's multipolygon, tmIDs, f)"
				}
			}
			c.Check(R, "result-of-this-feature/"+name, s.Pos(), srcOK, "the loop ranges over "+srcWhy+" with the unchanged id list",
				"the per-tile-matrix result ranged over is not computed from the received feature's geometry with the full tile matrix id list")
			var val ssa.Value
			for _, r := range *nx.Referrers() {
				if e, ok := r.(*ssa.Extract); ok && e.Index == 2 {
					val = e
				}
			}
			c.Check(R, "geometry-of-same-key/"+name, s.Pos(), val != nil && derivedOnlyFrom(a2, val, map[ssa.Value]bool{}),
				"key and geometry come from the same iteration of the range over the result", "the geometry sent for a tile matrix is not derived (only) from that tile matrix's entry in the result")
		} else if ia := sliceElemLoad(a1); ia != nil && ia.X == ssa.Value(tmIDs) {
			if bo, ok := ia.Index.(*ssa.BinOp); ok {
				header = bo
			}
			c.Check(R, "untouched-geometry/"+name, s.Pos(), isNilConst(a2), "non-polygon features are forwarded with a nil replacement geometry (original kept)", "a non-polygon feature gets a replacement geometry")
		} else {
			c.Bad(R, "send-key-source/"+name, s.Pos(), "the tile matrix id of the sent feature is neither the key of the range over the snapping result nor an element of the id list")
			continue
		}
		if header == nil {
			c.Unknown(R, "loop-header/"+name, s.Pos(), "cannot identify the loop header of the send")
			continue
		}
		headers = append(headers, header)
		// exactly one send per iteration
		noSend, _ := core.Search{Fn: fn, From: header, Target: instrIs(header), Barrier: isSendOut, Edge: edge}.Run()
		if edge == nil {
			// index loop: iteration = header .. header, restricted to the body side: approximate by requiring the send to dominate the back edge
			noSend = !core.Dominates(header, s)
			again, _ := core.Search{Fn: fn, From: s, Target: instrIs(header)}.Run()
			if !again {
				noSend = true
			}
		}
		twice, _ := core.Search{Fn: fn, From: s, Target: isSendOut, Barrier: instrIs(header)}.Run()
		c.Check(R, "one-send-per-tile-matrix/"+name, s.Pos(), !noSend && !twice,
			"every iteration sends exactly once (or panics)", fmt.Sprintf("an iteration can complete without sending (skip=%v) or send twice (dup=%v): a feature is dropped or duplicated for a tile matrix", noSend, twice))
	}
	// every received feature reaches one of the delivery loops
	isHeader := func(in ssa.Instruction) bool {
		for _, h := range headers {
			if in == h {
				return true
			}
		}
		return false
	}
	skip, _ := core.Search{Fn: fn, From: recv, Target: instrIs(recv), Barrier: isHeader, Edge: tupleOkEdge(recv, 1, 0)}.Run()
	c.Check(R, "no-feature-skipped/processing.processFeatures", recv.Pos(), !skip && len(headers) >= 3,
		"every received feature reaches the delivery loop of its geometry-type arm (polygon, multipolygon, other)", "a received feature can reach the next receive without passing any delivery loop: it is silently dropped")

	// ---- router
	rf := wtF.SSA
	// the routing loop itself may live in a helper writeFeaturesToTargets calls: the module function, called from
	// it, that receives from a pipeline channel
	{
		hasRecv := func(fn *ssa.Function) bool {
			for _, ci := range pl.chans {
				for _, r := range ci.recvs {
					if r.Parent() == fn {
						return true
					}
				}
			}
			return false
		}
		if !hasRecv(rf) {
			for _, b := range wtF.SSA.Blocks {
				for _, in := range b.Instrs {
					if call, ok := in.(*ssa.Call); ok {
						if g := call.Call.StaticCallee(); g != nil && len(g.Blocks) > 0 && core.IsModPath(core.FuncPkgPath(g)) && hasRecv(g) {
							rf = g
						}
					}
				}
			}
		}
	}
	var rrecv *ssa.UnOp
	var rsends []*ssa.Send
	for _, ci := range pl.chans {
		for _, r := range ci.recvs {
			if r.Parent() == rf {
				rrecv = r
			}
		}
		for _, s := range ci.sends {
			if s.Parent() == rf {
				rsends = append(rsends, s)
			}
		}
	}
	if rrecv == nil || len(rsends) != 1 {
		c.Bad(R, "router-shape/processing.writeFeaturesToTargets", wtF.Decl.Pos(), fmt.Sprintf("expected one receive and exactly one send site in the router, found %d sends", len(rsends)))
		return
	}
	rs := rsends[0]
	var rfeat ssa.Value
	for _, r := range *rrecv.Referrers() {
		if e, ok := r.(*ssa.Extract); ok && e.Index == 0 {
			rfeat = e
		}
	}
	isRS := instrIs(rs)
	noSend, _ := core.Search{Fn: rf, From: rrecv, Target: instrIs(rrecv), Barrier: isRS, Edge: tupleOkEdge(rrecv, 1, 0)}.Run()
	twice, _ := core.Search{Fn: rf, From: rs, Target: isRS, Barrier: instrIs(rrecv)}.Run()
	c.Check(R, "router-one-send-per-feature/processing.writeFeaturesToTargets", rs.Pos(), !noSend && !twice,
		"between two receives the router sends exactly once (or panics)", fmt.Sprintf("the router can skip (skip=%v) or duplicate (dup=%v) a feature", noSend, twice))
	c.Check(R, "router-forwards-received-value/processing.writeFeaturesToTargets", rs.Pos(), rfeat != nil && core.Unwrap(rs.X) == rfeat,
		"the value sent is the value received", "the router sends something other than the feature it just received")
	// channel = lookup(targetChannels, feature.TileMatrixID())
	chOK := false
	if lk, ok := rs.Chan.(*ssa.Lookup); ok {
		if call, ok := lk.Index.(*ssa.Call); ok && call.Call.IsInvoke() && call.Call.Method.Name() == "TileMatrixID" && call.Call.Value == rfeat {
			chOK = true
		}
	}
	c.Check(R, "router-routes-by-tile-matrix-id/processing.writeFeaturesToTargets", rs.Pos(), chOK,
		"the channel is looked up with the received feature's TileMatrixID()", "the target channel is not selected by the received feature's TileMatrixID(): features reach the wrong target")
	c.Floor(R, 12)
}

// rangeNextOf2: v is Extract(#idx) of a Next over a Range.
func rangeNextOf2(v ssa.Value, idx int) (*ssa.Next, ssa.Value) {
	e, ok := v.(*ssa.Extract)
	if !ok || e.Index != idx {
		return nil, nil
	}
	nx, ok := e.Tuple.(*ssa.Next)
	if !ok {
		return nil, nil
	}
	rg, ok := nx.Iter.(*ssa.Range)
	if !ok {
		return nil, nil
	}
	return nx, rg.X
}

func sliceElemLoad(v ssa.Value) *ssa.IndexAddr {
	u, ok := v.(*ssa.UnOp)
	if !ok || u.Op != token.MUL {
		return nil
	}
	ia, _ := u.X.(*ssa.IndexAddr)
	return ia
}

// geometryOfFeature: v is a type assertion of feature.Geometry().
func geometryOfFeature(v ssa.Value, feature ssa.Value) bool {
	ta, ok := v.(*ssa.TypeAssert)
	if !ok {
		if e, isE := v.(*ssa.Extract); isE {
			ta, ok = e.Tuple.(*ssa.TypeAssert)
		}
		if !ok {
			return false
		}
	}
	call, ok := ta.X.(*ssa.Call)
	return ok && call.Call.IsInvoke() && call.Call.Method.Name() == "Geometry" && call.Call.Value == feature
}

// ---------------------------------------------------------------- R29

func r29WrapperTransparent(c *core.Ctx) {
	const R = "R29"
	cols := c.Anchor(R, "processing.featureForTileMatrixWrapper.Columns")
	geo := c.Anchor(R, "processing.featureForTileMatrixWrapper.Geometry")
	tm := c.Anchor(R, "processing.featureForTileMatrixWrapper.TileMatrixID")
	ctor := c.Anchor(R, "processing.wrapFeatureForTileMatrix")
	if cols == nil || geo == nil || tm == nil || ctor == nil {
		return
	}
	info := cols.Pkg.TypesInfo
	recvOf := func(f *core.Func) types.Object {
		if f.Decl.Recv != nil && len(f.Decl.Recv.List[0].Names) == 1 {
			return info.Defs[f.Decl.Recv.List[0].Names[0]]
		}
		return nil
	}
	// field read `recv.<name>`
	isField := func(e ast.Expr, recv types.Object, name string) bool {
		sel, ok := ast.Unparen(e).(*ast.SelectorExpr)
		return ok && sel.Sel.Name == name && core.ObjOf(info, sel.X) == recv && recv != nil
	}
	isWrappedCall := func(e ast.Expr, recv types.Object, method string) bool {
		call, ok := ast.Unparen(e).(*ast.CallExpr)
		if !ok || len(call.Args) != 0 {
			return false
		}
		sel, ok := call.Fun.(*ast.SelectorExpr)
		return ok && sel.Sel.Name == method && isField(sel.X, recv, "wrapped")
	}
	// Columns
	{
		r := recvOf(cols)
		ok := false
		if len(cols.Decl.Body.List) == 1 {
			if ret, isRet := cols.Decl.Body.List[0].(*ast.ReturnStmt); isRet && len(ret.Results) == 1 {
				ok = isWrappedCall(ret.Results[0], r, "Columns")
			}
		}
		c.Check(R, "columns-pass-through/"+cols.Name, cols.Decl.Pos(), ok, "returns wrapped.Columns() unchanged", "the per-tile-matrix wrapper does not return the wrapped feature's columns unchanged: attribute values differ between source and target")
	}
	// TileMatrixID
	{
		r := recvOf(tm)
		ok := false
		if len(tm.Decl.Body.List) == 1 {
			if ret, isRet := tm.Decl.Body.List[0].(*ast.ReturnStmt); isRet && len(ret.Results) == 1 {
				ok = isField(ret.Results[0], r, "tileMatrixID")
			}
		}
		c.Check(R, "tile-matrix-id-field/"+tm.Name, tm.Decl.Pos(), ok, "returns the tileMatrixID field", "TileMatrixID() does not return the id the wrapper was constructed with: the router sends the feature to another target")
	}
	// Geometry
	{
		r := recvOf(geo)
		bad := ""
		n := 0
		ast.Inspect(geo.Decl.Body, func(x ast.Node) bool {
			ret, ok := x.(*ast.ReturnStmt)
			if !ok || len(ret.Results) != 1 {
				return true
			}
			n++
			nilKnown, nonNilKnown := false, false
			for _, g := range guardsBefore(c.P, info, geo.Decl.Body, ret) {
				be, isBE := ast.Unparen(g.Cond).(*ast.BinaryExpr)
				if !isBE || !isField(be.X, r, "newGeometry") || canon(be.Y) != "nil" {
					continue
				}
				isNilTest := be.Op == token.EQL
				if be.Op != token.EQL && be.Op != token.NEQ {
					continue
				}
				if g.IsTrue == isNilTest {
					nilKnown = true
				} else {
					nonNilKnown = true
				}
			}
			switch {
			case isField(ret.Results[0], r, "newGeometry"):
				if !nonNilKnown {
					bad += fmt.Sprintf("returns newGeometry without knowing it is non-nil @%s; ", c.P.Pos(ret.Pos()))
				}
			case isWrappedCall(ret.Results[0], r, "Geometry"):
				if !nilKnown {
					bad += fmt.Sprintf("returns the original geometry although a new one may be set @%s; ", c.P.Pos(ret.Pos()))
				}
			default:
				bad += fmt.Sprintf("returns %s @%s; ", core.ExprStr(ret.Results[0]), c.P.Pos(ret.Pos()))
			}
			return true
		})
		c.Check(R, "geometry-new-else-original/"+geo.Name, geo.Decl.Pos(), bad == "" && n == 2, "returns newGeometry when set, the wrapped feature's geometry otherwise", "Geometry() of the wrapper: "+bad)
	}
	// constructor
	{
		var lit *ast.CompositeLit
		ast.Inspect(ctor.Decl.Body, func(x ast.Node) bool {
			if l, ok := x.(*ast.CompositeLit); ok && lit == nil {
				lit = l
			}
			return true
		})
		ok := lit != nil && len(lit.Elts) == 3
		bad := ""
		if ok {
			sig := ctor.Obj.Type().(*types.Signature)
			for _, el := range lit.Elts {
				kv, isKV := el.(*ast.KeyValueExpr)
				if !isKV {
					ok = false
					break
				}
				fieldT := info.TypeOf(kv.Key)
				if fobj := core.ObjOf(info, kv.Key); fobj != nil {
					fieldT = fobj.Type()
				}
				vobj := core.ObjOf(info, kv.Value)
				isParam := false
				for i := 0; i < sig.Params().Len(); i++ {
					if sig.Params().At(i) == vobj {
						isParam = true
					}
				}
				if !isParam || vobj == nil || !types.Identical(vobj.Type(), fieldT) {
					ok = false
					bad += core.ExprStr(kv) + "; "
				}
			}
		}
		c.Check(R, "constructor-assigns-params/"+ctor.Name, ctor.Decl.Pos(), ok, "each of the three fields is set from the parameter of its type", "wrapFeatureForTileMatrix does not store its three parameters in the matching fields: "+bad)
	}
	c.Floor(R, 4)
}

// ---------------------------------------------------------------- R30

// passOver: one pass over a slice X, as `for _, v := range X` or as `for i := 0; i < len(X); i++` with X[i].
type passOver struct {
	node ast.Stmt
	X    ast.Expr
	Body *ast.BlockStmt
	val  types.Object // range value variable
	idx  types.Object // counter of the counted form
}

func asPassOver(info *types.Info, s ast.Stmt) *passOver {
	switch l := s.(type) {
	case *ast.RangeStmt:
		if l.Value == nil {
			return nil
		}
		return &passOver{node: l, X: l.X, Body: l.Body, val: core.ObjOf(info, l.Value)}
	case *ast.ForStmt:
		if x := countedLoopOver(info, l); x != nil {
			init := l.Init.(*ast.AssignStmt)
			return &passOver{node: l, X: x, Body: l.Body, idx: core.ObjOf(info, init.Lhs[0])}
		}
	}
	return nil
}

// isElem: e is the element of the current iteration (the range value, or X[i]; also a local set to it once).
func (p *passOver) isElem(info *types.Info, e ast.Expr) bool {
	e = ast.Unparen(e)
	if p.val != nil && core.ObjOf(info, e) == p.val {
		return true
	}
	if ix, ok := e.(*ast.IndexExpr); ok && p.idx != nil {
		return core.ObjOf(info, ix.Index) == p.idx && core.SameObj(info, ix.X, p.X)
	}
	if id, ok := e.(*ast.Ident); ok && p.idx != nil {
		// part := X[i] as a statement of the body
		for _, st := range p.Body.List {
			if as, ok := st.(*ast.AssignStmt); ok && as.Tok == token.DEFINE && len(as.Lhs) == 1 && len(as.Rhs) == 1 && core.ObjOf(info, as.Lhs[0]) == core.ObjOf(info, id) {
				return p.isElem(info, as.Rhs[0])
			}
		}
	}
	return false
}

func r30MultiPolygonMerge(c *core.Ctx) {
	const R = "R30"
	f := c.Anchor(R, "processing.processMultiPolygon")
	if f == nil {
		return
	}
	info := f.Pkg.TypesInfo
	sig := f.Obj.Type().(*types.Signature)
	pMulti, pIDs, pF := sig.Params().At(0), sig.Params().At(1), sig.Params().At(2)
	var outer *passOver
	for _, s := range f.Decl.Body.List {
		if r := asPassOver(info, s); r != nil && core.ObjOf(info, r.X) == pMulti {
			outer = r
		}
	}
	if outer == nil {
		c.Bad(R, "ranges-all-parts/"+f.Name, f.Decl.Pos(), "no range loop over the multipolygon parameter")
		return
	}
	jump := false
	ast.Inspect(outer.Body, func(n ast.Node) bool {
		if _, ok := n.(*ast.BranchStmt); ok {
			jump = true
		}
		if _, ok := n.(*ast.ReturnStmt); ok {
			jump = true
		}
		return true
	})
	// call f(part, ids)
	var callRes types.Object
	var mid *ast.RangeStmt
	midInfo := info
	midMapArg := func(o types.Object) types.Object { return o } // the result map as named in processMultiPolygon
	okCall := false
	for _, s := range outer.Body.List {
		switch st := s.(type) {
		case *ast.AssignStmt:
			if len(st.Rhs) == 1 {
				if call, ok := st.Rhs[0].(*ast.CallExpr); ok && core.ObjOf(info, call.Fun) == pF && len(call.Args) == 2 {
					okCall = outer.isElem(info, call.Args[0]) && core.ObjOf(info, call.Args[1]) == pIDs
					callRes = core.ObjOf(info, st.Lhs[0])
				}
			}
		case *ast.RangeStmt:
			if callRes != nil && core.ObjOf(info, st.X) == callRes {
				mid = st
			}
		case *ast.ExprStmt:
			// the merge loop in a module helper: helper(resultMap, partResult)
			call, ok := st.X.(*ast.CallExpr)
			if !ok || callRes == nil {
				continue
			}
			callee := core.Callee(info, call)
			if callee == nil {
				continue
			}
			h := c.P.ByObj[callee.Origin()]
			if h == nil || h.Decl.Body == nil || !core.IsModPath(h.Pkg.PkgPath) {
				continue
			}
			hs := h.Obj.Type().(*types.Signature)
			for i, a := range call.Args {
				if i >= hs.Params().Len() || core.ObjOf(info, a) != callRes {
					continue
				}
				for _, hsn := range h.Decl.Body.List {
					if r, ok := hsn.(*ast.RangeStmt); ok && core.ObjOf(h.Pkg.TypesInfo, r.X) == hs.Params().At(i) && len(h.Decl.Body.List) == 1 {
						mid, midInfo = r, h.Pkg.TypesInfo
						midMapArg = func(o types.Object) types.Object {
							for j := 0; j < hs.Params().Len() && j < len(call.Args); j++ {
								if hs.Params().At(j) == o {
									return core.ObjOf(info, call.Args[j])
								}
							}
							return nil
						}
					}
				}
			}
		}
	}
	c.Check(R, "every-part-snapped-with-all-ids/"+f.Name, outer.node.Pos(), okCall && !jump && mid != nil,
		"every part is passed to f with the unchanged id list, no part is skipped", "a part of the multipolygon is skipped or snapped with a different id list")
	if mid == nil {
		return
	}
	key := core.ObjOf(midInfo, mid.Key)
	val := core.ObjOf(midInfo, mid.Value)
	okAppend := false
	var resMap types.Object
	ast.Inspect(mid.Body, func(n ast.Node) bool {
		as, ok := n.(*ast.AssignStmt)
		if !ok || len(as.Lhs) != 1 || len(as.Rhs) != 1 {
			return true
		}
		lix, ok := as.Lhs[0].(*ast.IndexExpr)
		if !ok || core.ObjOf(midInfo, lix.Index) != key {
			return true
		}
		call, ok := as.Rhs[0].(*ast.CallExpr)
		if !ok || !core.IsBuiltinCall(midInfo, call, "append") || len(call.Args) < 2 {
			return true
		}
		rix, ok := call.Args[0].(*ast.IndexExpr)
		if !ok || core.ObjOf(midInfo, rix.Index) != key || !core.SameObj(midInfo, rix.X, lix.X) {
			return true
		}
		// appended element: the inner range value over `val`
		path := pathTo(mid.Body, as)
		for _, pn := range path {
			st, isStmt := pn.(ast.Stmt)
			if !isStmt {
				continue
			}
			if inner := asPassOver(midInfo, st); inner != nil && core.ObjOf(midInfo, inner.X) == val && val != nil {
				if inner.isElem(midInfo, call.Args[1]) {
					okAppend = true
					resMap = midMapArg(core.ObjOf(midInfo, lix.X))
				}
			}
		}
		return true
	})
	retOK := false
	if last, ok := f.Decl.Body.List[len(f.Decl.Body.List)-1].(*ast.ReturnStmt); ok && len(last.Results) == 1 {
		retOK = resMap != nil && core.ObjOf(info, last.Results[0]) == resMap
	}
	// nothing else writes the result map: a key exists only if at least one polygon was appended under it
	// ("not at all otherwise": processFeatures sends one feature per key of this map)
	if f.SSA != nil {
		var resVal ssa.Value
		for _, b := range f.SSA.Blocks {
			for _, in := range b.Instrs {
				if ret, ok := in.(*ssa.Return); ok && len(ret.Results) == 1 {
					resVal = ret.Results[0]
				}
			}
		}
		bad := ""
		n := 0
		if resVal != nil {
			// stores into the result map here and in the module helpers it is handed to
			flow := core.FlowOpts{Idx: c.P.SiteIndex(c.P.VTA()), Follow: func(g *ssa.Function) bool { return core.IsModPath(core.FuncPkgPath(g)) }}.Run([]ssa.Value{resVal})
			hosts := map[*ssa.Function]bool{f.SSA: true}
			for v := range flow {
				if prm, ok := v.(*ssa.Parameter); ok && prm.Parent() != nil {
					hosts[prm.Parent()] = true
				}
			}
			var mus []*ssa.MapUpdate
			for h := range hosts {
				for _, b := range h.Blocks {
					for _, in := range b.Instrs {
						if mu, ok := in.(*ssa.MapUpdate); ok && flow[mu.Map] {
							mus = append(mus, mu)
						}
					}
				}
			}
			sort.Slice(mus, func(i, j int) bool { return mus[i].Pos() < mus[j].Pos() })
			for _, mu := range mus {
				n++
				call, isCall := mu.Value.(*ssa.Call)
				okv := false
				if isCall {
					if _, isApp := isBuiltinCall(call, "append"); isApp && len(sliceLitElems(call.Call.Args[1])) >= 1 {
						if lk, ok := call.Call.Args[0].(*ssa.Lookup); ok && lk.X == mu.Map && lk.Index == mu.Key {
							okv = true
						}
					}
				}
				if !okv {
					bad += fmt.Sprintf("%s @%s; ", mu.String(), c.P.Pos(mu.Pos()))
				}
			}
		}
		c.Check(R, "result-has-only-non-empty-entries/"+f.Name, f.Decl.Pos(), bad == "" && n >= 1,
			"every write to the result map is out[k] = append(out[k], polygon): a tile matrix is present only with at least one polygon",
			"the per-tile-matrix result of a multipolygon can contain an entry without geometry (the feature is then delivered, empty, to a target that should not get it at all): "+bad)
	}
	c.Check(R, "parts-merged-per-tile-matrix/"+f.Name, mid.Pos(), okAppend && retOK,
		"each resulting polygon is appended to out[tmID] with the key of the same iteration, and out is returned", "resulting polygons are not appended per tile matrix under the key they were produced for (geometry of one tile matrix delivered to another)")
	c.Floor(R, 2)
}

// wrapperParamRoles tells the three parameters of wrapFeatureForTileMatrix apart by type: the feature (interface
// processing.Feature), the tile matrix id (an integer) and the geometry (geom.Geometry).  -1 where not found.
func wrapperParamRoles(ctor *ssa.Function) (feature, key, geometry int) {
	feature, key, geometry = -1, -1, -1
	if ctor == nil {
		return
	}
	for i, p := range ctor.Params {
		ts := core.TypeShort(p.Type())
		switch {
		case ts == "processing.Feature":
			feature = i
		case strings.HasSuffix(ts, "geom.Geometry"):
			geometry = i
		default:
			if b, ok := p.Type().Underlying().(*types.Basic); ok && b.Info()&types.IsInteger != 0 {
				key = i
			}
		}
	}
	return
}
