package rules

import (
	"fmt"
	"go/ast"
	"go/token"
	"go/types"
	"strings"

	"golang.org/x/tools/go/ssa"

	"texelverif/internal/core"
)

func init() {
	reg("R18", r18PerLevelIsolation)
	reg("R19", r19RequestedSetOnlySelects)
	reg("R20", r20ResultKeysAreRequestedIDs)
}

// isLevelKeyed: the expression is a map whose key type is the Level alias
// (or plain uint in the two packages that only key maps by level), but not morton.Z.
func isLevelKeyed(t types.Type) bool {
	m, ok := types.Unalias(t).Underlying().(*types.Map)
	if !ok {
		return false
	}
	if a, ok := m.Key().(*types.Alias); ok {
		return a.Obj().Name() == "Level"
	}
	b, ok := m.Key().Underlying().(*types.Basic)
	return ok && b.Kind() == types.Uint
}

// levelVarKind classifies the key expression of an access to a level-indexed map.
func levelKeyKind(c *core.Ctx, fn *core.Func, info *types.Info, key ast.Expr, at ast.Node) string {
	key = ast.Unparen(key)
	if k, ok := core.ConstInt(info, key); ok {
		if k == 0 {
			return "root level 0"
		}
		return ""
	}
	obj := core.ObjOf(info, key)
	if obj == nil {
		// a level written out in place, computed from this iteration's own element: uint(ids[i]) + diff inside
		// `for i := …` / `for _, id := range ids`, without reading any per-level state
		if _, isIdent := key.(*ast.Ident); !isIdent {
			readsLevelState := false
			ast.Inspect(key, func(x ast.Node) bool {
				if ix, ok := x.(*ast.IndexExpr); ok && isLevelKeyed(info.TypeOf(ix.X)) {
					readsLevelState = true
				}
				return true
			})
			if !readsLevelState {
				for _, pn := range pathTo(fn.Decl.Body, at) {
					var loopVars []types.Object
					switch s := pn.(type) {
					case *ast.RangeStmt:
						if isLevelKeyed(info.TypeOf(s.X)) {
							continue
						}
						if s.Key != nil {
							loopVars = append(loopVars, core.ObjOf(info, s.Key))
						}
						if s.Value != nil {
							loopVars = append(loopVars, core.ObjOf(info, s.Value))
						}
					case *ast.ForStmt:
						if as, ok := s.Init.(*ast.AssignStmt); ok && len(as.Lhs) == 1 {
							if strings.HasSuffix(canon(s.Cond), "deepestLevel") {
								continue
							}
							loopVars = append(loopVars, core.ObjOf(info, as.Lhs[0]))
						}
					}
					for _, lv := range loopVars {
						if lv != nil && core.UsesObj(info, key, lv) {
							return "level computed in place from this iteration's element (" + canon(key) + ")"
						}
					}
				}
			}
		}
		return ""
	}
	// parameter of level type: callers are checked by the caller-side obligations (one hop)
	if _, isParam := paramIndex(fn, obj); isParam {
		return "parameter " + obj.Name()
	}
	// parameter of a local closure: every call of the closure in this function passes a current level
	for _, pn := range pathTo(fn.Decl.Body, at) {
		lit, ok := pn.(*ast.FuncLit)
		if !ok || lit.Type.Params == nil {
			continue
		}
		pi, k := -1, 0
		for _, fld := range lit.Type.Params.List {
			for _, nm := range fld.Names {
				if info.Defs[nm] == obj {
					pi = k
				}
				k++
			}
		}
		if pi < 0 {
			continue
		}
		name := closureVar(info, fn.Decl.Body, lit)
		if name == nil {
			return ""
		}
		kinds, n := "", 0
		okAll := true
		ast.Inspect(fn.Decl.Body, func(x ast.Node) bool {
			call, ok := x.(*ast.CallExpr)
			if !ok || core.ObjOf(info, call.Fun) != name || pi >= len(call.Args) {
				return true
			}
			n++
			kd := levelKeyKind(c, fn, info, call.Args[pi], call)
			if kd == "" {
				okAll = false
			}
			kinds += kd + "; "
			return true
		})
		if okAll && n > 0 {
			return "parameter of the local closure " + name.Name() + ", which is called with: " + kinds
		}
		return ""
	}
	// range key over a level-keyed map / range value over a []Level slice / counted descent loop
	path := pathTo(fn.Decl.Body, at)
	// a loop over levels nested inside another loop over levels: inside, the state of one level is touched while
	// another level is being processed, so "the loop's own level" is not "the level currently being processed"
	nLevelLoops := 0
	for _, pn := range path {
		switch s := pn.(type) {
		case *ast.RangeStmt:
			if s.Key != nil && isLevelKeyed(info.TypeOf(s.X)) {
				nLevelLoops++
			} else if sl, ok := info.TypeOf(s.X).Underlying().(*types.Slice); ok && s.Value != nil {
				if b, ok := sl.Elem().Underlying().(*types.Basic); ok && b.Kind() == types.Uint {
					nLevelLoops++
				}
			}
		case *ast.ForStmt:
			if cond, ok := s.Cond.(*ast.BinaryExpr); ok && strings.HasSuffix(canon(cond.Y), "deepestLevel") {
				nLevelLoops++
			}
		}
	}
	if nLevelLoops > 1 {
		return ""
	}
	for _, pn := range path {
		switch s := pn.(type) {
		case *ast.RangeStmt:
			// a level computed in this iteration from the iteration's own element (level := uint(tmID) + levelDiff)
			if def := singleDef(info, s.Body, obj); def != nil && assignedCount(info, fn.Decl.Body, obj) == 1 {
				if (s.Value != nil && core.UsesObj(info, def, core.ObjOf(info, s.Value))) || (s.Key != nil && core.UsesObj(info, def, core.ObjOf(info, s.Key))) {
					hasMapRead := false
					ast.Inspect(def, func(x ast.Node) bool {
						if ix, ok := x.(*ast.IndexExpr); ok && isLevelKeyed(info.TypeOf(ix.X)) {
							hasMapRead = true
						}
						return true
					})
					if !hasMapRead {
						return "level computed from this iteration's element (" + canon(def) + ")"
					}
				}
			}
			if s.Key != nil && core.ObjOf(info, s.Key) == obj && isLevelKeyed(info.TypeOf(s.X)) {
				return "range key over level-keyed " + core.ExprStr(s.X)
			}
			if s.Value != nil && core.ObjOf(info, s.Value) == obj {
				if sl, ok := info.TypeOf(s.X).Underlying().(*types.Slice); ok {
					if b, ok := sl.Elem().Underlying().(*types.Basic); ok && b.Kind() == types.Uint {
						return "range value over the level list " + core.ExprStr(s.X)
					}
				}
			}
		case *ast.ForStmt:
			// for level = a; level <= ix.deepestLevel; level++
			if inc, ok := s.Post.(*ast.IncDecStmt); ok && inc.Tok == token.INC && core.ObjOf(info, inc.X) == obj {
				if cond, ok := s.Cond.(*ast.BinaryExpr); ok && cond.Op == token.LEQ && core.ObjOf(info, cond.X) == obj && strings.HasSuffix(canon(cond.Y), "deepestLevel") {
					return "counter of the descent over all levels 0..deepestLevel"
				}
			}
		}
	}
	return ""
}

// R18: every level-indexed state is only touched with the current level.
func r18PerLevelIsolation(c *core.Ctx) {
	const R = "R18"
	root := c.Anchor(R, "snap.SnapPolygon")
	if root == nil {
		return
	}
	reach := core.ReachableNoStdlibTransit(c.P.VTA(), root.SSA)
	n := 0
	paramFns := map[*core.Func]map[int]bool{} // functions that index by a parameter -> parameter indices
	for _, fn := range sortedFuncs(c.P) {
		sp := core.ShortPkg(fn.Pkg.PkgPath)
		if sp != "snap" && sp != "pointindex" {
			continue
		}
		if fn.SSA == nil {
			continue
		}
		if _, ok := reach[fn.SSA]; !ok {
			continue
		}
		info := fn.Pkg.TypesInfo
		check := func(x ast.Expr, key ast.Expr, at ast.Node, what string) {
			if !isLevelKeyed(info.TypeOf(x)) {
				return
			}
			n++
			construct := fmt.Sprintf("level-key-is-current-level/%s/%s[%s]", fn.Name, canon(x), canon(key))
			kind := levelKeyKind(c, fn, info, key, at)
			if strings.HasPrefix(kind, "parameter ") {
				if i, ok := paramIndex(fn, core.ObjOf(info, key)); ok {
					if paramFns[fn] == nil {
						paramFns[fn] = map[int]bool{}
					}
					paramFns[fn][i] = true
				}
			}
			c.Check(R, construct, at.Pos(), kind != "", what+" keyed by "+kind,
				fmt.Sprintf("%s of level-indexed state %s with key `%s`, which is not the level currently being processed (nor the root level / the descent counter): the result for one tile matrix would depend on another one that happens to be requested", what, core.ExprStr(x), core.ExprStr(key)))
		}
		ast.Inspect(fn.Decl.Body, func(nd ast.Node) bool {
			switch x := nd.(type) {
			case *ast.IndexExpr:
				check(x.X, x.Index, x, "access")
			case *ast.CallExpr:
				if core.IsBuiltinCall(info, x, "delete") && len(x.Args) == 2 {
					check(x.Args[0], x.Args[1], x, "delete")
				}
				// accessor methods that index by their argument: GetHitMultiple(level)
				if cal := core.Callee(info, x); cal != nil {
					if cf := c.P.ByObj[cal.Origin()]; cf != nil && cf.Name == "pointindex.PointIndex.GetHitMultiple" && len(x.Args) == 1 {
						n++
						kind := levelKeyKind(c, fn, info, x.Args[0], x)
						c.Check(R, fmt.Sprintf("level-key-is-current-level/%s/GetHitMultiple(%s)", fn.Name, canon(x.Args[0])), x.Pos(), kind != "", "hit map of "+kind,
							"GetHitMultiple is called with `"+core.ExprStr(x.Args[0])+"`, not the level being processed")
					}
				}
			}
			return true
		})
	}
	// one hop: call sites of functions that index by a parameter pass the current level
	for fn, ps := range paramFns {
		for _, caller := range sortedFuncs(c.P) {
			info := caller.Pkg.TypesInfo
			ast.Inspect(caller.Decl.Body, func(nd ast.Node) bool {
				call, ok := nd.(*ast.CallExpr)
				if !ok {
					return true
				}
				cal := core.Callee(info, call)
				if cal == nil || c.P.ByObj[cal.Origin()] != fn {
					return true
				}
				for i := range ps {
					if i < 0 || i >= len(call.Args) {
						continue
					}
					kind := levelKeyKind(c, caller, info, call.Args[i], call)
					c.Check(R, fmt.Sprintf("level-argument-is-current-level/%s->%s/arg%d", caller.Name, fn.Name, i), call.Pos(), kind != "", "argument "+core.ExprStr(call.Args[i])+" is "+kind,
						fmt.Sprintf("%s passes `%s` as the level to %s, which indexes per-level state with it", caller.Name, core.ExprStr(call.Args[i]), fn.Name))
				}
				return true
			})
		}
	}
	c.Note(R, "%d accesses to level-indexed maps on the snapping call graph", n)
	c.FloorPrefix(R, "level-key-is-current-level/", 30)
}

// R19: the requested level set only selects what is recorded.
func r19RequestedSetOnlySelects(c *core.Ctx) {
	const R = "R19"
	scp := c.Anchor(R, "pointindex.PointIndex.snapClosestPoints")
	pub := c.Anchor(R, "pointindex.PointIndex.SnapClosestPoints")
	aps := c.Anchor(R, "snap.addPointsAndSnap")
	if scp == nil || pub == nil || aps == nil {
		return
	}
	uses := 0
	for _, f := range []*core.Func{scp, pub} {
		info := f.Pkg.TypesInfo
		sig := f.Obj.Type().(*types.Signature)
		var lm types.Object
		for i := 0; i < sig.Params().Len(); i++ {
			if isLevelKeyed(sig.Params().At(i).Type()) {
				lm = sig.Params().At(i)
			}
		}
		if lm == nil {
			c.Bad(R, "levelmap-param/"+f.Name, f.Decl.Pos(), "no level set parameter")
			continue
		}
		ast.Inspect(f.Decl.Body, func(n ast.Node) bool {
			id, ok := n.(*ast.Ident)
			if !ok || info.Uses[id] != lm {
				return true
			}
			uses++
			path := pathTo(f.Decl.Body, id)
			construct := fmt.Sprintf("levelmap-use/%s#%d", f.Name, uses)
			parent := path[len(path)-2]
			switch p := parent.(type) {
			case *ast.CallExpr:
				if core.IsBuiltinCall(info, p, "len") {
					// allowed: early exit on empty, capacity hints
					c.OK(R, construct, id.Pos(), "len(levelMap): emptiness test / capacity hint")
					return true
				}
				if cal := core.Callee(info, p); cal != nil && c.P.ByObj[cal.Origin()] == scp {
					c.OK(R, construct, id.Pos(), "handed to snapClosestPoints unchanged")
					return true
				}
			case *ast.IndexExpr:
				// membership test wrapped in a local predicate closure `func(l) bool { _, ok := levelMap[l]; return ok }`
				// whose every call is the condition of an if that only stores into the per-level result of that level
				if okPred := membershipClosureOnlySelects(info, f.Decl.Body, path, p); okPred {
					c.OK(R, construct, id.Pos(), "membership predicate closure; every call guards only the store into the per-level result")
					return true
				}
				// membership test `_, ok := levelMap[k]` as the Init of an if whose body only stores into the per-level result
				if len(path) >= 4 {
					if as, ok := path[len(path)-3].(*ast.AssignStmt); ok && len(as.Lhs) == 2 {
						if is, ok := path[len(path)-4].(*ast.IfStmt); ok && is.Init == ast.Stmt(as) && is.Else == nil {
							onlyStores := len(is.Body.List) > 0
							for _, s := range is.Body.List {
								st, ok := s.(*ast.AssignStmt)
								if !ok || len(st.Lhs) != 1 {
									onlyStores = false
									continue
								}
								ix, ok := st.Lhs[0].(*ast.IndexExpr)
								if !ok || !isLevelKeyed(info.TypeOf(ix.X)) || canon(ix.Index) != canon(p.Index) {
									onlyStores = false
								}
							}
							if onlyStores {
								c.OK(R, construct, id.Pos(), "membership test guarding only the store into the per-level result")
								return true
							}
						}
					}
				}
			}
			c.Bad(R, construct, id.Pos(), "the set of requested levels is used for something other than an emptiness test or selecting which level's result is recorded ("+core.ExprStr(parent.(ast.Expr))+"): the descent, and with it the result of one level, would depend on which other levels are requested")
			return true
		})
	}
	// the descent advances regardless of membership: `parents = quadrantsIntersected` at loop-body top level
	{
		info := scp.Pkg.TypesInfo
		okAdv := false
		ast.Inspect(scp.Decl.Body, func(n ast.Node) bool {
			fs, ok := n.(*ast.ForStmt)
			if !ok {
				return true
			}
			for _, s := range fs.Body.List {
				if as, ok := s.(*ast.AssignStmt); ok && len(as.Lhs) == 1 && len(as.Rhs) == 1 {
					if lo, ro := core.ObjOf(info, as.Lhs[0]), core.ObjOf(info, as.Rhs[0]); lo != nil && ro != nil && lo.Name() == "parents" {
						okAdv = true
					}
				}
			}
			if hasJump(fs.Body, token.BREAK, token.RETURN, token.GOTO).IsValid() {
				okAdv = false
			}
			return true
		})
		c.Check(R, "descent-advances-unconditionally/"+scp.Name, scp.Decl.Pos(), okAdv, "parents is replaced by this level's intersected pixels on every level, requested or not", "the descent through the levels is cut short or depends on a condition")
	}
	// addPointsAndSnap: delete(levelMap, level) depends only on this level's own ring result (R12 checks the exact condition)
	{
		info := aps.Pkg.TypesInfo
		okDel := true
		nd := 0
		for _, del := range core.BuiltinCallsIn(info, aps.Decl.Body, "delete") {
			if !isLevelKeyed(info.TypeOf(del.Args[0])) {
				continue
			}
			nd++
			for _, pn := range pathTo(aps.Decl.Body, del) {
				is, ok := pn.(*ast.IfStmt)
				if !ok {
					continue
				}
				ast.Inspect(is.Cond, func(x ast.Node) bool {
					if ix, ok := x.(*ast.IndexExpr); ok && isLevelKeyed(info.TypeOf(ix.X)) {
						okDel = false // looks at per-level state of (possibly) another level
					}
					return true
				})
			}
		}
		c.Check(R, "level-dropped-by-own-result-only/"+aps.Name, aps.Decl.Pos(), okDel && nd == 1, "the drop decision reads only the current iteration's ring result and the configuration", "a level is dropped depending on other per-level state")
	}
	r19DeepestLevelUses(c)
	r19DeepestQuantitiesStayInside(c)
	c.Floor(R, 4)
}

// r19DeepestQuantitiesStayInside: the deepest level, its pixel count and its pixel size are functions of the
// *requested set*.  Values computed from them (through arithmetic, conversions and the helper packages) may be
// stored in the index, used for addresses and carried in error values, but never handed out of package pointindex
// as a plain result or argument on the snapping call graph: a caller that sees "the pixel size" sees the pixel
// size of the deepest requested level and starts to behave differently depending on what else was requested.
func r19DeepestQuantitiesStayInside(c *core.Ctx) {
	const R = "R19"
	root := c.P.Lookup("snap.SnapPolygon")
	if root == nil || root.SSA == nil {
		return
	}
	reach := core.ReachableNoStdlibTransit(c.P.VTA(), root.SSA)
	callers := callersIndex(c)
	tainted := map[ssa.Value]bool{}
	var work []ssa.Value
	add := func(v ssa.Value) {
		if v != nil && !tainted[v] {
			tainted[v] = true
			work = append(work, v)
		}
	}
	nSeeds := 0
	for fn := range reach {
		if core.ShortPkg(core.FuncPkgPath(fn)) != "pointindex" {
			continue
		}
		for _, b := range fn.Blocks {
			for _, in := range b.Instrs {
				switch x := in.(type) {
				case *ssa.FieldAddr:
					if n := fieldNameOf(x.X.Type(), x.Field); (n == "deepestLevel" || n == "deepestRes" || n == "deepestSize") && strings.HasSuffix(core.TypeShort(derefType(x.X.Type())), "pointindex.PointIndex") {
						for _, r := range *x.Referrers() {
							if u, ok := r.(*ssa.UnOp); ok && u.Op == token.MUL {
								nSeeds++
								add(u)
							}
						}
					}
				case *ssa.Field:
					if n := fieldNameOf(x.X.Type(), x.Field); (n == "deepestLevel" || n == "deepestRes" || n == "deepestSize") && strings.HasSuffix(core.TypeShort(x.X.Type()), "pointindex.PointIndex") {
						nSeeds++
						add(x)
					}
				}
			}
		}
	}
	helperPkg := func(p string) bool {
		switch core.ShortPkg(p) {
		case "pointindex", "mathhelp", "intgeom", "morton":
			return true
		}
		return false
	}
	bad := ""
	isErr := func(t types.Type) bool { return types.Identical(t, types.Universe.Lookup("error").Type()) }
	for len(work) > 0 {
		v := work[len(work)-1]
		work = work[:len(work)-1]
		if v.Referrers() == nil {
			continue
		}
		for _, r := range *v.Referrers() {
			switch x := r.(type) {
			case *ssa.BinOp:
				// a comparison yields a truth value, not a quantity
				switch x.Op {
				case token.EQL, token.NEQ, token.LSS, token.LEQ, token.GTR, token.GEQ:
				default:
					add(x)
				}
			case *ssa.UnOp:
				if x.Op != token.MUL {
					add(x)
				}
			case *ssa.Convert:
				add(x)
			case *ssa.ChangeType:
				add(x)
			case *ssa.Phi:
				add(x)
			case *ssa.Return:
				fn := x.Parent()
				exported := fn.Object() != nil && fn.Object().Exported() && core.ShortPkg(core.FuncPkgPath(fn)) == "pointindex"
				for i, res := range x.Results {
					if res != v {
						continue
					}
					if exported && !isErr(fn.Signature.Results().At(i).Type()) {
						if _, onGraph := reach[fn]; onGraph || true {
							// only functions snapping can reach, or that package snap calls
							used := false
							for _, site := range callers(fn) {
								if p := core.ShortPkg(core.FuncPkgPath(site.Parent())); p == "snap" || p == "processing" || p == "main" {
									if _, ok := reach[site.Parent()]; ok {
										used = true
									}
								}
							}
							if used {
								bad += fmt.Sprintf("%s returns a value computed from the deepest requested level to package %s @%s; ", fn.String(), "snap", c.P.Pos(x.Pos()))
							}
						}
						continue
					}
					for _, site := range callers(fn) {
						if val := site.Value(); val != nil {
							if len(x.Results) == 1 {
								add(val)
							} else {
								for _, rr := range *val.Referrers() {
									if e, ok := rr.(*ssa.Extract); ok && e.Index == i {
										add(e)
									}
								}
							}
						}
					}
				}
			case ssa.CallInstruction:
				com := x.Common()
				callee := com.StaticCallee()
				if callee == nil {
					continue
				}
				pkg := core.FuncPkgPath(callee)
				switch {
				case core.IsModPath(pkg) && helperPkg(pkg):
					if len(callee.Blocks) > 0 {
						for i, a := range com.Args {
							if a == v && i < len(callee.Params) {
								add(callee.Params[i])
							}
						}
					}
				case core.IsModPath(pkg):
					bad += fmt.Sprintf("%s passes a value computed from the deepest requested level to %s @%s; ", x.Parent().String(), callee.String(), c.P.Pos(x.Pos()))
				case pkg == "math":
					if val := x.Value(); val != nil {
						add(val)
					}
				}
			}
		}
	}
	c.Check(R, "deepest-quantities-stay-inside-the-index/pointindex", root.Decl.Pos(), bad == "" && nSeeds >= 8, fmt.Sprintf("%d reads of deepestLevel/deepestRes/deepestSize on the snapping call graph; nothing computed from them is handed out of the index packages except inside error values", nSeeds), "a quantity of the deepest *requested* level leaves the index: "+bad+"a caller can now make one tile matrix's result depend on which deeper ones were requested")
}

func derefType(t types.Type) types.Type {
	if p, ok := t.Underlying().(*types.Pointer); ok {
		return p.Elem()
	}
	return t
}

// r19DeepestLevelUses: the index is built at the deepest *requested* level, so ix.deepestLevel is a function of the
// requested set.  On the snapping call graph it may only bound the descent over all levels (counter <= deepest)
// and scale deepest addresses/spans to a level (Pow2(deepest - level)); any other use (a comparison that switches
// behaviour on "is this the deepest level", …) makes a level's result depend on which deeper levels were requested.
func r19DeepestLevelUses(c *core.Ctx) {
	const R = "R19"
	root := c.P.Lookup("snap.SnapPolygon")
	if root == nil || root.SSA == nil {
		return
	}
	reach := core.ReachableNoStdlibTransit(c.P.VTA(), root.SSA)
	n := 0
	for _, f := range sortedFuncs(c.P) {
		sp := core.ShortPkg(f.Pkg.PkgPath)
		if (sp != "snap" && sp != "pointindex") || f.SSA == nil {
			continue
		}
		if _, ok := reach[f.SSA]; !ok {
			continue
		}
		fns := append([]*ssa.Function{f.SSA}, f.SSA.AnonFuncs...)
		k := 0
		for _, fn := range fns {
			for _, b := range fn.Blocks {
				for _, in := range b.Instrs {
					var read ssa.Value
					switch x := in.(type) {
					case *ssa.FieldAddr:
						if fieldNameOf(x.X.Type(), x.Field) == "deepestLevel" {
							for _, r := range *x.Referrers() {
								if u, ok := r.(*ssa.UnOp); ok && u.Op == token.MUL {
									read = u
								} else if st, isStore := r.(*ssa.Store); isStore && st.Addr == ssa.Value(x) && isAlloc(x.X) {
									// construction of a new index
								} else {
									k++
									n++
									c.Bad(R, fmt.Sprintf("deepest-level-use/%s#%d", f.Name, k), x.Pos(), "the deepest level field is written or its address escapes on the snapping call graph")
								}
							}
						}
					case *ssa.Field:
						if fieldNameOf(x.X.Type(), x.Field) == "deepestLevel" {
							read = x
						}
					}
					if read == nil {
						continue
					}
					for _, r := range *read.Referrers() {
						k++
						n++
						construct := fmt.Sprintf("deepest-level-use/%s#%d", f.Name, k)
						kind := ""
						if bo, ok := r.(*ssa.BinOp); ok {
							switch {
							case bo.Op == token.LEQ && bo.Y == read:
								if _, isPhi := bo.X.(*ssa.Phi); isPhi && usedOnlyAsLoopCondition(bo) {
									kind = "upper bound of the descent over all levels"
								}
							case bo.Op == token.SUB && bo.X == read:
								onlyPow := len(*bo.Referrers()) > 0
								for _, rr := range *bo.Referrers() {
									call, ok := rr.(*ssa.Call)
									if !ok || call.Call.StaticCallee() == nil || call.Call.StaticCallee().Name() != "Pow2" {
										onlyPow = false
									}
								}
								if onlyPow {
									kind = "scale between the deepest level and a level: Pow2(deepest - level)"
								}
							}
						}
						c.Check(R, construct, r.Pos(), kind != "", kind,
							"ix.deepestLevel (the deepest *requested* level) is used for something other than bounding the descent or scaling deepest addresses: `"+r.String()+"` makes the behaviour on one level depend on which deeper levels were requested")
					}
				}
			}
		}
	}
	c.Check(R, "deepest-level-uses-found", root.Decl.Pos(), n >= 5, fmt.Sprintf("%d uses of ix.deepestLevel on the snapping call graph, all bounds or scales", n), fmt.Sprintf("only %d uses of ix.deepestLevel found on the snapping call graph (expected at least 5): the rule no longer sees the level arithmetic", n))
}

func isAlloc(v ssa.Value) bool { _, ok := v.(*ssa.Alloc); return ok }

func fieldNameOf(t types.Type, idx int) string {
	if p, ok := t.Underlying().(*types.Pointer); ok {
		t = p.Elem()
	}
	if st, ok := t.Underlying().(*types.Struct); ok && idx < st.NumFields() {
		return st.Field(idx).Name()
	}
	return ""
}

// usedOnlyAsLoopCondition: the comparison only feeds an If that sits in a loop one of whose edges leaves the loop.
func usedOnlyAsLoopCondition(cmp *ssa.BinOp) bool {
	refs := *cmp.Referrers()
	if len(refs) != 1 {
		return false
	}
	i, ok := refs[0].(*ssa.If)
	if !ok {
		return false
	}
	b := i.Block()
	for _, set := range naturalLoops(b.Parent()) {
		if set[b] && (!set[b.Succs[0]] || !set[b.Succs[1]]) {
			return true
		}
	}
	return false
}

// R20: result keys are the requested ids.
func r20ResultKeysAreRequestedIDs(c *core.Ctx) {
	const R = "R20"
	sp := c.Anchor(R, "snap.SnapPolygon")
	tl := c.Anchor(R, "snap.tileMatrixIDsByLevels")
	aps := c.Anchor(R, "snap.addPointsAndSnap")
	if sp == nil || tl == nil || aps == nil {
		return
	}
	// (1) SnapPolygon's returned maps are only written as res[tmIDsByLevels[level]] with level ranging over addPointsAndSnap's result
	fn := sp.SSA
	okAll := true
	nupd := 0
	why := ""
	for _, b := range fn.Blocks {
		for _, in := range b.Instrs {
			ret, ok := in.(*ssa.Return)
			if !ok {
				continue
			}
			mm, ok := ret.Results[0].(*ssa.MakeMap)
			if !ok {
				okAll = false
				why = "a return value is not a map made in SnapPolygon"
				continue
			}
			for _, r := range *mm.Referrers() {
				mu, ok := r.(*ssa.MapUpdate)
				if !ok {
					continue
				}
				nupd++
				lk, ok := mu.Key.(*ssa.Lookup)
				if !ok {
					okAll = false
					why = "result key is not tmIDsByLevels[level]"
					continue
				}
				tcall, ok := lk.X.(*ssa.Call)
				if !ok || tcall.Call.StaticCallee() != tl.SSA || tcall.Call.Args[1] != ssa.Value(fn.Params[2]) {
					okAll = false
					why = "the level->id map is not tileMatrixIDsByLevels(tms, tmIDs)"
				}
				nx, ranged := rangeNextOf2(lk.Index, 1)
				if nx == nil {
					okAll = false
					why = "the level is not the key of a range loop"
					continue
				}
				acall, ok := ranged.(*ssa.Call)
				if !ok || acall.Call.StaticCallee() != aps.SSA {
					okAll = false
					why = "the loop does not range over addPointsAndSnap's result"
				}
			}
		}
	}
	c.Check(R, "result-keys-via-level-map/"+sp.Name, sp.Decl.Pos(), okAll && nupd == 1, "result[tileMatrixIDsByLevels(tms, tmIDs)[level]] for the levels returned by addPointsAndSnap", "SnapPolygon's result is keyed by something other than the requested ids: "+why)
	// (2) the values of the level map are exactly elements of tmIDs
	okVals := false
	for _, b := range tl.SSA.Blocks {
		for _, in := range b.Instrs {
			if mu, ok := in.(*ssa.MapUpdate); ok {
				if ia := sliceElemLoad(mu.Value); ia != nil && ia.X == ssa.Value(tl.SSA.Params[1]) {
					okVals = true
				} else {
					okVals = false
				}
			}
		}
	}
	c.Check(R, "level-map-values-are-requested-ids/"+tl.Name, tl.Decl.Pos(), okVals, "tileMatrixIDsByLevels stores elements of tmIDs only", "the level->id map holds values that are not elements of the requested id list")
	// (3) the levels handed to addPointsAndSnap are the keys of that map (followed through helper functions)
	okLv := false
	{
		idx := c.P.SiteIndex(c.P.VTA())
		callers := callersIndex(c)
		var m ssa.Value
		for _, call := range findCalls(fn, core.ModPath+"/snap."+tl.SSA.Name()) {
			m = call
		}
		var apsCall *ssa.Call
		for _, call := range findCalls(fn, core.ModPath+"/snap."+aps.SSA.Name()) {
			apsCall = call
		}
		if m != nil && apsCall != nil {
			mflow := core.FlowOpts{Idx: idx, Follow: modFollow, Returns: true, Callers: callers}.Run([]ssa.Value{m})
			// keys of the map, wherever it is ranged
			var keys []ssa.Value
			for v := range mflow {
				if refs := v.Referrers(); refs != nil {
					for _, r := range *refs {
						if rg, ok := r.(*ssa.Range); ok && rg.X == v {
							for _, rr := range *rg.Referrers() {
								if nx, ok := rr.(*ssa.Next); ok {
									if k := extractOf(nx, 1); k != nil {
										keys = append(keys, k)
									}
								}
							}
						}
					}
				}
			}
			kflow := core.FlowOpts{Idx: idx, Follow: modFollow, Returns: true, ReturnsAll: true, Callers: callers, Containers: true, Appends: true}.Run(keys)
			arg := apsCall.Call.Args[2]
			// every element appended to the slice on its way here is such a key
			onlyKeys := true
			seen := map[ssa.Value]bool{}
			var back func(v ssa.Value)
			back = func(v ssa.Value) {
				if v == nil || seen[v] {
					return
				}
				seen[v] = true
				switch x := v.(type) {
				case *ssa.Phi:
					for _, e := range x.Edges {
						back(e)
					}
				case *ssa.Call:
					if bi, ok := x.Call.Value.(*ssa.Builtin); ok && bi.Name() == "append" {
						back(x.Call.Args[0])
						for _, el := range sliceLitElems(x.Call.Args[1]) {
							if !kflow[el] {
								onlyKeys = false
							}
						}
						return
					}
					if cal := x.Call.StaticCallee(); cal != nil && modFollow(cal) {
						for _, b := range cal.Blocks {
							for _, in := range b.Instrs {
								if ret, ok := in.(*ssa.Return); ok && len(ret.Results) == 1 {
									back(ret.Results[0])
								}
							}
						}
						return
					}
					onlyKeys = false
				case *ssa.MakeSlice, *ssa.Const:
				default:
					onlyKeys = false
				}
			}
			back(arg)
			okLv = len(keys) > 0 && kflow[arg] && onlyKeys
			// or the library's Keys of that map (possibly collected from the iterator form)
			if kc, isCall := arg.(*ssa.Call); isCall && !okLv {
				for depth := 0; depth < 2 && kc != nil; depth++ {
					id := core.StaticCalleeID(kc)
					if i := strings.Index(id, "["); i > 0 {
						id = id[:i]
					}
					switch id {
					case "golang.org/x/exp/maps.Keys", "maps.Keys":
						if len(kc.Call.Args) == 1 && mflow[kc.Call.Args[0]] {
							okLv = true
						}
						kc = nil
					case "slices.Collect", "slices.Sorted":
						if len(kc.Call.Args) == 1 {
							kc, _ = kc.Call.Args[0].(*ssa.Call)
						} else {
							kc = nil
						}
					default:
						kc = nil
					}
				}
			}
		}
	}
	c.Check(R, "requested-levels-are-map-keys/"+sp.Name, sp.Decl.Pos(), okLv, "levels = keys of tileMatrixIDsByLevels(tms, tmIDs)", "the levels handed to addPointsAndSnap are not exactly the keys of the level->id map")
	c.Floor(R, 3)
}

func init() { reg("R18b", r18bNoSharedStoragePerLevel) }

// natural loops of a function: header -> set of blocks
func naturalLoops(fn *ssa.Function) map[*ssa.BasicBlock]map[*ssa.BasicBlock]bool {
	loops := map[*ssa.BasicBlock]map[*ssa.BasicBlock]bool{}
	for _, h := range fn.Blocks {
		for _, p := range h.Preds {
			if !h.Dominates(p) {
				continue
			}
			set := loops[h]
			if set == nil {
				set = map[*ssa.BasicBlock]bool{h: true}
				loops[h] = set
			}
			work := []*ssa.BasicBlock{p}
			for len(work) > 0 {
				b := work[len(work)-1]
				work = work[:len(work)-1]
				if set[b] {
					continue
				}
				set[b] = true
				work = append(work, b.Preds...)
			}
		}
	}
	return loops
}

// R18b: values stored per level do not share backing storage with another
// level: what is stored under a level key inside a loop over levels is
// allocated inside that loop iteration (or is the level's own slot / a call
// result), never a window into a buffer that outlives the iteration.
func r18bNoSharedStoragePerLevel(c *core.Ctx) {
	const R = "R18b"
	root := c.Anchor(R, "snap.SnapPolygon")
	if root == nil {
		return
	}
	reach := core.ReachableNoStdlibTransit(c.P.VTA(), root.SSA)
	ea := newEffAnalysis(c.P)
	n := 0
	for _, f := range sortedFuncs(c.P) {
		sp := core.ShortPkg(f.Pkg.PkgPath)
		if (sp != "snap" && sp != "pointindex") || f.SSA == nil {
			continue
		}
		if _, ok := reach[f.SSA]; !ok {
			continue
		}
		loops := naturalLoops(f.SSA)
		for _, b := range f.SSA.Blocks {
			for _, in := range b.Instrs {
				mu, ok := in.(*ssa.MapUpdate)
				if !ok || !isLevelKeyed(mu.Map.Type()) || !pointerLike(mu.Value.Type()) {
					continue
				}
				// innermost loop containing the update
				var loop map[*ssa.BasicBlock]bool
				for _, set := range loops {
					if set[b] && (loop == nil || len(set) < len(loop)) {
						loop = set
					}
				}
				if loop == nil {
					continue
				}
				n++
				construct := fmt.Sprintf("per-level-value-owns-its-storage/%s/%s", f.Name, valueLabel(mu.Map))
				bad := ""
				seen := map[ssa.Value]bool{}
				var walk func(v ssa.Value, depth int)
				walk = func(v ssa.Value, depth int) {
					if v == nil || seen[v] || depth > 12 {
						return
					}
					seen[v] = true
					inLoop := func(x ssa.Instruction) bool { return loop[x.Block()] }
					switch x := v.(type) {
					case *ssa.Const:
					case *ssa.MakeSlice:
						if !inLoop(x) {
							bad += fmt.Sprintf("backed by a buffer allocated outside the per-level loop (%s @%s); ", x.String(), c.P.Pos(x.Pos()))
						}
					case *ssa.Alloc:
						if !inLoop(x) {
							bad += fmt.Sprintf("taken from a variable that outlives the loop iteration (%s @%s), so its backing array is reused for another level; ", x.Comment, c.P.Pos(x.Pos()))
						}
						// a local array/struct of buffers: what was stored into it
						var stores func(base ssa.Value)
						stores = func(base ssa.Value) {
							for _, r := range *base.Referrers() {
								switch y := r.(type) {
								case *ssa.Store:
									if y.Addr == base {
										walk(y.Val, depth+1)
									}
								case *ssa.IndexAddr:
									if y.X == base {
										stores(y)
									}
								case *ssa.FieldAddr:
									if y.X == base {
										stores(y)
									}
								}
							}
						}
						stores(x)
					case *ssa.MakeMap:
						if !inLoop(x) {
							bad += fmt.Sprintf("a map created outside the per-level loop is stored under several levels (%s); ", x.String())
						}
					case *ssa.Parameter, *ssa.FreeVar, *ssa.Global:
						bad += fmt.Sprintf("the same caller-provided value %s is stored under several levels; ", x.Name())
					case *ssa.Slice:
						walk(x.X, depth+1)
					case *ssa.Phi:
						for _, e := range x.Edges {
							walk(e, depth+1)
						}
					case *ssa.ChangeType:
						walk(x.X, depth+1)
					case *ssa.Convert:
						walk(x.X, depth+1)
					case *ssa.MakeInterface:
						walk(x.X, depth+1)
					case *ssa.Extract:
						walk(x.Tuple, depth+1)
					case *ssa.Lookup:
						// the level's own slot (same key) or a per-level value of another level-keyed map under the same key
						if x.Index != mu.Key {
							walk(x.X, depth+1)
						}
					case *ssa.UnOp:
						walk(x.X, depth+1)
					case *ssa.IndexAddr:
						walk(x.X, depth+1)
					case *ssa.FieldAddr:
						walk(x.X, depth+1)
					case *ssa.Next, *ssa.Range:
					case *ssa.Call:
						if bi, ok := x.Call.Value.(*ssa.Builtin); ok {
							if bi.Name() == "append" {
								walk(x.Call.Args[0], depth+1)
							}
							return
						}
						fresh := true
						for _, cal := range ea.idx.CalleesAt(x) {
							if !analysable(cal) || !ea.summary(cal).returnsFresh {
								fresh = false
							}
						}
						if fresh {
							return
						}
						for _, a := range x.Call.Args {
							if pointerLike(a.Type()) {
								walk(a, depth+1)
							}
						}
					}
				}
				walk(mu.Value, 0)
				c.Check(R, construct, mu.Pos(), bad == "", "the value stored under the level key is allocated in this iteration, is a call result, or is the level's own slot",
					"values stored under different levels share storage: "+bad+"an append for one level can overwrite another level's points, so a tile matrix's result depends on which others are requested")
			}
		}
	}
	c.Note(R, "%d stores into level-keyed maps inside loops inspected", n)
	c.Floor(R, 8)
}

// closureVar: the local variable a function literal is bound to (`name := func…`), if it is bound exactly so.
func closureVar(info *types.Info, body ast.Node, lit *ast.FuncLit) types.Object {
	var out types.Object
	ast.Inspect(body, func(n ast.Node) bool {
		as, ok := n.(*ast.AssignStmt)
		if !ok || len(as.Lhs) != len(as.Rhs) {
			return true
		}
		for i, r := range as.Rhs {
			if ast.Unparen(r) == ast.Expr(lit) {
				out = core.ObjOf(info, as.Lhs[i])
			}
		}
		return true
	})
	return out
}

// membershipClosureOnlySelects: the index expression ix (levelMap[param]) is the whole business of a local closure
// `func(l Level) bool { _, ok := levelMap[l]; return ok }`, and every use of that closure is a call standing alone
// as the condition of an if without else whose body only stores into level-keyed results under the call's argument.
func membershipClosureOnlySelects(info *types.Info, body *ast.BlockStmt, path []ast.Node, ix *ast.IndexExpr) bool {
	var lit *ast.FuncLit
	for _, pn := range path {
		if l, ok := pn.(*ast.FuncLit); ok {
			lit = l
		}
	}
	if lit == nil || len(lit.Body.List) != 2 || lit.Type.Params == nil || lit.Type.Params.NumFields() != 1 {
		return false
	}
	as, ok := lit.Body.List[0].(*ast.AssignStmt)
	if !ok || len(as.Lhs) != 2 || len(as.Rhs) != 1 || ast.Unparen(as.Rhs[0]) != ast.Expr(ix) || canon(as.Lhs[0]) != "_" {
		return false
	}
	ret, ok := lit.Body.List[1].(*ast.ReturnStmt)
	if !ok || len(ret.Results) != 1 || core.ObjOf(info, ret.Results[0]) == nil || core.ObjOf(info, ret.Results[0]) != core.ObjOf(info, as.Lhs[1]) {
		return false
	}
	if core.ObjOf(info, ix.Index) != info.Defs[lit.Type.Params.List[0].Names[0]] {
		return false
	}
	name := closureVar(info, body, lit)
	if name == nil {
		return false
	}
	okAll, n := true, 0
	ast.Inspect(body, func(x ast.Node) bool {
		id, ok := x.(*ast.Ident)
		if !ok || info.Uses[id] != name {
			return true
		}
		n++
		p := pathTo(body, id)
		if len(p) < 3 {
			okAll = false
			return true
		}
		call, isCall := p[len(p)-2].(*ast.CallExpr)
		is, isIf := p[len(p)-3].(*ast.IfStmt)
		if !isCall || !isIf || call.Fun != ast.Expr(id) || is.Cond != ast.Expr(call) || is.Else != nil || len(call.Args) != 1 || len(is.Body.List) == 0 {
			okAll = false
			return true
		}
		for _, s := range is.Body.List {
			st, ok := s.(*ast.AssignStmt)
			if !ok || len(st.Lhs) != 1 {
				okAll = false
				continue
			}
			lx, ok := st.Lhs[0].(*ast.IndexExpr)
			if !ok || !isLevelKeyed(info.TypeOf(lx.X)) || canon(lx.Index) != canon(call.Args[0]) {
				okAll = false
			}
		}
		return true
	})
	return okAll && n > 0
}
