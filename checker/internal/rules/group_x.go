package rules

import (
	"fmt"
	"go/ast"
	"go/token"
	"go/types"
	"regexp"
	"sort"
	"strings"

	"golang.org/x/tools/go/ssa"

	"texelverif/internal/core"
)

func init() {
	reg("R45", r45TargetPathSuffix)
	reg("R46", r46RingContainsExamineAll)
	reg("R16t", r16tAddressingIsStateless)
}

// R45: the per-tile-matrix target path is the given path with "_<id>" inserted
// before its extension: dir, file = path.Split(p); ext = path.Ext(file);
// name = file without exactly that suffix; result = Join(dir, name+"_%v"+ext).
func r45TargetPathSuffix(c *core.Ctx) {
	const R = "R45"
	f := c.Anchor(R, "main.injectSuffixIntoPath")
	if f == nil {
		return
	}
	info := f.Pkg.TypesInfo
	p := f.Obj.Type().(*types.Signature).Params().At(0)
	var dir, file, ext, name types.Object
	for _, s := range f.Decl.Body.List {
		as, ok := s.(*ast.AssignStmt)
		if !ok || len(as.Rhs) != 1 {
			continue
		}
		switch rhs := as.Rhs[0].(type) {
		case *ast.CallExpr:
			switch {
			case core.IsCallTo(info, rhs, "path.Split", "path/filepath.Split") && len(as.Lhs) == 2 && core.ObjOf(info, rhs.Args[0]) == p:
				dir, file = core.ObjOf(info, as.Lhs[0]), core.ObjOf(info, as.Lhs[1])
			case core.IsCallTo(info, rhs, "path.Ext", "path/filepath.Ext") && file != nil && core.ObjOf(info, rhs.Args[0]) == file:
				ext = core.ObjOf(info, as.Lhs[0])
			case core.IsCallTo(info, rhs, "strings.TrimSuffix") && len(rhs.Args) == 2 && core.ObjOf(info, rhs.Args[0]) == file && core.ObjOf(info, rhs.Args[1]) == ext && ext != nil:
				name = core.ObjOf(info, as.Lhs[0])
			}
		case *ast.SliceExpr:
			// file[:len(file)-len(ext)]
			if core.ObjOf(info, rhs.X) == file && file != nil && ext != nil && rhs.Low == nil && rhs.High != nil && canon(rhs.High) == "len("+file.Name()+")-len("+ext.Name()+")" {
				name = core.ObjOf(info, as.Lhs[0])
			}
		}
	}
	okShape := false
	why := "the parts (dir, file, ext, name) are not derived with path.Split / path.Ext / exact suffix removal"
	if dir != nil && file != nil && ext != nil && name != nil {
		if ret, ok := f.Decl.Body.List[len(f.Decl.Body.List)-1].(*ast.ReturnStmt); ok && len(ret.Results) == 1 {
			if call, ok := ret.Results[0].(*ast.CallExpr); ok && core.IsCallTo(info, call, "path.Join", "path/filepath.Join") && len(call.Args) == 2 && core.ObjOf(info, call.Args[0]) == dir {
				// name + "_%v" + ext
				var parts []ast.Expr
				var flat func(e ast.Expr)
				flat = func(e ast.Expr) {
					if be, ok := ast.Unparen(e).(*ast.BinaryExpr); ok && be.Op == token.ADD {
						flat(be.X)
						flat(be.Y)
						return
					}
					// a named temporary for (part of) the concatenation
					if o := core.ObjOf(info, e); o != nil && o != name && o != ext && o != dir && o != file && len(parts) < 8 {
						if def := singleDef(info, f.Decl.Body, o); def != nil && assignedCount(info, f.Decl.Body, o) == 1 {
							flat(def)
							return
						}
					}
					parts = append(parts, e)
				}
				flat(call.Args[1])
				if len(parts) == 3 && core.ObjOf(info, parts[0]) == name && core.ObjOf(info, parts[2]) == ext {
					if lit, ok := core.ConstString(info, parts[1]); ok && (lit == "_%v" || lit == "_%d") {
						okShape = true
					} else {
						why = "the inserted piece is not \"_%v\""
					}
				} else {
					why = "the file name is not name + \"_%v\" + ext"
				}
			} else {
				why = "the result is not path.Join(dir, …)"
			}
		}
	}
	c.Check(R, "suffix-inserted-before-extension/"+f.Name, f.Decl.Pos(), okShape, "Join(dir, name + \"_%v\" + ext) with ext = Ext(file) and name = file minus exactly that suffix",
		"the target file name is not the given name with _<id> inserted before its extension ("+why+"); note strings.TrimRight/Trim take a character set, not a suffix")
	// no cutset trimming of path pieces anywhere in main
	nbad := 0
	for _, fn := range sortedFuncs(c.P) {
		if core.ShortPkg(fn.Pkg.PkgPath) != "main" {
			continue
		}
		for _, call := range core.CallsIn(fn.Pkg.TypesInfo, fn.Decl, "strings.TrimRight", "strings.TrimLeft", "strings.Trim") {
			if _, isConst := core.ConstString(fn.Pkg.TypesInfo, call.Args[1]); !isConst {
				nbad++
				c.Bad(R, fmt.Sprintf("no-cutset-trim-with-variable/%s", fn.Name), call.Pos(), "strings.Trim*/TrimRight with a variable second argument treats it as a set of characters, not as a suffix: "+core.ExprStr(call))
			}
		}
	}
	c.Check(R, "no-cutset-trim-with-variable/summary", f.Decl.Pos(), nbad == 0, "no strings.Trim/TrimLeft/TrimRight with a non-constant cutset in package main", "cutset trimming used on path pieces")
}

// R46: the containment predicate used for hole matching counts boundary points
// as inside and examines every segment: every early exit returns contains=true,
// the final verdict is produced after the loop over all segments.
// r46AreaSumsEveryEdge: the area used to pick the smallest containing shell is the shoelace sum over all n edges of
// the (open) ring, the closing edge last->first included: a range over the whole ring with the previous point
// starting at ring[len-1], or an index loop over the whole ring pairing i with (i+1) % len.
func r46AreaSumsEveryEdge(c *core.Ctx) {
	const R = "R46"
	f := c.Anchor(R, "geomhelp.Shoelace")
	if f == nil {
		return
	}
	info := f.Pkg.TypesInfo
	ring := f.Obj.Type().(*types.Signature).Params().At(0)
	construct := "area-sums-every-edge/" + f.Name
	why := "no loop over the ring found"
	okc := false
	for _, st := range f.Decl.Body.List {
		switch loop := st.(type) {
		case *ast.RangeStmt:
			if core.ObjOf(info, loop.X) != ring {
				why = "the loop does not range over the whole ring"
				continue
			}
			// (b) for i := range ring with (i+1) % len(ring)
			if loop.Key != nil && strings.Contains(canonNode(c.P, loop.Body), "("+canon(loop.Key)+"+1)%len("+ring.Name()+")") {
				okc = true
				continue
			}
			// (a) prev := ring[len(ring)-1]; for _, cur := range ring { …; prev = cur }
			if loop.Value == nil || len(loop.Body.List) == 0 {
				why = "the loop has no element variable"
				continue
			}
			cur := core.ObjOf(info, loop.Value)
			last, ok := loop.Body.List[len(loop.Body.List)-1].(*ast.AssignStmt)
			if !ok || len(last.Lhs) != 1 || len(last.Rhs) != 1 || core.ObjOf(info, last.Rhs[0]) != cur {
				why = "the previous point is not advanced to the current one at the end of each iteration"
				continue
			}
			prev := core.ObjOf(info, last.Lhs[0])
			def := lastDefBefore(info, f.Decl.Body, prev, loop.Pos())
			if def == nil {
				why = "the previous point has no start value"
				continue
			}
			if ix, ok := ast.Unparen(def).(*ast.IndexExpr); ok && core.ObjOf(info, ix.X) == ring && canon(ix.Index) == "len("+ring.Name()+")-1" {
				okc = !hasJump(loop.Body, token.CONTINUE, token.BREAK, token.GOTO).IsValid()
				why = "an iteration can be skipped"
			} else {
				why = "the previous point starts at " + core.ExprStr(def) + ", not at the last vertex: the closing edge is not summed"
			}
		case *ast.ForStmt:
			body := canonNode(c.P, loop.Body)
			if loop.Cond != nil && strings.HasSuffix(canon(loop.Cond), "<len("+ring.Name()+")") && strings.Contains(body, "+1)%len("+ring.Name()+")") {
				okc = true
			} else {
				why = "the index loop does not pair i with (i+1) % len(ring) over the whole ring"
			}
		}
	}
	c.Check(R, construct, f.Decl.Pos(), okc, "all n edges of the open ring are summed, the closing edge included", "Shoelace does not sum over every edge of the ring ("+why+"): the area depends on where the ring starts, and the smallest containing shell of a hole is picked by area")
}

// r46UniqueLeaderDecides: in matchInnersToPolygons a hole is attached early exactly when one shell leads the
// containment count alone: the value compared with 1 is the number-of-winners result of FindLastKeyWithMaxValue
// (its third result, named numWinners), and the polygon appended to is its first result (the leading key).
func r46UniqueLeaderDecides(c *core.Ctx) {
	const R = "R46"
	f := c.Anchor(R, "snap.matchInnersToPolygons")
	h := c.Anchor(R, "mapslicehelp.FindLastKeyWithMaxValue")
	if f == nil || h == nil || f.SSA == nil {
		return
	}
	construct := "unique-leader-decides/" + f.Name
	res := h.Obj.Type().(*types.Signature).Results()
	winIdx, keyIdx := -1, -1
	for i := 0; i < res.Len(); i++ {
		switch res.At(i).Name() {
		case "numWinners":
			winIdx = i
		case "maxK":
			keyIdx = i
		}
	}
	if winIdx < 0 || keyIdx < 0 {
		c.Unknown(R, construct, h.Decl.Pos(), "FindLastKeyWithMaxValue no longer has named results maxK / numWinners: the rule cannot tell its results apart")
		return
	}
	var call *ssa.Call
	for _, fn := range core.AllSSAFuncs(f.SSA) {
		for _, b := range fn.Blocks {
			for _, in := range b.Instrs {
				if cl, ok := in.(*ssa.Call); ok && cl.Call.StaticCallee() != nil && cl.Call.StaticCallee().Origin() != nil && cl.Call.StaticCallee().Origin().Object() == h.Obj {
					call = cl
				} else if ok && cl.Call.StaticCallee() != nil && cl.Call.StaticCallee().Object() == h.Obj {
					call = cl
				}
			}
		}
	}
	if call == nil {
		// the containment decision may live in a helper of package snap
		for _, g := range sortedFuncs(c.P) {
			if g.Pkg != f.Pkg || g.SSA == nil {
				continue
			}
			for _, b := range g.SSA.Blocks {
				for _, in := range b.Instrs {
					if cl, ok := in.(*ssa.Call); ok && cl.Call.StaticCallee() != nil && strings.HasPrefix(cl.Call.StaticCallee().Name(), "FindLastKeyWithMaxValue") {
						call = cl
					}
				}
			}
		}
	}
	if call == nil {
		c.Bad(R, construct, f.Decl.Pos(), "no call of FindLastKeyWithMaxValue in the hole matching")
		return
	}
	win := extractOf(call, winIdx)
	key := extractOf(call, keyIdx)
	okCmp := false
	if win != nil && key != nil {
		for _, r := range *win.Referrers() {
			cmp, ok := r.(*ssa.BinOp)
			if !ok || (cmp.Op != token.EQL && cmp.Op != token.NEQ) || !isConstInt(cmp.Y, 1) || cmp.X != win {
				continue
			}
			// the use of the leading key (polygons[maxK] = …, or handing it back) lies on the "== 1" side only
			oneEdge := 0
			if cmp.Op == token.NEQ {
				oneEdge = 1
			}
			for _, cr := range *cmp.Referrers() {
				i, isIf := cr.(*ssa.If)
				if !isIf {
					continue
				}
				reachedOtherwise := false
				for _, kr := range *key.Referrers() {
					ki, isInstr := kr.(ssa.Instruction)
					if !isInstr {
						continue
					}
					if found, _ := (core.Search{Fn: i.Parent(), From: i, Target: instrIs(ki), Barrier: instrIs(call), Edge: func(bb *ssa.BasicBlock, k int) bool { return !(bb == i.Block() && k == oneEdge) }}).Run(); found {
						reachedOtherwise = true
					}
				}
				okCmp = !reachedOtherwise
			}
		}
	}
	// nothing else is compared with 1 to decide the early attachment
	other := false
	for i := 0; i < res.Len(); i++ {
		if i == winIdx {
			continue
		}
		if e := extractOf(call, i); e != nil {
			for _, r := range *e.Referrers() {
				if cmp, ok := r.(*ssa.BinOp); ok && (cmp.Op == token.EQL || cmp.Op == token.NEQ) && isConstInt(cmp.Y, 1) {
					other = true
				}
			}
		}
	}
	okKey := false
	if key != nil {
		for _, r := range *key.Referrers() {
			if _, ok := r.(*ssa.IndexAddr); ok {
				okKey = true
			}
			if _, ok := r.(*ssa.Return); ok {
				okKey = true // handed back to the caller, which appends
			}
		}
	}
	c.Check(R, construct, call.Pos(), okCmp && !other && okKey, "numWinners == 1 decides, the hole goes to polygons[maxK]", "the early attachment of a hole is not decided by `exactly one shell leads the count` (the third result of FindLastKeyWithMaxValue) or does not go to the leading shell (its first result)")
}

func r46RingContainsExamineAll(c *core.Ctx) {
	const R = "R46"
	r46AreaSumsEveryEdge(c)
	r46UniqueLeaderDecides(c)
	f := c.Anchor(R, "snap.ringContains")
	if f == nil {
		return
	}
	info := f.Pkg.TypesInfo
	bad := ""
	n := 0
	last := f.Decl.Body.List[len(f.Decl.Body.List)-1]
	core.InspectNoLit(f.Decl.Body, func(x ast.Node) bool {
		ret, ok := x.(*ast.ReturnStmt)
		if !ok || len(ret.Results) != 2 {
			return true
		}
		n++
		if ast.Stmt(ret) == last {
			return true
		}
		if canon(ret.Results[0]) != "true" {
			bad += fmt.Sprintf("early exit returning contains=%s @%s; ", canon(ret.Results[0]), c.P.Pos(ret.Pos()))
		}
		return true
	})
	// all segments: the closing one plus i = 0 .. len-2
	src := canonNode(c.P, f.Decl.Body)
	ring := f.Obj.Type().(*types.Signature).Params().At(0).Name()
	closing := len(core.CallsIn(info, f.Decl, "geomhelp.RayIntersect")) == 2 && strings.Contains(src, ring+"[0],"+ring+"[len("+ring+")-1])")
	var loop *ast.ForStmt
	for _, s := range f.Decl.Body.List {
		if fs, ok := s.(*ast.ForStmt); ok {
			loop = fs
		}
	}
	loopOK := loop != nil && loop.Init != nil && canonNode(c.P, loop.Init) == "i:=0" && canon(loop.Cond) == "i<len("+ring+")-1" && !hasJump(loop.Body, token.BREAK, token.CONTINUE, token.GOTO).IsValid()
	c.Check(R, "boundary-counts-and-all-segments-examined/"+f.Name, f.Decl.Pos(), bad == "" && closing && loopOK && n >= 2,
		"every early exit reports contains=true (on the boundary); the verdict comes after the closing segment and all len-1 segments were cast",
		"ringContains can answer `outside` before it has examined every segment (e.g. a half-open bounding-box shortcut): a hole vertex on a shell's boundary is then attached to the wrong shell or turned into a shell: "+bad)
}

// R16t: tile addressing is a function of its arguments: no package-level
// state, synchronisation or caches below FromNative/ToNative/MatrixBoundingBox.
func r16tAddressingIsStateless(c *core.Ctx) {
	const R = "R16t"
	var roots []*ssa.Function
	for _, n := range []string{"tms20.TileMatrixSet.FromNative", "tms20.TileMatrixSet.ToNative", "tms20.TileMatrixSet.MatrixBoundingBox", "tms20.TileMatrixSet.MatrixSize", "tms20.ToXYPoint"} {
		if f := c.Anchor(R, n); f != nil && f.SSA != nil {
			roots = append(roots, f.SSA)
		}
	}
	if len(roots) == 0 {
		return
	}
	reach := core.ReachableNoStdlibTransit(c.P.VTA(), roots...)
	bad := 0
	nmod := 0
	var fns []*ssa.Function
	for f := range reach {
		if modFollow(f) {
			fns = append(fns, f)
		}
	}
	sortFns(fns)
	for _, f := range fns {
		nmod++
		for _, b := range f.Blocks {
			for _, in := range b.Instrs {
				report := func(what string) {
					bad++
					c.Bad(R, fmt.Sprintf("stateless/%s#%d", shortFn(f), bad), in.Pos(), what+": the answer for one tile matrix set can depend on which sets were addressed before in the same process", core.PathTo(reach, f)...)
				}
				switch x := in.(type) {
				case *ssa.Store:
					base := x.Addr
					for {
						if ia, ok := base.(*ssa.IndexAddr); ok {
							base = ia.X
						} else if fa, ok := base.(*ssa.FieldAddr); ok {
							base = fa.X
						} else {
							break
						}
					}
					if g, ok := base.(*ssa.Global); ok {
						report("store to package-level variable " + g.String())
					}
					// a write through a parameter, or through a pointer read out of the document: addressing a tile
					// changes the tile matrix set it was asked about
					switch r := base.(type) {
					case *ssa.Parameter, *ssa.FreeVar:
						report("store through the parameter " + r.Name() + " (the tile matrix set or one of its members is modified)")
					case *ssa.UnOp:
						if r.Op == token.MUL && pointerLike(r.Type()) {
							report("store through a pointer read from memory (" + strings.TrimSpace(r.String()) + "): a member of the tile matrix set is modified in place")
						}
					case *ssa.Call, *ssa.Extract, *ssa.Lookup:
						if v, ok := base.(ssa.Value); ok && pointerLike(v.Type()) {
							if _, isAlloc := base.(*ssa.Alloc); !isAlloc {
								if call, isCall := base.(*ssa.Call); !isCall || !freshPointerCall(call) {
									report("store through a pointer that is not a local variable (" + strings.TrimSpace(v.String()) + ")")
								}
							}
						}
					}
				case *ssa.MapUpdate:
					if u, ok := x.Map.(*ssa.UnOp); ok {
						if g, ok := u.X.(*ssa.Global); ok {
							report("update of package-level map " + g.String())
						}
						if _, isLocal := u.X.(*ssa.Alloc); !isLocal {
							report("update of a map that is not a local variable (" + strings.TrimSpace(u.String()) + ")")
						}
					}
					if _, isParam := x.Map.(*ssa.Parameter); isParam {
						report("update of a map handed in as a parameter")
					}
				case *ssa.Range:
					// the answer for one tile matrix is a function of that matrix: no walk over all matrices of the set
					if m, ok := x.X.Type().Underlying().(*types.Map); ok && core.TypeShort(m.Elem()) == "tms20.TileMatrix" {
						bad++
						c.Bad(R, fmt.Sprintf("addressed-matrix-only/%s#%d", shortFn(f), bad), in.Pos(), "a loop over all tile matrices of the set below the addressing functions: what is answered (or refused) for one matrix depends on its siblings", core.PathTo(reach, f)...)
					}
				case *ssa.Field:
					if isDeclaredBBox(x.X.Type(), x.Field) {
						bad++
						c.Bad(R, fmt.Sprintf("declared-bounding-box-not-used/%s#%d", shortFn(f), bad), in.Pos(), "the informative boundingBox member of the document is read below the addressing functions: the grid is what point of origin, cell size and matrix size say, whatever box the document declares", core.PathTo(reach, f)...)
					}
				case *ssa.FieldAddr:
					if isDeclaredBBox(x.X.Type(), x.Field) {
						bad++
						c.Bad(R, fmt.Sprintf("declared-bounding-box-not-used/%s#%d", shortFn(f), bad), in.Pos(), "the informative boundingBox member of the document is read below the addressing functions: the grid is what point of origin, cell size and matrix size say, whatever box the document declares", core.PathTo(reach, f)...)
					}
				case ssa.CallInstruction:
					if cal := x.Common().StaticCallee(); cal != nil {
						if pkg := core.FuncPkgPath(cal); pkg == "sync" || pkg == "sync/atomic" {
							report("call into " + pkg + " (" + cal.String() + "), i.e. shared mutable state")
						}
					}
				case *ssa.UnOp:
					// reading a package-level map/slice variable that module code writes elsewhere (cache lookups)
					if g, ok := x.X.(*ssa.Global); ok && x.Op == token.MUL {
						if _, isMap := g.Type().(*types.Pointer).Elem().Underlying().(*types.Map); isMap && core.IsModPath(g.Pkg.Pkg.Path()) {
							if g.Name() != "epsgAxesAreLatLon" {
								report("read of package-level map " + g.String())
							}
						}
					}
				}
			}
		}
	}
	c.Check(R, "stateless/summary", roots[0].Pos(), bad == 0 && nmod >= 6, fmt.Sprintf("%d module functions below the addressing functions: no package-level store, no cache map, no sync", nmod), fmt.Sprintf("%d uses of shared state", bad))
}

func init() {
	reg("R47", r47SchemaCopied)
	reg("R48", r48DeviationReported)
}

// R47: the target table is created from the source table's description, field
// by field: name, columns (createSQL, R33), geometry column, geometry type and
// spatial reference system; CreateTables handles every table and returns the
// first error; GetTableInfo fills each Table from the source's own catalogue.
func r47SchemaCopied(c *core.Ctx) {
	const R = "R47"
	bt := c.Anchor(R, "gpkg.buildTable")
	ct := c.Anchor(R, "gpkg.TargetGeopackage.CreateTables")
	gi := c.Anchor(R, "gpkg.SourceGeopackage.GetTableInfo")
	if bt == nil || ct == nil || gi == nil {
		return
	}
	info := bt.Pkg.TypesInfo
	tParam := bt.Obj.Type().(*types.Signature).Params().At(1)
	// TableDescription literal
	lit := findLit(info, bt.Decl.Body, "github.com/go-spatial/geom/encoding/gpkg.TableDescription")
	if lit == nil {
		ast.Inspect(bt.Decl.Body, func(n ast.Node) bool {
			if cl, ok := n.(*ast.CompositeLit); ok && lit == nil && strings.HasSuffix(info.TypeOf(cl).String(), "gpkg.TableDescription") {
				lit = cl
			}
			return lit == nil
		})
	}
	litInfo, litT := info, tParam
	if lit == nil {
		// the description is built by a module helper from the same table: AddGeometryTable(t.description()) or
		// AddGeometryTable(describe(t))
		for _, call := range core.CallsIn(info, bt.Decl, "github.com/go-spatial/geom/encoding/gpkg.Handle.AddGeometryTable") {
			if len(call.Args) != 1 {
				continue
			}
			hc, ok := ast.Unparen(call.Args[0]).(*ast.CallExpr)
			if !ok {
				continue
			}
			callee := core.Callee(info, hc)
			if callee == nil {
				continue
			}
			h := c.P.ByObj[callee.Origin()]
			if h == nil || h.Decl.Body == nil || !core.IsModPath(h.Pkg.PkgPath) {
				continue
			}
			hs := h.Obj.Type().(*types.Signature)
			var ht *types.Var
			if sel, ok := hc.Fun.(*ast.SelectorExpr); ok && hs.Recv() != nil && core.ObjOf(info, sel.X) == tParam {
				ht = hs.Recv()
			}
			for i, a := range hc.Args {
				if i < hs.Params().Len() && core.ObjOf(info, a) == tParam {
					ht = hs.Params().At(i)
				}
			}
			if ht == nil || assignedCount(h.Pkg.TypesInfo, h.Decl.Body, ht) != 0 {
				continue
			}
			if hl := findLit(h.Pkg.TypesInfo, h.Decl.Body, "github.com/go-spatial/geom/encoding/gpkg.TableDescription"); hl != nil {
				lit, litInfo, litT = hl, h.Pkg.TypesInfo, ht
			}
		}
	}
	want := map[string]string{"Name": "Name", "GeometryField": "gcolumn", "GeometryType": "gtype", "SRS": "srs.ID"}
	got := map[string]string{}
	if lit != nil {
		for _, el := range lit.Elts {
			kv, ok := el.(*ast.KeyValueExpr)
			if !ok {
				continue
			}
			val := stripConv(litInfo, kv.Value)
			// t.<field> chain
			path := ""
			for {
				sel, ok := ast.Unparen(val).(*ast.SelectorExpr)
				if !ok {
					break
				}
				if path == "" {
					path = sel.Sel.Name
				} else {
					path = sel.Sel.Name + "." + path
				}
				val = sel.X
			}
			if core.ObjOf(litInfo, val) == litT {
				got[canon(kv.Key)] = path
			}
		}
	}
	bad := ""
	for k, w := range want {
		if got[k] != w {
			bad += fmt.Sprintf("%s is set from t.%s, expected t.%s; ", k, got[k], w)
		}
	}
	c.Check(R, "geometry-table-registered-from-source-description/"+bt.Name, bt.Decl.Pos(), lit != nil && bad == "", "AddGeometryTable{Name: t.Name, GeometryField: t.gcolumn, GeometryType: t.gtype, SRS: t.srs.ID}", "the target's geometry table is not registered with the source table's own name/geometry column/type/srs: "+bad)
	// createSQL of the same table is executed before registration
	execs := core.CallsIn(info, bt.Decl, "database/sql.DB.Exec")
	okCreate := false
	for _, e := range execs {
		if o := core.ObjOf(info, e.Args[0]); o != nil {
			if def := singleDef(info, bt.Decl.Body, o); def != nil {
				if call, ok := def.(*ast.CallExpr); ok && isCallToAnchor(c, info, call, "gpkg.Table.createSQL") {
					if subj := subjectOf(info, call); subj != nil && core.ObjOf(info, subj) == tParam {
						okCreate = true
					}
				}
			}
		}
	}
	c.Check(R, "table-created-from-source-columns/"+bt.Name, bt.Decl.Pos(), okCreate, "Exec(t.createSQL()) for the same table", "the target table is not created with the source table's createSQL()")
	// CreateTables: every table, srs first, first error returned
	cinfo := ct.Pkg.TypesInfo
	tables := ct.Obj.Type().(*types.Signature).Params().At(0)
	okAll := false
	for _, s := range ct.Decl.Body.List {
		r, ok := s.(*ast.RangeStmt)
		if !ok || core.ObjOf(cinfo, r.X) != tables || hasJump(r.Body, token.BREAK, token.CONTINUE, token.GOTO).IsValid() {
			continue
		}
		tv := core.ObjOf(cinfo, r.Value)
		srs := core.CallsIn(cinfo, r.Body, "github.com/go-spatial/geom/encoding/gpkg.Handle.UpdateSRS")
		build := core.CallsIn(cinfo, r.Body, "gpkg.buildTable")
		if len(srs) == 1 && len(build) == 1 && srs[0].Pos() < build[0].Pos() && core.ObjOf(cinfo, build[0].Args[1]) == tv && tv != nil {
			if sel, ok := ast.Unparen(srs[0].Args[0]).(*ast.SelectorExpr); ok && sel.Sel.Name == "srs" && core.ObjOf(cinfo, sel.X) == tv {
				okAll = true
			}
		}
	}
	c.Check(R, "every-table-created-with-its-srs/"+ct.Name, ct.Decl.Pos(), okAll, "for every table: UpdateSRS(table.srs) then buildTable(handle, table); no table skipped", "CreateTables does not create every source table with its own spatial reference system")
	// GetTableInfo: fields filled from the source catalogue row of the same table
	ginfo := gi.Pkg.TypesInfo
	okInfo := len(core.CallsIn(ginfo, gi.Decl, "gpkg.getTableColumns")) == 1 && len(core.CallsIn(ginfo, gi.Decl, "gpkg.getSpatialReferenceSystem")) == 1 && len(core.CallsIn(ginfo, gi.Decl, "gpkg.geometryTypeFromString")) == 1
	// every catalogue column lands in the field it describes: SELECT list and Scan destinations agree position by
	// position (frozen tables of column -> destination; a destination "via:f" is a local that feeds field f)
	r47ScanMatchesSelect(c, gi, map[string]string{"table_name": "Name", "column_name": "gcolumn", "geometry_type_name": "via:gtype", "srs_id": "via:srs"}, nil)
	r47GeometryTypeNames(c)
	r47ColumnConstraints(c)
	if f := c.Anchor(R, "gpkg.getSpatialReferenceSystem"); f != nil {
		r47ScanMatchesSelect(c, f, map[string]string{"srs_name": "Name", "srs_id": "ID", "organization": "Organization", "organization_coordsys_id": "OrganizationCoordsysID", "definition": "Definition", "description": "via:Description"}, nil)
	}
	if f := c.Anchor(R, "gpkg.getTableColumns"); f != nil {
		// PRAGMA table_info yields cid, name, type, notnull, dflt_value, pk in this order
		r47ScanMatchesSelect(c, f, map[string]string{"cid": "cid", "name": "name", "type": "ctype", "notnull": "notnull", "dflt_value": "dfltValue", "pk": "pk"}, []string{"cid", "name", "type", "notnull", "dflt_value", "pk"})
	}
	c.Check(R, "table-description-read-from-source-catalogue/"+gi.Name, gi.Decl.Pos(), okInfo, "name and geometry column scanned from gpkg_geometry_columns; columns, geometry type and srs looked up for that table", "GetTableInfo no longer fills the table description from the source's catalogue")
	c.Floor(R, 4)
}

// r47ScanMatchesSelect: the columns selected by the function's query (or fixedCols for a PRAGMA) and the
// destinations of its Scan call agree position by position according to dest (column -> struct field of the one
// record being filled, or "via:field" for a local variable that is later used to set that field).
func r47ScanMatchesSelect(c *core.Ctx, f *core.Func, dest map[string]string, fixedCols []string) {
	const R = "R47"
	info := f.Pkg.TypesInfo
	construct := "scan-matches-select/" + f.Name
	cols := fixedCols
	if cols == nil {
		ast.Inspect(f.Decl.Body, func(n ast.Node) bool {
			bl, ok := n.(*ast.BasicLit)
			if !ok || bl.Kind != token.STRING {
				return true
			}
			q, ok := core.ConstString(info, bl)
			if !ok {
				return true
			}
			up := strings.ToUpper(q)
			i, j := strings.Index(up, "SELECT "), strings.Index(up, " FROM ")
			if i < 0 || j < i {
				return true
			}
			cols = nil
			for _, col := range strings.Split(q[i+7:j], ",") {
				cols = append(cols, strings.TrimSpace(col))
			}
			return true
		})
	}
	var scan *ast.CallExpr
	for _, call := range core.CallsIn(info, f.Decl, "database/sql.Rows.Scan", "database/sql.Row.Scan") {
		scan = call
	}
	if cols == nil || scan == nil {
		c.Bad(R, construct, f.Decl.Pos(), "no SELECT column list or no Scan call found")
		return
	}
	if len(cols) != len(scan.Args) {
		c.Bad(R, construct, scan.Pos(), fmt.Sprintf("%d columns selected but %d scanned", len(cols), len(scan.Args)))
		return
	}
	var rec types.Object
	bad := ""
	for i, col := range cols {
		want, known := dest[col]
		if !known {
			bad += fmt.Sprintf("column %s is not in the rule's table; ", col)
			continue
		}
		u, ok := ast.Unparen(scan.Args[i]).(*ast.UnaryExpr)
		if !ok || u.Op != token.AND {
			bad += fmt.Sprintf("destination %d is not an address; ", i)
			continue
		}
		switch x := ast.Unparen(u.X).(type) {
		case *ast.SelectorExpr:
			o := core.ObjOf(info, x.X)
			if rec == nil {
				rec = o
			}
			if o != rec || x.Sel.Name != want {
				bad += fmt.Sprintf("column %s is scanned into .%s, expected .%s; ", col, x.Sel.Name, strings.TrimPrefix(want, "via:"))
			}
		case *ast.Ident:
			if !strings.HasPrefix(want, "via:") {
				bad += fmt.Sprintf("column %s is scanned into local %s, expected field %s; ", col, x.Name, want)
				continue
			}
			local := info.Uses[x]
			field := strings.TrimPrefix(want, "via:")
			feeds := false
			ast.Inspect(f.Decl.Body, func(n ast.Node) bool {
				as, ok := n.(*ast.AssignStmt)
				if !ok || len(as.Lhs) != 1 || len(as.Rhs) != 1 {
					return true
				}
				if sel, ok := as.Lhs[0].(*ast.SelectorExpr); ok && sel.Sel.Name == field && core.UsesObj(info, as.Rhs[0], local) && as.Pos() > scan.Pos() {
					feeds = true
				}
				return true
			})
			if !feeds {
				bad += fmt.Sprintf("column %s is scanned into %s, which is not used to set .%s; ", col, x.Name, field)
			}
		default:
			bad += fmt.Sprintf("destination %d is not understood; ", i)
		}
	}
	c.Check(R, construct, scan.Pos(), bad == "", fmt.Sprintf("%d columns, each scanned into the field it describes", len(cols)), "the catalogue columns do not land in the fields they describe: "+bad)
}

// R48: the deviation of a grid that does not divide evenly is reported when it reaches one pixel.  DeviationStats
// returns the deviation in CRS units and that value divided by the float pixel size; validateTileMatrixSet warns
// exactly when the pixel figure is >= 1 and prints the unit figure.
func r48DeviationReported(c *core.Ctx) {
	const R = "R48"
	ds := c.Anchor(R, "pointindex.DeviationStats")
	v := c.Anchor(R, "main.validateTileMatrixSet")
	if ds == nil || v == nil || ds.SSA == nil || v.SSA == nil {
		return
	}
	res := ds.Obj.Type().(*types.Signature).Results()
	unitIdx, pixIdx := -1, -1
	for i := 0; i < res.Len(); i++ {
		switch res.At(i).Name() {
		case "deviationInUnits":
			unitIdx = i
		case "deviationInPixels":
			pixIdx = i
		}
	}
	if unitIdx < 0 || pixIdx < 0 {
		// unnamed results: the two float64 results in order (units, pixels)
		var fl []int
		for i := 0; i < res.Len(); i++ {
			if b, ok := res.At(i).Type().Underlying().(*types.Basic); ok && b.Kind() == types.Float64 {
				fl = append(fl, i)
			}
		}
		if len(fl) == 2 {
			unitIdx, pixIdx = fl[0], fl[1]
		}
	}
	if unitIdx < 0 || pixIdx < 0 {
		c.Bad(R, "deviation-results/"+ds.Name, ds.Decl.Pos(), "DeviationStats does not return the deviation in units and in pixels")
		return
	}
	// (a) pixels = units / float pixel size, float pixel size = float span / deepest size
	okDiv, n := true, 0
	for _, b := range ds.SSA.Blocks {
		for _, in := range b.Instrs {
			ret, ok := in.(*ssa.Return)
			if !ok || len(ret.Results) <= pixIdx {
				continue
			}
			if k, isK := ret.Results[pixIdx].(*ssa.Const); isK && k.Float64() == 0 {
				continue // error exits
			}
			n++
			q, ok := ret.Results[pixIdx].(*ssa.BinOp)
			if !ok || q.Op != token.QUO || q.X != ret.Results[unitIdx] {
				okDiv = false
				continue
			}
			px, ok := q.Y.(*ssa.BinOp)
			if !ok || px.Op != token.QUO {
				okDiv = false
				continue
			}
			cv, ok := px.Y.(*ssa.Convert)
			if !ok || !isFieldRead(cv.X, "deepestSize") {
				okDiv = false
			}
		}
	}
	c.Check(R, "pixels-are-units-over-pixel-size/"+ds.Name, ds.Decl.Pos(), okDiv && n >= 1, "deviationInPixels = deviationInUnits / (float span / deepest size)", "DeviationStats no longer returns the unit deviation divided by the float pixel size as the pixel deviation")
	// (b) the warning
	calls := findCalls(v.SSA, core.ModPath+"/pointindex.DeviationStats")
	if len(calls) != 1 {
		c.Bad(R, "warns-from-one-pixel/"+v.Name, v.Decl.Pos(), "expected one DeviationStats call in validateTileMatrixSet")
		return
	}
	pix, units := extractOf(calls[0], pixIdx), extractOf(calls[0], unitIdx)
	// warnIn: in fn, a log call prints `units` exactly on the `pix >= 1` side of a test
	var warnIn func(fn *ssa.Function, pix, units ssa.Value, depth int) (bool, string)
	warnIn = func(fn *ssa.Function, pix, units ssa.Value, depth int) (bool, string) {
		var guard *ssa.If
		trueIdx := 0
		for _, b := range fn.Blocks {
			i := core.BlockIf(b)
			if i == nil {
				continue
			}
			cmp, ok := i.Cond.(*ssa.BinOp)
			if !ok {
				continue
			}
			isOne := func(x ssa.Value) bool {
				k, ok := x.(*ssa.Const)
				return ok && k.Value != nil && k.Float64() == 1
			}
			switch {
			case pix != nil && cmp.X == pix && isOne(cmp.Y) && cmp.Op == token.GEQ:
				guard, trueIdx = i, 0
			case pix != nil && cmp.Y == pix && isOne(cmp.X) && cmp.Op == token.LEQ:
				guard, trueIdx = i, 0
			case pix != nil && cmp.X == pix && isOne(cmp.Y) && cmp.Op == token.LSS:
				guard, trueIdx = i, 1
			}
		}
		if guard == nil {
			// the test and the warning in a helper that is handed both figures and cannot be bypassed on the way
			// to a return
			if depth < 2 && pix != nil && units != nil {
				for _, b := range fn.Blocks {
					for _, in := range b.Instrs {
						call, ok := in.(*ssa.Call)
						if !ok {
							continue
						}
						cal := call.Call.StaticCallee()
						if cal == nil || len(cal.Blocks) == 0 || !core.IsModPath(core.FuncPkgPath(cal)) {
							continue
						}
						pi, ui := -1, -1
						for k, a := range call.Call.Args {
							if a == pix {
								pi = k
							}
							if a == units {
								ui = k
							}
						}
						if pi < 0 || ui < 0 || pi >= len(cal.Params) || ui >= len(cal.Params) {
							continue
						}
						from := ssa.Instruction(nil)
						if pi, isI := pix.(ssa.Instruction); isI && pi.Parent() == fn {
							from = pi
						}
						successReturn := func(i ssa.Instruction) bool {
							ret, ok := i.(*ssa.Return)
							if !ok {
								return false
							}
							if len(ret.Results) == 0 {
								return true
							}
							k, isK := ret.Results[len(ret.Results)-1].(*ssa.Const)
							return isK && k.IsNil()
						}
						bypass, _ := core.Search{Fn: fn, From: from, Target: successReturn, Barrier: instrIs(call)}.Run()
						if bypass {
							return false, "the helper that warns (" + cal.Name() + ") can be bypassed"
						}
						return warnIn(cal, cal.Params[pi], cal.Params[ui], depth+1)
					}
				}
			}
			return false, "no test `deviationInPixels >= 1` on DeviationStats' pixel result"
		}
		// on the >= 1 side a log call prints the unit figure; it is not reachable from the other side
		var logCall *ssa.Call
		for _, b := range fn.Blocks {
			for _, in := range b.Instrs {
				call, ok := in.(*ssa.Call)
				if !ok || !strings.HasPrefix(core.StaticCalleeID(call), "log.Print") {
					continue
				}
				for _, a := range call.Call.Args {
					for _, e := range sliceLitElems(a) {
						if core.Unwrap(e) == units && units != nil {
							logCall = call
						}
					}
				}
			}
		}
		if logCall == nil {
			return false, "no log call prints the deviation in units"
		}
		viaOther, _ := core.Search{Fn: fn, Target: instrIs(logCall), Edge: func(b *ssa.BasicBlock, k int) bool { return !(core.BlockIf(b) == guard && k == trueIdx) }}.Run()
		missed, _ := core.Search{Fn: fn, From: guard, Target: core.IsReturn, Barrier: instrIs(logCall), Edge: func(b *ssa.BasicBlock, k int) bool { return !(core.BlockIf(b) == guard && k != trueIdx) }}.Run()
		return !viaOther && !missed, fmt.Sprintf("the warning is printed without the deviation reaching one pixel (%v) or can be skipped although it does (%v)", viaOther, missed)
	}
	okWarn, why := warnIn(v.SSA, pix, units, 0)
	c.Check(R, "warns-from-one-pixel/"+v.Name, v.Decl.Pos(), okWarn, "validation logs the deviation in units exactly when DeviationStats reports >= 1 pixel", "the deviation of an uneven grid is not reported as the property assumes: "+why)
	c.Floor(R, 2)
}

// r47GeometryTypeNames: geometryTypeFromString is the inverse of the library's GeometryType.String on every name
// the library knows.  The library's table is read from its source (the String method's switch); texel's mapping
// is read from a switch on the upper-cased name, from a map literal, or from a loop over the enum that compares
// String() -- whichever form the function has.
func r47GeometryTypeNames(c *core.Ctx) {
	const R = "R47"
	f := c.Anchor(R, "gpkg.geometryTypeFromString")
	if f == nil {
		return
	}
	construct := "geometry-type-names-complete/" + f.Name
	lib := c.P.ByPath["github.com/go-spatial/geom/encoding/gpkg"]
	if lib == nil {
		c.Bad(R, construct, f.Decl.Pos(), "package github.com/go-spatial/geom/encoding/gpkg is not loaded")
		return
	}
	// library: constant -> name
	libName := map[string]string{} // constant identifier -> NAME
	constVal := map[string]int64{}
	for _, file := range lib.Syntax {
		for _, d := range file.Decls {
			fd, ok := d.(*ast.FuncDecl)
			if !ok || fd.Name.Name != "String" || fd.Recv == nil || fd.Body == nil || len(fd.Recv.List) != 1 {
				continue
			}
			if core.TypeShort(lib.TypesInfo.TypeOf(fd.Recv.List[0].Type)) != "github.com/go-spatial/geom/encoding/gpkg.GeometryType" {
				continue
			}
			ast.Inspect(fd.Body, func(n ast.Node) bool {
				cc, ok := n.(*ast.CaseClause)
				if !ok || len(cc.List) != 1 || len(cc.Body) != 1 {
					return true
				}
				ret, ok := cc.Body[0].(*ast.ReturnStmt)
				if !ok || len(ret.Results) != 1 {
					return true
				}
				if name, ok := core.ConstString(lib.TypesInfo, ret.Results[0]); ok {
					if id, ok := cc.List[0].(*ast.Ident); ok {
						libName[id.Name] = name
						if v, ok := core.ConstInt(lib.TypesInfo, id); ok {
							constVal[id.Name] = v
						}
					}
				}
				return true
			})
		}
	}
	if len(libName) < 8 {
		c.Bad(R, construct, f.Decl.Pos(), fmt.Sprintf("only %d names found in the library's GeometryType.String", len(libName)))
		return
	}
	info := f.Pkg.TypesInfo
	got := map[string]string{} // NAME -> constant identifier
	constIdent := func(e ast.Expr) string {
		if sel, ok := ast.Unparen(e).(*ast.SelectorExpr); ok {
			if _, isConst := info.Uses[sel.Sel].(*types.Const); isConst {
				return sel.Sel.Name
			}
		}
		return ""
	}
	form := ""
	// (a) switch cases, (b) map literal entries -- in the function or in a package-level table it looks up
	collectLits := func(n ast.Node, inf *types.Info) {
		ast.Inspect(n, func(x ast.Node) bool {
			switch v := x.(type) {
			case *ast.CaseClause:
				if len(v.Body) == 1 {
					if ret, ok := v.Body[0].(*ast.ReturnStmt); ok && len(ret.Results) == 1 {
						if cid := constIdent(ret.Results[0]); cid != "" {
							for _, e := range v.List {
								if name, ok := core.ConstString(inf, e); ok {
									got[name] = cid
									form = "switch"
								}
							}
						}
					}
				}
			case *ast.CompositeLit:
				if m, ok := inf.TypeOf(v).Underlying().(*types.Map); ok && core.TypeShort(m.Elem()) == "github.com/go-spatial/geom/encoding/gpkg.GeometryType" {
					for _, el := range v.Elts {
						if kv, ok := el.(*ast.KeyValueExpr); ok {
							if name, ok := core.ConstString(inf, kv.Key); ok {
								if cid := constIdent(kv.Value); cid != "" {
									got[name] = cid
									form = "lookup table"
								}
							}
						}
					}
				}
			}
			return true
		})
	}
	collectLits(f.Decl.Body, info)
	if len(got) == 0 {
		// package-level table used by the function
		ast.Inspect(f.Decl.Body, func(x ast.Node) bool {
			if id, ok := x.(*ast.Ident); ok {
				if vr, ok := info.Uses[id].(*types.Var); ok && vr.Parent() == f.Pkg.Types.Scope() {
					for _, file := range f.Pkg.Syntax {
						for _, d := range file.Decls {
							if gd, ok := d.(*ast.GenDecl); ok {
								for _, sp := range gd.Specs {
									if vs, ok := sp.(*ast.ValueSpec); ok {
										for i, nm := range vs.Names {
											if info.Defs[nm] == vr && i < len(vs.Values) {
												collectLits(vs.Values[i], info)
											}
										}
									}
								}
							}
						}
					}
				}
			}
			return true
		})
	}
	if len(got) == 0 {
		// (c) for g := LO; g <= HI; g++ { if g.String() == name { return g } }
		ast.Inspect(f.Decl.Body, func(x ast.Node) bool {
			fs, ok := x.(*ast.ForStmt)
			if !ok || fs.Init == nil || fs.Cond == nil || fs.Post == nil {
				return true
			}
			as, ok := fs.Init.(*ast.AssignStmt)
			cond, ok2 := fs.Cond.(*ast.BinaryExpr)
			inc, ok3 := fs.Post.(*ast.IncDecStmt)
			if !ok || !ok2 || !ok3 || len(as.Lhs) != 1 || len(as.Rhs) != 1 || inc.Tok != token.INC {
				return true
			}
			lo, okLo := core.ConstInt(info, as.Rhs[0])
			hi, okHi := core.ConstInt(info, cond.Y)
			g := core.ObjOf(info, as.Lhs[0])
			if !okLo || !okHi || g == nil || core.ObjOf(info, cond.X) != g || core.ObjOf(info, inc.X) != g {
				return true
			}
			if cond.Op == token.LSS {
				hi--
			} else if cond.Op != token.LEQ {
				return true
			}
			// the body returns g when g.String() equals the name
			returnsG := false
			ast.Inspect(fs.Body, func(y ast.Node) bool {
				if is, ok := y.(*ast.IfStmt); ok && strings.Contains(canon(is.Cond), ".String()==") && len(is.Body.List) == 1 {
					if ret, ok := is.Body.List[0].(*ast.ReturnStmt); ok && len(ret.Results) == 1 && core.ObjOf(info, ret.Results[0]) == g {
						returnsG = true
					}
				}
				return true
			})
			if returnsG {
				form = "loop over the enum"
				for cid, name := range libName {
					if v, ok := constVal[cid]; ok && v >= lo && v <= hi {
						got[name] = cid
					}
				}
			}
			return true
		})
	}
	if len(got) == 0 {
		c.Unknown(R, construct, f.Decl.Pos(), "the way geometryTypeFromString maps names to geometry types is not understood (not a switch on the name, a lookup table, or a loop over the enum comparing String())")
		return
	}
	var missing []string
	for cid, name := range libName {
		if got[name] != cid {
			missing = append(missing, fmt.Sprintf("%s -> %s (found %q)", name, cid, got[name]))
		}
	}
	sort.Strings(missing)
	c.Check(R, construct, f.Decl.Pos(), len(missing) == 0, fmt.Sprintf("%s: all %d names the library writes map back to their geometry type", form, len(libName)),
		"the geometry type of a source table is not copied for every type name: "+strings.Join(missing, "; ")+" (such a table is registered as GEOMETRY in the target)")
}

// r47ColumnConstraints: createSQL copies the NOT NULL and the PRIMARY KEY constraint of a source column
// independently of each other: the text " NOT NULL" is added exactly under the fact notnull == 1 and " PRIMARY KEY"
// exactly under pk == 1 (if statements, or any other form that leaves each addition under that one fact).
func r47ColumnConstraints(c *core.Ctx) {
	const R = "R47"
	f := c.Anchor(R, "gpkg.Table.createSQL")
	if f == nil {
		return
	}
	info := f.Pkg.TypesInfo
	var loop *colLoop
	ast.Inspect(f.Decl.Body, func(n ast.Node) bool {
		if loop != nil {
			return false
		}
		switch r := n.(type) {
		case *ast.RangeStmt:
			if fv := core.FieldOf(info, r.X); fv != nil && fv.Name() == "columns" {
				loop = &colLoop{r, r.Body}
			}
		case *ast.ForStmt:
			if x := countedLoopOver(info, r); x != nil {
				if fv := core.FieldOf(info, x); fv != nil && fv.Name() == "columns" {
					loop = &colLoop{r, r.Body}
				}
			}
		}
		return loop == nil
	})
	construct := "column-constraints-copied-independently/" + f.Name
	if loop == nil {
		c.Bad(R, construct, f.Decl.Pos(), "no loop over t.columns in createSQL")
		return
	}
	want := map[string]string{"NOT NULL": "notnull", "PRIMARY KEY": "pk"}
	seen := map[string]bool{}
	bad := ""
	ast.Inspect(loop.Body, func(n ast.Node) bool {
		bl, ok := n.(*ast.BasicLit)
		if !ok || bl.Kind != token.STRING {
			return true
		}
		txt, ok := core.ConstString(info, bl)
		if !ok {
			return true
		}
		for kw, field := range want {
			if strings.TrimSpace(strings.ToUpper(txt)) != kw {
				continue
			}
			seen[kw] = true
			facts := enclosingFacts(loop.Body, bl)
			okFact := len(facts) == 1 && facts[0].val && regexp.MustCompile(`^\w+\.`+field+`==1$`).MatchString(facts[0].expr)
			if !okFact {
				var fs []string
				for _, ft := range facts {
					fs = append(fs, fmt.Sprintf("%s is %v", ft.expr, ft.val))
				}
				bad += fmt.Sprintf("%q is added under [%s] instead of exactly %s == 1; ", kw, strings.Join(fs, ", "), field)
			}
		}
		return true
	})
	for kw := range want {
		if !seen[kw] {
			bad += fmt.Sprintf("%q is never added; ", kw)
		}
	}
	c.Check(R, construct, loop.node.Pos(), bad == "", "NOT NULL iff notnull == 1 and PRIMARY KEY iff pk == 1, each on its own", "createSQL does not copy the column constraints of the source table: "+bad)
}

// freshPointerCall: the call returns a pointer to memory nobody else holds (a constructor of the standard library
// or of a dependency: slippy.NewTile, new, ...).
func freshPointerCall(call *ssa.Call) bool {
	if g := call.Call.StaticCallee(); g != nil {
		return strings.HasPrefix(g.Name(), "New") || strings.HasPrefix(g.Name(), "new")
	}
	return false
}

// isDeclaredBBox: field k of (a pointer to) tms20.TileMatrixSet is its BoundingBox member.
func isDeclaredBBox(t types.Type, k int) bool {
	if core.TypeShort(t) != "tms20.TileMatrixSet" {
		return false
	}
	st, ok := core.DerefStruct(t)
	return ok && k < st.NumFields() && st.Field(k).Name() == "BoundingBox"
}
