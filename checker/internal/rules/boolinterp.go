package rules

import (
	"fmt"
	"go/constant"
	"go/token"
	"go/types"

	"golang.org/x/tools/go/ssa"

	"texelverif/internal/core"
)

// boolInterp evaluates the boolean skeleton of a piece of SSA code under one valuation of named atoms.  It is not
// an execution of the program: every value that is not a boolean built from atoms, constants, !, ==, != and phis
// is opaque, calls other than boolean module helpers are not followed, and the result for a valuation is simply
// which exit the control flow graph takes.  Enumerating all valuations gives the decision table of the code,
// independent of how the decision is written (nested ifs, early returns, De Morgan, helper functions).
type boolInterp struct {
	// roles gives a name to the values the atoms are built from (a parameter, a call result, …); atom turns a
	// boolean value into (atom name, negated) using those roles.
	roleOf func(fr *boolFrame, v ssa.Value) string
	atom   func(fr *boolFrame, v ssa.Value) (string, bool, bool)
	assign map[string]bool
	steps  int
	used   map[string]bool // atoms consulted
}

type boolFrame struct {
	fn     *ssa.Function
	roles  map[ssa.Value]string // parameter -> role
	env    map[ssa.Value]bool
	ienv   map[ssa.Value]int64     // integer phis all of whose edges are constants (an axis selector)
	subst  map[ssa.Value]ssa.Value // helper frame: parameter -> the caller's value
	ituple map[*ssa.Call][]int64   // integer results of module helpers that returned constants
	phiSel map[ssa.Value]ssa.Value // the edge each non-boolean phi took on the path walked
	parent *boolFrame              // the frame of the caller, for helper and closure frames
	cells  map[ssa.Value]ssa.Value // local variables kept in memory (captured by a closure): last value stored on the path walked
	prev   *ssa.BasicBlock
}

// callerValue maps a value of a helper frame back to the value it stands for in the calling frame.
func (fr *boolFrame) callerValue(v ssa.Value) ssa.Value {
	if fr.subst != nil {
		if m, ok := fr.subst[v]; ok {
			return m
		}
	}
	return v
}

// resolve strips representation changes and loads of spilled parameters: the value a load of a local that is
// stored exactly once yields is the stored value.
func resolveValue(v ssa.Value) ssa.Value {
	for i := 0; i < 8; i++ {
		switch x := v.(type) {
		case *ssa.ChangeType:
			v = x.X
			continue
		case *ssa.UnOp:
			if x.Op == token.MUL {
				if a, ok := x.X.(*ssa.Alloc); ok {
					if sv := onceStored(a); sv != nil {
						v = sv
						continue
					}
				}
			}
		}
		break
	}
	return v
}

// onceStored returns the value stored into a local cell that is written exactly once and otherwise only read
// (directly or through element/field addresses); nil if the cell is written elsewhere or its address escapes.
func onceStored(a *ssa.Alloc) ssa.Value {
	var val ssa.Value
	n := 0
	ok := true
	var readOnly func(x ssa.Value)
	readOnly = func(x ssa.Value) {
		for _, r := range *x.Referrers() {
			switch y := r.(type) {
			case *ssa.UnOp:
				if y.Op != token.MUL {
					ok = false
				}
			case *ssa.FieldAddr:
				readOnly(y)
			case *ssa.IndexAddr:
				readOnly(y)
			case *ssa.DebugRef:
			default:
				ok = false
			}
		}
	}
	for _, r := range *a.Referrers() {
		switch y := r.(type) {
		case *ssa.Store:
			if y.Addr == ssa.Value(a) {
				val = y.Val
				n++
			} else {
				ok = false
			}
		case *ssa.UnOp:
			if y.Op != token.MUL {
				ok = false
			}
		case *ssa.FieldAddr:
			readOnly(y)
		case *ssa.IndexAddr:
			readOnly(y)
		case *ssa.DebugRef:
		default:
			ok = false
		}
	}
	if n != 1 || !ok {
		return nil
	}
	return val
}

// elementOf recognises v as element k of an array value: Index(x, k), or a load of IndexAddr(alloc, k) where the
// alloc is a once-stored local.  It returns the (resolved) array value.
func elementOf(v ssa.Value) (ssa.Value, int64, bool) {
	v = resolveValue(v)
	switch x := v.(type) {
	case *ssa.Index:
		if k, ok := x.Index.(*ssa.Const); ok && k.Value != nil {
			return resolveValue(x.X), k.Int64(), true
		}
	case *ssa.UnOp:
		if x.Op != token.MUL {
			return nil, 0, false
		}
		if ia, ok := x.X.(*ssa.IndexAddr); ok {
			if k, ok := ia.Index.(*ssa.Const); ok && k.Value != nil {
				if a, ok := ia.X.(*ssa.Alloc); ok {
					if sv := onceStored(a); sv != nil {
						return resolveValue(sv), k.Int64(), true
					}
				}
			}
		}
	}
	return nil, 0, false
}

type boolOutcome struct {
	kind string // "return", "block", "noreturn"
	val  bool   // for return of a boolean
	blk  *ssa.BasicBlock
	ret  *ssa.Return
}

// run walks fr.fn from block b until a return or a block in stop is entered.
func (bi *boolInterp) run(fr *boolFrame, b *ssa.BasicBlock, stop map[*ssa.BasicBlock]bool, depth int) (boolOutcome, error) {
	if depth > 6 {
		return boolOutcome{}, fmt.Errorf("helper nesting too deep")
	}
	for {
		bi.steps++
		if bi.steps > 5000 {
			return boolOutcome{}, fmt.Errorf("no exit reached (loop in the decision code)")
		}
		for _, in := range b.Instrs {
			switch x := in.(type) {
			case *ssa.Phi:
				if !isBoolType(x.Type()) {
					// an integer selector: all edges constant
					for i, p := range b.Preds {
						if p == fr.prev {
							if fr.phiSel == nil {
								fr.phiSel = map[ssa.Value]ssa.Value{}
							}
							fr.phiSel[x] = x.Edges[i]
							if k, ok := x.Edges[i].(*ssa.Const); ok && k.Value != nil && k.Value.Kind() == constant.Int {
								if fr.ienv == nil {
									fr.ienv = map[ssa.Value]int64{}
								}
								fr.ienv[x] = k.Int64()
							}
						}
					}
					continue
				}
				for i, p := range b.Preds {
					if p == fr.prev {
						if v, err := bi.eval(fr, x.Edges[i], depth); err == nil {
							fr.env[x] = v
						}
					}
				}
			case *ssa.If:
				v, err := bi.eval(fr, x.Cond, depth)
				if err != nil {
					return boolOutcome{}, err
				}
				next := b.Succs[1]
				if v {
					next = b.Succs[0]
				}
				fr.prev = b
				b = next
				goto nextBlock
			case *ssa.Jump:
				fr.prev = b
				b = b.Succs[0]
				goto nextBlock
			case *ssa.Return:
				if len(x.Results) == 1 && isBoolType(x.Results[0].Type()) {
					v, err := bi.eval(fr, x.Results[0], depth)
					if err != nil {
						return boolOutcome{}, err
					}
					return boolOutcome{kind: "return", val: v, ret: x}, nil
				}
				return boolOutcome{kind: "return", ret: x}, nil
			case *ssa.Call:
				// a module helper that selects integers (an axis pair, an index): followed when its results are
				// constants on the path taken
				callee := x.Call.StaticCallee()
				if callee == nil || len(callee.Blocks) == 0 || !core.IsModPath(core.FuncPkgPath(callee)) || depth >= 4 {
					break
				}
				res := callee.Signature.Results()
				allInt := res.Len() >= 1
				for i := 0; i < res.Len(); i++ {
					if bt, ok := res.At(i).Type().Underlying().(*types.Basic); !ok || bt.Info()&types.IsInteger == 0 {
						allInt = false
					}
				}
				if !allInt {
					break
				}
				sub := &boolFrame{fn: callee, roles: map[ssa.Value]string{}, env: map[ssa.Value]bool{}, subst: map[ssa.Value]ssa.Value{}, parent: fr}
				bindClosure(sub, x.Call.Value, callee)
				for i, a := range x.Call.Args {
					if i < len(callee.Params) {
						sub.subst[callee.Params[i]] = fr.callerValue(resolveValue(a))
						if r := bi.roleOf(fr, a); r != "" {
							sub.roles[callee.Params[i]] = r
						}
					}
				}
				out, err := bi.run(sub, callee.Blocks[0], nil, depth+1)
				if err != nil || out.kind != "return" || out.ret == nil {
					break // not understood: values stay unknown and fail later if they matter
				}
				vals := make([]int64, len(out.ret.Results))
				okAll := true
				for i, r := range out.ret.Results {
					if k, ok := r.(*ssa.Const); ok && k.Value != nil && k.Value.Kind() == constant.Int {
						vals[i] = k.Int64()
					} else if v, ok := sub.ienv[r]; ok {
						vals[i] = v
					} else {
						okAll = false
					}
				}
				if okAll {
					if fr.ienv == nil {
						fr.ienv = map[ssa.Value]int64{}
					}
					if len(vals) == 1 {
						fr.ienv[x] = vals[0]
					} else {
						if fr.ituple == nil {
							fr.ituple = map[*ssa.Call][]int64{}
						}
						fr.ituple[x] = vals
					}
				}
			case *ssa.Extract:
				if call, ok := x.Tuple.(*ssa.Call); ok && fr.ituple != nil {
					if vals, ok := fr.ituple[call]; ok && x.Index < len(vals) {
						fr.ienv[x] = vals[x.Index]
					}
				}
			case *ssa.Store:
				if a, ok := x.Addr.(*ssa.Alloc); ok {
					if fr.cells == nil {
						fr.cells = map[ssa.Value]ssa.Value{}
					}
					fr.cells[a] = x.Val
				}
			case *ssa.Panic:
				return boolOutcome{kind: "noreturn"}, nil
			default:
				if core.NoReturnCall(in) {
					return boolOutcome{kind: "noreturn"}, nil
				}
			}
		}
		return boolOutcome{}, fmt.Errorf("block %d of %s has no terminator the rule understands", b.Index, fr.fn.Name())
	nextBlock:
		if stop[b] {
			return boolOutcome{kind: "block", blk: b}, nil
		}
	}
}

func isBoolType(t types.Type) bool {
	b, ok := t.Underlying().(*types.Basic)
	return ok && b.Info()&types.IsBoolean != 0
}

func (bi *boolInterp) eval(fr *boolFrame, v ssa.Value, depth int) (bool, error) {
	if val, ok := fr.env[v]; ok {
		return val, nil
	}
	if k, ok := v.(*ssa.Const); ok && k.Value != nil && k.Value.Kind() == constant.Bool {
		return constant.BoolVal(k.Value), nil
	}
	if name, neg, ok := bi.atom(fr, v); ok {
		bi.used[name] = true
		return bi.assign[name] != neg, nil
	}
	switch x := v.(type) {
	case *ssa.UnOp:
		if x.Op == token.NOT {
			r, err := bi.eval(fr, x.X, depth)
			return !r, err
		}
	case *ssa.BinOp:
		if (x.Op == token.EQL || x.Op == token.NEQ) && isBoolType(x.X.Type()) {
			l, err := bi.eval(fr, x.X, depth)
			if err != nil {
				return false, err
			}
			r, err := bi.eval(fr, x.Y, depth)
			if err != nil {
				return false, err
			}
			return (l == r) == (x.Op == token.EQL), nil
		}
	case *ssa.Call:
		// a boolean module helper: evaluated in its own frame, parameters take the roles of the arguments
		if callee := x.Call.StaticCallee(); callee != nil && len(callee.Blocks) > 0 && core.IsModPath(core.FuncPkgPath(callee)) && isBoolType(x.Type()) {
			sub := &boolFrame{fn: callee, roles: map[ssa.Value]string{}, env: map[ssa.Value]bool{}, subst: map[ssa.Value]ssa.Value{}, parent: fr}
			bindClosure(sub, x.Call.Value, callee)
			for i, a := range x.Call.Args {
				if i < len(callee.Params) {
					sub.subst[callee.Params[i]] = fr.callerValue(resolveValue(a))
					if r := bi.roleOf(fr, a); r != "" {
						sub.roles[callee.Params[i]] = r
					}
				}
			}
			out, err := bi.run(sub, callee.Blocks[0], nil, depth+1)
			if err != nil {
				return false, err
			}
			if out.kind != "return" {
				return false, fmt.Errorf("helper %s does not return", callee.Name())
			}
			fr.env[v] = out.val
			return out.val, nil
		}
	}
	return false, fmt.Errorf("a branch depends on `%s` (%s), which is none of the conditions the rule knows", v.String(), v.Name())
}

// runFrom walks on from the instruction after `after` (the rest of its block, then the blocks that follow).  The
// instructions of the first block before `after` are not looked at.
func (bi *boolInterp) runFrom(fr *boolFrame, after ssa.Instruction, stop map[*ssa.BasicBlock]bool) (boolOutcome, error) {
	b := after.Block()
	term := b.Instrs[len(b.Instrs)-1]
	switch x := term.(type) {
	case *ssa.If:
		v, err := bi.eval(fr, x.Cond, 0)
		if err != nil {
			return boolOutcome{}, err
		}
		next := b.Succs[1]
		if v {
			next = b.Succs[0]
		}
		fr.prev = b
		if stop[next] {
			return boolOutcome{kind: "block", blk: next}, nil
		}
		return bi.run(fr, next, stop, 0)
	case *ssa.Jump:
		fr.prev = b
		if stop[b.Succs[0]] {
			return boolOutcome{kind: "block", blk: b.Succs[0]}, nil
		}
		return bi.run(fr, b.Succs[0], stop, 0)
	case *ssa.Return:
		return boolOutcome{kind: "return", ret: x}, nil
	}
	return boolOutcome{kind: "noreturn"}, nil
}

// bindClosure: a call of a local closure: the closure's free variables stand for the variables bound at its creation.
func bindClosure(sub *boolFrame, callee ssa.Value, fn *ssa.Function) {
	mc, ok := callee.(*ssa.MakeClosure)
	if !ok {
		return
	}
	for j, b := range mc.Bindings {
		if j < len(fn.FreeVars) {
			sub.subst[fn.FreeVars[j]] = b
		}
	}
}

// onceStoredC is onceStored for a variable that closures capture: a capture is tolerated when the closure only
// reads the variable.
func onceStoredC(a *ssa.Alloc) ssa.Value {
	var val ssa.Value
	n := 0
	var okRead func(x ssa.Value) bool
	okRead = func(x ssa.Value) bool {
		for _, r := range *x.Referrers() {
			switch y := r.(type) {
			case *ssa.UnOp:
				if y.Op != token.MUL {
					return false
				}
			case *ssa.FieldAddr:
				if !okRead(y) {
					return false
				}
			case *ssa.IndexAddr:
				if !okRead(y) {
					return false
				}
			case *ssa.DebugRef:
			default:
				return false
			}
		}
		return true
	}
	for _, r := range *a.Referrers() {
		switch y := r.(type) {
		case *ssa.Store:
			if y.Addr != ssa.Value(a) {
				return nil
			}
			val = y.Val
			n++
		case *ssa.UnOp:
			if y.Op != token.MUL {
				return nil
			}
		case *ssa.FieldAddr:
			if !okRead(y) {
				return nil
			}
		case *ssa.IndexAddr:
			if !okRead(y) {
				return nil
			}
		case *ssa.MakeClosure:
			fn, _ := y.Fn.(*ssa.Function)
			for j, b := range y.Bindings {
				if b == ssa.Value(a) && (fn == nil || j >= len(fn.FreeVars) || !okRead(fn.FreeVars[j])) {
					return nil
				}
			}
		case *ssa.DebugRef:
		default:
			return nil
		}
	}
	if n != 1 {
		return nil
	}
	return val
}

// accessPath resolves a value to (root, constant index path): line[0][1] -> (line, [0 1]), through local copies,
// helper and closure parameters, and variables captured by a closure.  Indices may be constants or integer
// selectors whose value on the path walked is known (ienv).
func accessPath(fr *boolFrame, v ssa.Value, depth int) (ssa.Value, []int64, bool) {
	if depth > 24 || fr == nil {
		return nil, nil, false
	}
	switch x := v.(type) {
	case *ssa.ChangeType:
		return accessPath(fr, x.X, depth+1)
	case *ssa.Index:
		r, p, ok := accessPath(fr, x.X, depth+1)
		k, ok2 := intOnPath(fr, x.Index, depth+1)
		return r, append(append([]int64{}, p...), k), ok && ok2
	case *ssa.UnOp:
		if x.Op == token.MUL {
			return accessPathAddr(fr, x.X, depth+1)
		}
	case *ssa.Parameter:
		if m, has := fr.subst[x]; has && fr.parent != nil {
			return accessPath(fr.parent, m, depth+1)
		}
	}
	return v, nil, true
}

func accessPathAddr(fr *boolFrame, a ssa.Value, depth int) (ssa.Value, []int64, bool) {
	if depth > 24 || fr == nil {
		return nil, nil, false
	}
	switch x := a.(type) {
	case *ssa.IndexAddr:
		var r ssa.Value
		var p []int64
		var ok bool
		if _, isPtr := x.X.Type().Underlying().(*types.Pointer); isPtr {
			r, p, ok = accessPathAddr(fr, x.X, depth+1)
		} else {
			r, p, ok = accessPath(fr, x.X, depth+1) // a slice value
		}
		k, ok2 := intOnPath(fr, x.Index, depth+1)
		return r, append(append([]int64{}, p...), k), ok && ok2
	case *ssa.Alloc:
		if cv, ok := fr.cells[x]; ok {
			return accessPath(fr, cv, depth+1)
		}
		s := onceStoredC(x)
		if s == nil {
			return nil, nil, false
		}
		return accessPath(fr, s, depth+1)
	case *ssa.FreeVar:
		if m, has := fr.subst[x]; has && fr.parent != nil {
			return accessPathAddr(fr.parent, m, depth+1)
		}
	}
	return nil, nil, false
}

// intOnPath: the integer value of v on the path walked: a constant, a selector recorded in ienv, possibly read
// through a local or captured variable.
func intOnPath(fr *boolFrame, v ssa.Value, depth int) (int64, bool) {
	if depth > 24 || fr == nil {
		return 0, false
	}
	if k, ok := v.(*ssa.Const); ok && k.Value != nil && k.Value.Kind() == constant.Int {
		return k.Int64(), true
	}
	if val, ok := fr.ienv[v]; ok {
		return val, true
	}
	switch x := v.(type) {
	case *ssa.ChangeType:
		return intOnPath(fr, x.X, depth+1)
	case *ssa.Convert:
		return intOnPath(fr, x.X, depth+1)
	case *ssa.UnOp:
		if x.Op == token.MUL {
			switch a := x.X.(type) {
			case *ssa.Alloc:
				if cv, ok := fr.cells[a]; ok {
					return intOnPath(fr, cv, depth+1)
				}
				if s := onceStoredC(a); s != nil {
					return intOnPath(fr, s, depth+1)
				}
			case *ssa.FreeVar:
				if m, has := fr.subst[a]; has && fr.parent != nil {
					if al, isAlloc := m.(*ssa.Alloc); isAlloc {
						if cv, ok := fr.parent.cells[al]; ok {
							return intOnPath(fr.parent, cv, depth+1)
						}
						if s := onceStoredC(al); s != nil {
							return intOnPath(fr.parent, s, depth+1)
						}
					}
				}
			}
		}
	case *ssa.Parameter:
		if m, has := fr.subst[x]; has && fr.parent != nil {
			return intOnPath(fr.parent, m, depth+1)
		}
	}
	return 0, false
}
