package rules

import (
	"encoding/json"
	"fmt"
	"go/ast"
	"go/constant"
	"go/token"
	"go/types"
	"os"
	"path/filepath"
	"regexp"
	"sort"
	"strconv"
	"strings"

	"golang.org/x/tools/go/ssa"

	"texelverif/internal/core"
)

func init() {
	reg("R41", r41BitProvenance)
	reg("R42", func(c *core.Ctx) { r42CornerOfOrigin(c); r42AxisOrderFromTable(c) })
}

// ---- bit-provenance domain -------------------------------------------------

type bitKind uint8

const (
	bZero bitKind = iota
	bOne
	bSrc // copy of input bit (in, k)
	bTop // mixed / unknown
)

type abit struct {
	kind bitKind
	in   uint8 // parameter index
	k    uint8 // bit index
}

type bits [64]abit

type aval struct {
	kind string // "bits", "int", "bool", "ptr", "atom"
	b    bits
	i    int64
	t    bool
	g    string // ptr: global name
	atom string // symbolic boolean: name of atom
	tup  []aval // tuple results of an inlined call
}

func constBits(u uint64) bits {
	var b bits
	for i := 0; i < 64; i++ {
		if u>>uint(i)&1 == 1 {
			b[i] = abit{kind: bOne}
		}
	}
	return b
}

func (b bits) asConst() (uint64, bool) {
	var u uint64
	for i := 0; i < 64; i++ {
		switch b[i].kind {
		case bOne:
			u |= 1 << uint(i)
		case bZero:
		default:
			return 0, false
		}
	}
	return u, true
}

func inputBits(param int, knownZeroFrom int) bits {
	var b bits
	for i := 0; i < 64; i++ {
		if i >= knownZeroFrom {
			b[i] = abit{kind: bZero}
		} else {
			b[i] = abit{kind: bSrc, in: uint8(param), k: uint8(i)}
		}
	}
	return b
}

func bitAnd(x, y abit) abit {
	switch {
	case x.kind == bZero || y.kind == bZero:
		return abit{kind: bZero}
	case x.kind == bOne:
		return y
	case y.kind == bOne:
		return x
	case x == y:
		return x
	}
	return abit{kind: bTop}
}

func bitOr(x, y abit) abit {
	switch {
	case x.kind == bOne || y.kind == bOne:
		return abit{kind: bOne}
	case x.kind == bZero:
		return y
	case y.kind == bZero:
		return x
	case x == y:
		return x
	}
	return abit{kind: bTop}
}

func bitXor(x, y abit) abit {
	switch {
	case x.kind == bZero:
		return y
	case y.kind == bZero:
		return x
	case x.kind == bOne && y.kind == bOne:
		return abit{kind: bZero}
	case x == y && x.kind == bSrc:
		return abit{kind: bZero}
	}
	return abit{kind: bTop}
}

func (b bits) String() string {
	var sb strings.Builder
	for i := 63; i >= 0; i-- {
		switch b[i].kind {
		case bZero:
			sb.WriteByte('0')
		case bOne:
			sb.WriteByte('1')
		case bTop:
			sb.WriteByte('?')
		case bSrc:
			fmt.Fprintf(&sb, "[%c%d]", 'a'+b[i].in, b[i].k)
		}
	}
	return sb.String()
}

// bitInterp executes one function on the abstract domain.  Control flow must
// be decided by concrete integers or by atoms (comparisons of an input with a
// constant), whose truth values are given.
type bitInterp struct {
	fn      *ssa.Function
	globals map[string][]uint64
	atoms   map[string]bool // assumed truth value per atom; atoms met are recorded in seenAtoms
	seen    map[string]bool
	params  []bits
	args    []aval // when set, used instead of params (inlined call)
	depth   int
	err     string
	pnames  []string // names of the top-level function's parameters (abit.in indexes them)
}

// wholeInput: the word is parameter p of the top-level function, untouched (its high bits possibly known zero).
func wholeInput(b bits) (int, bool) {
	p := -1
	for i := 0; i < 64; i++ {
		switch b[i].kind {
		case bSrc:
			if int(b[i].k) != i || (p >= 0 && int(b[i].in) != p) {
				return 0, false
			}
			p = int(b[i].in)
		case bZero:
			if i < 32 {
				return 0, false
			}
		default:
			return 0, false
		}
	}
	return p, p >= 0
}

// rangeAtomValue: the truth of "parameter pname <= bound" under the assumed atoms.
func (bi *bitInterp) rangeAtomValue(pname string, bound uint64) bool {
	const M = 4294967295
	name := atomName(token.LEQ, pname, bound)
	if bound != M {
		if base, known := bi.atoms[atomName(token.LEQ, pname, M)]; known {
			if base && bound >= M {
				return true
			}
			if !base && bound <= M {
				return false
			}
		}
	}
	bi.seen[name] = true
	return bi.atoms[name]
}

func atomName(op token.Token, param string, c uint64) string {
	return fmt.Sprintf("%s %s %d", param, op, c)
}

func (bi *bitInterp) run() ([]aval, bool) {
	env := map[ssa.Value]aval{}
	for i, p := range bi.fn.Params {
		if bi.args != nil {
			env[p] = bi.args[i]
		} else {
			env[p] = aval{kind: "bits", b: bi.params[i]}
		}
	}
	get := func(v ssa.Value) (aval, bool) {
		if k, ok := v.(*ssa.Const); ok {
			if k.Value == nil {
				return aval{}, false
			}
			switch t := k.Type().Underlying().(type) {
			case *types.Basic:
				switch {
				case t.Info()&types.IsBoolean != 0:
					return aval{kind: "bool", t: constant.BoolVal(k.Value)}, true
				case t.Info()&types.IsUnsigned != 0:
					u, _ := constant.Uint64Val(constant.ToInt(k.Value))
					return aval{kind: "bits", b: constBits(u)}, true
				case t.Info()&types.IsInteger != 0:
					i, _ := constant.Int64Val(constant.ToInt(k.Value))
					return aval{kind: "int", i: i}, true
				}
			}
			return aval{}, false
		}
		if g, ok := v.(*ssa.Global); ok {
			return aval{kind: "ptr", g: g.Name(), i: -1}, true
		}
		a, ok := env[v]
		return a, ok
	}
	blk := bi.fn.Blocks[0]
	var prev *ssa.BasicBlock
	for steps := 0; steps < 20000; steps++ {
		var next *ssa.BasicBlock
		for _, in := range blk.Instrs {
			switch x := in.(type) {
			case *ssa.Phi:
				found := false
				for i, p := range blk.Preds {
					if p == prev {
						a, ok := get(x.Edges[i])
						if !ok {
							bi.err = "phi operand not evaluable: " + x.Edges[i].String()
							return nil, false
						}
						env[x] = a
						found = true
					}
				}
				if !found {
					bi.err = "phi without matching predecessor"
					return nil, false
				}
			case *ssa.BinOp:
				a, ok1 := get(x.X)
				b, ok2 := get(x.Y)
				if !ok1 || !ok2 {
					bi.err = "operand not evaluable in " + x.String()
					return nil, false
				}
				r, ok := bi.binop(x, a, b)
				if !ok {
					return nil, false
				}
				env[x] = r
			case *ssa.IndexAddr:
				base, ok1 := get(x.X)
				idx, ok2 := get(x.Index)
				if !ok1 || !ok2 || base.kind != "ptr" || idx.kind != "int" {
					bi.err = "unsupported address computation " + x.String()
					return nil, false
				}
				env[x] = aval{kind: "ptr", g: base.g, i: idx.i}
			case *ssa.UnOp:
				a, ok := get(x.X)
				if !ok {
					bi.err = "operand not evaluable in " + x.String()
					return nil, false
				}
				switch {
				case x.Op == token.MUL && a.kind == "ptr":
					arr, known := bi.globals[a.g]
					if !known || a.i < 0 || int(a.i) >= len(arr) {
						bi.err = fmt.Sprintf("load from %s[%d] out of range or unknown table (would panic at run time)", a.g, a.i)
						return nil, false
					}
					env[x] = aval{kind: "bits", b: constBits(arr[a.i])}
				case x.Op == token.NOT && a.kind == "bool":
					env[x] = aval{kind: "bool", t: !a.t}
				case x.Op == token.XOR && a.kind == "bits":
					var r bits
					for i := range r {
						r[i] = bitXor(a.b[i], abit{kind: bOne})
					}
					env[x] = aval{kind: "bits", b: r}
				default:
					bi.err = "unsupported unary op " + x.String()
					return nil, false
				}
			case *ssa.Convert:
				a, ok := get(x.X)
				if !ok {
					bi.err = "convert operand"
					return nil, false
				}
				env[x] = a
			case *ssa.ChangeType:
				a, _ := get(x.X)
				env[x] = a
			case *ssa.Jump:
				next = blk.Succs[0]
			case *ssa.If:
				cnd, ok := get(x.Cond)
				if !ok || cnd.kind != "bool" {
					bi.err = "branch on a value that is neither concrete nor an input/constant comparison: " + x.Cond.String()
					return nil, false
				}
				if cnd.t {
					next = blk.Succs[0]
				} else {
					next = blk.Succs[1]
				}
			case *ssa.Return:
				var out []aval
				for _, r := range x.Results {
					a, ok := get(r)
					if !ok {
						bi.err = "result not evaluable"
						return nil, false
					}
					out = append(out, a)
				}
				return out, true
			case *ssa.DebugRef:
			case *ssa.Call:
				// a helper of the same package (spreadBits, compactBits, …) is interpreted in place
				cal := x.Call.StaticCallee()
				// math/bits.Len of an untouched input: a length, comparable with constants only
				if cal != nil && core.FuncPkgPath(cal) == "math/bits" && (cal.Name() == "Len" || cal.Name() == "Len64") && len(x.Call.Args) == 1 {
					if av, ok := get(x.Call.Args[0]); ok && av.kind == "bits" {
						if pi, whole := wholeInput(av.b); whole && pi < len(bi.names()) {
							env[x] = aval{kind: "lenof", g: bi.names()[pi]}
							continue
						}
					}
				}
				if cal == nil || len(cal.Blocks) == 0 || cal.Pkg != bi.fn.Pkg || bi.depth > 4 {
					bi.err = "call that cannot be interpreted in place: " + x.String()
					return nil, false
				}
				var args []aval
				for _, a := range x.Call.Args {
					av, ok := get(a)
					if !ok {
						bi.err = "argument not evaluable in " + x.String()
						return nil, false
					}
					args = append(args, av)
				}
				sub := &bitInterp{fn: cal, globals: bi.globals, atoms: bi.atoms, seen: bi.seen, args: args, depth: bi.depth + 1, pnames: bi.names()}
				res, ok := sub.run()
				if !ok {
					bi.err = cal.Name() + ": " + sub.err
					return nil, false
				}
				if len(res) == 1 {
					env[x] = res[0]
				} else {
					env[x] = aval{kind: "tuple", tup: res}
				}
			case *ssa.Extract:
				t, ok := get(x.Tuple)
				if !ok || t.kind != "tuple" || x.Index >= len(t.tup) {
					bi.err = "extract from a non-tuple"
					return nil, false
				}
				env[x] = t.tup[x.Index]
			default:
				bi.err = fmt.Sprintf("unsupported instruction %T %s (anything but shift/and/or networks yields no verdict)", in, in.String())
				return nil, false
			}
		}
		if next == nil {
			bi.err = "block without terminator"
			return nil, false
		}
		prev, blk = blk, next
	}
	bi.err = "step limit reached (loop does not terminate on constants)"
	return nil, false
}

func (bi *bitInterp) names() []string {
	if bi.pnames != nil {
		return bi.pnames
	}
	var l []string
	for _, p := range bi.fn.Params {
		l = append(l, p.Name())
	}
	return l
}

func (bi *bitInterp) binop(x *ssa.BinOp, a, b aval) (aval, bool) {
	if a.kind == "lenof" {
		k := int64(-1)
		switch b.kind {
		case "int":
			k = b.i
		case "bits":
			if u, ok := b.b.asConst(); ok {
				k = int64(u)
			}
		}
		if k < 0 || k > 64 {
			bi.err = "length of an input compared with something that is not a small constant: " + x.String()
			return aval{}, false
		}
		upto := func(n int64) uint64 { // largest word of length n
			if n >= 64 {
				return ^uint64(0)
			}
			return uint64(1)<<uint(n) - 1
		}
		switch x.Op {
		case token.LEQ:
			return aval{kind: "bool", t: bi.rangeAtomValue(a.g, upto(k))}, true
		case token.LSS:
			if k == 0 {
				return aval{kind: "bool", t: false}, true
			}
			return aval{kind: "bool", t: bi.rangeAtomValue(a.g, upto(k-1))}, true
		case token.GTR:
			return aval{kind: "bool", t: !bi.rangeAtomValue(a.g, upto(k))}, true
		case token.GEQ:
			if k == 0 {
				return aval{kind: "bool", t: true}, true
			}
			return aval{kind: "bool", t: !bi.rangeAtomValue(a.g, upto(k-1))}, true
		}
		bi.err = "length of an input used other than in an order comparison: " + x.String()
		return aval{}, false
	}
	// the high half of an untouched input, however it was cut out (x>>32, x&^M), against zero: x <= MaxUint32
	if a.kind == "bits" && b.kind == "bits" && (x.Op == token.EQL || x.Op == token.NEQ) {
		if cb, isC := b.b.asConst(); isC && cb == 0 {
			if _, isConstA := a.b.asConst(); !isConstA {
				p, high, okShape := -1, map[int]bool{}, true
				for i := 0; i < 64; i++ {
					switch a.b[i].kind {
					case bZero:
					case bSrc:
						if p >= 0 && int(a.b[i].in) != p {
							okShape = false
						}
						p = int(a.b[i].in)
						high[int(a.b[i].k)] = true
					default:
						okShape = false
					}
				}
				for k := 0; k < 64; k++ {
					if high[k] != (k >= 32) {
						okShape = false
					}
				}
				if okShape && p >= 0 && p < len(bi.names()) {
					t := bi.rangeAtomValue(bi.names()[p], 4294967295)
					if x.Op == token.NEQ {
						t = !t
					}
					return aval{kind: "bool", t: t}, true
				}
			}
		}
	}
	if a.kind == "int" && b.kind == "int" {
		switch x.Op {
		case token.ADD:
			return aval{kind: "int", i: a.i + b.i}, true
		case token.SUB:
			return aval{kind: "int", i: a.i - b.i}, true
		case token.MUL:
			return aval{kind: "int", i: a.i * b.i}, true
		case token.LSS:
			return aval{kind: "bool", t: a.i < b.i}, true
		case token.LEQ:
			return aval{kind: "bool", t: a.i <= b.i}, true
		case token.GTR:
			return aval{kind: "bool", t: a.i > b.i}, true
		case token.GEQ:
			return aval{kind: "bool", t: a.i >= b.i}, true
		case token.EQL:
			return aval{kind: "bool", t: a.i == b.i}, true
		case token.NEQ:
			return aval{kind: "bool", t: a.i != b.i}, true
		}
		bi.err = "unsupported int op " + x.String()
		return aval{}, false
	}
	if a.kind == "bool" && b.kind == "bool" {
		switch x.Op {
		case token.EQL:
			return aval{kind: "bool", t: a.t == b.t}, true
		case token.NEQ:
			return aval{kind: "bool", t: a.t != b.t}, true
		}
	}
	if a.kind != "bits" || (b.kind != "bits" && b.kind != "int") {
		bi.err = "unsupported operand kinds in " + x.String()
		return aval{}, false
	}
	var r bits
	switch x.Op {
	case token.SHL, token.SHR:
		var n uint64
		if b.kind == "int" {
			if b.i < 0 {
				bi.err = "negative shift"
				return aval{}, false
			}
			n = uint64(b.i)
		} else {
			c, isConst := b.b.asConst()
			if !isConst {
				bi.err = "shift by a non-constant amount in " + x.String()
				return aval{}, false
			}
			n = c
		}
		for i := 0; i < 64; i++ {
			if x.Op == token.SHL {
				if uint64(i) >= n {
					r[i] = a.b[uint64(i)-n]
				}
			} else if uint64(i)+n < 64 {
				r[i] = a.b[uint64(i)+n]
			}
		}
		return aval{kind: "bits", b: r}, true
	case token.AND:
		for i := range r {
			r[i] = bitAnd(a.b[i], b.b[i])
		}
		return aval{kind: "bits", b: r}, true
	case token.OR:
		for i := range r {
			r[i] = bitOr(a.b[i], b.b[i])
		}
		return aval{kind: "bits", b: r}, true
	case token.XOR:
		for i := range r {
			r[i] = bitXor(a.b[i], b.b[i])
		}
		return aval{kind: "bits", b: r}, true
	case token.LEQ, token.LSS, token.GTR, token.GEQ, token.EQL, token.NEQ:
		// comparison of an untouched input with a constant = atom
		cst, isConst := b.b.asConst()
		if p, isParam := x.X.(*ssa.Parameter); isParam && isConst {
			// the order comparisons are all spellings of "p <= bound"
			switch {
			case x.Op == token.LEQ:
				return aval{kind: "bool", t: bi.rangeAtomValue(p.Name(), cst)}, true
			case x.Op == token.GTR:
				return aval{kind: "bool", t: !bi.rangeAtomValue(p.Name(), cst)}, true
			case x.Op == token.LSS && cst > 0:
				return aval{kind: "bool", t: bi.rangeAtomValue(p.Name(), cst-1)}, true
			case x.Op == token.GEQ && cst > 0:
				return aval{kind: "bool", t: !bi.rangeAtomValue(p.Name(), cst-1)}, true
			}
			name := atomName(x.Op, p.Name(), cst)
			bi.seen[name] = true
			return aval{kind: "bool", t: bi.atoms[name]}, true
		}
		ca, okA := a.b.asConst()
		if okA && isConst {
			var t bool
			switch x.Op {
			case token.LEQ:
				t = ca <= cst
			case token.LSS:
				t = ca < cst
			case token.GTR:
				t = ca > cst
			case token.GEQ:
				t = ca >= cst
			case token.EQL:
				t = ca == cst
			case token.NEQ:
				t = ca != cst
			}
			return aval{kind: "bool", t: t}, true
		}
		bi.err = "comparison of a computed word: " + x.String()
		return aval{}, false
	default:
		ca, okA := a.b.asConst()
		cb, okB := b.b.asConst()
		if okA && okB {
			switch x.Op {
			case token.ADD:
				return aval{kind: "bits", b: constBits(ca + cb)}, true
			case token.SUB:
				return aval{kind: "bits", b: constBits(ca - cb)}, true
			case token.MUL:
				return aval{kind: "bits", b: constBits(ca * cb)}, true
			}
		}
		for i := range r {
			r[i] = abit{kind: bTop}
		}
		return aval{kind: "bits", b: r}, true
	}
}

// tableConsts reads a package-level array literal of unsigned constants.
func tableConsts(c *core.Ctx, pkgShort, name string) ([]uint64, token.Pos, bool) {
	pk := c.P.PkgShort(pkgShort)
	if pk == nil {
		return nil, token.NoPos, false
	}
	for _, f := range pk.Syntax {
		for _, d := range f.Decls {
			gd, ok := d.(*ast.GenDecl)
			if !ok || gd.Tok != token.VAR {
				continue
			}
			for _, sp := range gd.Specs {
				vs := sp.(*ast.ValueSpec)
				for i, nm := range vs.Names {
					if nm.Name != name || i >= len(vs.Values) {
						continue
					}
					cl, ok := vs.Values[i].(*ast.CompositeLit)
					if !ok {
						return nil, nm.Pos(), false
					}
					var out []uint64
					for _, el := range cl.Elts {
						tv, has := pk.TypesInfo.Types[el]
						if !has || tv.Value == nil {
							return nil, nm.Pos(), false
						}
						u, exact := constant.Uint64Val(constant.ToInt(tv.Value))
						if !exact {
							return nil, nm.Pos(), false
						}
						out = append(out, u)
					}
					return out, nm.Pos(), true
				}
			}
		}
	}
	return nil, token.NoPos, false
}

// R41: bit provenance of the Z-order network, for all 2^64 address pairs.
func r41BitProvenance(c *core.Ctx) {
	const R = "R41"
	toZ := c.Anchor(R, "morton.ToZ")
	fromZ := c.Anchor(R, "morton.FromZ")
	must := c.Anchor(R, "morton.MustToZ")
	if toZ == nil || fromZ == nil || must == nil {
		return
	}
	globals := map[string][]uint64{}
	// every package-level array of unsigned constants of package morton is a table the network may index
	if pk := c.P.PkgShort("morton"); pk != nil {
		for _, name := range pk.Types.Scope().Names() {
			if _, isVar := pk.Types.Scope().Lookup(name).(*types.Var); !isVar {
				continue
			}
			if vals, _, ok := tableConsts(c, "morton", name); ok {
				globals[name] = vals
				c.Saw(R, fmt.Sprintf("constant table morton.%s (%d entries)", name, len(vals)))
			}
		}
	}
	// the tables are written only by the package initialiser
	writes := 0
	for _, fn := range allModFuncs(c.P) {
		for _, b := range fn.Blocks {
			for _, in := range b.Instrs {
				if st, ok := in.(*ssa.Store); ok {
					base := st.Addr
					if ia, ok := base.(*ssa.IndexAddr); ok {
						base = ia.X
					}
					if g, ok := base.(*ssa.Global); ok && g.Pkg.Pkg.Path() == core.ModPath+"/morton" && globals[g.Name()] != nil {
						writes++
						c.Bad(R, "tables-immutable/morton."+g.Name(), st.Pos(), "the constant table is written at run time in "+fn.String())
					}
				}
			}
		}
	}
	c.Check(R, "tables-immutable/morton", toZ.Decl.Pos(), writes == 0, "masks and powersOfTwo are only initialised, never written by module code", "constant tables are mutated")
	// (6) word size
	sizes := types.SizesFor("gc", "amd64")
	zT := toZ.Obj.Type().(*types.Signature).Results().At(0).Type()
	xT := toZ.Obj.Type().(*types.Signature).Params().At(0).Type()
	c.Check(R, "word-size/morton.Z", toZ.Decl.Pos(), sizes.Sizeof(zT) == 8 && sizes.Sizeof(xT) == 8,
		"Z and the operands are 64-bit words on the analysed platform (the mask constants do not fit 32 bits)", "morton.Z / operands are not 64 bit")

	sig := toZ.Obj.Type().(*types.Signature)
	if sig.Params().Len() != 2 || sig.Results().Len() != 2 {
		c.Bad(R, "signature/morton.ToZ", toZ.Decl.Pos(), "ToZ is not (x, y) -> (z, ok)")
		return
	}
	// (4) ok == x <= MaxUint32 && y <= MaxUint32, via truth table over the atoms met
	const M = 4294967295
	ax := atomName(token.LEQ, toZ.SSA.Params[0].Name(), M)
	ay := atomName(token.LEQ, toZ.SSA.Params[1].Name(), M)
	okExact := true
	okDetail := ""
	var zUnderPre bits
	for _, tx := range []bool{false, true} {
		for _, ty := range []bool{false, true} {
			kx, ky := 64, 64
			if tx {
				kx = 32
			}
			if ty {
				ky = 32
			}
			bi := &bitInterp{fn: toZ.SSA, globals: globals, atoms: map[string]bool{ax: tx, ay: ty}, seen: map[string]bool{}, params: []bits{inputBits(0, kx), inputBits(1, ky)}}
			out, ok := bi.run()
			if !ok {
				c.Bad(R, "interpretable/morton.ToZ", toZ.Decl.Pos(), "ToZ cannot be evaluated on the bit-provenance domain: "+bi.err)
				return
			}
			for a := range bi.seen {
				if a != ax && a != ay {
					okExact = false
					okDetail += "unexpected comparison " + a + "; "
				}
			}
			if out[1].kind != "bool" || out[1].t != (tx && ty) {
				okExact = false
				okDetail += fmt.Sprintf("for x<=M=%v, y<=M=%v ok is %v; ", tx, ty, out[1].t)
			}
			if tx && ty {
				// (the four rows of the table already show that ok depends on both; which spelling of the range
				// test met which atom is not asked)
				zUnderPre = out[0].b
			}
		}
	}
	c.Check(R, "ok-iff-both-fit-32-bits/morton.ToZ", toZ.Decl.Pos(), okExact, "ok == (x <= MaxUint32 && y <= MaxUint32), by truth table over the two comparisons", "ok is not exactly x <= MaxUint32 && y <= MaxUint32: "+okDetail)
	// (1) interleave
	bad := ""
	for k := 0; k < 32; k++ {
		if zUnderPre[2*k] != (abit{kind: bSrc, in: 0, k: uint8(k)}) {
			bad += fmt.Sprintf("z bit %d is %s, want x%d; ", 2*k, bitStr(zUnderPre[2*k]), k)
		}
		if zUnderPre[2*k+1] != (abit{kind: bSrc, in: 1, k: uint8(k)}) {
			bad += fmt.Sprintf("z bit %d is %s, want y%d; ", 2*k+1, bitStr(zUnderPre[2*k+1]), k)
		}
	}
	c.Saw(R, "ToZ map under precondition: "+zUnderPre.String())
	c.Check(R, "toz-interleaves-all-64-bits/morton.ToZ", toZ.Decl.Pos(), bad == "",
		"for all x, y < 2^32: z bit 2k = x bit k and z bit 2k+1 = y bit k (k = 0..31), every bit a plain copy: ToZ is injective on 32-bit pairs",
		"the shift/mask network does not interleave the bits: "+truncate(bad, 600))
	// (3) parent = key >> 2
	pbad := ""
	for j := 0; j < 62; j++ {
		got := zUnderPre[j+2]
		var want abit
		if (j/2)+1 < 32 {
			want = abit{kind: bSrc, in: uint8(j % 2), k: uint8(j/2 + 1)}
		} else {
			want = abit{kind: bZero}
		}
		if got != want {
			pbad += fmt.Sprintf("bit %d of z>>2 is %s; ", j, bitStr(got))
		}
	}
	c.Check(R, "parent-is-key-shifted-by-two/morton.ToZ", toZ.Decl.Pos(), pbad == "" && bad == "", "ToZ(x, y) >> 2 == ToZ(x >> 1, y >> 1) bit for bit", "the key of the parent pixel is not the key without its two lowest bits: "+truncate(pbad, 300))
	// (2) FromZ
	{
		bi := &bitInterp{fn: fromZ.SSA, globals: globals, atoms: map[string]bool{}, seen: map[string]bool{}, params: []bits{inputBits(0, 64)}}
		out, ok := bi.run()
		if !ok || len(out) != 2 {
			c.Bad(R, "interpretable/morton.FromZ", fromZ.Decl.Pos(), "FromZ cannot be evaluated on the bit-provenance domain: "+bi.err)
		} else {
			fbad := ""
			for k := 0; k < 64; k++ {
				wx, wy := abit{kind: bZero}, abit{kind: bZero}
				if k < 32 {
					wx = abit{kind: bSrc, in: 0, k: uint8(2 * k)}
					wy = abit{kind: bSrc, in: 0, k: uint8(2*k + 1)}
				}
				if out[0].b[k] != wx {
					fbad += fmt.Sprintf("x bit %d is %s; ", k, bitStr(out[0].b[k]))
				}
				if out[1].b[k] != wy {
					fbad += fmt.Sprintf("y bit %d is %s; ", k, bitStr(out[1].b[k]))
				}
			}
			c.Saw(R, "FromZ x map: "+out[0].b.String())
			c.Check(R, "fromz-deinterleaves/morton.FromZ", fromZ.Decl.Pos(), fbad == "",
				"for all z: x bit k = z bit 2k, y bit k = z bit 2k+1 (k = 0..31), upper halves zero; composed with ToZ's map this is the identity on 32-bit pairs",
				"FromZ does not invert the interleaving: "+truncate(fbad, 600))
		}
	}
	// MustToZ panics iff !ok and returns ToZ's z
	{
		okMust := false
		why := "shape not recognised"
		calls := findCalls(must.SSA, core.ModPath+"/morton.ToZ")
		if len(calls) == 1 {
			call := calls[0]
			if call.Call.Args[0] == ssa.Value(must.SSA.Params[0]) && call.Call.Args[1] == ssa.Value(must.SSA.Params[1]) {
				z, okv := extractOf(call, 0), extractOf(call, 1)
				if i := core.BlockIf(call.Block()); i != nil && i.Cond == okv && z != nil {
					tb, fb := call.Block().Succs[0], call.Block().Succs[1]
					_, fPanics := fb.Instrs[len(fb.Instrs)-1].(*ssa.Panic)
					ret, tRet := tb.Instrs[len(tb.Instrs)-1].(*ssa.Return)
					if fPanics && tRet && len(ret.Results) == 1 && ret.Results[0] == z {
						okMust = true
					} else {
						why = "does not panic exactly when ok is false / does not return ToZ's key"
					}
				}
			} else {
				why = "ToZ is not called with (x, y) in order"
			}
		}
		c.Check(R, "must-panics-iff-not-ok/morton.MustToZ", must.Decl.Pos(), okMust, "MustToZ(x, y) returns ToZ(x, y) and panics exactly when ok is false", "MustToZ: "+why)
	}
	// (5) callers outside morton
	nMust, nTo := 0, 0
	for _, fn := range sortedFuncs(c.P) {
		if core.ShortPkg(fn.Pkg.PkgPath) == "morton" || fn.SSA == nil {
			continue
		}
		for _, sf := range core.AllSSAFuncs(fn.SSA) {
			for _, call := range findCalls(sf, core.ModPath+"/morton.MustToZ") {
				nMust++
				c.Saw(R, "caller "+fn.Name+" uses MustToZ @"+c.P.Pos(call.Pos()))
			}
			for _, call := range findCalls(sf, core.ModPath+"/morton.ToZ") {
				nTo++
				okv := extractOf(call, 1)
				used := false
				if okv != nil {
					for _, r := range *okv.Referrers() {
						if _, isIf := r.(*ssa.If); isIf {
							used = true
						}
					}
				}
				c.Check(R, fmt.Sprintf("caller-checks-ok/%s", fn.Name), call.Pos(), used, "branches on ok", "caller of morton.ToZ ignores ok: addresses above 2^32 would alias silently")
			}
		}
	}
	c.Check(R, "callers-use-checked-encoding", token.NoPos, nMust+nTo >= 2, fmt.Sprintf("%d MustToZ and %d checked ToZ call sites outside package morton", nMust, nTo), "no caller of the encoder found outside morton")
	c.Floor(R, 8)
}

func bitStr(b abit) string {
	switch b.kind {
	case bZero:
		return "0"
	case bOne:
		return "1"
	case bTop:
		return "mixed"
	}
	return fmt.Sprintf("%c%d", 'x'+b.in, b.k)
}

func truncate(s string, n int) string {
	if len(s) > n {
		return s[:n] + "…"
	}
	return s
}

// ---------------------------------------------------------------- R42

// R42: the three addressing functions treat the corner of origin alike.
func r42CornerOfOrigin(c *core.Ctx) {
	const R = "R42"
	names := []string{"tms20.TileMatrixSet.FromNative", "tms20.TileMatrixSet.ToNative", "tms20.TileMatrixSet.MatrixBoundingBox"}
	for _, name := range names {
		f := c.Anchor(R, name)
		if f == nil {
			continue
		}
		info := f.Pkg.TypesInfo
		holder, tlArm, blArm, form := cornerArms(c, f)
		if holder == nil {
			c.Bad(R, "corner-switch/"+name, f.Decl.Pos(), form)
			continue
		}
		c.Saw(R, fmt.Sprintf("%s: %s", name, form))
		c.Check(R, "corner-arms/"+name, holder.Pos(), tlArm != nil && blArm != nil, "case analysis: bottomLeft, everything else (incl. unknown values) topLeft — "+form, "corner-of-origin case analysis differs from its siblings: "+form)
		if tlArm == nil || blArm == nil {
			continue
		}
		// sign of the y term relative to the origin ordinate, per arm, evaluated symbolically:
		// the y result must contain origin[1] with coefficient +1 (ToNative, MatrixBoundingBox) resp. the native y with
		// coefficient -1/+1 (FromNative)
		arms := evalWithCornerSwitch(c, f)
		normaliseAddressingNames(c, f, arms)
		signOK := func(arm string) (bool, string) {
			e := arms.arms[arm]
			if e == nil {
				return false, "arm not evaluable"
			}
			switch name {
			case "tms20.TileMatrixSet.FromNative":
				y := e.varNamed("y")
				// the row as handed to slippy.NewTile, whatever the locals are called
				if _, rowE := newTileArgs(c, f); rowE != nil {
					if p, ok := e.eval(rowE); ok {
						for _, r := range arms.renames {
							p = pRename(p, r[0], r[1])
						}
						y = p
					}
				}
				if y == nil {
					return false, "no y"
				}
				// coefficient sign of pt.Y(): negative for TopLeft, positive for BottomLeft
				neg, pos := false, false
				for k, co := range y {
					if strings.Contains(k, "pt.Y()") {
						if co.Sign() < 0 {
							neg = true
						} else {
							pos = true
						}
					}
				}
				if arm == "TopLeft" {
					return neg && !pos, y.String()
				}
				return pos && !neg, y.String()
			case "tms20.TileMatrixSet.ToNative":
				y := e.elem["topLeftPt[1]"]
				if y == nil {
					return false, "no topLeftPt[1]"
				}
				neg, pos := false, false
				for k, co := range y {
					if strings.Contains(k, "tile.Y") {
						if co.Sign() < 0 {
							neg = true
						} else {
							pos = true
						}
					}
				}
				if arm == "TopLeft" {
					return neg && !pos, y.String()
				}
				return pos && !neg, y.String()
			default:
				bl, tr := e.elem["bottomLeft[1]"], e.elem["topRight[1]"]
				if bl == nil || tr == nil {
					return false, "no bounding box ordinates"
				}
				d := pAdd(tr, bl, -1)
				okc := pEq(d, pSym("gridHeight"))
				origin := pSym("pointOfOriginXY[1]")
				if arm == "TopLeft" {
					return okc && pEq(tr, origin), d.String()
				}
				return okc && pEq(bl, origin), d.String()
			}
		}
		okTL, dTL := signOK("TopLeft")
		okBL, dBL := signOK("BottomLeft")
		c.Check(R, "corner-signs/"+name, holder.Pos(), okTL && okBL, "rows run downward from the origin for topLeft and upward for bottomLeft", fmt.Sprintf("y term signs do not follow the corner of origin: TopLeft %s ; BottomLeft %s", dTL, dBL))
		// origin through ToXYPoint(tms, *tm.PointOfOrigin)
		calls := core.CallsIn(info, f.Decl, "tms20.ToXYPoint")
		okXY := len(calls) == 1
		if okXY {
			okXY = len(calls[0].Args) >= 1 && strings.Contains(canon(calls[0].Args[len(calls[0].Args)-1]), "PointOfOrigin")
		}
		c.Check(R, "origin-through-toxypoint/"+name, f.Decl.Pos(), okXY, "the origin is obtained once through ToXYPoint(tms, *tm.PointOfOrigin)", "the point of origin is not normalised to x,y order through ToXYPoint")
	}
	c.Floor(R, 9)
}

// r42AxisOrderFromTable: for every built-in tile matrix set the axis order is answered by IsLatLon itself (the
// OGC CRS84 special case or the EPSG table), never by the fallback on the informative orderedAxes member.  The CRS
// reference of each embedded document is read from the source tree, split with the repository's own URI patterns,
// and IsLatLon's branch structure is followed with its string comparisons, the ParseUint outcome and the table
// lookup decided on those constants (partial evaluation of the decision, not an execution of texel).
func r42AxisOrderFromTable(c *core.Ctx) {
	const R = "R42"
	f := c.Anchor(R, "tms20.IsLatLon")
	txy := c.Anchor(R, "tms20.ToXYPoint")
	if f == nil || f.SSA == nil || txy == nil {
		return
	}
	pk := f.Pkg
	info := pk.TypesInfo
	// the table's keys and the two URI patterns, from the source
	table := map[uint64]bool{}
	tableVal := map[uint64]bool{}
	var patterns []*regexp.Regexp
	for _, file := range pk.Syntax {
		for _, d := range file.Decls {
			gd, ok := d.(*ast.GenDecl)
			if !ok || gd.Tok != token.VAR {
				continue
			}
			for _, sp := range gd.Specs {
				vs := sp.(*ast.ValueSpec)
				for i, nm := range vs.Names {
					if i >= len(vs.Values) {
						continue
					}
					switch {
					case nm.Name == "epsgAxesAreLatLon":
						if cl, ok := vs.Values[i].(*ast.CompositeLit); ok {
							for _, el := range cl.Elts {
								if kv, ok := el.(*ast.KeyValueExpr); ok {
									if k, ok := core.ConstInt(info, kv.Key); ok {
										table[uint64(k)] = true
										tableVal[uint64(k)] = canon(kv.Value) == "true"
									}
								}
							}
						}
					case nm.Name == "crsURIRegexURL" || nm.Name == "crsURIRegexURN":
						if call, ok := vs.Values[i].(*ast.CallExpr); ok && len(call.Args) == 1 {
							if pat, ok := core.ConstString(info, call.Args[0]); ok {
								if re, err := regexp.Compile(pat); err == nil {
									patterns = append(patterns, re)
								}
							}
						}
					}
				}
			}
		}
	}
	if len(table) < 100 || len(patterns) != 2 {
		c.Bad(R, "axis-order-from-table/inputs", f.Decl.Pos(), fmt.Sprintf("EPSG axis table (%d keys) or the two CRS URI patterns (%d) not found in package tms20", len(table), len(patterns)))
		return
	}
	// ToXYPoint asks IsLatLon first and falls back only on its error
	okFallback := false
	{
		calls := findCallsByName(txy.SSA, "IsLatLon")
		fb := findCallsByName(txy.SSA, "axisOrderIsLatLon")
		if len(calls) == 1 && len(fb) <= 1 {
			okFallback = true
			if len(fb) == 1 {
				errv := extractOf(calls[0], 1)
				// the fallback is unreachable when IsLatLon's error is nil
				reach, _ := core.Search{Fn: txy.SSA, From: calls[0], Target: instrIs(fb[0]), Edge: nilEdges(errv)}.Run()
				okFallback = errv != nil && !reach
			}
		}
	}
	c.Check(R, "axis-order-fallback-only-on-error/"+txy.Name, txy.Decl.Pos(), okFallback, "ToXYPoint consults orderedAxes only when IsLatLon returned an error", "ToXYPoint does not ask IsLatLon first / uses the orderedAxes fallback although IsLatLon answered")
	// the parts IsLatLon sees are capture groups 1, 2, 3 of those patterns
	{
		want := map[string]int64{"authority": 1, "version": 2, "code": 3}
		seen := map[string]bool{}
		okParts := true
		for _, file := range pk.Syntax {
			ast.Inspect(file, func(n ast.Node) bool {
				as, ok := n.(*ast.AssignStmt)
				if !ok || len(as.Lhs) != 1 || len(as.Rhs) != 1 {
					return true
				}
				sel, ok := as.Lhs[0].(*ast.SelectorExpr)
				if !ok {
					return true
				}
				w, isPart := want[sel.Sel.Name]
				if !isPart || core.TypeShort(info.TypeOf(sel.X)) != "tms20.URICRS" {
					return true
				}
				ix, ok := ast.Unparen(as.Rhs[0]).(*ast.IndexExpr)
				if !ok {
					okParts = false
					return true
				}
				if k, isK := core.ConstInt(info, ix.Index); !isK || k != w {
					okParts = false
				}
				seen[sel.Sel.Name] = true
				return true
			})
		}
		c.Check(R, "crs-parts-are-the-capture-groups/tms20.URICRS", f.Decl.Pos(), okParts && len(seen) == 3, "authority, version, code = capture groups 1, 2, 3 of the URI patterns", "URICRS no longer takes authority/version/code from capture groups 1/2/3 of the URI patterns: the rule cannot tell what IsLatLon sees")
	}
	dir := filepath.Join(c.P.RepoDir, "tms20", "tilematrixsets")
	files, _ := filepath.Glob(filepath.Join(dir, "*.json"))
	sort.Strings(files)
	n := 0
	for _, path := range files {
		raw, err := os.ReadFile(path)
		if err != nil {
			continue
		}
		var doc struct {
			CRS         interface{} `json:"crs"`
			OrderedAxes []string    `json:"orderedAxes"`
		}
		if json.Unmarshal(raw, &doc) != nil {
			continue
		}
		uri, _ := doc.CRS.(string)
		if m, ok := doc.CRS.(map[string]interface{}); ok {
			uri, _ = m["uri"].(string)
		}
		name := strings.TrimSuffix(filepath.Base(path), ".json")
		construct := "axis-order-from-table/" + name
		n++
		if uri == "" {
			c.Unknown(R, construct, f.Decl.Pos(), "the built-in set does not reference its CRS by URI; the rule cannot tell how its axis order is resolved")
			continue
		}
		var parts []string
		for _, re := range patterns {
			if parts = re.FindStringSubmatch(uri); parts != nil {
				break
			}
		}
		if len(parts) != 4 {
			c.Bad(R, construct, f.Decl.Pos(), "the CRS URI "+uri+" matches neither URI pattern of tms20")
			continue
		}
		vals := map[string]string{"Authority": parts[1], "Version": parts[2], "Code": parts[3]}
		out, why := evalIsLatLon(f.SSA, vals, table)
		c.Check(R, construct, f.Decl.Pos(), out == "table" || out == "const", fmt.Sprintf("%s (%s:%s:%s): answered by IsLatLon (%s)", uri, parts[1], parts[2], parts[3], out),
			fmt.Sprintf("for the built-in set %s (crs %s) IsLatLon %s: the axis order then comes from the informative orderedAxes fallback instead of the EPSG table", name, uri, why))
		// contradiction rule: the table's answer and the document's own (informative) orderedAxes say the same; if
		// they differ, one of the two is wrong and the set's origin is read transposed
		if len(doc.OrderedAxes) == 2 && (out == "table" || out == "const") {
			first := strings.ToLower(doc.OrderedAxes[0])
			north := map[string]bool{"lat": true, "latitude": true, "n": true, "northing": true, "y": true}
			east := map[string]bool{"lon": true, "long": true, "longitude": true, "e": true, "easting": true, "x": true}
			if north[first] || east[first] {
				answer := false
				if out == "table" {
					if num, err := strconv.ParseUint(parts[3], 10, 64); err == nil {
						answer = tableVal[num]
					}
				}
				c.Check(R, "axis-order-agrees-with-document/"+name, f.Decl.Pos(), answer == north[first],
					fmt.Sprintf("IsLatLon = %v, orderedAxes = %v", answer, doc.OrderedAxes),
					fmt.Sprintf("for the built-in set %s the axis table says lat/lon-first = %v but the document lists its axes as %v: the point of origin is read transposed", name, answer, doc.OrderedAxes))
			}
		}
	}
	c.Check(R, "axis-order-from-table/sets-found", f.Decl.Pos(), n >= 10, fmt.Sprintf("%d embedded tile matrix sets", n), fmt.Sprintf("only %d embedded tile matrix set documents found under tms20/tilematrixsets", n))
}

// evalIsLatLon follows IsLatLon for one (authority, version, code).  Returns "table" / "const" when it returns a nil
// error (value from the table lookup / a constant), else "" with the reason.
func evalIsLatLon(fn *ssa.Function, vals map[string]string, table map[uint64]bool) (string, string) {
	if len(fn.Params) != 1 {
		return "", "has an unexpected signature"
	}
	return evalAxisOrderFn(fn, map[ssa.Value]string{}, fn.Params[0], vals, table, 0)
}

// evalAxisOrderFn follows fn with string parameters bound to known values (bind) and, in the entry function, the
// CRS parameter's Authority()/Version()/Code() bound to vals.  A result pair taken from a module helper is
// followed into that helper.
func evalAxisOrderFn(fn *ssa.Function, bind map[ssa.Value]string, crs ssa.Value, vals map[string]string, table map[uint64]bool, depth int) (string, string) {
	if depth > 3 {
		return "", "nests helpers too deeply"
	}
	var curFrame *boolFrame
	var strOf func(v ssa.Value) (string, bool)
	strOf = func(v ssa.Value) (string, bool) {
		if curFrame != nil {
			v = curFrame.callerValue(resolveValue(v))
		}
		if s, ok := bind[v]; ok {
			return s, true
		}
		switch x := v.(type) {
		case *ssa.Const:
			if x.Value != nil && x.Value.Kind() == constant.String {
				return constant.StringVal(x.Value), true
			}
		case *ssa.Call:
			if x.Call.IsInvoke() && crs != nil && x.Call.Value == crs {
				s, ok := vals[x.Call.Method.Name()]
				return s, ok
			}
			switch core.StaticCalleeID(x) {
			case "strings.ToLower":
				s, ok := strOf(x.Call.Args[0])
				return strings.ToLower(s), ok
			case "strings.ToUpper":
				s, ok := strOf(x.Call.Args[0])
				return strings.ToUpper(s), ok
			}
		}
		return "", false
	}
	atom := func(fr *boolFrame, v ssa.Value) (string, bool, bool) {
		curFrame = fr
		switch x := v.(type) {
		case *ssa.BinOp:
			if x.Op == token.EQL || x.Op == token.NEQ {
				l, lok := strOf(x.X)
				r, rok := strOf(x.Y)
				if lok && rok {
					return "TRUE", (l == r) != (x.Op == token.EQL), true
				}
				// err != nil after ParseUint(<known string>)
				if ex, ok := x.X.(*ssa.Extract); ok && ex.Index == 1 {
					if call, ok := ex.Tuple.(*ssa.Call); ok && core.StaticCalleeID(call) == "strconv.ParseUint" {
						if k, isK := x.Y.(*ssa.Const); isK && k.IsNil() {
							if s, ok := strOf(call.Call.Args[0]); ok {
								_, perr := strconv.ParseUint(s, 10, 64)
								return "TRUE", (perr == nil) == (x.Op == token.NEQ), true
							}
						}
					}
				}
			}
		case *ssa.Extract:
			// known := table[uint(<parsed known string>)]
			if lk, ok := x.Tuple.(*ssa.Lookup); ok && lk.CommaOk && x.Index == 1 {
				if g, ok := lk.X.(*ssa.UnOp); ok {
					if gl, ok := g.X.(*ssa.Global); ok && gl.Name() == "epsgAxesAreLatLon" {
						key := lk.Index
						if cv, ok := key.(*ssa.Convert); ok {
							key = cv.X
						}
						if ex, ok := key.(*ssa.Extract); ok && ex.Index == 0 {
							if call, ok := ex.Tuple.(*ssa.Call); ok && core.StaticCalleeID(call) == "strconv.ParseUint" {
								if s, ok := strOf(call.Call.Args[0]); ok {
									if num, perr := strconv.ParseUint(s, 10, 64); perr == nil {
										return "TRUE", !table[num], true
									}
								}
							}
						}
					}
				}
			}
		}
		return "", false, false
	}
	bi := &boolInterp{roleOf: func(*boolFrame, ssa.Value) string { return "" }, atom: atom, assign: map[string]bool{"TRUE": true}, used: map[string]bool{}}
	fr := &boolFrame{fn: fn, roles: map[ssa.Value]string{}, env: map[ssa.Value]bool{}}
	out, err := bi.run(fr, fn.Blocks[0], nil, 0)
	if err != nil {
		return "", "cannot be followed: " + err.Error()
	}
	if out.kind != "return" || out.ret == nil || len(out.ret.Results) != 2 {
		return "", "does not return"
	}
	// the pair handed on from a module helper
	if e0, ok := out.ret.Results[0].(*ssa.Extract); ok {
		if e1, ok := out.ret.Results[1].(*ssa.Extract); ok && e0.Tuple == e1.Tuple && e0.Index == 0 && e1.Index == 1 {
			if call, ok := e0.Tuple.(*ssa.Call); ok {
				if g := call.Call.StaticCallee(); g != nil && len(g.Blocks) > 0 && core.IsModPath(core.FuncPkgPath(g)) {
					sub := map[ssa.Value]string{}
					var subCRS ssa.Value
					for i, a := range call.Call.Args {
						if i >= len(g.Params) {
							break
						}
						if s, ok := strOf(a); ok {
							sub[g.Params[i]] = s
						}
						if crs != nil && a == crs {
							subCRS = g.Params[i]
						}
					}
					return evalAxisOrderFn(g, sub, subCRS, vals, table, depth+1)
				}
			}
		}
	}
	if k, ok := out.ret.Results[1].(*ssa.Const); !ok || !k.IsNil() {
		return "", "returns an error (" + out.ret.Results[1].String() + ")"
	}
	if _, isK := out.ret.Results[0].(*ssa.Const); isK {
		return "const", ""
	}
	return "table", ""
}

// nilEdges: follow only the edges on which errVal == nil.
func nilEdges(errVal ssa.Value) func(b *ssa.BasicBlock, k int) bool {
	return func(b *ssa.BasicBlock, k int) bool {
		i := core.BlockIf(b)
		if i == nil || errVal == nil {
			return true
		}
		cmp, ok := i.Cond.(*ssa.BinOp)
		if !ok || cmp.X != errVal {
			return true
		}
		if kk, isK := cmp.Y.(*ssa.Const); !isK || !kk.IsNil() {
			return true
		}
		switch cmp.Op {
		case token.NEQ:
			return k == 1
		case token.EQL:
			return k == 0
		}
		return true
	}
}
