// Package rules holds the repository-specific rules R01..R42 and the mapping
// from the given properties C01..C18 to the rules deciding their structural
// clauses.
package rules

import (
	"texelverif/internal/core"
)

type PropSpec struct {
	Level       string
	Rules       []string
	Explanation string
	Decided     []string
	NotDecided  []string
	Assumptions []string
	Trusted     []string
}

// Registry maps a rule id to its implementation.
var Registry = map[string]func(*core.Ctx){}

// reg registers a rule function; a rule registered twice runs both parts in order of registration.
func reg(id string, f func(*core.Ctx)) {
	if prev := Registry[id]; prev != nil {
		Registry[id] = func(c *core.Ctx) { prev(c); f(c) }
		return
	}
	Registry[id] = f
}

var commonTrusted = []string{
	"go/packages + go/types (type-checked syntax of /repo's working tree, default build configuration linux/amd64 cgo)",
	"golang.org/x/tools v0.29.0 go/ssa translation and VTA/CHA call graphs",
	"the rule implementations in /verif/checker/internal/rules",
}

var commonAssumptions = []string{
	"reflection-driven calls inside third-party decoders/validators are invisible to the call graph and trusted",
	"rules are keyed to named program constructs of texel; an unresolved anchor fails the check (reason=anchor-unresolved) rather than passing vacuously",
}

// Fill appends the assumptions and trusted base common to all checks.
func (s *PropSpec) Fill() {
	s.Assumptions = append(append([]string{}, s.Assumptions...), commonAssumptions...)
	s.Trusted = append(append([]string{}, s.Trusted...), commonTrusted...)
	if s.Decided == nil {
		s.Decided = []string{}
	}
	if s.NotDecided == nil {
		s.NotDecided = []string{}
	}
}

// Props is filled in by the init functions of the rule files (props_table.go).
var Props = map[string]*PropSpec{}

// ThoroughCrossCheck re-evaluates call-graph based rules with the CHA graph
// (a superset of VTA) and reports obligations whose verdict differs.
func ThoroughCrossCheck(ctx *core.Ctx, spec *PropSpec) {
	for _, r := range spec.Rules {
		if f, ok := chaVariants[r]; ok {
			ctx.Run(r+"-cha", f)
		}
	}
}

var chaVariants = map[string]func(*core.Ctx){}
