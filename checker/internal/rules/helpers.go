package rules

import (
	"go/ast"
	"go/printer"
	"go/token"
	"go/types"
	"strings"

	"texelverif/internal/core"
)

// pureAccessor reports a module function whose body is a single `return e`
// where e contains no call: X(), MinX(), MaxY() … Such calls can be compared
// textually.
func pureAccessor(p *core.Prog, f *types.Func) bool {
	fn := p.ByObj[f.Origin()]
	if fn == nil || fn.Decl.Body == nil || len(fn.Decl.Body.List) != 1 {
		return false
	}
	ret, ok := fn.Decl.Body.List[0].(*ast.ReturnStmt)
	if !ok {
		return false
	}
	pure := true
	for _, r := range ret.Results {
		ast.Inspect(r, func(n ast.Node) bool {
			if _, ok := n.(*ast.CallExpr); ok {
				pure = false
			}
			return pure
		})
	}
	return pure
}

// pureExpr reports that e consists of identifiers, selectors, literals,
// arithmetic and calls to pure accessors only.
func pureExpr(p *core.Prog, info *types.Info, e ast.Expr) bool {
	ok := true
	ast.Inspect(e, func(n ast.Node) bool {
		switch x := n.(type) {
		case *ast.CallExpr:
			if tv, isType := info.Types[x.Fun]; isType && tv.IsType() {
				return true // conversion
			}
			f := core.Callee(info, x)
			if f == nil || !pureAccessor(p, f) {
				ok = false
			}
		case *ast.FuncLit, *ast.UnaryExpr:
			if u, isU := x.(*ast.UnaryExpr); isU && (u.Op == token.SUB || u.Op == token.ADD || u.Op == token.NOT) {
				return true
			}
			ok = false
		}
		return ok
	})
	return ok
}

// canon renders an expression without parentheses noise.
func canon(e ast.Expr) string {
	return strings.ReplaceAll(core.ExprStr(ast.Unparen(e)), " ", "")
}

// canonNode renders any syntax node without white space.
func canonNode(p *core.Prog, n ast.Node) string {
	var sb strings.Builder
	_ = printer.Fprint(&sb, p.Fset, n)
	r := strings.NewReplacer(" ", "", "\n", "", "\t", "")
	return r.Replace(sb.String())
}

// disjuncts splits a || b || c.
func disjuncts(e ast.Expr) []ast.Expr {
	e = ast.Unparen(e)
	if b, ok := e.(*ast.BinaryExpr); ok && b.Op == token.LOR {
		return append(disjuncts(b.X), disjuncts(b.Y)...)
	}
	return []ast.Expr{e}
}

func conjuncts(e ast.Expr) []ast.Expr {
	e = ast.Unparen(e)
	if b, ok := e.(*ast.BinaryExpr); ok && b.Op == token.LAND {
		return append(conjuncts(b.X), conjuncts(b.Y)...)
	}
	return []ast.Expr{e}
}

// terminates reports that a block always leaves the enclosing function
// (return, panic, log.Fatal*, os.Exit or a module function that never returns).
func terminates(p *core.Prog, info *types.Info, b *ast.BlockStmt) bool {
	if b == nil || len(b.List) == 0 {
		return false
	}
	return stmtTerminates(p, info, b.List[len(b.List)-1])
}

func stmtTerminates(p *core.Prog, info *types.Info, s ast.Stmt) bool {
	switch x := s.(type) {
	case *ast.ReturnStmt:
		return true
	case *ast.ExprStmt:
		if c, ok := x.X.(*ast.CallExpr); ok {
			return noReturnAST(p, info, c)
		}
	case *ast.BlockStmt:
		return terminates(p, info, x)
	case *ast.IfStmt:
		if x.Else == nil {
			return false
		}
		return terminates(p, info, x.Body) && stmtTerminates(p, info, x.Else)
	}
	return false
}

var noReturnAST_ids = map[string]bool{
	"log.Fatal": true, "log.Fatalf": true, "log.Fatalln": true, "os.Exit": true,
	"log.Panic": true, "log.Panicf": true, "log.Panicln": true,
}

func noReturnAST(p *core.Prog, info *types.Info, c *ast.CallExpr) bool {
	if core.IsBuiltinCall(info, c, "panic") {
		return true
	}
	f := core.Callee(info, c)
	if f == nil {
		return false
	}
	if noReturnAST_ids[core.FuncID(f)] {
		return true
	}
	if fn := p.ByObj[f.Origin()]; fn != nil && fn.SSA != nil && len(fn.SSA.Blocks) > 0 {
		for _, b := range fn.SSA.Blocks {
			for _, in := range b.Instrs {
				if core.IsReturn(in) {
					return false
				}
			}
		}
		return true
	}
	return false
}

// pathTo returns the chain of nodes from root down to target (inclusive).
func pathTo(root ast.Node, target ast.Node) []ast.Node {
	var path, found []ast.Node
	ast.Inspect(root, func(n ast.Node) bool {
		if found != nil {
			return false
		}
		if n == nil {
			path = path[:len(path)-1]
			return false
		}
		path = append(path, n)
		if n == target {
			found = append([]ast.Node(nil), path...)
			return false
		}
		return true
	})
	return found
}

// precedingGuards lists, innermost last, the if-statements that lexically
// precede target in one of its enclosing statement lists and whose body
// terminates: when control reaches target their condition was false.
// It also returns enclosing if-conditions with the branch taken.
type guard struct {
	Cond   ast.Expr
	IsTrue bool // target is only reached when Cond is true (enclosing then-branch); false = Cond known false
	Stmt   *ast.IfStmt
}

func guardsBefore(p *core.Prog, info *types.Info, body *ast.BlockStmt, target ast.Node) []guard {
	var gs []guard
	path := pathTo(body, target)
	for i, n := range path {
		var list []ast.Stmt
		switch b := n.(type) {
		case *ast.BlockStmt:
			list = b.List
		case *ast.CaseClause:
			list = b.Body
		case *ast.CommClause:
			list = b.Body
		case *ast.IfStmt:
			if i+1 < len(path) {
				if path[i+1] == b.Body {
					gs = append(gs, guard{b.Cond, true, b})
				} else if b.Else != nil && path[i+1] == b.Else {
					gs = append(gs, guard{b.Cond, false, b})
				}
			}
			continue
		default:
			continue
		}
		if i+1 >= len(path) {
			continue
		}
		next := path[i+1]
		for _, s := range list {
			if s == next {
				break
			}
			if is, ok := s.(*ast.IfStmt); ok && is.Else == nil && terminates(p, info, is.Body) {
				gs = append(gs, guard{is.Cond, false, is})
			}
		}
	}
	return gs
}

// assignedCount counts assignments (incl. definition) to obj within body.
func assignedCount(info *types.Info, body ast.Node, obj types.Object) int {
	n := 0
	ast.Inspect(body, func(x ast.Node) bool {
		switch s := x.(type) {
		case *ast.AssignStmt:
			for _, l := range s.Lhs {
				if core.ObjOf(info, l) == obj {
					n++
				}
			}
		case *ast.IncDecStmt:
			if core.ObjOf(info, s.X) == obj {
				n++
			}
		case *ast.RangeStmt:
			if s.Key != nil && core.ObjOf(info, s.Key) == obj {
				n++
			}
			if s.Value != nil && core.ObjOf(info, s.Value) == obj {
				n++
			}
		case *ast.ValueSpec:
			for _, nm := range s.Names {
				if info.Defs[nm] == obj {
					n++
				}
			}
		case *ast.UnaryExpr:
			if s.Op == token.AND && core.ObjOf(info, s.X) == obj {
				n += 2 // address taken: treat as possibly reassigned
			}
		}
		return true
	})
	return n
}

// rootObjs collects the variables mentioned in e.
func rootObjs(info *types.Info, e ast.Expr) []types.Object {
	var out []types.Object
	ast.Inspect(e, func(n ast.Node) bool {
		if id, ok := n.(*ast.Ident); ok {
			if v, ok := info.Uses[id].(*types.Var); ok && !v.IsField() {
				out = append(out, v)
			}
		}
		return true
	})
	return out
}

// enclosingFuncBody returns the body of fn.
func bodyOf(f *core.Func) *ast.BlockStmt { return f.Decl.Body }

// stmtsOf flattens nothing: returns top-level list.
func indexOfStmt(list []ast.Stmt, target ast.Node) int {
	for i, s := range list {
		if s.Pos() <= target.Pos() && target.End() <= s.End() {
			return i
		}
	}
	return -1
}
