package rules

import (
	"fmt"
	"go/ast"
	"go/token"
	"go/types"
	"sort"
	"strings"

	"golang.org/x/tools/go/ssa"

	"texelverif/internal/core"
)

func init() {
	reg("R15", func(c *core.Ctx) { r15MapOrder(c, "R15", "snap.SnapPolygon", 9) })
	reg("R15p", func(c *core.Ctx) { r15MapOrder(c, "R15p", "processing.ProcessFeatures", 6) })
	reg("R15j", func(c *core.Ctx) {
		r15MapOrder(c, "R15j", "tms20.TileMatrixSet.MarshalJSON", 1)
		r15IdentityFields(c, "R15j")
	})
	reg("R16", r16NoNondeterminism)
}

// ---------------------------------------------------------------- loops

type loopInfo struct {
	fn      *ssa.Function
	kind    string // "map" | "slice"
	header  *ssa.BasicBlock
	body0   *ssa.BasicBlock
	blocks  map[*ssa.BasicBlock]bool
	rangeX  ssa.Value
	next    *ssa.Next  // map loops
	index   *ssa.BinOp // slice loops: idx = phi + 1
	iter    *ssa.Phi   // slice loops: the loop-carried counter
	elemIdx ssa.Value  // slice loops: the value that indexes the slice in the body (idx, or the counter itself)
	key     ssa.Value
	val     ssa.Value
	pos     token.Pos
	okIndex int
}

func (l *loopInfo) inLoop(v ssa.Value) bool {
	in, ok := v.(ssa.Instruction)
	if !ok {
		return false
	}
	b := in.Block()
	return b != nil && in.Parent() == l.fn && (l.blocks[b] || b == l.header)
}

func mapLoopOf(rg *ssa.Range) *loopInfo {
	var nx *ssa.Next
	for _, r := range *rg.Referrers() {
		if n, ok := r.(*ssa.Next); ok {
			nx = n
		}
	}
	if nx == nil {
		return nil
	}
	h := nx.Block()
	i := core.BlockIf(h)
	if i == nil {
		return nil
	}
	l := &loopInfo{fn: rg.Parent(), kind: "map", header: h, body0: h.Succs[0], rangeX: rg.X, next: nx, pos: rg.Pos(), blocks: map[*ssa.BasicBlock]bool{}}
	for _, r := range *nx.Referrers() {
		if e, ok := r.(*ssa.Extract); ok {
			switch e.Index {
			case 1:
				l.key = e
			case 2:
				l.val = e
			}
		}
	}
	for _, b := range l.fn.Blocks {
		if l.body0.Dominates(b) {
			l.blocks[b] = true
		}
	}
	return l
}

// sliceLoopOf: idx is the `phi + 1` of a range-over-slice loop.
func sliceLoopOf(idx *ssa.BinOp, x ssa.Value) *loopInfo {
	if idx.Op != token.ADD {
		return nil
	}
	if _, ok := idx.X.(*ssa.Phi); !ok {
		return nil
	}
	h := idx.Block()
	i := core.BlockIf(h)
	if i == nil {
		return nil
	}
	cmp, ok := i.Cond.(*ssa.BinOp)
	if !ok || cmp.X != ssa.Value(idx) || cmp.Op != token.LSS {
		return nil
	}
	l := &loopInfo{fn: idx.Parent(), kind: "slice", header: h, body0: h.Succs[0], rangeX: x, index: idx, key: idx, pos: idx.Pos(), blocks: map[*ssa.BasicBlock]bool{}}
	l.iter, _ = idx.X.(*ssa.Phi)
	l.elemIdx = idx
	for _, b := range l.fn.Blocks {
		if l.body0.Dominates(b) {
			l.blocks[b] = true
		}
	}
	return l
}

// sliceLoopOfCounter recognises the hand-written form of the same loop: for i := 0; i < len(x); i++ { … x[i] … }.
func sliceLoopOfCounter(p *ssa.Phi, x ssa.Value) *loopInfo {
	if len(p.Edges) != 2 {
		return nil
	}
	var step *ssa.BinOp
	zero := false
	for _, e := range p.Edges {
		switch v := e.(type) {
		case *ssa.Const:
			zero = v.Value != nil && v.Int64() == 0
		case *ssa.BinOp:
			if v.Op == token.ADD && v.X == ssa.Value(p) {
				if k, ok := v.Y.(*ssa.Const); ok && k.Value != nil && k.Int64() == 1 {
					step = v
				}
			}
		}
	}
	h := p.Block()
	i := core.BlockIf(h)
	if !zero || step == nil || i == nil {
		return nil
	}
	cmp, ok := i.Cond.(*ssa.BinOp)
	if !ok || cmp.Op != token.LSS || cmp.X != ssa.Value(p) {
		return nil
	}
	lc, ok := cmp.Y.(*ssa.Call)
	if !ok {
		return nil
	}
	if b, isB := lc.Call.Value.(*ssa.Builtin); !isB || b.Name() != "len" || lc.Call.Args[0] != x {
		return nil
	}
	l := &loopInfo{fn: p.Parent(), kind: "slice", header: h, body0: h.Succs[0], rangeX: x, index: step, iter: p, elemIdx: p, key: p, pos: p.Pos(), blocks: map[*ssa.BasicBlock]bool{}}
	for _, b := range l.fn.Blocks {
		if l.body0.Dominates(b) {
			l.blocks[b] = true
		}
	}
	return l
}

// ---------------------------------------------------------------- R15 checker

type orderChecker struct {
	c        *core.Ctx
	R        string
	ea       *effAnalysis
	done     map[string]bool          // loops already checked (by position)
	paramOK  map[*ssa.Parameter]*bool // memo for set-like parameters
	reasons  []string
	loopsN   int
	prodN    int
	injCache map[ssa.Value]bool
	callers  func(*ssa.Function) []ssa.CallInstruction
}

type slotClass int

const (
	scFresh slotClass = iota
	scPerKey
	scShared
)

// derived: how v depends on the iteration key.
//
//	0 = not derived from the key only, 1 = function of key (+invariants), 2 = injective function of key
func (oc *orderChecker) derived(l *loopInfo, v ssa.Value, depth int) int {
	if depth > 12 {
		return 0
	}
	if v == l.key {
		return 2
	}
	if l.kind == "slice" {
		// element of the ranged slice: treated like the key (duplicates give identical key and value)
		if u, ok := v.(*ssa.UnOp); ok && u.Op == token.MUL {
			if ia, ok := u.X.(*ssa.IndexAddr); ok && ia.X == l.rangeX && ia.Index == l.elemIdx {
				return 2
			}
		}
	}
	if !l.inLoop(v) {
		if _, isConst := v.(*ssa.Const); isConst {
			return 1
		}
		return 1 // loop invariant value: constant w.r.t. the iteration
	}
	switch x := v.(type) {
	case *ssa.Convert:
		d := oc.derived(l, x.X, depth+1)
		if d == 2 {
			if bt, ok := x.Type().Underlying().(*types.Basic); ok && bt.Info()&types.IsInteger != 0 {
				return 2
			}
			return 1
		}
		return d
	case *ssa.ChangeType:
		return oc.derived(l, x.X, depth+1)
	case *ssa.BinOp:
		a, b := oc.derived(l, x.X, depth+1), oc.derived(l, x.Y, depth+1)
		if a == 0 || b == 0 {
			return 0
		}
		if (x.Op == token.ADD || x.Op == token.SUB || x.Op == token.XOR) && ((a == 2 && !l.inLoop(x.Y)) || (b == 2 && !l.inLoop(x.X))) {
			return 2
		}
		return 1
	case *ssa.UnOp:
		if x.Op == token.MUL {
			return 0 // memory read: may be per-iteration state
		}
		return min(oc.derived(l, x.X, depth+1), 1)
	case *ssa.Lookup:
		if l.inLoop(x.X) {
			return 0
		}
		d := oc.derived(l, x.Index, depth+1)
		if d == 2 && oc.injectiveMap(x.X) {
			return 2
		}
		if d > 0 && oc.writtenInLoop(l, x.X) {
			return 0
		}
		return min(d, 1)
	case *ssa.Field:
		return min(oc.derived(l, x.X, depth+1), 1)
	case *ssa.Index:
		return min(min(oc.derived(l, x.X, depth+1), oc.derived(l, x.Index, depth+1)), 1)
	case *ssa.Extract:
		return min(oc.derived(l, x.Tuple, depth+1), 1)
	case *ssa.Call:
		if _, isB := x.Call.Value.(*ssa.Builtin); isB {
			return 0
		}
		for _, cal := range oc.ea.idx.CalleesAt(x) {
			if !analysable(cal) {
				if classifyExternal(core.FuncID(funcObj(cal)), core.FuncPkgPath(cal)) != extPure {
					return 0
				}
				continue
			}
			s := oc.ea.summary(cal)
			if len(s.writes)+len(s.globals)+len(s.unknown)+len(s.comm)+len(s.fvWrites) > 0 {
				return 0
			}
		}
		if len(oc.ea.idx.CalleesAt(x)) == 0 {
			return 0
		}
		for _, a := range x.Call.Args {
			if oc.derived(l, a, depth+1) == 0 {
				return 0
			}
		}
		return 1
	}
	return 0
}

func funcObj(f *ssa.Function) *types.Func {
	o, _ := f.Object().(*types.Func)
	return o
}

// writtenInLoop: the container value is updated by the loop itself.
func (oc *orderChecker) writtenInLoop(l *loopInfo, m ssa.Value) bool {
	for b := range l.blocks {
		for _, in := range b.Instrs {
			if mu, ok := in.(*ssa.MapUpdate); ok && mu.Map == m {
				return true
			}
		}
	}
	return false
}

// injectiveMap: the map value is the result of a module function that builds
// it only by `m[g(x)] = x` with g a pure function of x: two different keys
// then hold two different values.
func (oc *orderChecker) injectiveMap(m ssa.Value) bool {
	if v, ok := oc.injCache[m]; ok {
		return v
	}
	res := false
	if call, ok := m.(*ssa.Call); ok {
		if cal := call.Call.StaticCallee(); cal != nil && analysable(cal) {
			res = true
			n := 0
			var made ssa.Value
			for _, b := range cal.Blocks {
				for _, in := range b.Instrs {
					switch x := in.(type) {
					case *ssa.MakeMap:
						if made != nil {
							res = false
						}
						made = x
					case *ssa.MapUpdate:
						n++
						if x.Map != made {
							res = false
						}
						// key must be a pure function of the stored value
						if !pureFunctionOf(x.Key, x.Value, 0) {
							res = false
						}
					case *ssa.Return:
						if len(x.Results) != 1 || x.Results[0] != made {
							res = false
						}
					}
				}
			}
			if n == 0 {
				res = false
			}
		}
	}
	oc.injCache[m] = res
	return res
}

// sameElementLoad: a and b are two loads of the same element s[i] (same slice value, same index value): without
// common subexpression elimination `m[f(s[i])] = s[i]` reads the element twice.
func sameElementLoad(a, b ssa.Value) bool {
	la, ok1 := a.(*ssa.UnOp)
	lb, ok2 := b.(*ssa.UnOp)
	if !ok1 || !ok2 || la.Op != token.MUL || lb.Op != token.MUL {
		return false
	}
	ia, ok1 := la.X.(*ssa.IndexAddr)
	ib, ok2 := lb.X.(*ssa.IndexAddr)
	if !ok1 || !ok2 || ia.X != ib.X || ia.Index != ib.Index {
		return false
	}
	// the slice is a parameter that the function only reads
	prm, ok := ia.X.(*ssa.Parameter)
	if !ok {
		return false
	}
	for _, r := range *prm.Referrers() {
		if x, ok := r.(*ssa.IndexAddr); ok {
			for _, rr := range *x.Referrers() {
				if st, ok := rr.(*ssa.Store); ok && st.Addr == ssa.Value(x) {
					return false
				}
			}
		}
	}
	return true
}

// pureFunctionOf: k is computed from v, constants and values that do not
// change while the builder loop runs (defined outside any loop: approximated
// by "not a phi and not a memory read").
func pureFunctionOf(k, v ssa.Value, depth int) bool {
	if depth > 8 {
		return false
	}
	if k == v || sameElementLoad(k, v) {
		return true
	}
	switch x := k.(type) {
	case *ssa.Const, *ssa.Parameter:
		return true
	case *ssa.Convert:
		return pureFunctionOf(x.X, v, depth+1)
	case *ssa.ChangeType:
		return pureFunctionOf(x.X, v, depth+1)
	case *ssa.BinOp:
		return pureFunctionOf(x.X, v, depth+1) && pureFunctionOf(x.Y, v, depth+1)
	case *ssa.Call:
		// values computed once before the loop (e.g. levelDiff from math.Log2): allowed if they do not depend on memory
		for _, a := range x.Call.Args {
			if !pureFunctionOf(a, v, depth+1) {
				return false
			}
		}
		id := core.StaticCalleeID(x)
		return strings.HasPrefix(id, "math.") || strings.HasPrefix(id, "builtin.")
	case *ssa.Field:
		return pureFunctionOf(x.X, v, depth+1)
	case *ssa.Lookup, *ssa.UnOp, *ssa.FieldAddr, *ssa.IndexAddr:
		// read of the (parameter) tile matrix set etc.: invariant as long as it is a parameter's data
		return rootsAreParams(k, 0)
	}
	return false
}

func rootsAreParams(v ssa.Value, depth int) bool {
	if depth > 8 {
		return false
	}
	switch x := v.(type) {
	case *ssa.Parameter, *ssa.Const:
		return true
	case *ssa.Lookup:
		return rootsAreParams(x.X, depth+1) && rootsAreParams(x.Index, depth+1)
	case *ssa.UnOp:
		return rootsAreParams(x.X, depth+1)
	case *ssa.FieldAddr:
		return rootsAreParams(x.X, depth+1)
	case *ssa.Field:
		return rootsAreParams(x.X, depth+1)
	case *ssa.IndexAddr:
		return rootsAreParams(x.X, depth+1) && rootsAreParams(x.Index, depth+1)
	case *ssa.Alloc:
		// spilled parameter copy
		for _, r := range *x.Referrers() {
			if st, ok := r.(*ssa.Store); ok && st.Addr == ssa.Value(x) {
				if !rootsAreParams(st.Val, depth+1) {
					return false
				}
			}
		}
		return true
	}
	return false
}

// class of the memory a value/address belongs to, relative to loop l.
func (oc *orderChecker) class(l *loopInfo, v ssa.Value, seen map[ssa.Value]bool) slotClass {
	if v == nil || seen[v] {
		return scFresh
	}
	seen[v] = true
	if v == l.val {
		return scPerKey
	}
	if _, isConst := v.(*ssa.Const); isConst {
		return scFresh
	}
	if !l.inLoop(v) {
		return scShared
	}
	worst := func(vs ...ssa.Value) slotClass {
		w := scFresh
		for _, x := range vs {
			if c := oc.class(l, x, seen); c > w {
				w = c
			}
		}
		return w
	}
	indexed := func(base, idx ssa.Value) slotClass {
		cb := oc.class(l, base, seen)
		if cb == scShared {
			if oc.derived(l, idx, 0) == 2 {
				return scPerKey
			}
			return scShared
		}
		return cb
	}
	switch x := v.(type) {
	case *ssa.Alloc, *ssa.MakeMap, *ssa.MakeSlice, *ssa.MakeChan, *ssa.MakeClosure:
		return scFresh
	case *ssa.Lookup:
		return indexed(x.X, x.Index)
	case *ssa.IndexAddr:
		return indexed(x.X, x.Index)
	case *ssa.Index:
		return indexed(x.X, x.Index)
	case *ssa.FieldAddr:
		return oc.class(l, x.X, seen)
	case *ssa.Field:
		return oc.class(l, x.X, seen)
	case *ssa.UnOp:
		if x.Op == token.MUL {
			// load of a field of shared memory: e.g. ix.hitOnce — still shared
			return oc.class(l, x.X, seen)
		}
		return scFresh
	case *ssa.Slice:
		return oc.class(l, x.X, seen)
	case *ssa.ChangeType:
		return oc.class(l, x.X, seen)
	case *ssa.Convert:
		return oc.class(l, x.X, seen)
	case *ssa.ChangeInterface:
		return oc.class(l, x.X, seen)
	case *ssa.MakeInterface:
		return oc.class(l, x.X, seen)
	case *ssa.TypeAssert:
		return oc.class(l, x.X, seen)
	case *ssa.Extract:
		return oc.class(l, x.Tuple, seen)
	case *ssa.Phi:
		return worst(x.Edges...)
	case *ssa.Next:
		if rg, ok := x.Iter.(*ssa.Range); ok {
			return oc.class(l, rg.X, seen)
		}
	case *ssa.Range:
		return oc.class(l, x.X, seen)
	case *ssa.BinOp:
		return scFresh
	case *ssa.Call:
		if b, ok := x.Call.Value.(*ssa.Builtin); ok {
			if b.Name() == "append" {
				return oc.class(l, x.Call.Args[0], seen)
			}
			return scFresh
		}
		if !pointerLike(x.Type()) {
			return scFresh
		}
		callees := oc.ea.idx.CalleesAt(x)
		fresh := len(callees) > 0
		for _, cal := range callees {
			if !analysable(cal) || !oc.ea.summary(cal).returnsFresh {
				fresh = false
			}
		}
		if fresh {
			return scFresh
		}
		args := append([]ssa.Value{}, x.Call.Args...)
		if x.Call.IsInvoke() {
			args = append(args, x.Call.Value)
		}
		var ptrArgs []ssa.Value
		for _, a := range args {
			if pointerLike(a.Type()) {
				ptrArgs = append(ptrArgs, a)
			}
		}
		return worst(ptrArgs...)
	}
	return scShared
}

func (oc *orderChecker) fail(l *loopInfo, in ssa.Instruction, msg string) {
	pos := l.pos
	if in != nil && in.Pos().IsValid() {
		pos = in.Pos()
	}
	oc.reasons = append(oc.reasons, fmt.Sprintf("%s @%s", msg, oc.c.P.Pos(pos)))
}

// checkLoop verifies that the iterations of l commute.  Returns the reasons why not.
func (oc *orderChecker) checkLoop(l *loopInfo) []string {
	saved := oc.reasons
	oc.reasons = nil
	defer func() { oc.reasons = saved }()
	fn := l.fn
	// exits other than the iterator's
	for b := range l.blocks {
		for _, s := range b.Succs {
			if !l.blocks[s] && s != l.header {
				oc.fail(l, b.Instrs[len(b.Instrs)-1], "the loop is left by break/goto: which elements were processed depends on iteration order")
			}
		}
	}
	var accumulators []*ssa.Phi
	cells := map[*ssa.Alloc]bool{}
	// loop-carried SSA values
	for _, in := range l.header.Instrs {
		phi, ok := in.(*ssa.Phi)
		if !ok {
			continue
		}
		if l.kind == "slice" && phi == l.iter {
			continue // the iterator itself
		}
		switch oc.carriedKind(l, phi) {
		case "append":
			accumulators = append(accumulators, phi)
		case "commutative":
		default:
			oc.fail(l, phi, fmt.Sprintf("variable %s is carried from one iteration to the next (not an append-only collection or an integer accumulation): its final value depends on iteration order", phi.Comment))
		}
	}
	blocks := []*ssa.BasicBlock{l.header}
	for _, b := range fn.Blocks {
		if l.blocks[b] {
			blocks = append(blocks, b)
		}
	}
	for _, b := range blocks {
		for _, in := range b.Instrs {
			switch x := in.(type) {
			case *ssa.MapUpdate:
				d := oc.derived(l, x.Key, 0)
				switch cl := oc.class(l, x.Map, map[ssa.Value]bool{}); {
				case cl != scShared:
				case d == 2:
				case d == 1 && isConstLike(x.Value):
					// set insertion with a constant value: commutative and idempotent
				case x.Map == l.rangeX:
					oc.fail(l, in, "the ranged map is updated under a key other than the current one while iterating")
				default:
					oc.fail(l, in, fmt.Sprintf("store into shared map %s under a key that is not an injective function of the iteration key: the last writer wins, so the result depends on iteration order", x.Map.Name()))
				}
			case *ssa.Store:
				if cl := oc.class(l, x.Addr, map[ssa.Value]bool{}); cl == scShared {
					if a := oc.accumulatorCell(l, x); a != nil {
						cells[a] = true
						continue
					}
					oc.fail(l, in, "store to memory shared between iterations ("+x.Addr.String()+")")
				}
			case *ssa.Send:
				if !oc.keyRoutedSend(l, x) {
					oc.fail(l, in, "channel send in the loop whose message does not carry the iteration key as routing id: the order of messages depends on iteration order")
				}
			case *ssa.Select:
				oc.fail(l, in, "select inside the loop")
			case *ssa.UnOp:
				if x.Op == token.ARROW {
					oc.fail(l, in, "channel receive inside the loop")
				}
			case *ssa.Return:
				allConst := true
				for _, r := range x.Results {
					if !isConstLike(r) {
						allConst = false
					}
				}
				if !allConst {
					oc.fail(l, in, "return of a computed value from inside the loop (first match depends on iteration order)")
				}
			case *ssa.Go:
				mc, _ := x.Call.Value.(*ssa.MakeClosure)
				if mc != nil {
					for _, bnd := range mc.Bindings {
						if cl := oc.class(l, bnd, map[ssa.Value]bool{}); cl == scShared {
							if pt, ok := bnd.Type().Underlying().(*types.Pointer); ok {
								if namedIs(pt.Elem(), "sync", "WaitGroup") {
									continue
								}
								// the variable holding a *sync.WaitGroup (a group handed in by the caller)
								if p2, ok := pt.Elem().Underlying().(*types.Pointer); ok && namedIs(p2.Elem(), "sync", "WaitGroup") {
									continue
								}
							}
							oc.fail(l, in, "goroutine started per key captures shared variable "+bnd.Name())
						}
					}
				}
			case *ssa.Defer:
				oc.fail(l, in, "defer inside the loop: deferred calls run in reverse iteration order")
			case *ssa.Call:
				oc.checkCall(l, x)
			}
		}
	}
	// collected slices must only be used in order-insensitive ways afterwards
	for _, acc := range accumulators {
		oc.checkUnorderedUses(acc, l, fmt.Sprintf("slice %s collected in map/unordered iteration order @%s", acc.Comment, oc.c.P.Pos(l.pos)))
	}
	for cell := range cells {
		oc.checkUnorderedCell(cell, l, fmt.Sprintf("slice %s collected in map/unordered iteration order @%s", cell.Comment, oc.c.P.Pos(l.pos)))
	}
	return oc.reasons
}

func isConstLike(v ssa.Value) bool {
	switch x := v.(type) {
	case *ssa.Const:
		return true
	case *ssa.MakeInterface:
		return isConstLike(x.X)
	case *ssa.ChangeType:
		return isConstLike(x.X)
	}
	return false
}

// identityFields: struct fields that identify an element among the elements of the collection that is sorted.
// One line of reason each; the reason is itself an obligation (R15j/identity-field-is-map-key).
var identityFields = map[string]string{
	"tms20.TileMatrix.ID": "TileMatrixSet.TileMatrices holds each matrix under the integer its ID parses to (unmarshalTileMatrices), so IDs of distinct map elements parse to distinct integers",
}

// fieldsCompared lists the struct fields (pkg.Type.field) whose values feed v through comparisons, conversions,
// calls and tuple extraction.
func fieldsCompared(v ssa.Value) []string {
	out := map[string]bool{}
	seen := map[ssa.Value]bool{}
	var walk func(v ssa.Value)
	walk = func(v ssa.Value) {
		if v == nil || seen[v] {
			return
		}
		seen[v] = true
		name := func(t types.Type, idx int) {
			if p, ok := t.Underlying().(*types.Pointer); ok {
				t = p.Elem()
			}
			if st, ok := t.Underlying().(*types.Struct); ok && idx < st.NumFields() {
				out[core.TypeShort(t)+"."+st.Field(idx).Name()] = true
			}
		}
		switch x := v.(type) {
		case *ssa.BinOp:
			walk(x.X)
			walk(x.Y)
		case *ssa.UnOp:
			walk(x.X)
		case *ssa.Phi:
			for _, e := range x.Edges {
				walk(e)
			}
		case *ssa.Extract:
			walk(x.Tuple)
		case *ssa.Convert:
			walk(x.X)
		case *ssa.ChangeType:
			walk(x.X)
		case *ssa.Call:
			for _, a := range x.Call.Args {
				walk(a)
			}
		case *ssa.Field:
			name(x.X.Type(), x.Field)
		case *ssa.FieldAddr:
			name(x.X.Type(), x.Field)
		}
	}
	walk(v)
	var l []string
	for k := range out {
		l = append(l, k)
	}
	sort.Strings(l)
	return l
}

// sortMakesOrderDeterministic: sorting distinct map keys by their natural order is deterministic; a custom
// comparator only if it is a strict total order on the elements — accepted when both operands of its comparison
// are computed from the two elements without reading another map (a tie between equal sort keys, e.g. areas
// looked up per index, leaves the random input order in place and sort.Slice is not stable either).
func sortMakesOrderDeterministic(call *ssa.Call) (bool, string) {
	id := core.StaticCalleeID(call)
	switch {
	case id == "sort.Ints" || id == "sort.Strings" || id == "sort.Float64s":
		return true, ""
	case strings.HasPrefix(id, "slices.Sort[") || id == "slices.Sort" || strings.HasPrefix(id, "golang.org/x/exp/slices.Sort[") || id == "golang.org/x/exp/slices.Sort":
		return true, ""
	case id == "sort.Slice" || id == "sort.SliceStable" || strings.HasPrefix(id, "slices.SortFunc") || strings.HasPrefix(id, "slices.SortStableFunc") || strings.HasPrefix(id, "golang.org/x/exp/slices.SortFunc"):
		if len(call.Call.Args) < 2 {
			return false, "comparator not found"
		}
		var fn *ssa.Function
		switch c := call.Call.Args[1].(type) {
		case *ssa.MakeClosure:
			fn, _ = c.Fn.(*ssa.Function)
		case *ssa.Function:
			fn = c
		}
		if fn == nil {
			return false, "comparator is not a function literal"
		}
		var reads func(v ssa.Value, seen map[ssa.Value]bool) string
		reads = func(v ssa.Value, seen map[ssa.Value]bool) string {
			if v == nil || seen[v] {
				return ""
			}
			seen[v] = true
			switch x := v.(type) {
			case *ssa.Lookup:
				return "reads a map (" + x.String() + ")"
			case *ssa.Call:
				if _, isB := x.Call.Value.(*ssa.Builtin); !isB {
					if cal := x.Call.StaticCallee(); cal == nil || classifyExternal(core.FuncID(funcObj(cal)), core.FuncPkgPath(cal)) != extPure {
						if cal == nil || !analysable(cal) {
							return "calls " + x.String()
						}
					}
				}
				for _, a := range x.Call.Args {
					if r := reads(a, seen); r != "" {
						return r
					}
				}
			case *ssa.Phi:
				for _, e := range x.Edges {
					if r := reads(e, seen); r != "" {
						return r
					}
				}
			case *ssa.BinOp:
				if r := reads(x.X, seen); r != "" {
					return r
				}
				return reads(x.Y, seen)
			case *ssa.UnOp:
				return reads(x.X, seen)
			case *ssa.Extract:
				return reads(x.Tuple, seen)
			case *ssa.Field:
				return reads(x.X, seen)
			case *ssa.FieldAddr:
				return reads(x.X, seen)
			case *ssa.IndexAddr:
				return reads(x.X, seen)
			case *ssa.Index:
				return reads(x.X, seen)
			case *ssa.Convert:
				return reads(x.X, seen)
			case *ssa.ChangeType:
				return reads(x.X, seen)
			}
			return ""
		}
		for _, b := range fn.Blocks {
			for _, in := range b.Instrs {
				if ret, ok := in.(*ssa.Return); ok && len(ret.Results) == 1 {
					if r := reads(ret.Results[0], map[ssa.Value]bool{}); r != "" {
						return false, "the comparator " + r + ": equal sort keys are possible, ties keep the random input order"
					}
					// a three-way result computed as a difference wraps around (or is cut by the conversion) for keys
					// far apart: not an order any more, the result depends on the input order
					if bt, isBasic := ret.Results[0].Type().Underlying().(*types.Basic); isBasic && bt.Info()&types.IsInteger != 0 {
						if d := differenceIn(ret.Results[0], map[ssa.Value]bool{}); d != nil {
							return false, "the comparator returns a difference of its sort keys (" + d.String() + "): it wraps around for keys far apart and is then not an order, the result depends on the random input order"
						}
					}
					// the sort key: the elements themselves, or a field that identifies an element (frozen table);
					// any other field can tie between distinct elements
					for _, fld := range fieldsCompared(ret.Results[0]) {
						if _, ok := identityFields[fld]; !ok {
							return false, "the comparator orders by field " + fld + ", which does not identify an element: two elements with equal " + fld + " keep the random input order (sort.Slice is not stable either)"
						}
					}
				}
			}
		}
		return true, "custom comparator over the elements themselves or an identity field (a strict total order on distinct elements)"
	}
	return false, ""
}

// differenceIn: the subtraction a comparator's integer result is (through conversions and phis).
func differenceIn(v ssa.Value, seen map[ssa.Value]bool) *ssa.BinOp {
	if v == nil || seen[v] {
		return nil
	}
	seen[v] = true
	switch x := v.(type) {
	case *ssa.BinOp:
		if x.Op == token.SUB {
			return x
		}
	case *ssa.Convert:
		return differenceIn(x.X, seen)
	case *ssa.ChangeType:
		return differenceIn(x.X, seen)
	case *ssa.Phi:
		for _, e := range x.Edges {
			if d := differenceIn(e, seen); d != nil {
				return d
			}
		}
	}
	return nil
}

// carriedKind classifies a loop-header phi.
func (oc *orderChecker) carriedKind(l *loopInfo, phi *ssa.Phi) string {
	// set S of values equivalent to "the accumulator so far"
	S := map[ssa.Value]bool{phi: true}
	kind := ""
	var check func(v ssa.Value, depth int) bool
	check = func(v ssa.Value, depth int) bool {
		if depth > 10 {
			return false
		}
		if S[v] {
			return true
		}
		if !l.inLoop(v) {
			return false
		}
		switch x := v.(type) {
		case *ssa.Phi:
			S[x] = true
			for _, e := range x.Edges {
				if !check(e, depth+1) {
					return false
				}
			}
			return true
		case *ssa.Call:
			if b, ok := x.Call.Value.(*ssa.Builtin); ok && b.Name() == "append" {
				if kind == "" || kind == "append" {
					kind = "append"
					return check(x.Call.Args[0], depth+1)
				}
			}
		case *ssa.BinOp:
			bt, ok := x.Type().Underlying().(*types.Basic)
			if ok && bt.Info()&types.IsInteger != 0 && (x.Op == token.ADD || x.Op == token.OR || x.Op == token.AND || x.Op == token.XOR || x.Op == token.MUL) {
				if kind == "" || kind == "commutative" {
					kind = "commutative"
					return check(x.X, depth+1) || check(x.Y, depth+1)
				}
			}
		}
		return false
	}
	for i, e := range phi.Edges {
		pred := l.header.Preds[i]
		if !l.blocks[pred] {
			continue // entry edge
		}
		if !check(e, 0) {
			return "other"
		}
	}
	if kind == "" {
		return "commutative" // carried unchanged
	}
	return kind
}

// keyRoutedSend: the message is wrapFeatureForTileMatrix(_, key, _): the
// consumer routes by that id to a per-key channel, so the relative order of
// messages for different keys is irrelevant (R28).
func (oc *orderChecker) keyRoutedSend(l *loopInfo, s *ssa.Send) bool {
	call, ok := core.Unwrap(s.X).(*ssa.Call)
	if !ok {
		return false
	}
	cal := call.Call.StaticCallee()
	if cal == nil || cal.Name() != "wrapFeatureForTileMatrix" || len(call.Call.Args) != 3 {
		return false
	}
	_, ki, _ := wrapperParamRoles(cal)
	if ki < 0 {
		return false
	}
	return oc.derived(l, call.Call.Args[ki], 0) == 2
}

func (oc *orderChecker) checkCall(l *loopInfo, x *ssa.Call) {
	if b, ok := x.Call.Value.(*ssa.Builtin); ok {
		switch b.Name() {
		case "append":
			// writing into spare capacity of a shared slice; accumulators are handled through the header phi
			if cl := oc.class(l, x.Call.Args[0], map[ssa.Value]bool{}); cl == scShared {
				if !oc.isAccumulatorBase(l, x.Call.Args[0]) && !oc.isCellLoad(l, x.Call.Args[0]) {
					oc.fail(l, x, "append to a slice shared between iterations")
				}
			}
		case "copy":
			if oc.class(l, x.Call.Args[0], map[ssa.Value]bool{}) == scShared {
				oc.fail(l, x, "copy into memory shared between iterations")
			}
		case "delete":
			if oc.class(l, x.Call.Args[0], map[ssa.Value]bool{}) == scShared && oc.derived(l, x.Call.Args[1], 0) != 2 {
				oc.fail(l, x, "delete of a key other than the current one from a shared map")
			}
		case "close":
			if oc.class(l, x.Call.Args[0], map[ssa.Value]bool{}) == scShared {
				oc.fail(l, x, "close of a channel that does not belong to the current key")
			}
		case "len", "cap":
			// reading the size of a container the loop itself shrinks/grows is order dependent
			if oc.mutatedInLoop(l, x.Call.Args[0]) {
				oc.fail(l, x, "len/cap of a container that is modified by the loop is read inside the loop")
			}
		}
		return
	}
	callees := oc.ea.idx.CalleesAt(x)
	if len(callees) == 0 {
		return // no callee exists in the whole program (VTA and CHA): dead call
	}
	com := x.Common()
	actual := func(p int) ssa.Value {
		if com.IsInvoke() {
			if p == 0 {
				return com.Value
			}
			if p-1 < len(com.Args) {
				return com.Args[p-1]
			}
			return nil
		}
		if p < len(com.Args) {
			return com.Args[p]
		}
		return nil
	}
	for _, cal := range callees {
		if !analysable(cal) {
			switch classifyExternal(core.FuncID(funcObj(cal)), core.FuncPkgPath(cal)) {
			case extPure, extOutput, extSyncCommutative:
			case extWritesArg0:
				if len(com.Args) > 0 && oc.class(l, com.Args[0], map[ssa.Value]bool{}) == scShared {
					oc.fail(l, x, cal.String()+" writes through its first argument, which is shared between iterations")
				}
			case extWait:
				oc.fail(l, x, "blocking synchronisation call "+cal.String()+" inside the loop")
			default:
				oc.fail(l, x, "call of external function "+cal.String()+" whose effects are not classified")
			}
			continue
		}
		s := oc.ea.summary(cal)
		for _, g := range s.globals {
			oc.fail(l, x, cal.Name()+" writes package-level state: "+g)
		}
		for _, u := range s.unknown {
			oc.fail(l, x, cal.Name()+": "+u)
		}
		for _, cm := range s.comm {
			oc.fail(l, x, cal.Name()+" communicates: "+cm)
		}
		// a closure called in the loop that writes a variable it captured: fine when that variable (and what it
		// holds) belongs to the iteration, order-dependent when it is shared between iterations
		if len(s.fvWrites) > 0 {
			mc, direct := com.Value.(*ssa.MakeClosure)
			for _, fw := range s.fvWrites {
				if !direct || fw.idx >= len(mc.Bindings) {
					oc.fail(l, x, cal.Name()+": writes captured variable "+fw.name+" ("+fw.what+")")
					continue
				}
				b := mc.Bindings[fw.idx]
				shared := oc.class(l, b, map[ssa.Value]bool{}) == scShared
				if al, isAlloc := b.(*ssa.Alloc); isAlloc {
					for _, r := range *al.Referrers() {
						if st, ok := r.(*ssa.Store); ok && st.Addr == ssa.Value(al) && pointerLike(st.Val.Type()) && oc.class(l, st.Val, map[ssa.Value]bool{}) == scShared {
							shared = true
						}
					}
				}
				if shared {
					oc.fail(l, x, cal.Name()+": writes captured variable "+fw.name+", which is shared between iterations ("+fw.what+")")
				}
			}
		}
		for _, w := range s.writes {
			a := actual(w.param)
			if a == nil {
				continue
			}
			if oc.class(l, a, map[ssa.Value]bool{}) != scShared {
				continue
			}
			keyed := false
			for q := range w.keys {
				if qa := actual(q); qa != nil && oc.derived(l, qa, 0) == 2 {
					keyed = true
				}
			}
			if !keyed {
				oc.fail(l, x, fmt.Sprintf("%s writes through argument %d (%s), which is shared between iterations and not addressed by the iteration key [%s]", cal.Name(), w.param, a.Name(), w.what))
			}
		}
	}
}

// accumulatorCell: the store is `cell = append(cell, …)` on a local variable cell declared outside the loop
// (a slice variable that lives in memory because a closure captures it).
func (oc *orderChecker) accumulatorCell(l *loopInfo, st *ssa.Store) *ssa.Alloc {
	a, ok := st.Addr.(*ssa.Alloc)
	if !ok || l.inLoop(a) {
		return nil
	}
	call, ok := st.Val.(*ssa.Call)
	if !ok {
		return nil
	}
	if b, isB := call.Call.Value.(*ssa.Builtin); !isB || b.Name() != "append" {
		return nil
	}
	if !oc.isCellLoadOf(call.Call.Args[0], a) {
		return nil
	}
	// every store to the cell inside the loop must have this shape
	for _, r := range *a.Referrers() {
		if s2, ok := r.(*ssa.Store); ok && s2 != st && l.inLoop(s2.Val) {
			c2, ok := s2.Val.(*ssa.Call)
			if !ok || !oc.isCellLoadOf(c2.Call.Args[0], a) {
				return nil
			}
		}
	}
	return a
}

func (oc *orderChecker) isCellLoadOf(v ssa.Value, a *ssa.Alloc) bool {
	u, ok := v.(*ssa.UnOp)
	return ok && u.Op == token.MUL && u.X == ssa.Value(a)
}

func (oc *orderChecker) isCellLoad(l *loopInfo, v ssa.Value) bool {
	u, ok := v.(*ssa.UnOp)
	if !ok || u.Op != token.MUL {
		return false
	}
	a, ok := u.X.(*ssa.Alloc)
	if !ok || l.inLoop(a) {
		return false
	}
	for _, r := range *a.Referrers() {
		if st, ok := r.(*ssa.Store); ok && l.inLoop(st.Val) {
			return oc.accumulatorCell(l, st) == a
		}
	}
	return false
}

// checkUnorderedCell: like checkUnorderedUses for a slice variable that lives in a memory cell.
func (oc *orderChecker) checkUnorderedCell(a *ssa.Alloc, producer *loopInfo, what string) {
	var sortCall *ssa.Call
	isSort := func(id string) bool {
		return id == "sort.Ints" || id == "sort.Strings" || id == "sort.Float64s" || id == "sort.Slice" || id == "sort.SliceStable" || strings.HasPrefix(id, "slices.Sort") || strings.HasPrefix(id, "golang.org/x/exp/slices.Sort")
	}
	var loads []*ssa.UnOp
	for _, r := range *a.Referrers() {
		if u, ok := r.(*ssa.UnOp); ok && u.Op == token.MUL {
			loads = append(loads, u)
			for _, rr := range *u.Referrers() {
				v := rr
				if mi, ok := rr.(*ssa.MakeInterface); ok {
					for _, r3 := range *mi.Referrers() {
						v = r3
					}
				}
				if call, ok := v.(*ssa.Call); ok && isSort(core.StaticCalleeID(call)) {
					if okSort, why := sortMakesOrderDeterministic(call); okSort {
						sortCall = call
					} else if why != "" {
						oc.reasons = append(oc.reasons, fmt.Sprintf("%s: sorted with a comparator that does not fix the order: %s @%s", what, why, oc.c.P.Pos(call.Pos())))
					}
				}
			}
		}
	}
	for _, r := range *a.Referrers() {
		if producer.fn == r.Parent() && (producer.blocks[r.Block()] || r.Block() == producer.header) {
			continue
		}
		switch x := r.(type) {
		case *ssa.Store:
			// initialisation before the loop
		case *ssa.UnOp:
			if sortCall != nil && (core.Dominates(sortCall, x) || feeds(x, sortCall)) {
				continue
			}
			oc.checkUnorderedUses(x, producer, what)
		case *ssa.MakeClosure:
			// the comparison function handed to the sort reads the slice by position: part of sorting
			if sortCall != nil {
				isLess := false
				for _, arg := range sortCall.Call.Args {
					if arg == ssa.Value(x) {
						isLess = true
					}
				}
				if isLess {
					continue
				}
			}
			oc.reasons = append(oc.reasons, fmt.Sprintf("%s: captured by a closure that is not the sort's comparison function @%s", what, oc.c.P.Pos(x.Pos())))
		case *ssa.DebugRef:
		default:
			oc.reasons = append(oc.reasons, fmt.Sprintf("%s: unclassified use of the variable cell %T @%s", what, r, oc.c.P.Pos(r.Pos())))
		}
	}
}

// feeds: v (possibly boxed into an interface) is an argument of call.
func feeds(v ssa.Value, call *ssa.Call) bool {
	for _, a := range call.Call.Args {
		if a == v {
			return true
		}
		if mi, ok := a.(*ssa.MakeInterface); ok && mi.X == v {
			return true
		}
	}
	return false
}

func (oc *orderChecker) isAccumulatorBase(l *loopInfo, v ssa.Value) bool {
	if p, ok := v.(*ssa.Phi); ok && p.Block() == l.header {
		return oc.carriedKind(l, p) == "append"
	}
	if p, ok := v.(*ssa.Phi); ok && l.inLoop(p) {
		for _, e := range p.Edges {
			if !oc.isAccumulatorBase(l, e) {
				if c, isCall := e.(*ssa.Call); isCall {
					if b, isB := c.Call.Value.(*ssa.Builtin); isB && b.Name() == "append" && oc.isAccumulatorBase(l, c.Call.Args[0]) {
						continue
					}
				}
				return false
			}
		}
		return true
	}
	return false
}

func (oc *orderChecker) mutatedInLoop(l *loopInfo, m ssa.Value) bool {
	for b := range l.blocks {
		for _, in := range b.Instrs {
			switch x := in.(type) {
			case *ssa.MapUpdate:
				if x.Map == m {
					return true
				}
			case *ssa.Call:
				if bi, ok := x.Call.Value.(*ssa.Builtin); ok && bi.Name() == "delete" && x.Call.Args[0] == m {
					return true
				}
			}
		}
	}
	return false
}

// checkUnorderedUses: v is a slice whose element order is nondeterministic
// (collected in map order, or maps.Keys): every use must be order-insensitive.
func (oc *orderChecker) checkUnorderedUses(v ssa.Value, producer *loopInfo, what string) {
	seen := map[ssa.Value]bool{}
	var visit func(v ssa.Value, fn *ssa.Function, depth int)
	visit = func(v ssa.Value, fn *ssa.Function, depth int) {
		if seen[v] || depth > 12 {
			return
		}
		seen[v] = true
		refs := v.Referrers()
		if refs == nil {
			return
		}
		// a sort of v that dominates the other uses makes the order deterministic
		var sortCall *ssa.Call
		for _, r := range *refs {
			if call, ok := r.(*ssa.Call); ok {
				if len(call.Call.Args) >= 1 && (call.Call.Args[0] == v || feeds(v, call)) {
					if ok, why := sortMakesOrderDeterministic(call); ok {
						sortCall = call
					} else if why != "" {
						oc.reasons = append(oc.reasons, fmt.Sprintf("%s: sorted with a comparator that does not fix the order: %s @%s", what, why, oc.c.P.Pos(call.Pos())))
					}
				}
			}
		}
		for _, r := range *refs {
			if producer != nil && producer.fn == r.Parent() && (producer.blocks[r.Block()] || r.Block() == producer.header) {
				continue // the collecting loop itself
			}
			if sortCall != nil && r == ssa.Instruction(sortCall) {
				continue
			}
			if sortCall != nil && core.Dominates(sortCall, r) {
				continue
			}
			fail := func(msg string) {
				oc.reasons = append(oc.reasons, fmt.Sprintf("%s: %s @%s", what, msg, oc.c.P.Pos(r.Pos())))
			}
			switch x := r.(type) {
			case *ssa.DebugRef:
			case *ssa.Phi:
				visit(x, fn, depth+1)
			case *ssa.ChangeType:
				visit(x, fn, depth+1)
			case *ssa.Slice:
				if x.Low == nil && x.High == nil {
					visit(x, fn, depth+1)
				} else {
					fail("a sub-slice of it is taken")
				}
			case *ssa.IndexAddr:
				var sl *loopInfo
				switch idx := x.Index.(type) {
				case *ssa.BinOp:
					sl = sliceLoopOf(idx, v)
				case *ssa.Phi:
					sl = sliceLoopOfCounter(idx, v)
				}
				if sl == nil {
					fail("an element is picked by position")
					continue
				}
				if !sl.pos.IsValid() {
					sl.pos = x.Pos()
				}
				key := oc.c.P.Pos(sl.pos) + "/" + sl.fn.String() + "/" + valueLabel(v)
				if !oc.done[key] {
					oc.done[key] = true
					oc.loopsN++
					rs := oc.checkLoop(sl)
					construct := fmt.Sprintf("iterations-commute/%s/range-over-unordered-slice-%s", shortFn(sl.fn), valueLabel(v))
					oc.c.Saw(oc.R, "range over unordered slice in "+sl.fn.String()+" @"+oc.c.P.Pos(sl.pos))
					if len(rs) == 0 {
						oc.c.OK(oc.R, construct, sl.pos, "the loop over the unordered slice is commutative (per-element stores / key-routed sends only)")
					} else {
						oc.c.Bad(oc.R, construct, sl.pos, what+" is ranged over and the iterations do not commute: "+strings.Join(rs, "; "))
						fail("it is ranged over by a loop whose iterations do not commute (" + rs[0] + ")")
					}
				}
			case ssa.CallInstruction:
				com := x.Common()
				if b, ok := com.Value.(*ssa.Builtin); ok {
					switch b.Name() {
					case "len", "cap":
					case "append":
						if com.Args[0] == v {
							fail("it is appended to and flows on")
						} else {
							fail("it is appended to another slice in its nondeterministic order")
						}
					default:
						fail("builtin " + b.Name())
					}
					continue
				}
				callees := oc.ea.idx.CalleesAt(x)
				if len(callees) == 0 {
					fail("passed to an unresolved call")
					continue
				}
				for _, cal := range callees {
					id := core.FuncID(funcObj(cal))
					if strings.HasPrefix(id, "slices.Max") || strings.HasPrefix(id, "slices.Min") || strings.HasPrefix(id, "slices.Contains") || strings.HasPrefix(id, "golang.org/x/exp/slices.Contains") {
						continue
					}
					if !analysable(cal) {
						fail("passed to " + cal.String() + " (order sensitivity unknown)")
						continue
					}
					// which parameter(s)?
					off := 0
					if com.IsInvoke() {
						off = 1
					}
					for i, a := range com.Args {
						if a == v && i+off < len(cal.Params) {
							visit(cal.Params[i+off], cal, depth+1)
						}
					}
				}
			case *ssa.MakeClosure:
				fnc, _ := x.Fn.(*ssa.Function)
				for j, b := range x.Bindings {
					if b == v && fnc != nil {
						visit(fnc.FreeVars[j], fnc, depth+1)
					}
				}
			case *ssa.Store:
				if x.Val == v {
					// a spilled local (address captured by a closure): follow loads
					if a, ok := x.Addr.(*ssa.Alloc); ok {
						visit(a, fn, depth+1)
						continue
					}
					fail("stored to memory")
				}
			case *ssa.UnOp:
				if x.Op == token.MUL {
					visit(x, fn, depth+1)
				}
			case *ssa.Return:
				// the unordered slice is the function's result: its uses at every call site must be order-insensitive
				if oc.callers == nil {
					oc.callers = callersIndex(oc.c)
				}
				sites := oc.callers(x.Parent())
				if len(sites) == 0 {
					fail("returned to the caller in nondeterministic order (no static call site to follow)")
					continue
				}
				for ri, res := range x.Results {
					if res != v {
						continue
					}
					for _, site := range sites {
						sv := site.Value()
						if sv == nil {
							fail("returned into a go/defer statement")
							continue
						}
						if len(x.Results) == 1 {
							visit(sv, site.Parent(), depth+1)
						} else {
							for _, rr := range *sv.Referrers() {
								if e, ok := rr.(*ssa.Extract); ok && e.Index == ri {
									visit(e, site.Parent(), depth+1)
								}
							}
						}
					}
				}
			case *ssa.MakeInterface:
				if sortCall != nil && feeds(v, sortCall) {
					continue
				}
				fail("escapes (" + r.String() + ")")
			case *ssa.MapUpdate, *ssa.Send:
				fail("escapes (" + r.String() + ")")
			case *ssa.Range:
				fail("ranged as a whole")
			default:
				fail(fmt.Sprintf("unclassified use %T", r))
			}
		}
	}
	var fn *ssa.Function
	if in, ok := v.(ssa.Instruction); ok {
		fn = in.Parent()
	}
	visit(v, fn, 0)
}

// valueLabel names a value without SSA temporaries.
func valueLabel(v ssa.Value) string {
	switch x := v.(type) {
	case *ssa.Parameter:
		return x.Name()
	case *ssa.FreeVar:
		return x.Name()
	case *ssa.Phi:
		if x.Comment != "" {
			return x.Comment
		}
	case *ssa.Call:
		if f := x.Call.StaticCallee(); f != nil {
			n := f.Name()
			if i := strings.Index(n, "["); i > 0 {
				n = n[:i]
			}
			return "result-of-" + n
		}
	case *ssa.UnOp:
		if a, ok := x.X.(*ssa.Alloc); ok && a.Comment != "" {
			return a.Comment
		}
	case *ssa.Alloc:
		if x.Comment != "" {
			return x.Comment
		}
	case *ssa.MakeMap, *ssa.MakeSlice:
		if n := nameFromSyntax(v); n != "" {
			return n
		}
	}
	return "value"
}

// nameFromSyntax finds the variable a make(...) expression is assigned to.
func nameFromSyntax(v ssa.Value) string {
	in, ok := v.(ssa.Instruction)
	if !ok || in.Parent() == nil || in.Parent().Syntax() == nil {
		return ""
	}
	name := ""
	ast.Inspect(in.Parent().Syntax(), func(n ast.Node) bool {
		as, ok := n.(*ast.AssignStmt)
		if !ok {
			return name == ""
		}
		for i, rhs := range as.Rhs {
			if call, ok := rhs.(*ast.CallExpr); ok && call.Lparen == v.Pos() && i < len(as.Lhs) {
				if id, ok := as.Lhs[i].(*ast.Ident); ok {
					name = id.Name
				}
			}
		}
		return name == ""
	})
	return name
}

func shortFn(f *ssa.Function) string {
	s := f.String()
	s = strings.ReplaceAll(s, core.ModPath+"/", "")
	s = strings.ReplaceAll(s, core.ModPath+".", "main.")
	return s
}

// r15MapOrder enumerates every map range and unordered producer on the call
// graph below root and checks that iteration order cannot influence a result.
func r15MapOrder(c *core.Ctx, R, rootName string, floor int) {
	root := c.Anchor(R, rootName)
	if root == nil {
		return
	}
	reach := core.ReachableNoStdlibTransit(c.P.VTA(), root.SSA)
	oc := &orderChecker{c: c, R: R, ea: newEffAnalysis(c.P), done: map[string]bool{}, injCache: map[ssa.Value]bool{}}
	var fns []*ssa.Function
	for f := range reach {
		if analysable(f) && core.FuncPkgPath(f) != "slices" && core.FuncPkgPath(f) != "maps" && core.FuncPkgPath(f) != "golang.org/x/exp/maps" {
			fns = append(fns, f)
		}
	}
	sortFns(fns)
	nmod := 0
	for _, f := range fns {
		if modFollow(f) {
			nmod++
		}
		for _, b := range f.Blocks {
			for _, in := range b.Instrs {
				switch x := in.(type) {
				case *ssa.Range:
					if _, isMap := x.X.Type().Underlying().(*types.Map); !isMap {
						continue
					}
					l := mapLoopOf(x)
					construct := fmt.Sprintf("iterations-commute/%s/range-%s", shortFn(f), rangeName(x))
					if l == nil {
						c.Unknown(R, construct, x.Pos(), "cannot reconstruct the loop of this map range")
						continue
					}
					key := c.P.Pos(l.pos) + "/" + f.String()
					if oc.done[key] {
						continue
					}
					oc.done[key] = true
					oc.loopsN++
					c.Saw(R, "map range in "+f.String()+" @"+c.P.Pos(x.Pos()))
					rs := oc.checkLoop(l)
					if len(rs) == 0 {
						c.OK(R, construct, x.Pos(), "iterations commute: per-key stores/appends/deletes, fresh memory, key-addressed callee effects, append-only collections with order-insensitive uses")
					} else {
						c.Bad(R, construct, x.Pos(), "the result of this map iteration depends on Go's randomised iteration order: "+strings.Join(rs, "; "), core.PathTo(reach, f)...)
					}
				case *ssa.Call:
					id := core.StaticCalleeID(x)
					if strings.HasPrefix(id, "golang.org/x/exp/maps.Keys") || strings.HasPrefix(id, "golang.org/x/exp/maps.Values") || id == "reflect.Value.MapKeys" {
						oc.prodN++
						construct := fmt.Sprintf("unordered-producer-used-safely/%s/%s", shortFn(f), x.Call.StaticCallee().Name())
						c.Saw(R, "unordered producer "+id+" in "+f.String()+" @"+c.P.Pos(x.Pos()))
						before := len(oc.reasons)
						oc.checkUnorderedUses(x, nil, "result of "+x.Call.StaticCallee().Name())
						rs := oc.reasons[before:]
						if len(rs) == 0 {
							c.OK(R, construct, x.Pos(), "sorted before any order-sensitive use (or only used order-insensitively)")
						} else {
							c.Bad(R, construct, x.Pos(), strings.Join(rs, "; "))
						}
						oc.reasons = oc.reasons[:before]
					}
				}
			}
		}
	}
	r15Canary(c, R)
	c.Note(R, "%d non-stdlib functions on the call graph below %s (%d in the module); %d map/unordered loops and %d unordered producers checked", len(fns), rootName, nmod, oc.loopsN, oc.prodN)
	c.FloorPrefix(R, "iterations-commute/", floor)
}

// r15Canary: the loop checker must flag the seeded order-dependent loops of
// canary/maporder and accept the order-independent ones, on every run.
func r15Canary(c *core.Ctx, R string) {
	funcs, idx, err := core.LoadCanary("maporder")
	if err != nil {
		c.Bad(R, "canary/maporder", token.NoPos, "cannot load canary: "+err.Error())
		return
	}
	oc := &orderChecker{c: c, R: R + "-canary", ea: newEffAnalysisIdx(c.P, idx), done: map[string]bool{}, injCache: map[ssa.Value]bool{}}
	flagged := map[string]bool{}
	seenFns := 0
	for _, f := range funcs {
		for _, b := range f.Blocks {
			for _, in := range b.Instrs {
				rg, ok := in.(*ssa.Range)
				if !ok {
					continue
				}
				if _, isMap := rg.X.Type().Underlying().(*types.Map); !isMap {
					continue
				}
				seenFns++
				if l := mapLoopOf(rg); l != nil && len(oc.checkLoop(l)) > 0 {
					flagged[f.Name()] = true
				}
			}
		}
	}
	ok := flagged["BadFirst"] && flagged["BadCollect"] && flagged["BadLastWriter"] && flagged["BadCarried"] && !flagged["GoodSorted"] && !flagged["GoodPerKey"] && seenFns == 6
	c.Check(R, "canary/maporder", token.NoPos, ok, "the loop checker flags the four order-dependent canary loops and accepts the two order-independent ones", fmt.Sprintf("canary verdicts wrong: flagged=%v over %d loops", flagged, seenFns))
}

func rangeName(x *ssa.Range) string {
	n := valueLabel(x.X)
	if u, ok := x.X.(*ssa.UnOp); ok {
		if fa, ok := u.X.(*ssa.FieldAddr); ok {
			if pt, ok := fa.X.Type().Underlying().(*types.Pointer); ok {
				if st, ok := pt.Elem().Underlying().(*types.Struct); ok {
					n = st.Field(fa.Field).Name()
				}
			}
		}
	}
	if p, ok := x.X.(*ssa.Parameter); ok {
		n = p.Name()
	}
	return n
}

func sortFns(fns []*ssa.Function) {
	for i := 1; i < len(fns); i++ {
		for j := i; j > 0 && fns[j].String() < fns[j-1].String(); j-- {
			fns[j], fns[j-1] = fns[j-1], fns[j]
		}
	}
}

// ---------------------------------------------------------------- R16

// R16: no other source of nondeterminism on the snapping call graph.
func r16NoNondeterminism(c *core.Ctx) {
	const R = "R16"
	root := c.Anchor(R, "snap.SnapPolygon")
	if root == nil {
		return
	}
	reach := core.Reachable(c.P.VTA(), root.SSA)
	deny := map[string]string{
		"math/rand": "random numbers", "math/rand/v2": "random numbers", "crypto/rand": "random numbers",
		"time": "wall clock / timers", "os": "process environment", "runtime": "scheduler / addresses",
		"sync": "locking", "sync/atomic": "atomics", "unsafe": "pointer tricks", "os/signal": "signals", "net": "network",
	}
	var fns []*ssa.Function
	for f := range reach {
		if analysable(f) {
			fns = append(fns, f)
		}
	}
	sortFns(fns)
	nmod := 0
	bad := 0
	for _, f := range fns {
		if modFollow(f) {
			nmod++
		}
		for _, b := range f.Blocks {
			for _, in := range b.Instrs {
				report := func(what string) {
					bad++
					c.Bad(R, fmt.Sprintf("deterministic/%s#%d", shortFn(f), bad), in.Pos(), what, core.PathTo(reach, f)...)
				}
				switch x := in.(type) {
				case *ssa.Go:
					report("go statement on the snapping call graph: results depend on scheduling")
				case *ssa.Select:
					report("select on the snapping call graph")
				case *ssa.Send:
					report("channel send on the snapping call graph")
				case *ssa.MakeChan:
					report("channel created on the snapping call graph")
				case *ssa.UnOp:
					if x.Op == token.ARROW {
						report("channel receive on the snapping call graph")
					}
				case *ssa.Store:
					if !modFollow(f) {
						continue
					}
					base := x.Addr
					for {
						if ia, ok := base.(*ssa.IndexAddr); ok {
							base = ia.X
						} else if fa, ok := base.(*ssa.FieldAddr); ok {
							base = fa.X
						} else {
							break
						}
					}
					if g, ok := base.(*ssa.Global); ok {
						report("store to package-level variable " + g.String() + ": state survives between calls (memoisation makes results depend on history)")
					}
				case *ssa.MapUpdate:
					if u, ok := x.Map.(*ssa.UnOp); ok && modFollow(f) {
						if g, ok := u.X.(*ssa.Global); ok {
							report("update of package-level map " + g.String())
						}
					}
				case *ssa.Convert:
					// pointer -> uintptr: address dependent behaviour
					if bt, ok := x.Type().Underlying().(*types.Basic); ok && bt.Kind() == types.Uintptr && modFollow(f) {
						if _, isPtr := x.X.Type().Underlying().(*types.Pointer); isPtr {
							report("pointer converted to uintptr (address dependent)")
						}
					}
				case ssa.CallInstruction:
					cal := x.Common().StaticCallee()
					if cal == nil {
						continue
					}
					pkg := core.FuncPkgPath(cal)
					if why, denied := deny[pkg]; denied && core.IsStdlib(pkg) {
						if pkg == "sync" && !modFollow(f) {
							continue // dependencies may pool buffers; only module code is held to this
						}
						if pkg == "os" || pkg == "runtime" || pkg == "time" || pkg == "unsafe" {
							if !modFollow(f) {
								continue
							}
						}
						report("call into " + pkg + " (" + why + "): " + cal.String())
					}
				}
			}
		}
	}
	c.Saw(R, fmt.Sprintf("%d analysable functions reachable from snap.SnapPolygon, %d in the module", len(fns), nmod))
	c.Check(R, "call-graph-size/snap.SnapPolygon", root.Decl.Pos(), nmod >= 30, fmt.Sprintf("%d module functions on the snapping call graph inspected", nmod), fmt.Sprintf("only %d module functions on the snapping call graph (floor 30): the call graph lost its anchor", nmod))
	c.Check(R, "deterministic/summary", root.Decl.Pos(), bad == 0, "no goroutine, channel operation, select, random/time/os/runtime/sync/unsafe call, uintptr conversion or package-level store on the snapping call graph", fmt.Sprintf("%d sources of nondeterminism", bad))
	// canary: the deny-list must fire on the positive example
	cfuncs, _, err := core.LoadCanary("nondet")
	if err != nil {
		c.Bad(R, "canary/nondet", token.NoPos, "cannot load canary: "+err.Error())
		return
	}
	hits := 0
	for _, f := range cfuncs {
		for _, b := range f.Blocks {
			for _, in := range b.Instrs {
				switch x := in.(type) {
				case *ssa.Go, *ssa.Select, *ssa.Send:
					hits++
				case ssa.CallInstruction:
					if cal := x.Common().StaticCallee(); cal != nil {
						if _, denied := deny[core.FuncPkgPath(cal)]; denied {
							hits++
						}
					}
				}
			}
		}
	}
	c.Check(R, "canary/nondet", token.NoPos, hits >= 3, fmt.Sprintf("deny-list fires %d times on the canary package", hits), "deny-list does not fire on the canary package")
}

// r15IdentityFields discharges the reason behind identityFields["tms20.TileMatrix.ID"]: the only place that fills
// TileMatrixSet.TileMatrices stores every matrix under the integer parsed from that matrix's own ID.
func r15IdentityFields(c *core.Ctx, R string) {
	f := c.Anchor(R, "tms20.unmarshalTileMatrices")
	if f == nil || f.SSA == nil {
		return
	}
	n, okAll := 0, true
	for _, b := range f.SSA.Blocks {
		for _, in := range b.Instrs {
			mu, ok := in.(*ssa.MapUpdate)
			if !ok || core.TypeShort(mapElemType(mu.Map.Type())) != "tms20.TileMatrix" {
				continue
			}
			n++
			// key <- Convert <- Extract#0 <- strconv.ParseInt/Atoi(<load of FieldAddr(X, ID)>) and value = load of X
			key := mu.Key
			for {
				if cv, ok := key.(*ssa.Convert); ok {
					key = cv.X
					continue
				}
				break
			}
			good := false
			if ex, ok := key.(*ssa.Extract); ok && ex.Index == 0 {
				if call, ok := ex.Tuple.(*ssa.Call); ok {
					if id := core.StaticCalleeID(call); id == "strconv.ParseInt" || id == "strconv.Atoi" {
						if ld, ok := call.Call.Args[0].(*ssa.UnOp); ok {
							if fa, ok := ld.X.(*ssa.FieldAddr); ok && fieldNameOf(fa.X.Type(), fa.Field) == "ID" {
								if vl, ok := mu.Value.(*ssa.UnOp); ok && vl.X == fa.X {
									good = true
								}
							}
						}
					}
				}
			}
			if !good {
				okAll = false
			}
		}
	}
	c.Check(R, "identity-field-is-map-key/tms20.TileMatrix.ID", f.Decl.Pos(), okAll && n >= 1, "every matrix is stored under the integer parsed from its own ID: IDs identify the elements of TileMatrices", "unmarshalTileMatrices no longer stores each matrix under the integer its own ID parses to: sorting the encoded matrices by ID (MarshalJSON) is not known to be a total order any more")
}

func mapElemType(t types.Type) types.Type {
	if m, ok := t.Underlying().(*types.Map); ok {
		return m.Elem()
	}
	return types.Typ[types.Invalid]
}
