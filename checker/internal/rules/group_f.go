package rules

import (
	"fmt"
	"go/ast"
	"go/token"
	"go/types"
	"strings"

	"golang.org/x/tools/go/ssa"

	"texelverif/internal/core"
)

func init() {
	reg("R34", r34FlagTable)
	reg("R35", r35NoSwappedArgs)
	reg("R36", r36ActionOrder)
}

const cliPkg = "github.com/urfave/cli/v2"

// mainAction finds the function literal assigned to app.Action in main.main.
func mainAction(c *core.Ctx, R string) (*core.Func, *ast.FuncLit, *ssa.Function) {
	m := c.Anchor(R, "main.main")
	if m == nil {
		return nil, nil, nil
	}
	info := m.Pkg.TypesInfo
	var lit *ast.FuncLit
	var named *core.Func
	ast.Inspect(m.Decl.Body, func(n ast.Node) bool {
		as, ok := n.(*ast.AssignStmt)
		if !ok || len(as.Lhs) != 1 || len(as.Rhs) != 1 {
			return true
		}
		if fv := core.FieldOf(info, as.Lhs[0]); fv != nil && fv.Name() == "Action" {
			switch x := ast.Unparen(as.Rhs[0]).(type) {
			case *ast.FuncLit:
				lit = x
			case *ast.Ident:
				// a named function of package main as the action: treated like the literal it replaces
				if fo, ok := info.Uses[x].(*types.Func); ok {
					if nf := c.P.ByObj[fo]; nf != nil && nf.Pkg == m.Pkg && nf.Decl.Body != nil {
						lit = &ast.FuncLit{Type: nf.Decl.Type, Body: nf.Decl.Body}
						named = nf
					}
				}
			}
		}
		return true
	})
	if lit == nil {
		c.Bad(R, "anchor/main.Action", m.Decl.Pos(), "reason=anchor-unresolved: no function literal assigned to app.Action in main.main")
		return m, nil, nil
	}
	var sf *ssa.Function
	for _, a := range m.SSA.AnonFuncs {
		if a.Syntax() == ast.Node(lit) {
			sf = a
		}
	}
	if named != nil {
		sf = named.SSA
	}
	if sf == nil {
		c.Bad(R, "anchor/main.Action-ssa", lit.Pos(), "cannot find SSA of the Action closure")
	}
	return m, lit, sf
}

// R34: flags are declared, read with their kind, and reach the option they name.
func r34FlagTable(c *core.Ctx) {
	const R = "R34"
	m, lit, sf := mainAction(c, R)
	if m == nil || lit == nil || sf == nil {
		return
	}
	info := m.Pkg.TypesInfo
	// declared flags
	// every function of package main (the action may delegate reading flags to helpers)
	var mainBodies []ast.Node
	var mainSSA []*ssa.Function
	for _, f := range sortedFuncs(c.P) {
		if f.Pkg == m.Pkg && f.Decl.Body != nil {
			mainBodies = append(mainBodies, f.Decl.Body)
			if f.SSA != nil {
				mainSSA = append(mainSSA, f.SSA)
				mainSSA = append(mainSSA, f.SSA.AnonFuncs...)
			}
		}
	}
	inspectMain := func(fn func(ast.Node) bool) {
		for _, b := range mainBodies {
			ast.Inspect(b, fn)
		}
	}
	declared := map[string]string{} // name -> kind
	inspectMain(func(n ast.Node) bool {
		cl, ok := n.(*ast.CompositeLit)
		if !ok {
			return true
		}
		t := info.TypeOf(cl)
		nt, ok := t.(*types.Named)
		if !ok || nt.Obj().Pkg() == nil || nt.Obj().Pkg().Path() != cliPkg || !strings.HasSuffix(nt.Obj().Name(), "Flag") {
			return true
		}
		kind := strings.TrimSuffix(nt.Obj().Name(), "Flag")
		for _, el := range cl.Elts {
			if kv, ok := el.(*ast.KeyValueExpr); ok {
				if id, ok := kv.Key.(*ast.Ident); ok && id.Name == "Name" {
					if s, ok := core.ConstString(info, kv.Value); ok {
						if prev, dup := declared[s]; dup {
							c.Bad(R, "flag-declared-once/"+s, kv.Pos(), "flag "+s+" declared twice ("+prev+", "+kind+")")
						}
						declared[s] = kind
					}
				}
			}
		}
		return true
	})
	// the other ways to a flag: its environment variable is derived from its own name, and no alias or variable is
	// shared between two flags (with urfave/cli the first declaration wins silently)
	{
		norm := func(x string) string {
			return strings.ToLower(strings.NewReplacer("_", "", "-", "").Replace(x))
		}
		aliasOf, envOf := map[string]string{}, map[string]string{}
		nEnv := 0
		inspectMain(func(n ast.Node) bool {
			cl, ok := n.(*ast.CompositeLit)
			if !ok {
				return true
			}
			nt, ok := info.TypeOf(cl).(*types.Named)
			if !ok || nt.Obj().Pkg() == nil || nt.Obj().Pkg().Path() != cliPkg || !strings.HasSuffix(nt.Obj().Name(), "Flag") {
				return true
			}
			name := ""
			for _, el := range cl.Elts {
				if kv, ok := el.(*ast.KeyValueExpr); ok && canon(kv.Key) == "Name" {
					name, _ = core.ConstString(info, kv.Value)
				}
			}
			for _, el := range cl.Elts {
				kv, ok := el.(*ast.KeyValueExpr)
				if !ok {
					continue
				}
				key := canon(kv.Key)
				if key != "EnvVars" && key != "Aliases" {
					continue
				}
				ast.Inspect(kv.Value, func(x ast.Node) bool {
					e, ok := x.(ast.Expr)
					if !ok {
						return true
					}
					sv, isConst := core.ConstString(info, e)
					if !isConst {
						return true
					}
					switch key {
					case "EnvVars":
						nEnv++
						construct := "env-var-named-after-its-flag/" + name
						if norm(sv) != norm(name) {
							c.Bad(R, construct, e.Pos(), fmt.Sprintf("the environment variable of flag %q is derived from %q: setting that variable switches this option, and the variable named after the flag does nothing", name, sv))
						} else if prev, dup := envOf[norm(sv)]; dup && prev != name {
							c.Bad(R, construct, e.Pos(), fmt.Sprintf("flags %q and %q read the same environment variable", prev, name))
						} else {
							envOf[norm(sv)] = name
							c.OK(R, construct, e.Pos(), "derived from the flag's own name constant")
						}
					case "Aliases":
						if prev, dup := aliasOf[sv]; dup && prev != name {
							c.Bad(R, "alias-unique/"+sv, e.Pos(), fmt.Sprintf("alias %q is declared for %q and for %q", sv, prev, name))
						}
						aliasOf[sv] = name
						if _, clash := declared[sv]; clash && sv != name {
							c.Bad(R, "alias-unique/"+sv, e.Pos(), fmt.Sprintf("alias %q of flag %q is the name of another flag", sv, name))
						}
					}
					return false
				})
			}
			return true
		})
		c.Note(R, "%d environment variable names, %d aliases examined", nEnv, len(aliasOf))
	}
	c.Check(R, "declared-flags", m.Decl.Pos(), len(declared) >= 9, fmt.Sprintf("%d flags declared", len(declared)), fmt.Sprintf("only %d flags declared, expected >= 9", len(declared)))
	// reads
	read := map[string]int{}
	type readSite struct {
		name string
		kind string
		call *ast.CallExpr
	}
	var reads []readSite
	inspectMain(func(n ast.Node) bool {
		call, ok := n.(*ast.CallExpr)
		if !ok || len(call.Args) != 1 {
			return true
		}
		f := core.Callee(info, call)
		if f == nil || f.Pkg() == nil || f.Pkg().Path() != cliPkg || !strings.HasPrefix(core.FuncID(f), cliPkg+".Context.") {
			return true
		}
		name, isConst := core.ConstString(info, call.Args[0])
		if !isConst {
			c.Unknown(R, "flag-read/"+core.ExprStr(call), call.Pos(), "flag read with a non-constant name")
			return true
		}
		reads = append(reads, readSite{name, f.Name(), call})
		return true
	})
	for _, r := range reads {
		read[r.name]++
		construct := fmt.Sprintf("flag-read-matches-declaration/%s.%s", r.kind, r.name)
		kind, ok := declared[r.name]
		switch {
		case !ok:
			c.Bad(R, construct, r.call.Pos(), fmt.Sprintf("c.%s(%q) reads a flag that is not declared: urfave/cli silently returns the zero value", r.kind, r.name))
		case kind != r.kind:
			c.Bad(R, construct, r.call.Pos(), fmt.Sprintf("flag %q is declared as %sFlag but read with c.%s: urfave/cli silently returns the zero value", r.name, kind, r.kind))
		default:
			c.OK(R, construct, r.call.Pos(), "declared as "+kind+"Flag")
		}
	}
	for name := range declared {
		c.Check(R, "flag-is-read/"+name, m.Decl.Pos(), read[name] > 0, "read in the action", "flag "+name+" is declared but never read: the option has no effect")
	}
	// snap.Config fields from the flag of the same name
	nCfg := 0
	inspectMain(func(n ast.Node) bool {
		cl, ok := n.(*ast.CompositeLit)
		if !ok || core.TypeShort(info.TypeOf(cl)) != "snap.Config" {
			return true
		}
		for _, el := range cl.Elts {
			kv, ok := el.(*ast.KeyValueExpr)
			if !ok {
				c.Bad(R, "config-field-keyed", el.Pos(), "snap.Config literal uses positional fields")
				continue
			}
			field := kv.Key.(*ast.Ident).Name
			nCfg++
			construct := "config-field-from-own-flag/snap.Config." + field
			call, ok := ast.Unparen(kv.Value).(*ast.CallExpr)
			name := ""
			if ok && len(call.Args) == 1 {
				name, _ = core.ConstString(info, call.Args[0])
			}
			c.Check(R, construct, kv.Pos(), strings.EqualFold(name, field) && declared[name] == "Bool",
				"initialised from flag "+name, fmt.Sprintf("snap.Config.%s is initialised from %s, not from the flag named after it: the user's option switches a different behaviour", field, core.ExprStr(kv.Value)))
		}
		// all three fields present
		st, _ := info.TypeOf(cl).Underlying().(*types.Struct)
		if st != nil {
			c.Check(R, "config-all-fields-set/snap.Config", cl.Pos(), len(cl.Elts) == st.NumFields(), fmt.Sprintf("all %d fields set", st.NumFields()), fmt.Sprintf("%d of %d snap.Config fields are set from flags", len(cl.Elts), st.NumFields()))
		}
		return true
	})
	if nCfg == 0 {
		c.Bad(R, "config-literal", lit.Pos(), "no snap.Config literal found in the action")
	}
	// PAGESIZE -> TargetGeopackage.pagesize ; OVERWRITE -> guard of os.Remove
	idx := c.P.SiteIndex(c.P.VTA())
	flagValue := func(name string) ssa.Value {
		for _, fn := range mainSSA {
			for _, b := range fn.Blocks {
				for _, in := range b.Instrs {
					if call, ok := in.(*ssa.Call); ok && strings.HasPrefix(core.StaticCalleeID(call), cliPkg+".Context.") && len(call.Call.Args) == 2 {
						if k, ok := call.Call.Args[1].(*ssa.Const); ok && k.Value != nil && strings.Trim(k.Value.ExactString(), `"`) == name {
							return call
						}
					}
				}
			}
		}
		return nil
	}
	constOf := func(cn string) string {
		if o := m.Pkg.Types.Scope().Lookup(cn); o != nil {
			if k, ok := o.(*types.Const); ok {
				return strings.Trim(k.Val().ExactString(), `"`)
			}
		}
		return ""
	}
	if v := flagValue(constOf("PAGESIZE")); v != nil {
		flow := core.ForwardFlow([]ssa.Value{v}, idx, modFollow)
		hit := false
		for x := range flow {
			if fa, ok := x.(*ssa.FieldAddr); ok {
				if pt, ok := fa.X.Type().Underlying().(*types.Pointer); ok {
					if st, ok := pt.Elem().Underlying().(*types.Struct); ok && st.Field(fa.Field).Name() == "pagesize" && core.TypeShort(pt.Elem()) == "gpkg.TargetGeopackage" {
						hit = true
					}
				}
			}
		}
		c.Check(R, "pagesize-reaches-target/main", v.Pos(), hit, "c.Int(pagesize) flows into TargetGeopackage.pagesize", "the page size flag does not reach TargetGeopackage.pagesize (another value is passed as page size)")
	} else {
		c.Bad(R, "pagesize-reaches-target/main", lit.Pos(), "no read of the pagesize flag found")
	}
	if v := flagValue(constOf("OVERWRITE")); v != nil {
		flow := core.ForwardFlow([]ssa.Value{v}, idx, modFollow)
		ig := c.Anchor(R, "main.initGPKGTarget")
		ok := false
		if ig != nil {
			removes := effectiveCalls(ig.SSA, "os.Remove", 2)
			if len(removes) == 1 {
				rem := removes[0].Site
				// unreachable when the true edge of If(overwrite) is not taken
				var guardIf *ssa.If
				for _, b := range ig.SSA.Blocks {
					if i := core.BlockIf(b); i != nil && flow[i.Cond] {
						guardIf = i
					}
				}
				if guardIf != nil {
					r, _ := core.Search{Fn: ig.SSA, Target: instrIs(rem), Edge: func(b *ssa.BasicBlock, k int) bool {
						return !(core.BlockIf(b) == guardIf && k == 0)
					}}.Run()
					ok = !r
				}
			}
		}
		c.Check(R, "overwrite-guards-remove/main.initGPKGTarget", v.Pos(), ok, "os.Remove is executed only when the overwrite flag is set", "os.Remove(target) is not guarded by the value of the overwrite flag")
		// and whenever it is set: with the overwrite test taken as true, no path opens the target without having
		// passed the removal (no further condition on the path, the file name, …)
		if ig != nil {
			removes := effectiveCalls(ig.SSA, "os.Remove", 2)
			inits := findCalls(ig.SSA, core.ModPath+"/processing/gpkg.TargetGeopackage.Init")
			okAlways, why := false, "expected one os.Remove and one Init"
			if len(removes) == 1 && len(inits) == 1 {
				var guardIf *ssa.If
				for _, b := range ig.SSA.Blocks {
					if i := core.BlockIf(b); i != nil && flow[i.Cond] {
						guardIf = i
					}
				}
				if guardIf != nil {
					skip, _ := core.Search{Fn: ig.SSA, Target: instrIs(inits[0]), Barrier: instrIs(removes[0].Site), Edge: func(b *ssa.BasicBlock, k int) bool {
						return !(core.BlockIf(b) == guardIf && k == 1)
					}}.Run()
					okAlways, why = !skip, "with the overwrite flag set a path reaches Init without passing os.Remove (a further condition decides whether the old file is removed)"
					// inside a helper the removal itself is unconditional
					if okAlways && removes[0].Inner != removes[0].Site {
						h := removes[0].Inner.Parent()
						if miss, _ := (core.Search{Fn: h, Target: core.IsReturn, Barrier: instrIs(removes[0].Inner)}).Run(); miss {
							okAlways, why = false, "the helper "+h.Name()+" can return without calling os.Remove"
						}
					}
				} else {
					why = "no test of the overwrite flag found in initGPKGTarget"
				}
			}
			c.Check(R, "overwrite-always-removes/main.initGPKGTarget", v.Pos(), okAlways, "with overwrite set every path to Init passes os.Remove(target)", why)
		}
	} else {
		c.Bad(R, "overwrite-guards-remove/main.initGPKGTarget", lit.Pos(), "no read of the overwrite flag found")
	}
	c.FloorPrefix(R, "flag-read-matches-declaration/", 9)
}

// R35: same-typed arguments are not swapped.
func r35NoSwappedArgs(c *core.Ctx) {
	const R = "R35"
	sites := 0
	for _, fn := range sortedFuncs(c.P) {
		info := fn.Pkg.TypesInfo
		ast.Inspect(fn.Decl.Body, func(n ast.Node) bool {
			call, ok := n.(*ast.CallExpr)
			if !ok {
				return true
			}
			callee := core.Callee(info, call)
			if callee == nil || callee.Pkg() == nil || !core.IsModPath(callee.Pkg().Path()) {
				return true
			}
			sig := callee.Type().(*types.Signature)
			if sig.Params().Len() < 2 || sig.Variadic() || len(call.Args) != sig.Params().Len() {
				return true
			}
			same := false
			for i := 0; i < sig.Params().Len(); i++ {
				for j := i + 1; j < sig.Params().Len(); j++ {
					if types.Identical(sig.Params().At(i).Type(), sig.Params().At(j).Type()) {
						same = true
					}
				}
			}
			if !same {
				return true
			}
			sites++
			construct := fmt.Sprintf("args-not-swapped/%s->%s", fn.Name, core.ShortFuncID(callee))
			bad := ""
			for i, a := range call.Args {
				id, ok := ast.Unparen(a).(*ast.Ident)
				if !ok {
					continue
				}
				for j := 0; j < sig.Params().Len(); j++ {
					if j != i && sig.Params().At(j).Name() == id.Name && sig.Params().At(i).Name() != id.Name && types.Identical(sig.Params().At(i).Type(), sig.Params().At(j).Type()) {
						bad += fmt.Sprintf("argument %d is `%s` but that is the name of parameter %d (same type %s); ", i, id.Name, j, sig.Params().At(j).Type())
					}
				}
			}
			c.Check(R, construct, call.Pos(), bad == "", "arguments named like parameters are in their own position", "same-typed arguments look swapped: "+bad)
			return true
		})
	}
	// the one call with four same-typed-pair parameters that matters most, wherever in package main it is made
	nInit := 0
	for _, o := range c.Obligations(R) {
		if strings.HasPrefix(o, "args-not-swapped/main.") && strings.HasSuffix(o, "->main.initGPKGTarget") {
			nInit++
		}
	}
	// (a floor only while the function still has two parameters of one type that could be exchanged)
	pairInInit := false
	if ig := c.P.Lookup("main.initGPKGTarget"); ig != nil {
		ps := ig.Obj.Type().(*types.Signature).Params()
		for i := 0; i < ps.Len(); i++ {
			for j := i + 1; j < ps.Len(); j++ {
				if types.Identical(ps.At(i).Type(), ps.At(j).Type()) {
					pairInInit = true
				}
			}
		}
	} else {
		pairInInit = true
	}
	if nInit == 0 && pairInInit {
		c.Bad(R, "instance-floor/args-not-swapped/main.*->main.initGPKGTarget", token.NoPos, "no call of initGPKGTarget from package main was examined (hand-confirmed floor is 1)")
	}
	c.Floor(R, 8)
}

// R36: order of operations in the command line action.
func r36ActionOrder(c *core.Ctx) {
	const R = "R36"
	m, lit, sf := mainAction(c, R)
	if m == nil || lit == nil || sf == nil {
		return
	}
	info := m.Pkg.TypesInfo
	mp := core.ModPath
	// (1) validation gates all work
	vcalls := findCalls(sf, mp+".validateTileMatrixSet")
	if len(vcalls) != 1 {
		c.Bad(R, "validate-call/main.Action", lit.Pos(), fmt.Sprintf("expected one call of validateTileMatrixSet in the action, found %d", len(vcalls)))
		return
	}
	v := vcalls[0]
	work := map[string]string{
		mp + "/processing/gpkg.SourceGeopackage.Init":         "source.Init",
		mp + ".initGPKGTarget":                                "initGPKGTarget",
		mp + "/processing/gpkg.TargetGeopackage.CreateTables": "CreateTables",
		mp + ".processBySnapping":                             "processBySnapping",
		mp + "/processing.ProcessFeatures":                    "processBySnapping", // the same step with the helper written out
	}
	found := map[string]bool{}
	for _, b := range sf.Blocks {
		for _, in := range b.Instrs {
			call, ok := in.(*ssa.Call)
			if !ok {
				continue
			}
			label, isWork := work[core.StaticCalleeID(call)]
			if !isWork {
				continue
			}
			found[label] = true
			viaErr, _ := core.Search{Fn: sf, From: v, Target: instrIs(call), Edge: nonNilEdges(v)}.Run()
			c.Check(R, "validation-gates/"+label, call.Pos(), core.Dominates(v, call) && !viaErr,
				"only reachable after validateTileMatrixSet returned nil", label+" can run although the tile matrix set was not validated (or failed validation): files are created / snapping runs on a non-quadtree set")
		}
	}
	for _, label := range work {
		if !found[label] {
			c.Bad(R, "validation-gates/"+label, lit.Pos(), "call of "+label+" not found in the action")
		}
	}
	// validated ids are the ids used: the slice passed to validate is the one ranged over for the targets
	// (2) one target per requested id, keyed and named by that id
	igCalls := findCalls(sf, mp+".initGPKGTarget")
	okPer := false
	why := "no call"
	if len(igCalls) == 1 {
		ig := igCalls[0]
		why = ""
		idArg := ig.Call.Args[1]
		ia := sliceElemLoad(idArg)
		if ia == nil {
			why = "the id passed to initGPKGTarget is not an element of the requested id list"
		} else {
			// same variable as validated
			ld, _ := ia.X.(*ssa.UnOp)
			vld, _ := v.Call.Args[1].(*ssa.UnOp)
			if ld == nil || vld == nil || ld.X != vld.X {
				why = "the id list ranged over is not the list that was validated"
			}
			// result stored under the same key
			stored := false
			for _, r := range *ig.Referrers() {
				if mu, ok := r.(*ssa.MapUpdate); ok && mu.Value == ssa.Value(ig) && mu.Key == idArg {
					stored = true
				}
			}
			if !stored {
				why += " the target is not stored under its own tile matrix id"
			}
			if !core.InLoop(ig) {
				why += " initGPKGTarget is not called in a loop over the ids"
			}
		}
		okPer = why == ""
	}
	c.Check(R, "one-target-per-id/main.Action", lit.Pos(), okPer, "initGPKGTarget(fmt, id, …) for every element of the validated id list, stored under that id", "targets: "+why)
	// (3) initGPKGTarget: remove (if any) precedes Init, both on Sprintf(targetPathFmt, tmID)
	if ig := c.Anchor(R, "main.initGPKGTarget"); ig != nil {
		removes := effectiveCalls(ig.SSA, "os.Remove", 2)
		inits := findCalls(ig.SSA, mp+"/processing/gpkg.TargetGeopackage.Init")
		ok := len(removes) == 1 && len(inits) == 1
		why := "expected one os.Remove (in initGPKGTarget or a helper it calls) and one Init"
		if ok {
			rem, ini := removes[0].Site, inits[0]
			path := removes[0].Args[0]
			why = ""
			if path == nil || ini.Call.Args[1] != path {
				why += "Init opens a different path than the one removed; "
			}
			if sp, isCall := path.(*ssa.Call); !isCall || core.StaticCalleeID(sp) != "fmt.Sprintf" || sp.Call.Args[0] != ssa.Value(ig.SSA.Params[0]) {
				why += "the path is not fmt.Sprintf(targetPathFmt, tmID); "
			} else {
				el := sliceLitElems(sp.Call.Args[1])
				if len(el) != 1 || core.Unwrap(el[0]) != ssa.Value(ig.SSA.Params[1]) {
					why += "the path is not formatted with the tile matrix id; "
				}
			}
			if core.ReachableFrom(ini, rem) {
				why += "os.Remove can run after the target was opened; "
			}
			noInit, _ := core.Reaches(ig.SSA, nil, core.IsReturn, instrIs(ini))
			if noInit {
				why += "a return without Init exists; "
			}
			ok = why == ""
		}
		c.Check(R, "remove-then-init-same-path/main.initGPKGTarget", ig.Decl.Pos(), ok, "os.Remove(path) (under overwrite) precedes Init(path, …) with path = Sprintf(targetPathFmt, tmID)", why)
	}
	// (4) table loop: source and all targets are switched to the table before processing, untouched after
	var tableLoop *ast.RangeStmt
	ast.Inspect(lit.Body, func(n ast.Node) bool {
		if r, ok := n.(*ast.RangeStmt); ok {
			if len(core.CallsIn(info, r.Body, "main.processBySnapping", "processing.ProcessFeatures")) == 1 && tableLoop == nil {
				tableLoop = r
			}
		}
		return true
	})
	if tableLoop == nil {
		c.Bad(R, "table-loop/main.Action", lit.Pos(), "no loop containing the processBySnapping call found")
	} else {
		tableVar := core.ObjOf(info, tableLoop.Value)
		call := core.CallsIn(info, tableLoop.Body, "main.processBySnapping", "processing.ProcessFeatures")[0]
		srcSet, tgtSet, after := false, false, ""
		ast.Inspect(tableLoop.Body, func(n ast.Node) bool {
			as, ok := n.(*ast.AssignStmt)
			if !ok || len(as.Lhs) != 1 || len(as.Rhs) != 1 {
				return true
			}
			fv := core.FieldOf(info, as.Lhs[0])
			if fv == nil || fv.Name() != "Table" {
				return true
			}
			if as.Pos() > call.Pos() {
				after = c.P.Pos(as.Pos())
				return true
			}
			if core.ObjOf(info, as.Rhs[0]) != tableVar {
				after = "assigned something other than the loop's table @" + c.P.Pos(as.Pos())
				return true
			}
			recvT := core.TypeShort(info.TypeOf(as.Lhs[0].(*ast.SelectorExpr).X))
			switch recvT {
			case "gpkg.SourceGeopackage":
				srcSet = true
			case "gpkg.TargetGeopackage":
				// must be inside a range over all targets with no skip, assigning the range value
				for _, pn := range pathTo(tableLoop.Body, as) {
					if r, ok := pn.(*ast.RangeStmt); ok && core.ObjOf(info, r.Value) == core.ObjOf(info, as.Lhs[0].(*ast.SelectorExpr).X) {
						skip := false
						ast.Inspect(r.Body, func(x ast.Node) bool {
							if _, isB := x.(*ast.BranchStmt); isB {
								skip = true
							}
							if _, isI := x.(*ast.IfStmt); isI {
								skip = true
							}
							return true
						})
						if !skip && strings.HasPrefix(core.TypeShort(mapElem(info.TypeOf(r.X))), "gpkg.TargetGeopackage") {
							tgtSet = true
						}
					}
				}
			}
			return true
		})
		c.Check(R, "tables-switched-before-processing/main.Action", tableLoop.Pos(), srcSet && tgtSet && after == "" && tableVar != nil,
			"source.Table and every target.Table are set to the loop's table before processBySnapping, nothing touches them afterwards in the iteration",
			fmt.Sprintf("source set=%v, all targets set=%v, assignment after/other=%q: features of one table would be read from / written to another table", srcSet, tgtSet, after))
		// the targets map handed to processing holds the same pointers, key for key
		// (the copy loop in the action, or in a module helper that returns the copy of its parameter)
		okCopy := false
		dst := core.ObjOf(info, call.Args[1])
		var src types.Object
		var srcT types.Type
		if dst != nil {
			if src = keyForKeyCopy(info, lit.Body, dst); src != nil {
				srcT = src.Type()
			} else if def := singleDef(info, lit.Body, dst); def != nil {
				if hc, isCall := ast.Unparen(def).(*ast.CallExpr); isCall {
					if callee := core.Callee(info, hc); callee != nil {
						if h := c.P.ByObj[callee.Origin()]; h != nil && h.Decl.Body != nil && core.IsModPath(h.Pkg.PkgPath) {
							hs := h.Obj.Type().(*types.Signature)
							nret := 0
							var retObj types.Object
							ast.Inspect(h.Decl.Body, func(n ast.Node) bool {
								if _, isLit := n.(*ast.FuncLit); isLit {
									return false
								}
								if ret, isRet := n.(*ast.ReturnStmt); isRet {
									nret++
									if len(ret.Results) == 1 {
										retObj = core.ObjOf(h.Pkg.TypesInfo, ret.Results[0])
									}
								}
								return true
							})
							if nret == 1 && retObj != nil {
								if hsrc := keyForKeyCopy(h.Pkg.TypesInfo, h.Decl.Body, retObj); hsrc != nil {
									for i := 0; i < hs.Params().Len() && i < len(hc.Args); i++ {
										if hs.Params().At(i) == hsrc {
											src = core.ObjOf(info, hc.Args[i])
											srcT = hsrc.Type()
										}
									}
								}
							}
						}
					}
				}
			}
		}
		okCopy = src != nil && strings.HasPrefix(core.TypeShort(mapElem(srcT)), "gpkg.TargetGeopackage")
		c.Check(R, "targets-map-copied-per-key/main.Action", lit.Pos(), okCopy, "processing receives targets[id] = gpkgTargets[id] for every id", "the map of targets handed to processing is not a key-for-key copy of the opened targets")
	}
	r36PolygonFuncAlwaysSnaps(c, R)
	c.Floor(R, 7)
}

// r36PolygonFuncAlwaysSnaps: the per-polygon function main hands to processing.ProcessFeatures returns, on every
// path, the result of snap.SnapPolygon called with its own polygon and id list and the action's tile matrix set and
// configuration: no shortcut decides about a polygon without asking the library.
func r36PolygonFuncAlwaysSnaps(c *core.Ctx, R string) {
	// the function of package main that calls processing.ProcessFeatures: processBySnapping, or the action itself
	// when that helper is written out
	var pbFn *ssa.Function
	var pbDecl *core.Func
	for _, f := range sortedFuncs(c.P) {
		if core.ShortPkg(f.Pkg.PkgPath) != "main" || f.SSA == nil {
			continue
		}
		for _, fn := range core.AllSSAFuncs(f.SSA) {
			if len(findCalls(fn, core.ModPath+"/processing.ProcessFeatures")) > 0 {
				pbFn, pbDecl = fn, f
			}
		}
	}
	if pbFn == nil {
		c.Bad(R, "polygon-function-always-snaps/main", token.NoPos, "no call of processing.ProcessFeatures in package main")
		return
	}
	pb := &core.Func{Name: "main.processBySnapping", Pkg: pbDecl.Pkg, Decl: pbDecl.Decl, Obj: pbDecl.Obj, SSA: pbFn}
	construct := "polygon-function-always-snaps/" + pb.Name
	calls := findCalls(pb.SSA, core.ModPath+"/processing.ProcessFeatures")
	if len(calls) != 1 || len(calls[0].Call.Args) != 3 {
		c.Bad(R, construct, pb.Decl.Pos(), "expected one call processing.ProcessFeatures(source, targets, f)")
		return
	}
	var fn *ssa.Function
	var mc *ssa.MakeClosure
	farg := calls[0].Call.Args[2]
	if ct, ok := farg.(*ssa.ChangeType); ok {
		farg = ct.X
	}
	switch x := farg.(type) {
	case *ssa.MakeClosure:
		mc = x
		fn, _ = x.Fn.(*ssa.Function)
	case *ssa.Function:
		fn = x
	}
	if fn == nil || len(fn.Params) != 2 {
		c.Unknown(R, construct, calls[0].Pos(), "the polygon function handed to ProcessFeatures is not a function literal or named function of two parameters")
		return
	}
	// what a free variable of the closure is bound to in processBySnapping
	boundTo := func(v ssa.Value) ssa.Value {
		v = resolveValue(v)
		if ld, ok := v.(*ssa.UnOp); ok {
			if fv, ok := ld.X.(*ssa.FreeVar); ok && mc != nil {
				for i, f := range fn.FreeVars {
					if f == fv && i < len(mc.Bindings) {
						if a, ok := mc.Bindings[i].(*ssa.Alloc); ok {
							for _, r := range *a.Referrers() {
								if st, ok := r.(*ssa.Store); ok && st.Addr == ssa.Value(a) {
									return st.Val
								}
							}
						}
						return mc.Bindings[i]
					}
				}
			}
		}
		return v
	}
	why := ""
	nret := 0
	for _, b := range fn.Blocks {
		for _, in := range b.Instrs {
			ret, ok := in.(*ssa.Return)
			if !ok {
				continue
			}
			nret++
			call, ok := ret.Results[0].(*ssa.Call)
			if !ok || core.StaticCalleeID(call) != core.ModPath+"/snap.SnapPolygon" {
				why = "a return at " + c.P.Pos(ret.Pos()) + " does not return the result of snap.SnapPolygon"
				continue
			}
			a := call.Call.Args
			switch {
			case resolveValue(a[0]) != ssa.Value(fn.Params[0]):
				why = "SnapPolygon is not called with the polygon the function was given"
			case resolveValue(a[2]) != ssa.Value(fn.Params[1]):
				why = "SnapPolygon is not called with the id list the function was given"
			case mc != nil && pbFn.Name() == "processBySnapping" && len(pb.SSA.Params) == 4 && (boundTo(a[1]) != ssa.Value(pb.SSA.Params[2]) || boundTo(a[3]) != ssa.Value(pb.SSA.Params[3])):
				why = "SnapPolygon is not called with processBySnapping's tile matrix set and configuration"
			}
		}
	}
	c.Check(R, construct, calls[0].Pos(), why == "" && nret >= 1, "every return of the polygon function is snap.SnapPolygon(polygon, tileMatrixSet, ids, config) on its own arguments", "the function handed to the pipeline does not always ask the library: "+why)
}

// keyForKeyCopy finds `for k, v := range src { dst[k] = v }` (nothing else in the loop) in body and returns src.
func keyForKeyCopy(info *types.Info, body ast.Node, dst types.Object) types.Object {
	var src types.Object
	ast.Inspect(body, func(n ast.Node) bool {
		r, ok := n.(*ast.RangeStmt)
		if !ok || len(r.Body.List) != 1 || r.Key == nil || r.Value == nil {
			return true
		}
		as, ok := r.Body.List[0].(*ast.AssignStmt)
		if !ok || len(as.Lhs) != 1 || len(as.Rhs) != 1 {
			return true
		}
		if ix, ok := as.Lhs[0].(*ast.IndexExpr); ok && core.ObjOf(info, ix.Index) == core.ObjOf(info, r.Key) &&
			core.ObjOf(info, as.Rhs[0]) == core.ObjOf(info, r.Value) && core.ObjOf(info, ix.X) == dst {
			src = core.ObjOf(info, r.X)
		}
		return true
	})
	return src
}

func mapElem(t types.Type) types.Type {
	if m, ok := t.Underlying().(*types.Map); ok {
		return m.Elem()
	}
	return t
}
