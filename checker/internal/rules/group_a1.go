package rules

import (
	"fmt"
	"go/ast"
	"go/token"
	"go/types"
	"strings"

	"golang.org/x/tools/go/ssa"

	"texelverif/internal/core"
)

func init() {
	reg("R01", r01IndexAligned)
	reg("R10", r10NoLossyRoundTrip)
}

// ---------------------------------------------------------------- R01

// leaf describes one leaf element of a (nested) array literal.
type leaf struct {
	target []int64 // index path in the literal
	expr   ast.Expr
}

func flattenLit(info *types.Info, lit *ast.CompositeLit, prefix []int64, out *[]leaf) bool {
	t := info.TypeOf(lit)
	if t == nil {
		return false
	}
	switch t.Underlying().(type) {
	case *types.Array, *types.Slice:
	default:
		return false
	}
	for i, el := range lit.Elts {
		if _, isKV := el.(*ast.KeyValueExpr); isKV {
			return false
		}
		path := append(append([]int64{}, prefix...), int64(i))
		if sub, ok := el.(*ast.CompositeLit); ok {
			if !flattenLit(info, sub, path, out) {
				return false
			}
			continue
		}
		*out = append(*out, leaf{path, el})
	}
	return true
}

// sourcePath resolves `f(src[i][j])`, `src[i]`, `src.Accessor()` to the source
// object and the constant index path read from it.
func sourcePath(p *core.Prog, info *types.Info, e ast.Expr) (types.Object, []int64, bool) {
	e = ast.Unparen(e)
	// strip one level of conversion / single-argument call
	if c, ok := e.(*ast.CallExpr); ok {
		if len(c.Args) == 1 {
			return sourcePath(p, info, c.Args[0])
		}
		if len(c.Args) == 0 {
			// accessor method on the source: resolve through its body
			if sel, ok := c.Fun.(*ast.SelectorExpr); ok {
				if f := core.Callee(info, c); f != nil && pureAccessor(p, f) {
					fn := p.ByObj[f.Origin()]
					ret := fn.Decl.Body.List[0].(*ast.ReturnStmt)
					if len(ret.Results) == 1 && fn.Decl.Recv != nil && len(fn.Decl.Recv.List[0].Names) == 1 {
						recvObj := fn.Pkg.TypesInfo.Defs[fn.Decl.Recv.List[0].Names[0]]
						o, path, ok := sourcePath(p, fn.Pkg.TypesInfo, ret.Results[0])
						if ok && o == recvObj {
							base, bpath, ok2 := sourcePath(p, info, sel.X)
							if ok2 {
								return base, append(bpath, path...), true
							}
						}
					}
				}
			}
		}
		return nil, nil, false
	}
	var path []int64
	for {
		ix, ok := e.(*ast.IndexExpr)
		if !ok {
			break
		}
		k, isConst := core.ConstInt(info, ix.Index)
		if !isConst {
			return nil, nil, false
		}
		path = append([]int64{k}, path...)
		e = ast.Unparen(ix.X)
	}
	if id, ok := e.(*ast.Ident); ok {
		if o := core.ObjOf(info, id); o != nil {
			return o, path, true
		}
	}
	return nil, nil, false
}

func pathEq(a, b []int64) bool {
	if len(a) != len(b) {
		return false
	}
	for i := range a {
		if a[i] != b[i] {
			return false
		}
	}
	return true
}

// R01: component-wise conversions in intgeom are index-aligned: element k of
// the result is built from element k of the source (deviance from the sibling
// conversions = a bug).
// r01OrdinateCodec: in package intgeom an integer ordinate becomes a float (and back) only inside the scaling codec
// ToGeomOrd / FromGeomOrd.  A raw float64(ordinate) or int64(float) elsewhere skips the 10^Precision scaling: the
// float intersection of two segments is then computed on numbers of ~1e15 whose products do not fit a float64
// mantissa, and truncating the result loses the exact equality the pixel border rules rely on.
func r01OrdinateCodec(c *core.Ctx) {
	const R = "R01"
	pk := c.P.PkgShort("intgeom")
	if pk == nil {
		return
	}
	n := 0
	bad := ""
	for _, f := range sortedFuncs(c.P) {
		if f.Pkg != pk || f.SSA == nil {
			continue
		}
		for _, fn := range core.AllSSAFuncs(f.SSA) {
			for _, b := range fn.Blocks {
				for _, in := range b.Instrs {
					cv, ok := in.(*ssa.Convert)
					if !ok {
						continue
					}
					src, ok1 := cv.X.Type().Underlying().(*types.Basic)
					dst, ok2 := cv.Type().Underlying().(*types.Basic)
					if !ok1 || !ok2 {
						continue
					}
					intToFloat := src.Info()&types.IsInteger != 0 && dst.Info()&types.IsFloat != 0 && src.Kind() == types.Int64
					floatToInt := src.Info()&types.IsFloat != 0 && dst.Info()&types.IsInteger != 0 && dst.Kind() == types.Int64
					if !intToFloat && !floatToInt {
						continue
					}
					n++
					name := f.Decl.Name.Name
					if (intToFloat && name == "ToGeomOrd") || (floatToInt && name == "FromGeomOrd") {
						continue
					}
					bad += fmt.Sprintf("%s @%s; ", f.Name, c.P.Pos(cv.Pos()))
				}
			}
		}
	}
	c.Check(R, "ordinate-conversions-only-in-codec/intgeom", token.NoPos, bad == "" && n >= 2, fmt.Sprintf("%d int64<->float64 conversions in package intgeom, all inside ToGeomOrd / FromGeomOrd", n), "an integer ordinate is converted to or from float64 outside the scaling codec ToGeomOrd/FromGeomOrd: "+bad)
}

func r01IndexAligned(c *core.Ctx) {
	const R = "R01"
	r01OrdinateCodec(c)
	pk := c.P.PkgShort("intgeom")
	if pk == nil {
		c.Bad(R, "anchor/intgeom", token.NoPos, "reason=anchor-unresolved: package intgeom not found")
		return
	}
	info := pk.TypesInfo
	for _, f := range pk.Syntax {
		for _, d := range f.Decls {
			fd, ok := d.(*ast.FuncDecl)
			if !ok || fd.Body == nil {
				continue
			}
			fname := c.P.ByObj[info.Defs[fd.Name].(*types.Func)].Name
			nlit := 0
			ast.Inspect(fd.Body, func(n ast.Node) bool {
				lit, ok := n.(*ast.CompositeLit)
				if !ok {
					return true
				}
				var leaves []leaf
				if !flattenLit(info, lit, nil, &leaves) || len(leaves) < 2 {
					return false
				}
				var src types.Object
				componentWise := true
				type res struct {
					l    leaf
					path []int64
				}
				var rs []res
				for _, l := range leaves {
					o, path, ok := sourcePath(c.P, info, l.expr)
					if !ok || (src != nil && o != src) || len(path) != len(l.target) {
						componentWise = false
						break
					}
					src = o
					rs = append(rs, res{l, path})
				}
				if !componentWise {
					return false
				}
				nlit++
				construct := fmt.Sprintf("index-aligned/%s/literal%d", fname, nlit)
				c.Saw(R, fmt.Sprintf("%s: %s @%s", fname, core.ExprStr(lit), c.P.Pos(lit.Pos())))
				bad := ""
				for _, r := range rs {
					if !pathEq(r.path, r.l.target) {
						bad += fmt.Sprintf("element %v is built from %s%v (%s); ", r.l.target, src.Name(), r.path, core.ExprStr(r.l.expr))
					}
				}
				c.Check(R, construct, lit.Pos(), bad == "",
					fmt.Sprintf("all %d elements built from the same index of %s", len(rs), src.Name()),
					"component-wise conversion is not index-aligned (all sibling conversions are): "+bad)
				return false
			})
		}
	}
	c.Floor(R, 6)
}

// ---------------------------------------------------------------- R10

var fromGeomIDs = []string{"intgeom.FromGeomOrd", "intgeom.FromGeomPoint", "intgeom.FromGeomLine", "intgeom.FromGeomExtent"}

// R10: inside the snapping call graph a float that came out of the integer
// domain must not be converted back: ToGeomOrd divides by 1e10 in float64 and
// FromGeomOrd truncates, which is not the identity for |ordinate| >~ 9e5 units.
// Conversions float->int are allowed only at the entry boundary of the integer
// domain: parameters of exported pointindex methods, tile-matrix-set bounding
// boxes, and values computed by third-party float code inside intgeom.
func r10NoLossyRoundTrip(c *core.Ctx) {
	const R = "R10"
	root := c.Anchor(R, "snap.SnapPolygon")
	if root == nil {
		return
	}
	reach := core.Reachable(c.P.VTA(), root.SSA)
	sites := 0
	for _, fn := range sortedFuncs(c.P) {
		if fn.SSA == nil {
			continue
		}
		if _, ok := reach[fn.SSA]; !ok {
			continue
		}
		info := fn.Pkg.TypesInfo
		pkgShort := core.ShortPkg(fn.Pkg.PkgPath)
		for _, call := range core.CallsIn(info, fn.Decl, fromGeomIDs...) {
			sites++
			callee := core.ShortFuncID(core.Callee(info, call))
			construct := fmt.Sprintf("float-to-int-site/%s/%s(%s)", fn.Name, callee, canon(call.Args[0]))
			c.Saw(R, fmt.Sprintf("%s calls %s(%s) @%s", fn.Name, callee, core.ExprStr(call.Args[0]), c.P.Pos(call.Pos())))
			ci := core.CallAt(fn.SSA, call.Lparen)
			if ci == nil {
				c.Unknown(R, construct, call.Pos(), "cannot map call to SSA")
				continue
			}
			origins := valueOrigins(ci.Common().Args[0], map[ssa.Value]bool{})
			desc := strings.Join(origins.list(), ", ")
			switch {
			case pkgShort == "intgeom":
				// library-internal: parameter pass-through or a value computed by non-module float code
				ok := origins.onlyKinds("param", "extcall", "const")
				c.Check(R, construct, call.Pos(), ok, "intgeom-internal conversion of "+desc,
					"conversion inside intgeom of a value that is neither a parameter nor computed by third-party float code: "+desc)
			case pkgShort == "pointindex" && fn.Obj.Exported():
				ok := origins.onlyKinds("param", "const") || origins.onlyCallsTo(core.ModPath+"/tms20.TileMatrixSet.MatrixBoundingBox")
				c.Check(R, construct, call.Pos(), ok, "entry boundary of the integer domain: "+desc,
					"exported pointindex function converts a float that is not its own parameter / the tile matrix set bounding box: "+desc)
			default:
				c.Bad(R, construct, call.Pos(), fmt.Sprintf(
					"%s converts a float back to the integer domain inside the snapping call graph (origin: %s). Every float in snap comes from intgeom.ToGeomPoint (int64/1e10 in float64) and %s truncates: the round trip is off by several units for |ordinate| >~ 9e5 (WebMercator: off by 3 observed), so equality / map lookups on the reconverted value miss", fn.Name, desc, callee),
					core.PathTo(reach, fn.SSA)...)
			}
		}
	}
	c.Note(R, "%d float->int conversion sites on the snapping call graph", sites)
	// boundary callers: arguments of the exported pointindex entry points are input-polygon data (R05, R06 decide the exact shape)
	c.Floor(R, 4)
}

// origin classification of an SSA value (intra-procedural backward slice)
type originSet map[string]string // description -> kind

func (o originSet) list() []string {
	var l []string
	for d, k := range o {
		l = append(l, k+":"+d)
	}
	sortStrings(l)
	return l
}

func (o originSet) onlyKinds(kinds ...string) bool {
	for _, k := range o {
		if !contains(kinds, k) {
			return false
		}
	}
	return len(o) > 0
}

func (o originSet) onlyCallsTo(ids ...string) bool {
	for d, k := range o {
		if k == "const" {
			continue
		}
		if (k != "modcall" && k != "extcall") || !contains(ids, d) {
			return false
		}
	}
	return len(o) > 0
}

func valueOrigins(v ssa.Value, seen map[ssa.Value]bool) originSet {
	out := originSet{}
	var walk func(v ssa.Value)
	walk = func(v ssa.Value) {
		if v == nil || seen[v] {
			return
		}
		seen[v] = true
		switch x := v.(type) {
		case *ssa.Parameter:
			out[x.Name()] = "param"
		case *ssa.FreeVar:
			out[x.Name()] = "freevar"
		case *ssa.Const:
			out["const"] = "const"
		case *ssa.Global:
			out[x.Name()] = "global"
		case *ssa.Call:
			id := core.StaticCalleeID(x)
			kind := "extcall"
			if f := x.Common().StaticCallee(); f != nil && core.IsModPath(core.FuncPkgPath(f)) {
				kind = "modcall"
			}
			if id == "" {
				id = "dynamic call " + x.String()
				kind = "dyncall"
			}
			out[id] = kind
		case *ssa.Extract:
			walk(x.Tuple)
		case *ssa.Phi:
			for _, e := range x.Edges {
				walk(e)
			}
		case *ssa.UnOp:
			walk(x.X)
		case *ssa.Index:
			walk(x.X)
		case *ssa.IndexAddr:
			walk(x.X)
		case *ssa.Field:
			walk(x.X)
		case *ssa.FieldAddr:
			walk(x.X)
		case *ssa.Slice:
			walk(x.X)
		case *ssa.Lookup:
			walk(x.X)
		case *ssa.ChangeType:
			walk(x.X)
		case *ssa.Convert:
			walk(x.X)
		case *ssa.MakeInterface:
			walk(x.X)
		case *ssa.BinOp:
			walk(x.X)
			walk(x.Y)
		case *ssa.Next:
			walk(x.Iter)
		case *ssa.Range:
			walk(x.X)
		case *ssa.Alloc:
			// local variable: everything stored into it
			any := false
			for _, ref := range *x.Referrers() {
				collectStores(ref, x, walk, &any)
			}
			if !any {
				out["alloc@"+x.Name()] = "alloc"
			}
		default:
			out[fmt.Sprintf("%T %s", v, v.String())] = "other"
		}
	}
	walk(v)
	return out
}

func collectStores(ref ssa.Instruction, base ssa.Value, walk func(ssa.Value), any *bool) {
	switch r := ref.(type) {
	case *ssa.Store:
		if r.Addr == base {
			*any = true
			walk(r.Val)
		}
	case *ssa.IndexAddr:
		if r.X == base {
			for _, rr := range *r.Referrers() {
				collectStores(rr, r, walk, any)
			}
		}
	case *ssa.FieldAddr:
		if r.X == base {
			for _, rr := range *r.Referrers() {
				collectStores(rr, r, walk, any)
			}
		}
	}
}

var _ = ast.Inspect
