package rules

import (
	"fmt"
	"go/token"
	"go/types"
	"strings"

	"golang.org/x/tools/go/ssa"

	"texelverif/internal/core"
)

// A small bottom-up write-effect analysis: for every function, through which
// parameters (and globals) may it write non-fresh memory, and is every such
// write addressed by a map/slice index that is a pure function of another
// parameter ("keyed by")?  Flow-insensitive, field-insensitive; call results
// are rooted in their pointer-like arguments unless the callee returns fresh
// memory.

type rootKind int

const (
	rkFresh rootKind = iota
	rkConst
	rkParam
	rkFreeVar
	rkGlobal
	rkUnknown
)

type root struct {
	kind rootKind
	idx  int    // parameter / free variable index
	name string // global name / reason
	keys map[int]bool
	via  bool // reached through at least one index/lookup
}

type writeEff struct {
	param int
	keys  map[int]bool // parameters that key the written location (empty = whole object)
	what  string
}

type fvWrite struct {
	idx  int
	name string
	what string
}

type fnSummary struct {
	fvWrites     []fvWrite // writes through captured variables: translated at the place the closure is made and called
	writes       []writeEff
	globals      []string
	unknown      []string
	comm         []string // channel operations, go statements, sync waits
	returnsFresh bool
	done         bool
}

type effAnalysis struct {
	p    *core.Prog
	idx  core.SiteCallees
	sums map[*ssa.Function]*fnSummary
}

func newEffAnalysis(p *core.Prog) *effAnalysis {
	return &effAnalysis{p: p, idx: p.SiteIndex(p.VTA()), sums: map[*ssa.Function]*fnSummary{}}
}

// newEffAnalysisIdx analyses another program (canary) with its own call-site index.
func newEffAnalysisIdx(p *core.Prog, idx core.SiteCallees) *effAnalysis {
	return &effAnalysis{p: p, idx: idx, sums: map[*ssa.Function]*fnSummary{}}
}

// stdlib / external behaviour table, by FuncID prefix
type extKind int

const (
	extUnknown         extKind = iota
	extPure                    // no writes to argument memory, no communication (may allocate, may panic)
	extOutput                  // writes only to process output (log, fmt.Print)
	extWritesArg0              // writes through its first argument only
	extSyncCommutative         // WaitGroup.Add/Done: commutative counter updates
	extWait                    // blocks (WaitGroup.Wait, Mutex.Lock …)
)

func classifyExternal(id string, pkg string) extKind {
	switch {
	case id == "sync.WaitGroup.Add" || id == "sync.WaitGroup.Done":
		return extSyncCommutative
	case pkg == "sync" || pkg == "sync/atomic":
		return extWait
	case pkg == "log":
		return extOutput
	case strings.HasPrefix(id, "fmt.Print") || strings.HasPrefix(id, "fmt.Fprint"):
		return extOutput
	case pkg == "fmt" || pkg == "errors" || pkg == "math" || pkg == "strconv" || pkg == "strings" || pkg == "unicode" || pkg == "unicode/utf8" || pkg == "math/bits" || pkg == "cmp" || pkg == "reflect":
		return extPure
	case id == "sort.Ints" || id == "sort.Strings" || id == "sort.Float64s" || id == "sort.Slice" || id == "sort.SliceStable" || id == "sort.Sort" || id == "sort.Stable":
		return extWritesArg0
	case pkg == "sort":
		return extPure // Search*, IsSorted …
	case id == "container/list.New" || id == "container/list.List.Init":
		return extPure
	}
	return extUnknown
}

// analysable: functions whose bodies are analysed (module, non-stdlib
// dependencies, and the generic helper packages slices/maps).
func analysable(f *ssa.Function) bool {
	if f == nil || len(f.Blocks) == 0 {
		return false
	}
	pkg := core.FuncPkgPath(f)
	if pkg == "slices" || pkg == "maps" || pkg == "container/list" {
		return true
	}
	return !core.IsStdlib(pkg)
}

func pointerLike(t types.Type) bool {
	switch u := t.Underlying().(type) {
	case *types.Pointer, *types.Slice, *types.Map, *types.Chan, *types.Interface, *types.Signature:
		return true
	case *types.Struct:
		for i := 0; i < u.NumFields(); i++ {
			if pointerLike(u.Field(i).Type()) {
				return true
			}
		}
	case *types.Array:
		return pointerLike(u.Elem())
	}
	return false
}

// pureParamOf: v is computed from exactly one parameter by conversions and
// arithmetic with constants; returns its index.
func pureParamOf(v ssa.Value, depth int) (int, bool) {
	if depth > 8 {
		return 0, false
	}
	switch x := v.(type) {
	case *ssa.Parameter:
		for i, p := range x.Parent().Params {
			if p == x {
				return i, true
			}
		}
	case *ssa.Convert:
		return pureParamOf(x.X, depth+1)
	case *ssa.ChangeType:
		return pureParamOf(x.X, depth+1)
	case *ssa.BinOp:
		if _, ok := x.Y.(*ssa.Const); ok {
			return pureParamOf(x.X, depth+1)
		}
		if _, ok := x.X.(*ssa.Const); ok {
			return pureParamOf(x.Y, depth+1)
		}
	}
	return 0, false
}

func mergeKeys(a map[int]bool, k int, ok bool) map[int]bool {
	out := map[int]bool{}
	for x := range a {
		out[x] = true
	}
	if ok {
		out[k] = true
	}
	return out
}

// roots walks an address/value back to what it belongs to.
func (ea *effAnalysis) roots(v ssa.Value, seen map[ssa.Value]bool) []root {
	if v == nil || seen[v] {
		return nil
	}
	seen[v] = true
	withKey := func(rs []root, idx ssa.Value) []root {
		k, ok := pureParamOf(idx, 0)
		out := make([]root, len(rs))
		for i, r := range rs {
			r.keys = mergeKeys(r.keys, k, ok)
			r.via = true
			out[i] = r
		}
		return out
	}
	switch x := v.(type) {
	case *ssa.Parameter:
		for i, p := range x.Parent().Params {
			if p == x {
				return []root{{kind: rkParam, idx: i}}
			}
		}
	case *ssa.FreeVar:
		for i, p := range x.Parent().FreeVars {
			if p == x {
				return []root{{kind: rkFreeVar, idx: i, name: x.Name()}}
			}
		}
	case *ssa.Global:
		return []root{{kind: rkGlobal, name: x.String()}}
	case *ssa.Const:
		return []root{{kind: rkConst}}
	case *ssa.Alloc, *ssa.MakeMap, *ssa.MakeSlice, *ssa.MakeChan, *ssa.MakeClosure:
		return []root{{kind: rkFresh}}
	case *ssa.MakeInterface:
		return ea.roots(x.X, seen)
	case *ssa.FieldAddr:
		return ea.roots(x.X, seen)
	case *ssa.Field:
		return ea.roots(x.X, seen)
	case *ssa.IndexAddr:
		return withKey(ea.roots(x.X, seen), x.Index)
	case *ssa.Index:
		return withKey(ea.roots(x.X, seen), x.Index)
	case *ssa.Lookup:
		return withKey(ea.roots(x.X, seen), x.Index)
	case *ssa.UnOp:
		if x.Op == token.MUL || x.Op == token.ARROW {
			return ea.roots(x.X, seen)
		}
		return []root{{kind: rkConst}}
	case *ssa.Slice:
		return ea.roots(x.X, seen)
	case *ssa.Phi:
		var out []root
		for _, e := range x.Edges {
			out = append(out, ea.roots(e, seen)...)
		}
		return out
	case *ssa.ChangeType:
		return ea.roots(x.X, seen)
	case *ssa.Convert:
		return ea.roots(x.X, seen)
	case *ssa.ChangeInterface:
		return ea.roots(x.X, seen)
	case *ssa.TypeAssert:
		return ea.roots(x.X, seen)
	case *ssa.Extract:
		return ea.roots(x.Tuple, seen)
	case *ssa.Next:
		if rg, ok := x.Iter.(*ssa.Range); ok {
			rs := ea.roots(rg.X, seen)
			for i := range rs {
				rs[i].via = true
			}
			return rs
		}
	case *ssa.BinOp:
		return []root{{kind: rkConst}}
	case *ssa.Call:
		if b, ok := x.Call.Value.(*ssa.Builtin); ok {
			switch b.Name() {
			case "append":
				return append(ea.roots(x.Call.Args[0], seen), root{kind: rkFresh})
			case "min", "max":
				var out []root
				for _, a := range x.Call.Args {
					out = append(out, ea.roots(a, seen)...)
				}
				return out
			}
			return []root{{kind: rkConst}}
		}
		if !pointerLike(x.Type()) {
			return []root{{kind: rkConst}}
		}
		callees := ea.idx.CalleesAt(x)
		allFresh := len(callees) > 0
		for _, cal := range callees {
			if !analysable(cal) || !ea.summary(cal).returnsFresh {
				allFresh = false
			}
		}
		if allFresh {
			return []root{{kind: rkFresh}}
		}
		var out []root
		if x.Call.IsInvoke() {
			out = append(out, ea.roots(x.Call.Value, seen)...)
		} else if _, isFn := x.Call.Value.(*ssa.Function); !isFn {
			out = append(out, ea.roots(x.Call.Value, seen)...)
		}
		for _, a := range x.Call.Args {
			if pointerLike(a.Type()) {
				out = append(out, ea.roots(a, seen)...)
			}
		}
		if len(out) == 0 {
			return []root{{kind: rkFresh}}
		}
		for i := range out {
			out[i].via = true
		}
		return out
	}
	return []root{{kind: rkUnknown, name: fmt.Sprintf("%T", v)}}
}

func (ea *effAnalysis) summary(f *ssa.Function) *fnSummary {
	if s, ok := ea.sums[f]; ok {
		return s // possibly in progress: optimistic for recursion
	}
	s := &fnSummary{}
	ea.sums[f] = s
	addWrite := func(rs []root, what string) {
		for _, r := range rs {
			switch r.kind {
			case rkParam:
				s.writes = append(s.writes, writeEff{param: r.idx, keys: r.keys, what: what})
			case rkFreeVar:
				s.fvWrites = append(s.fvWrites, fvWrite{r.idx, r.name, what})
			case rkGlobal:
				s.globals = append(s.globals, r.name+" ("+what+")")
			case rkUnknown:
				s.unknown = append(s.unknown, "write to unclassified memory ("+what+", "+r.name+")")
			}
		}
	}
	for _, b := range f.Blocks {
		for _, in := range b.Instrs {
			pos := ea.p.Pos(in.Pos())
			switch x := in.(type) {
			case *ssa.Store:
				addWrite(ea.roots(x.Addr, map[ssa.Value]bool{}), "store @"+pos)
			case *ssa.MapUpdate:
				rs := ea.roots(x.Map, map[ssa.Value]bool{})
				k, ok := pureParamOf(x.Key, 0)
				for i := range rs {
					rs[i].keys = mergeKeys(rs[i].keys, k, ok)
				}
				addWrite(rs, "map update @"+pos)
			case *ssa.Send:
				s.comm = append(s.comm, "send @"+pos)
			case *ssa.Select:
				s.comm = append(s.comm, "select @"+pos)
			case *ssa.Go:
				s.comm = append(s.comm, "go @"+pos)
				ea.callEffects(s, f, x, addWrite)
			case *ssa.UnOp:
				if x.Op == token.ARROW {
					s.comm = append(s.comm, "receive @"+pos)
				}
			case *ssa.Defer:
				ea.callEffects(s, f, x, addWrite)
			case *ssa.Call:
				if bi, ok := x.Call.Value.(*ssa.Builtin); ok {
					switch bi.Name() {
					case "append":
						addWrite(ea.roots(x.Call.Args[0], map[ssa.Value]bool{}), "append (spare capacity) @"+pos)
					case "copy":
						addWrite(ea.roots(x.Call.Args[0], map[ssa.Value]bool{}), "copy @"+pos)
					case "delete":
						rs := ea.roots(x.Call.Args[0], map[ssa.Value]bool{})
						k, ok := pureParamOf(x.Call.Args[1], 0)
						for i := range rs {
							rs[i].keys = mergeKeys(rs[i].keys, k, ok)
						}
						addWrite(rs, "delete @"+pos)
					case "close":
						s.comm = append(s.comm, "close @"+pos)
					case "clear":
						addWrite(ea.roots(x.Call.Args[0], map[ssa.Value]bool{}), "clear @"+pos)
					}
					continue
				}
				ea.callEffects(s, f, x, addWrite)
			case *ssa.Return:
			}
		}
	}
	// returns fresh memory?
	s.returnsFresh = true
	nret := 0
	for _, b := range f.Blocks {
		for _, in := range b.Instrs {
			if ret, ok := in.(*ssa.Return); ok {
				for _, r := range ret.Results {
					if !pointerLike(r.Type()) {
						continue
					}
					nret++
					for _, rt := range ea.roots(r, map[ssa.Value]bool{}) {
						if rt.kind != rkFresh && rt.kind != rkConst {
							s.returnsFresh = false
						}
					}
				}
			}
		}
	}
	_ = nret
	s.done = true
	return s
}

// callEffects translates the callee's summary to the caller.
func (ea *effAnalysis) callEffects(s *fnSummary, f *ssa.Function, ci ssa.CallInstruction, addWrite func([]root, string)) {
	com := ci.Common()
	pos := ea.p.Pos(ci.Pos())
	callees := ea.idx.CalleesAt(ci)
	if len(callees) == 0 {
		// neither VTA nor CHA (call by signature over all address-taken functions) finds a callee:
		// no function value of this type exists in the program, the call cannot execute
		_ = pos
		return
	}
	for _, cal := range callees {
		id := ""
		if obj, ok := cal.Object().(*types.Func); ok {
			id = core.FuncID(obj)
		}
		if !analysable(cal) {
			switch classifyExternal(id, core.FuncPkgPath(cal)) {
			case extPure, extOutput, extSyncCommutative:
			case extWait:
				s.comm = append(s.comm, id+" @"+pos)
			case extWritesArg0:
				if len(com.Args) > 0 {
					addWrite(ea.roots(com.Args[0], map[ssa.Value]bool{}), id+" @"+pos)
				}
			default:
				s.unknown = append(s.unknown, "call of unclassified external function "+cal.String()+" @"+pos)
			}
			continue
		}
		cs := ea.summary(cal)
		s.globals = append(s.globals, cs.globals...)
		s.comm = append(s.comm, cs.comm...)
		for _, u := range cs.unknown {
			s.unknown = append(s.unknown, cal.Name()+": "+u)
		}
		// writes through captured variables: where the closure is made right here, the variable is one of this
		// function's own; what the write can reach is what was stored into it
		if len(cs.fvWrites) > 0 {
			mc, direct := com.Value.(*ssa.MakeClosure)
			if direct && mc.Fn != ssa.Value(cal) {
				direct = false
			}
			for _, fw := range cs.fvWrites {
				if !direct || fw.idx >= len(mc.Bindings) {
					s.unknown = append(s.unknown, cal.Name()+": writes captured variable "+fw.name+" ("+fw.what+")")
					continue
				}
				addWrite(ea.capturedRoots(mc.Bindings[fw.idx]), cal.Name()+" -> "+fw.what)
			}
		}
		actual := func(p int) ssa.Value {
			if com.IsInvoke() {
				if p == 0 {
					return com.Value
				}
				if p-1 < len(com.Args) {
					return com.Args[p-1]
				}
				return nil
			}
			if p < len(com.Args) {
				return com.Args[p]
			}
			return nil
		}
		for _, w := range cs.writes {
			a := actual(w.param)
			if a == nil {
				continue
			}
			rs := ea.roots(a, map[ssa.Value]bool{})
			for i := range rs {
				// translate key parameters of the callee into key parameters of the caller
				for q := range w.keys {
					if qa := actual(q); qa != nil {
						if k, ok := pureParamOf(qa, 0); ok {
							rs[i].keys = mergeKeys(rs[i].keys, k, true)
						}
					}
				}
			}
			addWrite(rs, cal.Name()+" -> "+w.what)
		}
	}
}

// capturedRoots: what a write through the captured variable b (the address of one of the maker's variables) can
// reach: the variable itself (local) and whatever was stored into it.
func (ea *effAnalysis) capturedRoots(b ssa.Value) []root {
	a, ok := b.(*ssa.Alloc)
	if !ok {
		return ea.roots(b, map[ssa.Value]bool{})
	}
	out := []root{{kind: rkFresh}}
	for _, r := range *a.Referrers() {
		if st, ok := r.(*ssa.Store); ok && st.Addr == ssa.Value(a) && pointerLike(st.Val.Type()) {
			out = append(out, ea.roots(st.Val, map[ssa.Value]bool{})...)
		}
	}
	return out
}
