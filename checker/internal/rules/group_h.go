package rules

import (
	"fmt"
	"go/ast"
	"go/token"
	"go/types"
	"reflect"
	"regexp/syntax"
	"sort"
	"strconv"
	"strings"

	"golang.org/x/tools/go/ssa"

	"texelverif/internal/core"
)

func init() {
	reg("R39", r39JSONKeysAgree)
	reg("R40", r40DecodeTotal)
}

func isStringAnyMap(t types.Type) bool {
	m, ok := t.Underlying().(*types.Map)
	if !ok {
		return false
	}
	k, ok := m.Key().Underlying().(*types.Basic)
	if !ok || k.Kind() != types.String {
		return false
	}
	i, ok := m.Elem().Underlying().(*types.Interface)
	return ok && i.Empty()
}

// constKeyLookups lists m["const"] expressions on map[string]interface{} values in n.
type keyLookup struct {
	key   string
	expr  *ast.IndexExpr
	mapID string
}

func constKeyLookups(info *types.Info, n ast.Node) []keyLookup {
	var out []keyLookup
	ast.Inspect(n, func(x ast.Node) bool {
		ix, ok := x.(*ast.IndexExpr)
		if !ok {
			return true
		}
		t := info.TypeOf(ix.X)
		if t == nil || !isStringAnyMap(t) {
			return true
		}
		if k, ok := core.ConstString(info, ix.Index); ok {
			out = append(out, keyLookup{k, ix, core.ExprStr(ix.X)})
		}
		return true
	})
	return out
}

// helperKeyLookups finds calls helper(m, "key") of package helpers whose body looks m up by that string parameter
// (`v, ok := m[key]`); required reports whether absence ends in an error there.
type helperLookup struct {
	key      string
	call     *ast.CallExpr
	required bool
	commaOK  bool
}

func helperKeyLookups(p *core.Prog, info *types.Info, n ast.Node) []helperLookup {
	var out []helperLookup
	ast.Inspect(n, func(x ast.Node) bool {
		call, ok := x.(*ast.CallExpr)
		if !ok {
			return true
		}
		cal := core.Callee(info, call)
		if cal == nil {
			return true
		}
		h := p.ByObj[cal.Origin()]
		if h == nil || h.Decl.Body == nil || !core.IsModPath(h.Pkg.PkgPath) {
			return true
		}
		hs := h.Obj.Type().(*types.Signature)
		hinfo := h.Pkg.TypesInfo
		for i := 0; i < hs.Params().Len() && i < len(call.Args); i++ {
			key, isConst := core.ConstString(info, call.Args[i])
			if !isConst {
				continue
			}
			kp := hs.Params().At(i)
			ast.Inspect(h.Decl.Body, func(y ast.Node) bool {
				ix, ok := y.(*ast.IndexExpr)
				if !ok || core.ObjOf(hinfo, ix.Index) != kp {
					return true
				}
				if t := hinfo.TypeOf(ix.X); t == nil || !isStringAnyMap(t) {
					return true
				}
				// the map is one of the helper's parameters, filled by the caller with a string->any map
				if mo := core.ObjOf(hinfo, ix.X); mo != nil {
					for j := 0; j < hs.Params().Len() && j < len(call.Args); j++ {
						if hs.Params().At(j) == mo {
							out = append(out, helperLookup{key, call, requiredLookup(p, hinfo, h.Decl.Body, ix), commaOK(h.Decl.Body, ix)})
						}
					}
				}
				return true
			})
		}
		return true
	})
	return out
}

func jsonName(tag string) (name string, opts string, has bool) {
	v, ok := reflect.StructTag(tag).Lookup("json")
	if !ok {
		return "", "", false
	}
	parts := strings.SplitN(v, ",", 2)
	if len(parts) == 2 {
		opts = parts[1]
	}
	return parts[0], opts, true
}

func methodsOf(p *core.Prog, pkgShort, typeName string) map[string]*core.Func {
	out := map[string]*core.Func{}
	prefix := pkgShort + "." + typeName + "."
	for name, f := range p.Funcs {
		if strings.HasPrefix(name, prefix) {
			out[strings.TrimPrefix(name, prefix)] = f
		}
	}
	return out
}

func setEq(a, b map[string]bool) bool {
	if len(a) != len(b) {
		return false
	}
	for k := range a {
		if !b[k] {
			return false
		}
	}
	return true
}

func setStr(a map[string]bool) string {
	var l []string
	for k := range a {
		l = append(l, k)
	}
	sortStrings(l)
	return "{" + strings.Join(l, ", ") + "}"
}

func lowerSet(a map[string]bool) map[string]bool {
	out := map[string]bool{}
	for k := range a {
		out[strings.ToLower(k)] = true
	}
	return out
}

// r39EncodersDoNotRewrite: no MarshalJSON of tms20 stores into a field of a tms20 model value (the encoder emits
// what was decoded; e.g. rewriting TileMatrix.ID from the map key loses a non-canonical id).
func r39EncodersDoNotRewrite(c *core.Ctx, R string) {
	n := 0
	for _, f := range sortedFuncs(c.P) {
		if core.ShortPkg(f.Pkg.PkgPath) != "tms20" || f.Decl.Name.Name != "MarshalJSON" || f.SSA == nil {
			continue
		}
		n++
		bad := ""
		// the method, its closures, and the package helpers it calls (two levels)
		fns := core.AllSSAFuncs(f.SSA)
		seenFn := map[*ssa.Function]bool{}
		for _, x := range fns {
			seenFn[x] = true
		}
		for depth := 0; depth < 2; depth++ {
			for _, x := range append([]*ssa.Function{}, fns...) {
				for _, b := range x.Blocks {
					for _, in := range b.Instrs {
						if ci, ok := in.(ssa.CallInstruction); ok {
							if g := ci.Common().StaticCallee(); g != nil && !seenFn[g] && len(g.Blocks) > 0 && core.ShortPkg(core.FuncPkgPath(g)) == "tms20" && !strings.HasSuffix(g.Name(), "MarshalJSON") {
								seenFn[g] = true
								fns = append(fns, core.AllSSAFuncs(g)...)
							}
						}
					}
				}
			}
		}
		for _, fn := range fns {
			for _, b := range fn.Blocks {
				for _, in := range b.Instrs {
					st, ok := in.(*ssa.Store)
					if !ok {
						continue
					}
					fa, ok := st.Addr.(*ssa.FieldAddr)
					if !ok {
						continue
					}
					t := fa.X.Type()
					if p, ok := t.Underlying().(*types.Pointer); ok {
						t = p.Elem()
					}
					nt, ok := t.(*types.Named)
					if !ok || nt.Obj().Pkg() == nil || core.ShortPkg(nt.Obj().Pkg().Path()) != "tms20" {
						continue
					}
					bad += fmt.Sprintf("%s.%s @%s; ", nt.Obj().Name(), fieldNameOf(fa.X.Type(), fa.Field), c.P.Pos(st.Pos()))
				}
			}
		}
		// nor does it compute with the numbers it encodes: no floating-point arithmetic and no math.* call in the
		// encoder or the package helpers it uses (a coordinate rounded on the way out decodes to another value)
		comp := ""
		for _, fn := range fns {
			for _, b := range fn.Blocks {
				for _, in := range b.Instrs {
					switch x := in.(type) {
					case *ssa.BinOp:
						if bt, ok := x.X.Type().Underlying().(*types.Basic); ok && bt.Info()&types.IsFloat != 0 {
							switch x.Op {
							case token.ADD, token.SUB, token.MUL, token.QUO:
								comp += fmt.Sprintf("%s in %s @%s; ", x.Op, fn.Name(), c.P.Pos(x.Pos()))
							}
						}
					case ssa.CallInstruction:
						if id := core.StaticCalleeID(x); strings.HasPrefix(id, "math.") {
							comp += fmt.Sprintf("%s in %s @%s; ", id, fn.Name(), c.P.Pos(x.Pos()))
						}
					}
				}
			}
		}
		c.Check(R, "encoder-does-not-compute/"+f.Name, f.Decl.Pos(), comp == "", "no floating-point arithmetic on the way out", "MarshalJSON changes numbers while encoding them ("+comp+"): decode(encode(v)) is no longer v")
		c.Check(R, "encoder-does-not-rewrite/"+f.Name, f.Decl.Pos(), bad == "", "MarshalJSON writes no field of a tms20 value", "MarshalJSON assigns to a field of the value it encodes ("+bad+"): the encoding no longer reflects what was decoded")
	}
	if n < 3 {
		c.Bad(R, "encoder-does-not-rewrite/inventory", token.NoPos, fmt.Sprintf("only %d MarshalJSON methods found in tms20", n))
	}
}

// R39: every hand-written JSON codec in tms20 reads the keys it writes; the
// three CRS variants are distinguishable by their required key.
func r39JSONKeysAgree(c *core.Ctx) {
	const R = "R39"
	pk := c.P.PkgShort("tms20")
	if pk == nil {
		c.Bad(R, "anchor/tms20", token.NoPos, "reason=anchor-unresolved: package tms20 not found")
		return
	}
	info := pk.TypesInfo
	scope := pk.Types.Scope()
	crsIface, _ := scope.Lookup("CRS").(*types.TypeName)
	type codec struct {
		name     string
		writer   map[string]bool
		reader   map[string]bool
		required map[string]bool
		isCRS    bool
		pos      token.Pos
	}
	var codecs []*codec
	names := scope.Names()
	for _, tn := range names {
		obj, ok := scope.Lookup(tn).(*types.TypeName)
		if !ok {
			continue
		}
		ms := methodsOf(c.P, "tms20", tn)
		mw, mr := ms["MarshalJSON"], ms["UnmarshalJSON"]
		if mw == nil || mr == nil {
			continue
		}
		cd := &codec{name: tn, writer: map[string]bool{}, reader: map[string]bool{}, required: map[string]bool{}, pos: mw.Decl.Pos()}
		if crsIface != nil {
			if it, ok := crsIface.Type().Underlying().(*types.Interface); ok {
				cd.isCRS = types.Implements(types.NewPointer(obj.Type()), it)
			}
		}
		// writer keys: struct values handed to json.Marshal
		nstruct := 0
		for _, call := range core.CallsIn(info, mw.Decl, "encoding/json.Marshal") {
			t := info.TypeOf(call.Args[0])
			st, ok := t.Underlying().(*types.Struct)
			if !ok {
				c.Note(R, "%s.MarshalJSON also marshals a non-struct value %s (plain form)", tn, core.ExprStr(call.Args[0]))
				continue
			}
			nstruct++
			for i := 0; i < st.NumFields(); i++ {
				f := st.Field(i)
				if f.Embedded() {
					continue
				}
				name, _, has := jsonName(st.Tag(i))
				if !has || name == "" {
					name = f.Name()
				}
				if name != "-" {
					cd.writer[name] = true
				}
			}
		}
		if nstruct == 0 {
			c.Unknown(R, "writer-keys/"+tn, mw.Decl.Pos(), "MarshalJSON does not marshal a struct literal; writer keys cannot be derived")
			continue
		}
		// reader keys
		for _, m := range []*core.Func{mr, ms["UnmarshalJSONFromMap"]} {
			if m == nil {
				continue
			}
			for _, l := range constKeyLookups(info, m.Decl) {
				cd.reader[l.key] = true
				// required: `v, ok := m["k"]` followed by `if !ok { return … }`
				if requiredLookup(c.P, info, m.Decl.Body, l.expr) {
					cd.required[l.key] = true
				}
			}
			for _, hl := range helperKeyLookups(c.P, info, m.Decl.Body) {
				cd.reader[hl.key] = true
				if hl.required {
					cd.required[hl.key] = true
				}
			}
			// keys read by package helpers that are handed the decoded map (shared "optional description" code)
			ast.Inspect(m.Decl.Body, func(n ast.Node) bool {
				call, ok := n.(*ast.CallExpr)
				if !ok {
					return true
				}
				cal := core.Callee(info, call)
				if cal == nil {
					return true
				}
				h := c.P.ByObj[cal.Origin()]
				if h == nil || h.Pkg != pk || h.Decl.Body == nil {
					return true
				}
				// plain helpers, and methods of the same type other than codec methods (phases of the decoder)
				if h.Decl.Recv != nil && (strings.Contains(h.Decl.Name.Name, "arshalJSON") || !strings.HasPrefix(h.Name, "tms20."+tn+".")) {
					return true
				}
				passesMap := false
				for _, a := range call.Args {
					if t := info.TypeOf(a); t != nil && isStringAnyMap(t) {
						passesMap = true
					}
				}
				if !passesMap {
					return true
				}
				for _, l := range constKeyLookups(info, h.Decl) {
					cd.reader[l.key] = true
					if requiredLookup(c.P, info, h.Decl.Body, l.expr) {
						cd.required[l.key] = true
					}
				}
				return true
			})
		}
		codecs = append(codecs, cd)
		c.Saw(R, fmt.Sprintf("tms20.%s: writes %s reads %s requires %s", tn, setStr(cd.writer), setStr(cd.reader), setStr(cd.required)))
		c.Check(R, "keys-agree/tms20."+tn, mw.Decl.Pos(), setEq(cd.writer, cd.reader),
			"writer and reader use the same keys "+setStr(cd.writer),
			fmt.Sprintf("MarshalJSON writes keys %s but UnmarshalJSON(FromMap) reads %s: decode(encode(v)) loses or misroutes a key", setStr(cd.writer), setStr(cd.reader)))
		// fields excluded from the generic codec (json:"-") must be the re-added special keys
		if st, ok := obj.Type().Underlying().(*types.Struct); ok {
			dash := map[string]bool{}
			tagged := false
			for i := 0; i < st.NumFields(); i++ {
				name, _, has := jsonName(st.Tag(i))
				if has {
					tagged = true
				}
				if has && name == "-" {
					dash[st.Field(i).Name()] = true
				}
			}
			if tagged {
				c.Check(R, "dash-fields-are-specials/tms20."+tn, obj.Pos(), setEq(lowerSet(dash), lowerSet(cd.writer)),
					"fields tagged json:\"-\" "+setStr(dash)+" are exactly the specially handled keys",
					fmt.Sprintf("fields tagged json:\"-\" %s differ from the specially written keys %s", setStr(dash), setStr(cd.writer)))
			}
		}
	}
	// CRS variants: distinguishable by required key
	var crs []*codec
	for _, cd := range codecs {
		if cd.isCRS {
			crs = append(crs, cd)
		}
	}
	for _, a := range crs {
		c.Check(R, "crs-has-required-key/tms20."+a.name, a.pos, len(a.required) > 0, "required key(s) "+setStr(a.required), "CRS variant has no required key; unmarshalCRS's first-match order decides the variant")
		for _, b := range crs {
			if a == b {
				continue
			}
			clash := ""
			for k := range b.required {
				if a.writer[k] {
					clash = k
				}
			}
			c.Check(R, fmt.Sprintf("crs-variants-exclusive/tms20.%s-vs-%s", a.name, b.name), a.pos, clash == "",
				fmt.Sprintf("%s never writes a key that %s requires", a.name, b.name),
				fmt.Sprintf("%s.MarshalJSON writes key %q which is the required key of %s: the re-encoded document decodes as a different CRS variant", a.name, clash, b.name))
		}
	}
	r39EncodersDoNotRewrite(c, R)
	c.FloorPrefix(R, "keys-agree/", 5)
	c.FloorPrefix(R, "crs-variants-exclusive/", 6)
}

// requiredLookup: lookup is `v, ok := m[k]` and the next statement is
// `if !ok { return … }`.
func requiredLookup(p *core.Prog, info *types.Info, body *ast.BlockStmt, ix *ast.IndexExpr) bool {
	path := pathTo(body, ix)
	for i := len(path) - 1; i > 0; i-- {
		as, ok := path[i].(*ast.AssignStmt)
		if !ok || len(as.Lhs) != 2 || len(as.Rhs) != 1 || ast.Unparen(as.Rhs[0]) != ast.Expr(ix) {
			continue
		}
		okObj := core.ObjOf(info, as.Lhs[1])
		var list []ast.Stmt
		switch b := path[i-1].(type) {
		case *ast.BlockStmt:
			list = b.List
		case *ast.CaseClause:
			list = b.Body
		}
		for k, s := range list {
			if s == ast.Stmt(as) && k+1 < len(list) {
				if is, ok := list[k+1].(*ast.IfStmt); ok && is.Init == nil {
					if u, ok := ast.Unparen(is.Cond).(*ast.UnaryExpr); ok && u.Op == token.NOT && core.ObjOf(info, u.X) == okObj && okObj != nil {
						// absence must end in an error (or abort), not in a quiet `return nil`
						if len(is.Body.List) > 0 {
							if ret, isRet := is.Body.List[len(is.Body.List)-1].(*ast.ReturnStmt); isRet {
								return returnsError(p, info, is.Body) && len(ret.Results) > 0
							}
						}
						return terminates(p, info, is.Body)
					}
				}
			}
		}
	}
	return false
}

// commaOK reports whether the expression (index or type assertion) is the
// sole right-hand side of a two-value assignment / declaration.
func commaOK(body ast.Node, e ast.Expr) bool {
	path := pathTo(body, e)
	for i := len(path) - 2; i >= 0; i-- {
		switch s := path[i].(type) {
		case *ast.ParenExpr:
			continue
		case *ast.AssignStmt:
			return len(s.Lhs) == 2 && len(s.Rhs) == 1 && ast.Unparen(s.Rhs[0]) == e
		case *ast.ValueSpec:
			return len(s.Names) == 2 && len(s.Values) == 1 && ast.Unparen(s.Values[0]) == e
		default:
			return false
		}
	}
	return false
}

// R40: decoding a tile matrix set cannot panic in texel's own code and cannot
// return success without validation.
func r40DecodeTotal(c *core.Ctx) {
	const R = "R40"
	pk := c.P.PkgShort("tms20")
	if pk == nil {
		c.Bad(R, "anchor/tms20", token.NoPos, "reason=anchor-unresolved: package tms20 not found")
		return
	}
	info := pk.TypesInfo
	// decode graph: module functions reachable from any UnmarshalJSON / UnmarshalJSONFromMap method of tms20
	var roots []*ssa.Function
	for name, f := range c.P.Funcs {
		if strings.HasPrefix(name, "tms20.") && (strings.HasSuffix(name, ".UnmarshalJSON") || strings.HasSuffix(name, ".UnmarshalJSONFromMap")) && f.SSA != nil {
			roots = append(roots, f.SSA)
		}
	}
	if len(roots) < 8 {
		c.Bad(R, "decode-roots", token.NoPos, fmt.Sprintf("only %d UnmarshalJSON(FromMap) methods found in tms20, expected >= 8", len(roots)))
	}
	reach := core.Reachable(c.P.VTA(), roots...)
	var decodeFuncs []*core.Func
	for _, f := range sortedFuncs(c.P) {
		if f.SSA != nil {
			if _, ok := reach[f.SSA]; ok {
				decodeFuncs = append(decodeFuncs, f)
				c.Saw(R, "decode graph: "+f.Name)
			}
		}
	}
	// (a) type assertions comma-ok or type switch
	for _, f := range decodeFuncs {
		finfo := f.Pkg.TypesInfo
		n := 0
		ast.Inspect(f.Decl.Body, func(x ast.Node) bool {
			ta, ok := x.(*ast.TypeAssertExpr)
			if !ok {
				return true
			}
			if ta.Type == nil { // x.(type) in a type switch
				return true
			}
			n++
			construct := fmt.Sprintf("assertion-checked/%s/%s#%d", f.Name, canon(ta), n)
			c.Check(R, construct, ta.Pos(), commaOK(f.Decl.Body, ta), "comma-ok form",
				"single-value type assertion "+core.ExprStr(ta)+" on decoded data panics for a document with a wrong type at this key")
			_ = finfo
			return true
		})
	}
	// (a') and the outcome of every comma-ok assertion is tested: `v, _ := x.(T)` turns a wrong type into the zero
	// value, which the code behind it may accept as a legitimate document value
	for _, f := range decodeFuncs {
		if f.SSA == nil {
			continue
		}
		var tas []*ssa.TypeAssert
		for _, fn := range append([]*ssa.Function{f.SSA}, f.SSA.AnonFuncs...) {
			for _, b := range fn.Blocks {
				for _, in := range b.Instrs {
					if ta, ok := in.(*ssa.TypeAssert); ok && ta.CommaOk && ta.Pos().IsValid() {
						tas = append(tas, ta)
					}
				}
			}
		}
		sort.Slice(tas, func(i, j int) bool { return tas[i].Pos() < tas[j].Pos() })
		for n, ta := range tas {
			tested := false
			seen := map[ssa.Value]bool{}
			var follow func(v ssa.Value, depth int)
			follow = func(v ssa.Value, depth int) {
				if v == nil || seen[v] || depth > 8 || v.Referrers() == nil {
					return
				}
				seen[v] = true
				for _, r := range *v.Referrers() {
					switch x := r.(type) {
					case *ssa.If:
						tested = true
					case *ssa.UnOp:
						follow(x, depth+1)
					case *ssa.BinOp:
						follow(x, depth+1)
					case *ssa.Phi:
						follow(x, depth+1)
					case *ssa.Store:
						if x.Val == v {
							follow(x.Addr, depth+1)
						}
					}
				}
			}
			for _, r := range *ta.Referrers() {
				if e, ok := r.(*ssa.Extract); ok && e.Index == 1 {
					follow(e, 0)
				}
			}
			// a type switch compiles to comma-ok assertions whose outcome selects the case
			c.Check(R, fmt.Sprintf("assertion-outcome-tested/%s#%d", f.Name, n+1), ta.Pos(), tested, "the ok result decides a branch",
				"the ok result of the type assertion to "+ta.AssertedType.String()+" is discarded: a document with a wrong type at this key is decoded as the zero value instead of being rejected")
		}
	}
	// (b) submatch indices within the capture groups of every pattern the slice may come from, and nil-checked
	groups := map[types.Object]int{} // regexp var -> capture groups
	for _, f := range pk.Syntax {
		for _, d := range f.Decls {
			gd, ok := d.(*ast.GenDecl)
			if !ok || gd.Tok != token.VAR {
				continue
			}
			for _, sp := range gd.Specs {
				vs := sp.(*ast.ValueSpec)
				for i, nm := range vs.Names {
					if i >= len(vs.Values) {
						continue
					}
					call, ok := vs.Values[i].(*ast.CallExpr)
					if !ok || !core.IsCallTo(info, call, "regexp.MustCompile") || len(call.Args) != 1 {
						continue
					}
					pat, ok := core.ConstString(info, call.Args[0])
					if !ok {
						continue
					}
					re, err := syntax.Parse(pat, syntax.Perl)
					if err != nil {
						c.Bad(R, "regexp-parses/"+nm.Name, call.Pos(), "pattern does not parse: "+err.Error())
						continue
					}
					groups[info.Defs[nm]] = re.MaxCap()
				}
			}
		}
	}
	for _, f := range decodeFuncs {
		if f.Pkg != pk {
			continue
		}
		// variables assigned from re.FindStringSubmatch
		minGroups := map[types.Object]int{}
		ast.Inspect(f.Decl.Body, func(x ast.Node) bool {
			as, ok := x.(*ast.AssignStmt)
			if !ok || len(as.Lhs) != 1 || len(as.Rhs) != 1 {
				return true
			}
			call, ok := as.Rhs[0].(*ast.CallExpr)
			if !ok || !core.IsCallTo(info, call, "regexp.Regexp.FindStringSubmatch") {
				return true
			}
			sel, _ := call.Fun.(*ast.SelectorExpr)
			if sel == nil {
				return true
			}
			g, known := groups[core.ObjOf(info, sel.X)]
			lhs := core.ObjOf(info, as.Lhs[0])
			if !known {
				g = -1
			}
			if cur, seen := minGroups[lhs]; !seen || g < cur {
				minGroups[lhs] = g
			}
			return true
		})
		// any other value given to such a variable (a strings.Split result, a sub-slice, …) has a length the
		// patterns say nothing about
		ast.Inspect(f.Decl.Body, func(x ast.Node) bool {
			as, ok := x.(*ast.AssignStmt)
			if !ok || len(as.Lhs) != len(as.Rhs) {
				return true
			}
			for i := range as.Lhs {
				lhs := core.ObjOf(info, as.Lhs[i])
				if _, tracked := minGroups[lhs]; !tracked || lhs == nil {
					continue
				}
				if call, ok := ast.Unparen(as.Rhs[i]).(*ast.CallExpr); ok && core.IsCallTo(info, call, "regexp.Regexp.FindStringSubmatch") {
					continue
				}
				if canon(as.Rhs[i]) == "nil" {
					continue
				}
				minGroups[lhs] = -1
			}
			return true
		})
		ast.Inspect(f.Decl.Body, func(x ast.Node) bool {
			ix, ok := x.(*ast.IndexExpr)
			if !ok {
				return true
			}
			obj := core.ObjOf(info, ix.X)
			g, tracked := minGroups[obj]
			if !tracked {
				return true
			}
			k, isConst := core.ConstInt(info, ix.Index)
			construct := fmt.Sprintf("submatch-index-in-range/%s/%s", f.Name, canon(ix))
			if !isConst || g < 0 {
				c.Unknown(R, construct, ix.Pos(), "non-constant submatch index or unknown pattern")
				return true
			}
			nilChecked := false
			// on the SSA form: the indexed value is non-nil on every way into the indexing (handles a re-assignment
			// with its own nil check nested in the first one)
			if f.SSA != nil {
				for _, b := range f.SSA.Blocks {
					for _, in := range b.Instrs {
						if ia, ok := in.(*ssa.IndexAddr); ok && ia.Pos() == ix.Lbrack && provenNonNil(ia.X, b, 0) {
							nilChecked = true
						}
					}
				}
			}
			for _, gd := range guardsBefore(c.P, info, f.Decl.Body, ix) {
				if !gd.IsTrue {
					for _, dj := range disjuncts(gd.Cond) {
						if canon(dj) == obj.Name()+"==nil" {
							nilChecked = true
						}
					}
				}
			}
			c.Check(R, construct, ix.Pos(), int(k) <= g && nilChecked,
				fmt.Sprintf("index %d <= %d capture groups of every pattern, after a nil check", k, g),
				fmt.Sprintf("index %d into a FindStringSubmatch result: smallest pattern has %d capture groups, nil-checked=%v", k, g, nilChecked))
			return true
		})
	}
	// (c) key lookups on decoded maps are comma-ok; lookups on the leftover map of marshmallow are required
	for _, f := range decodeFuncs {
		if f.Pkg != pk {
			continue
		}
		for _, hl := range helperKeyLookups(c.P, info, f.Decl.Body) {
			mapID := ""
			for _, a := range hl.call.Args {
				if t := info.TypeOf(a); t != nil && isStringAnyMap(t) {
					mapID = core.ExprStr(a)
				}
			}
			construct := fmt.Sprintf("lookup-checked/%s/%s[%q]", f.Name, mapID, hl.key)
			if mapID == "specials" {
				c.Check(R, construct, hl.call.Pos(), hl.commaOK && hl.required, "comma-ok lookup in the helper, absence returns an error",
					"special key "+hl.key+" is not looked up in comma-ok form with an error return on absence")
			} else {
				c.Check(R, construct, hl.call.Pos(), hl.commaOK, "comma-ok lookup in the helper", "single-value lookup of "+hl.key+" hides a missing key")
			}
		}
		for _, l := range constKeyLookups(info, f.Decl.Body) {
			construct := fmt.Sprintf("lookup-checked/%s/%s[%q]", f.Name, l.mapID, l.key)
			ok := commaOK(f.Decl.Body, l.expr)
			req := requiredLookup(c.P, info, f.Decl.Body, l.expr)
			if l.mapID == "specials" {
				c.Check(R, construct, l.expr.Pos(), ok && req, "comma-ok lookup, absence returns an error",
					"special key "+l.key+" is not looked up in comma-ok form with an error return on absence")
			} else {
				c.Check(R, construct, l.expr.Pos(), ok, "comma-ok lookup", "single-value lookup of "+l.key+" hides a missing key")
			}
		}
	}
	// (d) no success without validation
	for _, name := range []string{"tms20.TileMatrixSet.UnmarshalJSON", "tms20.TileMatrix.UnmarshalJSONFromMap", "tms20.TwoDBoundingBox.UnmarshalJSON",
		"tms20.URICRS.UnmarshalJSONFromMap", "tms20.WKTCRS.UnmarshalJSONFromMap", "tms20.ReferenceSystemCRS.UnmarshalJSONFromMap"} {
		f := c.Anchor(R, name)
		if f == nil {
			continue
		}
		nret, validated := 0, 0
		bad := ""
		if f.SSA == nil || len(f.SSA.Params) == 0 {
			continue
		}
		recvP := f.SSA.Params[0]
		isValidate := func(v ssa.Value) bool {
			call, ok := v.(*ssa.Call)
			if !ok || call.Call.StaticCallee() == nil || core.StaticCalleeID(call) != "github.com/go-playground/validator/v10.Validate.Struct" || len(call.Call.Args) < 2 {
				return false
			}
			a := call.Call.Args[1]
			for {
				switch x := a.(type) {
				case *ssa.MakeInterface:
					a = x.X
					continue
				case *ssa.ChangeInterface:
					a = x.X
					continue
				}
				break
			}
			return a == recvP
		}
		// the block is entered only when a validate.Struct(receiver) result was nil
		behindAcceptance := func(at *ssa.BasicBlock) bool {
			for d := at; d != nil; d = d.Idom() {
				i := core.BlockIf(d)
				if i == nil {
					continue
				}
				bo, ok := i.Cond.(*ssa.BinOp)
				if !ok || (bo.Op != token.EQL && bo.Op != token.NEQ) {
					continue
				}
				l, r := bo.X, bo.Y
				if isNilConst(l) {
					l, r = r, l
				}
				if !isNilConst(r) || !isValidate(l) {
					continue
				}
				sx := d.Succs[1]
				if bo.Op == token.EQL {
					sx = d.Succs[0]
				}
				if (sx == at || sx.Dominates(at)) && len(sx.Preds) == 1 {
					return true
				}
			}
			return false
		}
		var classify func(v ssa.Value, at *ssa.BasicBlock, pos token.Pos, depth int)
		classify = func(v ssa.Value, at *ssa.BasicBlock, pos token.Pos, depth int) {
			switch x := v.(type) {
			case *ssa.Call:
				id := core.StaticCalleeID(x)
				switch {
				case id == "errors.New" || id == "fmt.Errorf":
					return
				case isValidate(x):
					validated++
					return
				}
				if provenNonNil(v, at, 0) {
					return
				}
				bad += fmt.Sprintf("returns result of %s @%s; ", id, c.P.Pos(pos))
				return
			case *ssa.Const:
				if x.IsNil() {
					if behindAcceptance(at) {
						validated++
						return
					}
					bad += fmt.Sprintf("returns nil without validation @%s; ", c.P.Pos(pos))
					return
				}
			case *ssa.Phi:
				if depth < 4 {
					for k, e := range x.Edges {
						classify(e, x.Block().Preds[k], pos, depth+1)
					}
					return
				}
			}
			if provenNonNil(v, at, 0) {
				return
			}
			bad += fmt.Sprintf("returns %s which may be nil @%s; ", v.Name(), c.P.Pos(pos))
		}
		for _, b := range f.SSA.Blocks {
			for _, in := range b.Instrs {
				ret, ok := in.(*ssa.Return)
				if !ok {
					continue
				}
				nret++
				if len(ret.Results) != 1 {
					bad += fmt.Sprintf("return with %d results @%s; ", len(ret.Results), c.P.Pos(ret.Pos()))
					continue
				}
				classify(ret.Results[0], b, ret.Pos(), 0)
			}
		}
		c.Check(R, "success-only-via-validate/"+name, f.Decl.Pos(), bad == "" && validated >= 1,
			fmt.Sprintf("%d returns: errors, or validate.Struct(receiver)", nret),
			"a decoder can return success without running the struct validation: "+bad)
	}
	// (e0) defaults.Set runs before the validator: a member that is required must not have a default, or its
	// absence is filled in and passes ("required" then says nothing about the document)
	{
		nreq := 0
		sc := pk.Types.Scope()
		for _, name := range sc.Names() {
			tn, ok := sc.Lookup(name).(*types.TypeName)
			if !ok {
				continue
			}
			st, ok := tn.Type().Underlying().(*types.Struct)
			if !ok {
				continue
			}
			for i := 0; i < st.NumFields(); i++ {
				tag := reflect.StructTag(st.Tag(i))
				v, _ := tag.Lookup("validate")
				req := false
				for _, p := range strings.Split(v, ",") {
					if p == "required" {
						req = true
					}
				}
				if !req {
					continue
				}
				nreq++
				if d, has := tag.Lookup("default"); has && d != "" {
					c.Bad(R, "required-member-has-no-default/tms20."+name+"."+st.Field(i).Name(), st.Field(i).Pos(),
						fmt.Sprintf("%s.%s is required and has the default %q: defaults are set before validation, a document without this member is completed and accepted instead of rejected", name, st.Field(i).Name(), d))
				}
			}
		}
		c.Check(R, "required-member-has-no-default/inventory", token.NoPos, nreq >= 8, fmt.Sprintf("%d required members in tms20, none with a default tag", nreq), fmt.Sprintf("only %d required members found in tms20 (floor 8)", nreq))
	}
	// (e) tag inventory
	tagHas := func(tag, key, want string) bool {
		v, _ := reflect.StructTag(tag).Lookup(key)
		for _, p := range strings.Split(v, ",") {
			if p == want {
				return true
			}
		}
		return false
	}
	if tm, ok := pk.Types.Scope().Lookup("TileMatrix").(*types.TypeName); ok {
		st := tm.Type().Underlying().(*types.Struct)
		for i := 0; i < st.NumFields(); i++ {
			f := st.Field(i)
			_, opts, _ := jsonName(st.Tag(i))
			b, isBasic := f.Type().Underlying().(*types.Basic)
			if isBasic && b.Info()&types.IsNumeric != 0 && !strings.Contains(opts, "omitempty") {
				positive := tagHas(st.Tag(i), "validate", "gt=0")
				if v, _ := reflect.StructTag(st.Tag(i)).Lookup("validate"); !positive {
					for _, p := range strings.Split(v, ",") {
						if strings.HasPrefix(p, "min=") {
							if n, err := strconv.ParseFloat(strings.TrimPrefix(p, "min="), 64); err == nil && n >= 1 {
								positive = true
							}
						}
						if strings.HasPrefix(p, "gt=") {
							if n, err := strconv.ParseFloat(strings.TrimPrefix(p, "gt="), 64); err == nil && n >= 0 {
								positive = true
							}
						}
					}
				}
				// and it applies to the zero value too: `omitempty` skips every other constraint for 0, and without
				// `required` a missing key decodes as 0
				applies := tagHas(st.Tag(i), "validate", "required") && !tagHas(st.Tag(i), "validate", "omitempty") && !tagHas(st.Tag(i), "validate", "omitnil")
				c.Check(R, "positive-constraint/tms20.TileMatrix."+f.Name(), f.Pos(), positive && applies, "validate tag enforces a positive value, zero and absent included (required, no omitempty)",
					"numeric field TileMatrix."+f.Name()+" is not constrained to positive values for every input (needs required and gt=0 / min=1, without omitempty): zero or missing sizes are accepted")
			}
			if f.Name() == "ID" || f.Name() == "PointOfOrigin" {
				c.Check(R, "required-constraint/tms20.TileMatrix."+f.Name(), f.Pos(), tagHas(st.Tag(i), "validate", "required"), "required", "TileMatrix."+f.Name()+" is not marked required")
			}
		}
	} else {
		c.Bad(R, "anchor/tms20.TileMatrix", token.NoPos, "reason=anchor-unresolved")
	}
	if ts, ok := pk.Types.Scope().Lookup("TileMatrixSet").(*types.TypeName); ok {
		st := ts.Type().Underlying().(*types.Struct)
		for i := 0; i < st.NumFields(); i++ {
			f := st.Field(i)
			if f.Name() == "CRS" || f.Name() == "TileMatrices" {
				c.Check(R, "required-constraint/tms20.TileMatrixSet."+f.Name(), f.Pos(), tagHas(st.Tag(i), "validate", "required"), "required", "TileMatrixSet."+f.Name()+" is not marked required: a document without it is accepted")
			}
			if f.Name() == "TileMatrices" {
				// `required` on a map only means non-nil, and the decoder always makes the map: emptiness needs min=1
				nonEmpty := false
				v, _ := reflect.StructTag(st.Tag(i)).Lookup("validate")
				for _, p := range strings.Split(v, ",") {
					if strings.HasPrefix(p, "min=") || strings.HasPrefix(p, "gt=") {
						if n, err := strconv.ParseFloat(p[strings.Index(p, "=")+1:], 64); err == nil && ((strings.HasPrefix(p, "min=") && n >= 1) || (strings.HasPrefix(p, "gt=") && n >= 0)) {
							nonEmpty = true
						}
					}
				}
				c.Check(R, "non-empty-constraint/tms20.TileMatrixSet.TileMatrices", f.Pos(), nonEmpty, "min=1: a set without tile matrices is rejected", "TileMatrixSet.TileMatrices has no min=1 constraint: a document with an empty tileMatrices array is accepted (and re-encodes as null, which does not decode)")
			}
		}
	}
	// (f) ids parsed as integers, error returned
	if f := c.Anchor(R, "tms20.unmarshalTileMatrices"); f != nil {
		calls := core.CallsIn(info, f.Decl, "strconv.ParseInt", "strconv.Atoi")
		okc := false
		for _, call := range calls {
			// the statement after the assignment must be `if err != nil { return … }`
			path := pathTo(f.Decl.Body, call)
			for i := len(path) - 1; i > 0; i-- {
				as, isAs := path[i].(*ast.AssignStmt)
				if !isAs || len(as.Lhs) != 2 {
					continue
				}
				errObj := core.ObjOf(info, as.Lhs[1])
				if blk, isBlk := path[i-1].(*ast.BlockStmt); isBlk {
					for k, s := range blk.List {
						if s == ast.Stmt(as) && k+1 < len(blk.List) {
							if is, isIf := blk.List[k+1].(*ast.IfStmt); isIf {
								if b, isB := ast.Unparen(is.Cond).(*ast.BinaryExpr); isB && b.Op == token.NEQ && core.ObjOf(info, b.X) == errObj && terminates(c.P, info, is.Body) {
									okc = true
								}
							}
						}
					}
				}
			}
		}
		c.Check(R, "id-parse-error-returned/tms20.unmarshalTileMatrices", f.Decl.Pos(), okc, "tile matrix ids parsed with strconv and the error is returned", "tile matrix ids are not parsed as integers with the parse error returned")
		// ids are decimal integers for the reader and the writer alike: base 0 accepts 0x1f, 0b11, 1_000 and reads
		// "010" as 8 (two ids, one key), and the encoder's sort would no longer order what the decoder keyed
		nbase, badBase := 0, ""
		for _, ff := range c.P.Funcs {
			if ff.Decl == nil || ff.Decl.Body == nil || ff.Pkg == nil || ff.Pkg != f.Pkg {
				continue
			}
			// function literals included (the encoder's sort comparator parses the ids it orders)
			ast.Inspect(ff.Decl, func(x ast.Node) bool {
				call, isCall := x.(*ast.CallExpr)
				if !isCall || len(call.Args) != 3 || !core.IsCallTo(ff.Pkg.TypesInfo, call, "strconv.ParseInt", "strconv.ParseUint") {
					return true
				}
				nbase++
				if k, isConst := core.ConstInt(ff.Pkg.TypesInfo, call.Args[1]); !isConst || k != 10 {
					badBase += fmt.Sprintf("%s @%s base %s; ", ff.Name, c.P.Pos(call.Pos()), core.ExprStr(call.Args[1]))
				}
				return true
			})
		}
		c.Check(R, "ids-and-codes-parsed-as-decimal/tms20", f.Decl.Pos(), badBase == "" && nbase >= 3, fmt.Sprintf("%d ParseInt/ParseUint calls in tms20, all with the constant base 10", nbase), "an id or CRS code of a tile matrix set is parsed with a base other than the constant 10 (prefixes, underscores and leading-zero octal are then accepted, two spellings share a key, reader and writer disagree): "+badBase)
	}
	// (g) decode targets are fresh per element: a value decoded into inside a loop is allocated inside that loop
	// (UnmarshalJSONFromMap/marshmallow only assign keys that are present, a reused target keeps stale fields
	// that then pass the required/gt=0 validation)
	ndec := 0
	for _, f := range decodeFuncs {
		if f.SSA == nil {
			continue
		}
		loops := naturalLoops(f.SSA)
		for _, b := range f.SSA.Blocks {
			for _, in := range b.Instrs {
				call, ok := in.(*ssa.Call)
				if !ok {
					continue
				}
				cal := call.Call.StaticCallee()
				if cal == nil || !(strings.HasPrefix(cal.Name(), "UnmarshalJSON") || strings.HasPrefix(cal.Name(), "Unmarshal")) || len(call.Call.Args) == 0 {
					continue
				}
				var loop map[*ssa.BasicBlock]bool
				for _, set := range loops {
					if set[b] && (loop == nil || len(set) < len(loop)) {
						loop = set
					}
				}
				if loop == nil {
					continue
				}
				// the pointer argument(s) that are decoded into
				for _, a := range call.Call.Args {
					al, isAlloc := core.Unwrap(a).(*ssa.Alloc)
					if !isAlloc {
						continue
					}
					ndec++
					c.Check(R, fmt.Sprintf("decode-target-fresh-per-element/%s/%s", f.Name, al.Comment), call.Pos(), loop[al.Block()],
						"the value decoded into is allocated inside the loop iteration", "a value declared outside the loop is decoded into for every element: keys missing from one element keep the previous element's values and pass validation")
				}
			}
		}
	}
	if ndec == 0 {
		c.Bad(R, "decode-target-fresh-per-element/none", token.NoPos, "no per-element decode target found (floor 1)")
	}
	// (h) a pointer member of a decoded value is dereferenced only behind a test that it is there (the validator's
	// "required" runs last; before it a missing or null key has left the pointer nil)
	nder := 0
	for _, f := range decodeFuncs {
		if f.SSA == nil {
			continue
		}
		k := 0
		for _, b := range f.SSA.Blocks {
			for _, in := range b.Instrs {
				var base ssa.Value
				switch x := in.(type) {
				case *ssa.UnOp:
					if x.Op == token.MUL {
						base = x.X
					}
				case *ssa.FieldAddr:
					base = x.X
				case *ssa.IndexAddr:
					base = x.X
				}
				ld, isLoad := base.(*ssa.UnOp)
				if !isLoad || ld.Op != token.MUL {
					continue
				}
				fa, isFA := ld.X.(*ssa.FieldAddr)
				if !isFA {
					continue
				}
				if _, isPtr := ld.Type().Underlying().(*types.Pointer); !isPtr {
					continue
				}
				opt, _ := fa.X.Type().Underlying().(*types.Pointer)
				if opt == nil || !strings.HasPrefix(core.TypeShort(opt.Elem()), "tms20.") {
					continue
				}
				owner := opt.Elem()
				k++
				nder++
				key := addrKey(fa)
				proven := provenNonNil(ld, b, 0)
				for d := b; d != nil && !proven; d = d.Idom() {
					i := core.BlockIf(d)
					if i == nil {
						continue
					}
					bo, ok := i.Cond.(*ssa.BinOp)
					if !ok || (bo.Op != token.EQL && bo.Op != token.NEQ) {
						continue
					}
					l, r := bo.X, bo.Y
					if isNilConst(l) {
						l, r = r, l
					}
					tl, isL := l.(*ssa.UnOp)
					if !isNilConst(r) || !isL || tl.Op != token.MUL || addrKey(tl.X) != key {
						continue
					}
					s := d.Succs[0]
					if bo.Op == token.EQL {
						s = d.Succs[1]
					}
					if (s == b || s.Dominates(b)) && len(s.Preds) == 1 {
						proven = true
					}
				}
				st := owner.Underlying().(*types.Struct)
				how := "dereferenced behind a nil test of the same member"
				if !proven && strings.Contains(reflect.StructTag(st.Tag(fa.Field)).Get("validate"), "required") {
					// or behind the validator's verdict on a member it requires
					for _, vb := range f.SSA.Blocks {
						for _, vin := range vb.Instrs {
							vc, isC := vin.(*ssa.Call)
							if !isC || vc.Call.StaticCallee() == nil || vc.Call.StaticCallee().Name() != "Struct" || !strings.Contains(core.FuncPkgPath(vc.Call.StaticCallee()), "validator") {
								continue
							}
							for _, r := range *vc.Referrers() {
								bo, isB := r.(*ssa.BinOp)
								if !isB || (bo.Op != token.EQL && bo.Op != token.NEQ) || !(isNilConst(bo.X) || isNilConst(bo.Y)) {
									continue
								}
								for _, rr := range *bo.Referrers() {
									if i, isIf := rr.(*ssa.If); isIf {
										s := i.Block().Succs[1]
										if bo.Op == token.EQL {
											s = i.Block().Succs[0]
										}
										if (s == b || s.Dominates(b)) && len(s.Preds) == 1 {
											proven = true
											how = "dereferenced after the validator accepted the value, which requires this member"
										}
									}
								}
							}
						}
					}
				}
				c.Check(R, fmt.Sprintf("decoded-pointer-checked-before-use/%s/%s#%d", f.Name, st.Field(fa.Field).Name(), k), in.Pos(), proven,
					how, "the pointer member "+st.Field(fa.Field).Name()+" of a value being decoded is dereferenced without a test that it is there: a document without that key (or with null) panics instead of being rejected")
			}
		}
	}
	c.Note(R, "%d dereferences of pointer members on the decode graph", nder)
	// explicit panics on the decode graph: none allowed in module code
	npanic := 0
	for _, f := range decodeFuncs {
		for _, fn := range core.AllSSAFuncs(f.SSA) {
			for _, b := range fn.Blocks {
				for _, in := range b.Instrs {
					if pn, ok := in.(*ssa.Panic); ok {
						npanic++
						c.Bad(R, fmt.Sprintf("no-explicit-panic-on-decode/%s#%d", f.Name, npanic), pn.Pos(), "explicit panic reachable from JSON decoding", core.PathTo(reach, f.SSA)...)
					}
				}
			}
		}
	}
	c.Check(R, "no-explicit-panic-on-decode/summary", token.NoPos, npanic == 0, fmt.Sprintf("no explicit panic in the %d module functions of the decode graph", len(decodeFuncs)), "explicit panics on the decode graph")
	c.FloorPrefix(R, "assertion-checked/", 12)
	c.FloorPrefix(R, "submatch-index-in-range/", 3)
	c.FloorPrefix(R, "lookup-checked/", 6)
	c.FloorPrefix(R, "positive-constraint/", 6)
}

// provenNonNil: value v is known to be non-nil whenever block at is entered: a dominating test `v == nil` / `v != nil`
// whose non-nil side leads here, or, for a phi, each incoming value proven so on its own edge.
func provenNonNil(v ssa.Value, at *ssa.BasicBlock, depth int) bool {
	if depth > 4 {
		return false
	}
	nonNilSucc := func(b *ssa.BasicBlock, x ssa.Value) int {
		i := core.BlockIf(b)
		if i == nil {
			return -1
		}
		bo, ok := i.Cond.(*ssa.BinOp)
		if !ok || (bo.Op != token.EQL && bo.Op != token.NEQ) {
			return -1
		}
		l, r := bo.X, bo.Y
		if isNilConst(l) {
			l, r = r, l
		}
		if l != x || !isNilConst(r) {
			return -1
		}
		if bo.Op == token.EQL {
			return 1
		}
		return 0
	}
	// a dominating test whose non-nil successor dominates `at` and is entered only from the test
	for d := at; d != nil; d = d.Idom() {
		if k := nonNilSucc(d, v); k >= 0 {
			s := d.Succs[k]
			if (s == at || s.Dominates(at)) && len(s.Preds) == 1 {
				return true
			}
		}
	}
	if ph, ok := v.(*ssa.Phi); ok && (ph.Block() == at || ph.Block().Dominates(at)) {
		for i, e := range ph.Edges {
			pred := ph.Block().Preds[i]
			// the edge pred -> phi block is itself the non-nil side of a test of e
			if k := nonNilSucc(pred, e); k >= 0 && pred.Succs[k] == ph.Block() {
				continue
			}
			if !provenNonNil(e, pred, depth+1) {
				return false
			}
		}
		return true
	}
	return false
}

// addrKey names an address by its shape (parameter, field path), so that two reads of one member compare equal.
func addrKey(a ssa.Value) string {
	switch x := a.(type) {
	case *ssa.FieldAddr:
		return addrKey(x.X) + fmt.Sprintf(".%d", x.Field)
	case *ssa.UnOp:
		if x.Op == token.MUL {
			return "*" + addrKey(x.X)
		}
	case *ssa.Parameter:
		return "param:" + x.Name()
	case *ssa.Alloc:
		return fmt.Sprintf("alloc:%s@%d", x.Comment, x.Pos())
	}
	return fmt.Sprintf("%p", a)
}
