package rules

import (
	"fmt"
	"go/ast"
	"go/token"
	"go/types"
	"regexp"
	"strings"

	"golang.org/x/tools/go/ssa"

	"texelverif/internal/core"
)

func init() {
	reg("R02", r02AxisPairing)
	reg("R03", r03HalfOpenTables)
	reg("R04", r04DecisionTable)
}

// ---------------------------------------------------------------- R02

var (
	reXName = regexp.MustCompile(`(^x$|^ux$|^dx$|[a-z]X$|^X$|Width|^minX|^maxX|^MinX|^MaxX|^XSpan$|^isRight$|^oneIfRight$)`)
	reYName = regexp.MustCompile(`(^y$|^uy$|^dy$|[a-z]Y$|^Y$|Height|^minY|^maxY|^MinY|^MaxY|^YSpan$|^isTop$|^oneIfTop$)`)
)

func nameFlavour(n string) string {
	if strings.HasSuffix(n, "XY") {
		return ""
	}
	x, y := reXName.MatchString(n), reYName.MatchString(n)
	switch {
	case x && !y:
		return "x"
	case y && !x:
		return "y"
	}
	return ""
}

func isPairArray(t types.Type) bool {
	if t == nil {
		return false
	}
	if p, ok := t.Underlying().(*types.Pointer); ok {
		t = p.Elem()
	}
	a, ok := t.Underlying().(*types.Array)
	return ok && a.Len() == 2
}

// flavouredAtoms lists (flavour, text, pos) of axis-specific atoms in e.
type atom struct {
	fl   string
	text string
	pos  token.Pos
}

func flavouredAtoms(info *types.Info, e ast.Node) []atom {
	var out []atom
	ast.Inspect(e, func(n ast.Node) bool {
		switch x := n.(type) {
		case *ast.IndexExpr:
			if k, ok := core.ConstInt(info, x.Index); ok && isPairArray(info.TypeOf(x.X)) {
				fl := "x"
				if k == 1 {
					fl = "y"
				}
				// only for ordinate pairs (element type numeric), not for pairs of points
				if a, ok := derefArr(info.TypeOf(x.X)); ok {
					if b, isB := a.Elem().Underlying().(*types.Basic); isB && b.Info()&types.IsNumeric != 0 {
						out = append(out, atom{fl, core.ExprStr(x), x.Pos()})
					}
				}
				ast.Inspect(x.X, func(ast.Node) bool { return true })
			}
		case *ast.SelectorExpr:
			if fl := nameFlavour(x.Sel.Name); fl != "" {
				out = append(out, atom{fl, core.ExprStr(x), x.Pos()})
			}
			// continue into x.X but not into Sel
			out = append(out, flavouredAtoms(info, x.X)...)
			return false
		case *ast.Ident:
			if _, isVar := info.Uses[x].(*types.Var); isVar {
				if fl := nameFlavour(x.Name); fl != "" {
					out = append(out, atom{fl, x.Name, x.Pos()})
				}
			} else if _, isFn := info.Uses[x].(*types.Func); isFn {
				if fl := nameFlavour(x.Name); fl != "" {
					out = append(out, atom{fl, x.Name, x.Pos()})
				}
			} else if k, isConst := info.Uses[x].(*types.Const); isConst && (k.Name() == "xAx" || k.Name() == "yAx") {
				out = append(out, atom{strings.TrimSuffix(k.Name(), "Ax"), k.Name(), x.Pos()})
			}
		}
		return true
	})
	return out
}

// isArithmeticHelper: a function whose parameters and first result are all numeric (an index or size computation).
func isArithmeticHelper(f *types.Func) bool {
	sig, ok := f.Type().(*types.Signature)
	if !ok || sig.Results().Len() == 0 || sig.Params().Len() < 2 {
		return false
	}
	num := func(t types.Type) bool {
		b, ok := t.Underlying().(*types.Basic)
		return ok && b.Info()&types.IsNumeric != 0
	}
	if !num(sig.Results().At(0).Type()) {
		return false
	}
	for i := 0; i < sig.Params().Len(); i++ {
		if !num(sig.Params().At(i).Type()) {
			return false
		}
	}
	return true
}

func derefArr(t types.Type) (*types.Array, bool) {
	if p, ok := t.Underlying().(*types.Pointer); ok {
		t = p.Elem()
	}
	a, ok := t.Underlying().(*types.Array)
	return a, ok
}

// swapAxes renders e with every axis-specific name replaced by its twin.
func swapAxes(info *types.Info, e ast.Expr) string {
	s := canon(e)
	type rep struct{ from, to string }
	// token-wise replacement on identifiers
	re := regexp.MustCompile(`[A-Za-z_][A-Za-z_0-9]*|\[[01]\]`)
	return re.ReplaceAllStringFunc(s, func(tok string) string {
		switch tok {
		case "[0]":
			return "[1]"
		case "[1]":
			return "[0]"
		case "x":
			return "y"
		case "y":
			return "x"
		case "dx":
			return "dy"
		case "dy":
			return "dx"
		case "ux":
			return "uy"
		case "uy":
			return "ux"
		case "X":
			return "Y"
		case "Y":
			return "X"
		case "xAx":
			return "yAx"
		case "yAx":
			return "xAx"
		case "oneIfRight":
			return "oneIfTop"
		case "oneIfTop":
			return "oneIfRight"
		}
		for _, p := range [][2]string{{"Width", "Height"}, {"MinX", "MinY"}, {"MaxX", "MaxY"}, {"minX", "minY"}, {"maxX", "maxY"}} {
			if strings.Contains(tok, p[0]) {
				return strings.Replace(tok, p[0], p[1], 1)
			}
			if strings.Contains(tok, p[1]) {
				return strings.Replace(tok, p[1], p[0], 1)
			}
		}
		if strings.HasSuffix(tok, "X") && !strings.HasSuffix(tok, "XY") {
			return strings.TrimSuffix(tok, "X") + "Y"
		}
		if strings.HasSuffix(tok, "Y") && !strings.HasSuffix(tok, "XY") {
			return strings.TrimSuffix(tok, "Y") + "X"
		}
		return tok
	})
}

var r02Funcs = []string{
	"pointindex.PointIndex.InsertPoint", "pointindex.PointIndex.insertCoord", "pointindex.PointIndex.getQuadrantExtentAndCentroid",
	"pointindex.containsPoint", "pointindex.getQuadrantZs", "pointindex.PointIndex.InsertCoord",
	"tms20.TileMatrixSet.FromNative", "tms20.TileMatrixSet.ToNative", "tms20.TileMatrixSet.MatrixSize", "tms20.TileMatrixSet.MatrixBoundingBox",
}

// symmetric functions: x/y twins must be exact mirror images
var r02Symmetric = map[string]bool{
	"pointindex.PointIndex.InsertPoint": true, "pointindex.PointIndex.insertCoord": true, "pointindex.PointIndex.getQuadrantExtentAndCentroid": true,
	"pointindex.containsPoint": true, // getQuadrantZs: decided exactly by R03 quadrant-bit-layout-agrees (symbolic, per quadrant number)
}

// R02: x and y are treated alike — no x-flavoured operand in a y computation
// (and vice versa), and in the index code the y formula is the x formula with
// the axes swapped.
func r02AxisPairing(c *core.Ctx) {
	const R = "R02"
	pairs := 0
	// the listed functions, and package functions they hand both an x and a y quantity to (the paired formulas may
	// have been moved there)
	queue := append([]string{}, r02Funcs...)
	queued := map[string]bool{}
	for _, n := range queue {
		queued[n] = true
	}
	for qi := 0; qi < len(queue); qi++ {
		name := queue[qi]
		var f *core.Func
		if qi < len(r02Funcs) {
			f = c.Anchor(R, name)
		} else {
			f = c.P.Lookup(name)
		}
		if f == nil {
			continue
		}
		if qi < len(r02Funcs) {
			finfo := f.Pkg.TypesInfo
			ast.Inspect(f.Decl.Body, func(n ast.Node) bool {
				call, ok := n.(*ast.CallExpr)
				if !ok {
					return true
				}
				cal := core.Callee(finfo, call)
				if cal == nil {
					return true
				}
				h := c.P.ByObj[cal.Origin()]
				if h == nil || h.Pkg != f.Pkg || h.Decl.Body == nil || queued[h.Name] {
					return true
				}
				hs := h.Obj.Type().(*types.Signature)
				hasX, hasY := false, false
				for i := 0; i < hs.Params().Len(); i++ {
					switch nameFlavour(hs.Params().At(i).Name()) {
					case "x":
						hasX = true
					case "y":
						hasY = true
					}
				}
				if hasX && hasY {
					queued[h.Name] = true
					queue = append(queue, h.Name)
					if r02Symmetric[name] {
						r02Symmetric[h.Name] = true // formulas moved out of a symmetric function stay symmetric
					}
				}
				return true
			})
		}
		info := f.Pkg.TypesInfo
		type stmtInfo struct {
			lhsName string
			fl      string
			rhs     ast.Expr
			pos     token.Pos
		}
		var stmts []stmtInfo
		ncalls := 0
		record := func(lhs ast.Expr, rhs ast.Expr) {
			lname, fl := "", ""
			switch l := ast.Unparen(lhs).(type) {
			case *ast.Ident:
				lname, fl = l.Name, nameFlavour(l.Name)
			case *ast.IndexExpr:
				if k, ok := core.ConstInt(info, l.Index); ok && isPairArray(info.TypeOf(l.X)) {
					lname = core.ExprStr(l)
					fl = []string{"x", "y"}[k&1]
				}
			}
			if fl != "" {
				stmts = append(stmts, stmtInfo{lname, fl, rhs, lhs.Pos()})
			}
		}
		ast.Inspect(f.Decl.Body, func(n ast.Node) bool {
			switch s := n.(type) {
			case *ast.AssignStmt:
				if len(s.Lhs) == len(s.Rhs) {
					for i := range s.Lhs {
						record(s.Lhs[i], s.Rhs[i])
					}
				} else if len(s.Lhs) == 2 && len(s.Rhs) == 1 {
					// v, ok := helper(…): the value is computed from the arguments
					if _, isCall := ast.Unparen(s.Rhs[0]).(*ast.CallExpr); isCall {
						record(s.Lhs[0], s.Rhs[0])
					}
				}
			case *ast.ValueSpec:
				for i, nm := range s.Names {
					if i < len(s.Values) {
						record(nm, s.Values[i])
					}
				}
			case *ast.CallExpr:
				// one call of a module helper never mixes x-flavoured and y-flavoured arguments (a helper shared by
				// both axes is called once per axis)
				if cal := core.Callee(info, s); cal != nil && cal.Pkg() != nil && core.IsModPath(cal.Pkg().Path()) && len(s.Args) >= 2 {
					fls := map[string]string{}
					for _, a := range s.Args {
						for _, at := range flavouredAtoms(info, a) {
							if _, has := fls[at.fl]; !has {
								fls[at.fl] = at.text
							}
						}
					}
					// a helper with an x and a y parameter takes both axes by design
					twoAxis := false
					if sig, ok := cal.Type().(*types.Signature); ok {
						px, py := false, false
						for i := 0; i < sig.Params().Len(); i++ {
							switch nameFlavour(sig.Params().At(i).Name()) {
							case "x":
								px = true
							case "y":
								py = true
							}
						}
						twoAxis = px && py
					}
					if len(fls) > 0 && !twoAxis && !strings.HasSuffix(cal.Name(), "XY") && isArithmeticHelper(cal) {
						ncalls++
						construct := fmt.Sprintf("call-args-one-axis/%s/%s#%d", name, cal.Name(), ncalls)
						c.Check(R, construct, s.Pos(), len(fls) == 1, "all axis-specific arguments belong to one axis",
							fmt.Sprintf("the call %s mixes an x-axis operand (%s) with a y-axis operand (%s)", core.ExprStr(s), fls["x"], fls["y"]))
					}
				}
			case *ast.CompositeLit:
				// literals of 2 or 4 ordinates: x,y[,x,y]
				if a, ok := derefArr(info.TypeOf(s)); ok && (a.Len() == 2 || a.Len() == 4) && len(s.Elts) == int(a.Len()) {
					if b, isB := a.Elem().Underlying().(*types.Basic); isB && b.Info()&types.IsNumeric != 0 {
						for i, el := range s.Elts {
							stmts = append(stmts, stmtInfo{fmt.Sprintf("%s{…}[%d]", core.TypeShort(info.TypeOf(s)), i), []string{"x", "y"}[i&1], el, el.Pos()})
						}
					}
				}
			}
			return true
		})
		// conjunct chains (containsPoint): first half x, second half y
		if name == "pointindex.containsPoint" {
			if ret, ok := f.Decl.Body.List[len(f.Decl.Body.List)-1].(*ast.ReturnStmt); ok && len(ret.Results) == 1 {
				cj := conjuncts(ret.Results[0])
				if len(cj)%2 == 0 {
					for i, e := range cj {
						fl := "x"
						if i >= len(cj)/2 {
							fl = "y"
						}
						stmts = append(stmts, stmtInfo{fmt.Sprintf("conjunct%d", i), fl, e, e.Pos()})
					}
				}
			}
		}
		// (B) no opposite-flavoured atom
		for _, s := range stmts {
			construct := fmt.Sprintf("no-cross-axis-operand/%s/%s", name, s.lhsName)
			bad := ""
			for _, a := range flavouredAtoms(info, s.rhs) {
				if a.fl != s.fl {
					bad += fmt.Sprintf("%s-axis operand %s @%s; ", a.fl, a.text, c.P.Pos(a.pos))
				}
			}
			pairs++
			c.Check(R, construct, s.pos, bad == "", s.fl+"-axis value computed from "+s.fl+"-axis / neutral operands only",
				fmt.Sprintf("the %s-axis value %s is computed from %s(every tile and grid in the tests is square, so the suite cannot notice)", s.fl, s.lhsName, bad))
		}
		// (A) mirror symmetry of consecutive x/y twins
		if r02Symmetric[name] {
			for i := 0; i+1 < len(stmts); i++ {
				a, b := stmts[i], stmts[i+1]
				if a.fl != "x" || b.fl != "y" {
					continue
				}
				if swapAxesName(a.lhsName) != b.lhsName {
					continue
				}
				construct := fmt.Sprintf("y-mirrors-x/%s/%s~%s", name, a.lhsName, b.lhsName)
				want := swapAxes(info, a.rhs)
				c.Check(R, construct, b.pos, want == canon(b.rhs), "the y formula is the x formula with the axes swapped",
					fmt.Sprintf("x: %s ; y: %s ; expected y: %s", canon(a.rhs), canon(b.rhs), want))
				i++
			}
		}
	}
	c.Note(R, "%d axis-flavoured computations inspected", pairs)
	c.FloorPrefix(R, "no-cross-axis-operand/", 30)
	c.FloorPrefix(R, "y-mirrors-x/", 6)
}

func swapAxesName(n string) string {
	switch {
	case n == "x":
		return "y"
	case n == "dx":
		return "dy"
	case n == "ux":
		return "uy"
	case strings.HasSuffix(n, "X"):
		return strings.TrimSuffix(n, "X") + "Y"
	case strings.HasSuffix(n, "[0]"):
		return strings.TrimSuffix(n, "[0]") + "[1]"
	case strings.HasPrefix(n, "conjunct"):
		return n // handled separately
	}
	if strings.Contains(n, "{…}[") {
		// literal elements: index i -> i+1
		var base string
		var i int
		if k := strings.LastIndex(n, "["); k >= 0 {
			base = n[:k]
			fmt.Sscanf(n[k:], "[%d]", &i)
			return fmt.Sprintf("%s[%d]", base, i+1)
		}
	}
	return ""
}

// ---------------------------------------------------------------- R03

type corner struct{ x, y string } // "min"/"max"

func minmaxOf(info *types.Info, e ast.Expr) (axis, which string) {
	call, ok := ast.Unparen(e).(*ast.CallExpr)
	if !ok {
		return "", ""
	}
	sel, ok := call.Fun.(*ast.SelectorExpr)
	if !ok {
		return "", ""
	}
	switch sel.Sel.Name {
	case "MinX":
		return "x", "min"
	case "MaxX":
		return "x", "max"
	case "MinY":
		return "y", "min"
	case "MaxY":
		return "y", "max"
	}
	return "", ""
}

// R03: the six encodings of "a pixel owns its left and bottom sides, not its
// right and top sides" agree with each other.
func r03HalfOpenTables(c *core.Ctx) {
	const R = "R03"
	vf := c.Anchor(R, "intgeom.Extent.Vertices")
	ef := c.Anchor(R, "intgeom.Extent.Edges")
	ex := c.Anchor(R, "pointindex.isExclusiveEdge")
	tip := c.Anchor(R, "pointindex.getExclusiveTip")
	cp := c.Anchor(R, "pointindex.containsPoint")
	iq := c.Anchor(R, "pointindex.getInfiniteQuadrant")
	ic := c.Anchor(R, "pointindex.PointIndex.InsertCoord")
	li := c.Anchor(R, "pointindex.lineIntersects")
	gz := c.Anchor(R, "pointindex.getQuadrantZs")
	if vf == nil || ef == nil || ex == nil || tip == nil || cp == nil || iq == nil || ic == nil || li == nil || gz == nil {
		return
	}
	// (i) corners and edges
	var corners []corner
	{
		info := vf.Pkg.TypesInfo
		ast.Inspect(vf.Decl.Body, func(n ast.Node) bool {
			cl, ok := n.(*ast.CompositeLit)
			if !ok || len(cl.Elts) != 2 {
				return true
			}
			a1, w1 := minmaxOf(info, cl.Elts[0])
			a2, w2 := minmaxOf(info, cl.Elts[1])
			if a1 == "x" && a2 == "y" {
				corners = append(corners, corner{w1, w2})
				return false
			}
			return true
		})
	}
	distinct := map[corner]bool{}
	for _, k := range corners {
		distinct[k] = true
	}
	c.Check(R, "vertices-are-four-corners/intgeom.Extent.Vertices", vf.Decl.Pos(), len(corners) == 4 && len(distinct) == 4, fmt.Sprintf("corners %v", corners), fmt.Sprintf("Vertices does not list the four distinct corners as (x, y) pairs: %v", corners))
	if len(corners) != 4 {
		return
	}
	// edges: literal {v[a], v[b]}
	type edge struct{ a, b int }
	var edges []edge
	{
		info := ef.Pkg.TypesInfo
		var last *ast.CompositeLit
		ast.Inspect(ef.Decl.Body, func(n ast.Node) bool {
			if ret, ok := n.(*ast.ReturnStmt); ok && len(ret.Results) == 1 {
				last, _ = ret.Results[0].(*ast.CompositeLit)
			}
			return true
		})
		if last != nil {
			for _, el := range last.Elts {
				cl, ok := el.(*ast.CompositeLit)
				if !ok || len(cl.Elts) != 2 {
					continue
				}
				ia, ok1 := cl.Elts[0].(*ast.IndexExpr)
				ib, ok2 := cl.Elts[1].(*ast.IndexExpr)
				if ok1 && ok2 {
					a, _ := core.ConstInt(info, ia.Index)
					b, _ := core.ConstInt(info, ib.Index)
					edges = append(edges, edge{int(a), int(b)})
				}
			}
		}
	}
	side := func(e edge) string {
		p, q := corners[e.a], corners[e.b]
		switch {
		case p.y == q.y && p.y == "min" && p.x != q.x:
			return "bottom"
		case p.y == q.y && p.y == "max" && p.x != q.x:
			return "top"
		case p.x == q.x && p.x == "min" && p.y != q.y:
			return "left"
		case p.x == q.x && p.x == "max" && p.y != q.y:
			return "right"
		}
		return "?"
	}
	sides := []string{}
	okEdges := len(edges) == 4
	seenSide := map[string]bool{}
	for _, e := range edges {
		s := side(e)
		sides = append(sides, s)
		if s == "?" || seenSide[s] {
			okEdges = false
		}
		seenSide[s] = true
	}
	c.Check(R, "edges-are-four-sides/intgeom.Extent.Edges", ef.Decl.Pos(), okEdges, fmt.Sprintf("edge index -> side: %v", sides), fmt.Sprintf("Edges does not produce the four sides once each: %v", sides))
	// Edges is only called with a nil winding function (so the order above is the order used)
	{
		n, nonNil := 0, 0
		for _, fn := range sortedFuncs(c.P) {
			for _, call := range core.CallsIn(fn.Pkg.TypesInfo, fn.Decl, "intgeom.Extent.Edges") {
				n++
				if len(call.Args) != 1 || canon(call.Args[0]) != "nil" {
					nonNil++
				}
			}
		}
		c.Check(R, "edges-called-with-nil-winding", li.Decl.Pos(), n >= 1 && nonNil == 0, fmt.Sprintf("%d call(s), all with cwfn == nil", n), "Extent.Edges is called with a winding function: the edge numbering the tables rely on can be reversed")
	}
	if !okEdges {
		return
	}
	exclusive := map[int]bool{}
	for i, s := range sides {
		if s == "right" || s == "top" {
			exclusive[i] = true
		}
	}
	// (ii) isExclusiveEdge: its table over the edge numbers, by folding the function for each of them (the form --
	// == chain, switch, arithmetic -- does not matter)
	{
		got := map[int]bool{}
		why := ""
		if ex.SSA == nil {
			why = "no SSA"
		} else {
			for i := int64(0); i < 8 && why == ""; i++ {
				res, oc, err := evalPure(ex.SSA, []interface{}{i}, 0)
				switch {
				case err != nil:
					why = err.Error()
				case oc != "return" || len(res) != 1:
					why = "does not return a truth value"
				default:
					bv, ok := res[0].(bool)
					if !ok {
						why = "does not return a truth value"
					} else if i < 4 {
						if bv {
							got[int(i)] = true
						}
					} else if bv != got[int(i%4)] {
						why = "is not periodic in the edge number modulo 4"
					}
				}
			}
		}
		eq := why == "" && len(got) == len(exclusive)
		for k := range got {
			if !exclusive[k] {
				eq = false
			}
		}
		if why != "" {
			c.Unknown(R, "exclusive-edges-are-right-and-top/pointindex.isExclusiveEdge", ex.Decl.Pos(), "isExclusiveEdge "+why)
		} else {
			c.Check(R, "exclusive-edges-are-right-and-top/pointindex.isExclusiveEdge", ex.Decl.Pos(), eq,
				fmt.Sprintf("accepts edge indices %v = the sides on MaxX/MaxY", keysInt(got)), fmt.Sprintf("isExclusiveEdge accepts %v but the edges lying on MaxX/MaxY are %v (sides by index: %v): border ownership is wrong for some side", keysInt(got), keysInt(exclusive), sides))
		}
	}
	// (iii) getExclusiveTip: which endpoint it returns per edge number, by folding the function with a symbolic edge
	{
		got := map[int]int{} // edge index -> endpoint index
		panicsFor := map[int]bool{}
		why := ""
		if tip.SSA == nil {
			why = "no SSA"
		} else {
			for i := int64(0); i < 4 && why == ""; i++ {
				res, oc, err := evalPure(tip.SSA, []interface{}{i, evSym("edge")}, 0)
				switch {
				case err != nil:
					why = err.Error()
				case oc == "panic":
					panicsFor[int(i)] = true
				case len(res) == 1 && res[0] == evSym("edge[0]"):
					got[int(i)] = 0
				case len(res) == 1 && res[0] == evSym("edge[1]"):
					got[int(i)] = 1
				default:
					why = fmt.Sprintf("returns something other than an endpoint of the edge for edge %d", i)
				}
			}
		}
		bad := ""
		ninc := 0
		for i, e := range edges {
			if exclusive[i] {
				if _, has := got[i]; has {
					bad += fmt.Sprintf("returns a tip for exclusive edge %d; ", i)
				}
				continue
			}
			ninc++
			j, has := got[i]
			if !has {
				bad += fmt.Sprintf("no tip for inclusive edge %d (%s); ", i, sides[i])
				continue
			}
			end := []int{e.a, e.b}[j]
			k := corners[end]
			if k.x != "max" && k.y != "max" {
				bad += fmt.Sprintf("tip of edge %d (%s) is corner (%s,%s) which is owned by the pixel; ", i, sides[i], k.x, k.y)
			}
		}
		panics := true
		for i := range edges {
			if exclusive[i] && !panicsFor[i] {
				panics = false
			}
		}
		if why != "" {
			c.Unknown(R, "exclusive-tip-is-the-unowned-endpoint/pointindex.getExclusiveTip", tip.Decl.Pos(), "getExclusiveTip "+why)
		} else {
			c.Check(R, "exclusive-tip-is-the-unowned-endpoint/pointindex.getExclusiveTip", tip.Decl.Pos(), bad == "" && panics && ninc == 2,
				fmt.Sprintf("edge -> endpoint %v: each is the endpoint lying on MaxX/MaxY", got), "getExclusiveTip: "+bad)
		}
	}
	// (iv) containsPoint
	{
		info := cp.Pkg.TypesInfo
		okc := false
		why := ""
		if ret, ok := cp.Decl.Body.List[len(cp.Decl.Body.List)-1].(*ast.ReturnStmt); ok && len(ret.Results) == 1 {
			cj := conjuncts(ret.Results[0])
			seen := map[string]bool{}
			for _, e := range cj {
				be, ok := ast.Unparen(e).(*ast.BinaryExpr)
				if !ok {
					continue
				}
				ax, w := minmaxOf(info, be.X)
				if ax != "" && w == "min" && be.Op == token.LEQ {
					seen[ax+"min<=p"] = true
				}
				ax, w = minmaxOf(info, be.Y)
				if ax != "" && w == "max" && be.Op == token.LSS {
					seen[ax+"p<max"] = true
				}
				if ax != "" && w == "min" && be.Op == token.GEQ {
					seen[ax+"min<=p"] = true
				}
			}
			okc = len(cj) == 4 && seen["xmin<=p"] && seen["xp<max"] && seen["ymin<=p"] && seen["yp<max"]
			why = fmt.Sprintf("%v", keys(seen))
		}
		c.Check(R, "contains-is-half-open/pointindex.containsPoint", cp.Decl.Pos(), okc, "Min <= p and p < Max on both axes", "containsPoint is not Min <= p < Max on both axes: "+why)
	}
	// (v) getInfiniteQuadrant and the quadrant bit layout
	{
		// getInfiniteQuadrant folded over the two comparisons it makes: quadrant = (x >= cx ? 1 : 0) | (y >= cy ? 2 : 0),
		// and the comparisons are >= (a child's Min side is the centroid line)
		geqOK, layoutOK := true, true
		evalWhy := ""
		for m := 0; m < 4; m++ {
			gx, gy := m&1 != 0, m&2 != 0
			oracle := func(op token.Token, l, r evSym) (bool, bool) {
				var ans bool
				switch {
				case l == "pt[0]" && r == "c[0]":
					ans = gx
				case l == "pt[1]" && r == "c[1]":
					ans = gy
				default:
					return false, false
				}
				if op != token.GEQ {
					geqOK = false
				}
				return ans, true
			}
			res, oc, err := evalPureWith(iq.SSA, []interface{}{evSym("pt"), evSym("c")}, 0, oracle)
			if err != nil || oc != "return" || len(res) != 1 {
				layoutOK = false
				if err != nil {
					evalWhy = err.Error()
				}
				continue
			}
			want := int64(0)
			if gx {
				want |= 1
			}
			if gy {
				want |= 2
			}
			if v, ok := res[0].(int64); !ok || v != want {
				layoutOK = false
			}
		}
		geq := 0
		if geqOK && evalWhy == "" {
			geq = 2
		}
		shl := layoutOK
		c.Check(R, "infinite-quadrant-uses-geq/pointindex.getInfiniteQuadrant", iq.Decl.Pos(), geq == 2, "both axes compare with >= against the centroid (a child's Min side is the centroid line)", "getInfiniteQuadrant does not use >= on both axes (or cannot be followed: "+evalWhy+"): a point on the centroid line is attributed to the quadrant that does not own it")
		// the neighbour helpers, folded over all quadrant numbers: X-neighbour flips bit 0, Y-neighbour flips bit 1, two
		// quadrants are adjacent iff they differ in exactly one bit
		{
			okAdj, whyAdj := true, ""
			ax, ay, adj := c.P.Lookup("pointindex.adjacentQuadrantX"), c.P.Lookup("pointindex.adjacentQuadrantY"), c.P.Lookup("pointindex.quadrantsAreAdjacent")
			if ax == nil || ay == nil || adj == nil || ax.SSA == nil || ay.SSA == nil || adj.SSA == nil {
				okAdj, whyAdj = false, "adjacentQuadrantX / adjacentQuadrantY / quadrantsAreAdjacent not found"
			} else {
				for q := int64(0); q < 4 && okAdj; q++ {
					for _, t := range []struct {
						f   *core.Func
						xor int64
					}{{ax, 1}, {ay, 2}} {
						res, oc, err := evalPure(t.f.SSA, []interface{}{q}, 0)
						if err != nil || oc != "return" || len(res) != 1 || res[0] != interface{}(q^t.xor) {
							okAdj, whyAdj = false, fmt.Sprintf("%s(%d) is not %d", t.f.Name, q, q^t.xor)
						}
					}
					for r := int64(0); r < 4 && okAdj; r++ {
						res, oc, err := evalPure(adj.SSA, []interface{}{q, r}, 0)
						want := (q^r) == 1 || (q^r) == 2
						if err != nil || oc != "return" || len(res) != 1 || res[0] != interface{}(want) {
							okAdj, whyAdj = false, fmt.Sprintf("quadrantsAreAdjacent(%d, %d) is not %v", q, r, want)
						}
					}
				}
			}
			c.Check(R, "quadrant-neighbour-tables/pointindex", iq.Decl.Pos(), okAdj, "adjacentQuadrantX/Y flip bit 0/1, quadrantsAreAdjacent <=> exactly one bit differs (all 4 / 16 cases)", "the quadrant neighbour helpers disagree with the bit layout: "+whyAdj)
		}
		// layout: right = bit 0, top = bit 1 everywhere
		pk := iq.Pkg
		rightC, _ := pk.Types.Scope().Lookup("right").(*types.Const)
		topC, _ := pk.Types.Scope().Lookup("top").(*types.Const)
		layout := rightC != nil && topC != nil && rightC.Val().ExactString() == "1" && topC.Val().ExactString() == "2" && shl
		// getQuadrantZs: for each quadrant number k = 0..3 the child address handed to the morton encoder is
		// (2*parentX + bit0(k), 2*parentY + bit1(k)) -- evaluated symbolically in the parent address with k fixed,
		// helper functions (oneIfRight/oneIfTop or whatever replaces them) inlined
		{
			ginfo := gz.Pkg.TypesInfo
			var loopVar, px, py types.Object
			var loopBody *ast.BlockStmt
			for _, st := range gz.Decl.Body.List {
				switch x := st.(type) {
				case *ast.AssignStmt:
					if len(x.Lhs) == 2 && len(x.Rhs) == 1 {
						if call, ok := x.Rhs[0].(*ast.CallExpr); ok && core.IsCallTo(ginfo, call, "morton.FromZ") {
							px, py = core.ObjOf(ginfo, x.Lhs[0]), core.ObjOf(ginfo, x.Lhs[1])
						}
					}
				case *ast.ForStmt:
					if as, ok := x.Init.(*ast.AssignStmt); ok && len(as.Lhs) == 1 && canon(as.Rhs[0]) == "0" && x.Cond != nil && strings.HasSuffix(canon(x.Cond), "<4") {
						loopVar, loopBody = core.ObjOf(ginfo, as.Lhs[0]), x.Body
					}
				case *ast.RangeStmt:
					if x.Key != nil && (canon(x.X) == "4" || strings.Contains(core.TypeShort(ginfo.TypeOf(x.X)), "[4]")) {
						loopVar, loopBody = core.ObjOf(ginfo, x.Key), x.Body
					}
				}
			}
			if loopVar == nil || loopBody == nil || px == nil || py == nil {
				layout = false
			} else {
				for k := int64(0); k < 4; k++ {
					env := newSymEnv(c.P, ginfo)
					env.vars[px], env.vars[py], env.vars[loopVar] = pSym("PX"), pSym("PY"), pInt(k)
					// helpers bound to local function literals before the loop
					for _, st := range gz.Decl.Body.List {
						if as, ok := st.(*ast.AssignStmt); ok && len(as.Lhs) == len(as.Rhs) {
							for i := range as.Rhs {
								if _, isLit := ast.Unparen(as.Rhs[i]).(*ast.FuncLit); isLit {
									env.assign(as.Lhs[i], as.Rhs[i])
								}
							}
						}
					}
					env.run(loopBody.List)
					var enc *ast.CallExpr
					for _, call := range core.CallsIn(ginfo, loopBody, "morton.MustToZ", "morton.ToZ") {
						enc = call
					}
					if enc == nil || len(enc.Args) != 2 {
						layout = false
						break
					}
					x, ok1 := env.eval(enc.Args[0])
					y, ok2 := env.eval(enc.Args[1])
					wantX := pAdd(pMul(pSym("PX"), pInt(2)), pInt(k&1), 1)
					wantY := pAdd(pMul(pSym("PY"), pInt(2)), pInt(k>>1), 1)
					if !ok1 || !ok2 || !pEq(x, wantX) || !pEq(y, wantY) {
						layout = false
					}
				}
			}
		}
		c.Check(R, "quadrant-bit-layout-agrees/pointindex", iq.Decl.Pos(), layout, "isRight | isTop<<1 in getInfiniteQuadrant, right=1/top=2 in oneIfRight/oneIfTop, child = 2*parent + bit in getQuadrantZs", "the quadrant numbering used to classify points differs from the one used to address child pixels")
	}
	// (vi) InsertCoord range check: decision table over the four comparisons x < 0, y < 0, x > size-1, y > size-1
	// (in whatever form and polarity: >= 0, <= max, >= size, named parts, boolean helpers): an error is returned
	// exactly when one of them holds
	{
		construct := "insert-rejects-all-four-sides/pointindex.PointIndex.InsertCoord"
		fn := ic.SSA
		var px, py ssa.Value
		if fn != nil && len(fn.Params) >= 3 {
			px, py = fn.Params[len(fn.Params)-2], fn.Params[len(fn.Params)-1]
		}
		isSize := func(v ssa.Value) bool { return isFieldRead(core.Unwrap(resolveValue(v)), "deepestSize") }
		isMax := func(v ssa.Value) bool {
			bo, ok := resolveValue(v).(*ssa.BinOp)
			return ok && bo.Op == token.SUB && isConstInt(bo.Y, 1) && isSize(bo.X)
		}
		var atomIn func(fr *boolFrame, v ssa.Value) (string, bool, bool)
		atomIn = func(fr *boolFrame, v ssa.Value) (string, bool, bool) {
			bo, ok := v.(*ssa.BinOp)
			if !ok {
				return "", false, false
			}
			l, r, op := fr.callerValue(resolveValue(bo.X)), fr.callerValue(resolveValue(bo.Y)), bo.Op
			ax := ""
			flip := map[token.Token]token.Token{token.GTR: token.LSS, token.LSS: token.GTR, token.GEQ: token.LEQ, token.LEQ: token.GEQ}
			if r == px || r == py {
				l, r = r, l
				op = flip[op]
			}
			switch l {
			case px:
				ax = "X"
			case py:
				ax = "Y"
			default:
				return "", false, false
			}
			switch {
			case isConstInt(r, 0) && op == token.LSS:
				return ax + "<0", false, true
			case isConstInt(r, 0) && op == token.GEQ:
				return ax + "<0", true, true
			case isMax(r) && op == token.GTR, isSize(r) && op == token.GEQ:
				return ax + ">max", false, true
			case isMax(r) && op == token.LEQ, isSize(r) && op == token.LSS:
				return ax + ">max", true, true
			}
			return "", false, false
		}
		bad := ""
		used := map[string]bool{}
		if fn == nil || px == nil {
			bad = "no SSA for InsertCoord"
		}
		names := []string{"X<0", "Y<0", "X>max", "Y>max"}
		for m := 0; m < 16 && bad == ""; m++ {
			as := map[string]bool{}
			for i, n := range names {
				as[n] = m&(1<<i) != 0
			}
			if (as["X<0"] && as["X>max"]) || (as["Y<0"] && as["Y>max"]) {
				continue // not a possible position
			}
			bi := &boolInterp{roleOf: func(*boolFrame, ssa.Value) string { return "" }, atom: atomIn, assign: as, used: map[string]bool{}}
			fr := &boolFrame{fn: fn, roles: map[ssa.Value]string{}, env: map[ssa.Value]bool{}}
			out, err := bi.run(fr, fn.Blocks[0], nil, 0)
			if err != nil {
				bad = "the range check depends on more than the four comparisons: " + err.Error()
				break
			}
			for k := range bi.used {
				used[k] = true
			}
			rejected := out.kind != "return" || (out.ret != nil && len(out.ret.Results) == 1 && !isNilConst(out.ret.Results[0]))
			want := as["X<0"] || as["Y<0"] || as["X>max"] || as["Y>max"]
			if rejected != want {
				bad = fmt.Sprintf("with x<0=%v y<0=%v x>size-1=%v y>size-1=%v the coordinate is rejected=%v", as["X<0"], as["Y<0"], as["X>max"], as["Y>max"], rejected)
			}
		}
		for _, n := range names {
			if bad == "" && !used[n] {
				bad = "the side " + n + " is never tested"
			}
		}
		c.Check(R, construct, ic.Decl.Pos(), bad == "", "rejects < 0 and > size-1 on both axes with an error (decision table over the four comparisons)", "InsertCoord's range check does not reject exactly the coordinates outside 0..size-1: "+bad)
	}
	// (vii) lineIntersects applies the ownership exceptions to border touches
	r03LineIntersectsExceptions(c, li)
	r03OverlapOnInclusiveEdge(c)
	c.Floor(R, 9)
}

// r03LineIntersectsExceptions: the segment/pixel test must (1) return true when an endpoint is inside,
// (2) ignore an intersection on an exclusive edge when it is the segment's own tip, (3) ignore an intersection on
// an inclusive edge when the tip sits on that edge's exclusive (unowned) end, (4) count an overlap with an inclusive
// edge.  Each exception is located by the facts that guard it, not by its text.
func r03LineIntersectsExceptions(c *core.Ctx, li *core.Func) {
	const R = "R03"
	fn := li.SSA
	keys := []string{"endpoint-inside-counts", "skip-own-tip-on-exclusive-edge", "skip-tip-on-exclusive-end-of-inclusive-edge", "intersection-counts", "overlap-with-inclusive-edge-counts"}
	fail := func(why string) {
		for _, k := range keys {
			c.Bad(R, "segment-pixel-test/"+k+"/"+li.Name, li.Decl.Pos(), why)
		}
	}
	if fn == nil || len(fn.Params) != 2 {
		fail("lineIntersects(line, extent) not found in this shape")
		return
	}
	// the loop over the extent's edges: header tests index < len(extent.Edges(...))
	var header *ssa.BasicBlock
	var edges *ssa.Call
	for _, b := range fn.Blocks {
		i := core.BlockIf(b)
		if i == nil {
			continue
		}
		cmp, ok := i.Cond.(*ssa.BinOp)
		if !ok || cmp.Op != token.LSS {
			continue
		}
		if lc, ok := cmp.Y.(*ssa.Call); ok {
			if _, isLen := isBuiltinCall(lc, "len"); isLen {
				if ec, ok := lc.Call.Args[0].(*ssa.Call); ok && core.StaticCalleeID(ec) == core.ModPath+"/intgeom.Extent.Edges" {
					header, edges = b, ec
				}
			}
		}
	}
	if header == nil {
		c.Bad(R, "edge-loop/"+li.Name, li.Decl.Pos(), "lineIntersects no longer ranges over the extent's edges")
		return
	}
	if resolveValue(edges.Call.Args[0]) != ssa.Value(fn.Params[1]) {
		c.Bad(R, "edge-loop/"+li.Name, edges.Pos(), "the edges tested are not those of the extent handed to lineIntersects")
		return
	}
	edgeIdx := core.BlockIf(header).Cond.(*ssa.BinOp).X
	// roles: the segment, its endpoints, the crossing point, the exclusive tip, the edge and its number
	var roleOf func(fr *boolFrame, v ssa.Value) string
	roleOf = func(fr *boolFrame, v ssa.Value) string {
		v = resolveValue(v)
		if r, ok := fr.roles[v]; ok {
			return r
		}
		if fr.fn == fn {
			switch {
			case v == ssa.Value(fn.Params[0]):
				return "line"
			case v == ssa.Value(fn.Params[1]):
				return "extent"
			case v == edgeIdx:
				return "edgeI"
			}
			if ld, ok := v.(*ssa.UnOp); ok && ld.Op == token.MUL {
				if ia, ok := ld.X.(*ssa.IndexAddr); ok && ia.X == ssa.Value(edges) && ia.Index == edgeIdx {
					return "edge"
				}
			}
		}
		if arr, k, ok := elementOf(v); ok {
			if r := roleOf(fr, arr); r == "line" {
				return fmt.Sprintf("line[%d]", k)
			}
		}
		// a local given one point or the other depending on the path (`untouchable := crossing` / `= tip`)
		if ph, isPhi := v.(*ssa.Phi); isPhi {
			if sel, has := fr.phiSel[ph]; has && sel != v {
				return roleOf(fr, sel)
			}
		}
		if ld, isLd := v.(*ssa.UnOp); isLd && ld.Op == token.MUL {
			if cv, has := fr.cells[ld.X]; has && cv != v {
				return roleOf(fr, cv)
			}
		}
		switch x := v.(type) {
		case *ssa.Extract:
			if call, ok := x.Tuple.(*ssa.Call); ok && core.StaticCalleeID(call) == core.ModPath+"/intgeom.SegmentIntersect" && x.Index == 0 {
				if roleOf(fr, call.Call.Args[0]) == "line" && roleOf(fr, call.Call.Args[1]) == "edge" {
					return "crossing"
				}
			}
		case *ssa.Call:
			if core.StaticCalleeID(x) == core.ModPath+"/pointindex.getExclusiveTip" && roleOf(fr, x.Call.Args[0]) == "edgeI" && roleOf(fr, x.Call.Args[1]) == "edge" {
				return "tip"
			}
		}
		return ""
	}
	atom := func(fr *boolFrame, v ssa.Value) (string, bool, bool) {
		switch x := v.(type) {
		case *ssa.Extract:
			if call, ok := x.Tuple.(*ssa.Call); ok && core.StaticCalleeID(call) == core.ModPath+"/intgeom.SegmentIntersect" && x.Index == 1 {
				if roleOf(fr, call.Call.Args[0]) == "line" && roleOf(fr, call.Call.Args[1]) == "edge" {
					return "I", false, true
				}
			}
		case *ssa.Call:
			switch core.StaticCalleeID(x) {
			case core.ModPath + "/pointindex.isExclusiveEdge":
				if roleOf(fr, x.Call.Args[0]) == "edgeI" {
					return "E", false, true
				}
			case core.ModPath + "/pointindex.lineOverlapsInclusiveEdge":
				if roleOf(fr, x.Call.Args[0]) == "line" && roleOf(fr, x.Call.Args[1]) == "edgeI" && roleOf(fr, x.Call.Args[2]) == "edge" {
					return "O", false, true
				}
			case core.ModPath + "/pointindex.containsPoint":
				if r := roleOf(fr, x.Call.Args[0]); (r == "line[0]" || r == "line[1]") && roleOf(fr, x.Call.Args[1]) == "extent" {
					return "C" + r[5:6], false, true
				}
			}
		case *ssa.BinOp:
			if x.Op != token.EQL && x.Op != token.NEQ {
				break
			}
			l, r := roleOf(fr, x.X), roleOf(fr, x.Y)
			if l == "crossing" || l == "tip" {
				l, r = r, l
			}
			if (l == "line[0]" || l == "line[1]") && (r == "crossing" || r == "tip") {
				name := "X" + l[5:6] // endpoint k equals the crossing point
				if r == "tip" {
					name = "T" + l[5:6] // endpoint k equals the exclusive tip of the (inclusive) edge
				}
				return name, x.Op == token.NEQ, true
			}
		}
		return "", false, false
	}
	// decision tables
	names := []string{"I", "E", "X0", "X1", "T0", "T1", "O"}
	type row struct {
		assign map[string]bool
		got    string
	}
	var rows []row
	errText := ""
	for m := 0; m < 1<<len(names); m++ {
		as := map[string]bool{}
		for i, n := range names {
			as[n] = m&(1<<i) != 0
		}
		bi := &boolInterp{roleOf: roleOf, atom: atom, assign: as, used: map[string]bool{}}
		fr := &boolFrame{fn: fn, roles: map[ssa.Value]string{}, env: map[ssa.Value]bool{}, prev: header}
		out, err := bi.run(fr, header.Succs[0], map[*ssa.BasicBlock]bool{header: true}, 0)
		got := ""
		switch {
		case err != nil:
			errText = err.Error()
			got = "?"
		case out.kind == "block":
			got = "next-edge"
		case out.kind == "return" && out.val:
			got = "true"
		case out.kind == "return":
			got = "false"
		default:
			got = out.kind
		}
		rows = append(rows, row{as, got})
	}
	verdict := func(key string, applies func(a map[string]bool) bool, want func(a map[string]bool) string) {
		construct := "segment-pixel-test/" + key + "/" + li.Name
		n := 0
		for _, r := range rows {
			if !applies(r.assign) {
				continue
			}
			n++
			if r.got == "?" {
				c.Unknown(R, construct, edges.Pos(), "the per-edge decision of lineIntersects is not understood: "+errText)
				return
			}
			if w := want(r.assign); r.got != w {
				c.Bad(R, construct, edges.Pos(), fmt.Sprintf("lineIntersects no longer applies the rule `%s`: for an edge with %s the code gives %s where the rule gives %s: a segment that only touches a pixel at a border point the pixel does not own (or runs along an owned border) is attributed wrongly", key, describeAssign(names, r.assign), r.got, w))
				return
			}
		}
		c.OK(R, construct, edges.Pos(), fmt.Sprintf("decision table of the per-edge code agrees with the rule on all %d valuations of its conditions (whatever the form: nested ifs, early returns, helper)", n))
	}
	b2s := func(b bool) string {
		if b {
			return "true"
		}
		return "next-edge"
	}
	verdict("intersection-counts", func(a map[string]bool) bool {
		return a["I"] && ((a["E"] && !a["X0"] && !a["X1"]) || (!a["E"] && !a["T0"] && !a["T1"]))
	}, func(a map[string]bool) string { return "true" })
	verdict("skip-own-tip-on-exclusive-edge", func(a map[string]bool) bool { return a["I"] && a["E"] }, func(a map[string]bool) string { return b2s(!a["X0"] && !a["X1"]) })
	verdict("skip-tip-on-exclusive-end-of-inclusive-edge", func(a map[string]bool) bool { return a["I"] && !a["E"] }, func(a map[string]bool) string { return b2s(!a["T0"] && !a["T1"]) })
	verdict("overlap-with-inclusive-edge-counts", func(a map[string]bool) bool { return !a["I"] }, func(a map[string]bool) string { return b2s(!a["E"] && a["O"]) })
	// (1) an endpoint inside the extent => true, before any edge is looked at; otherwise the edges decide
	{
		construct := "segment-pixel-test/endpoint-inside-counts/" + li.Name
		okIn, why := true, ""
		for m := 0; m < 4 && okIn; m++ {
			as := map[string]bool{"C0": m&1 != 0, "C1": m&2 != 0}
			bi := &boolInterp{roleOf: roleOf, atom: atom, assign: as, used: map[string]bool{}}
			fr := &boolFrame{fn: fn, roles: map[ssa.Value]string{}, env: map[ssa.Value]bool{}}
			out, err := bi.run(fr, fn.Blocks[0], map[*ssa.BasicBlock]bool{header: true}, 0)
			switch {
			case err != nil:
				okIn, why = false, err.Error()
			case as["C0"] || as["C1"]:
				if !(out.kind == "return" && out.val) {
					okIn, why = false, fmt.Sprintf("with endpoint-inside = (%v, %v) the code does not return true at once", as["C0"], as["C1"])
				}
			default:
				if out.kind != "block" {
					okIn, why = false, "with both endpoints outside the extent the edges are not consulted"
				}
			}
		}
		c.Check(R, construct, li.Decl.Pos(), okIn, "containsPoint(line[0]) || containsPoint(line[1]) returns true before the edge loop; otherwise the edges decide", "lineIntersects no longer applies the rule `endpoint-inside-counts`: "+why)
	}
	// after the last edge without a verdict: false
	{
		okEnd := false
		done := header.Succs[1]
		if len(done.Instrs) == 1 {
			if ret, ok := done.Instrs[0].(*ssa.Return); ok && len(ret.Results) == 1 && isConstBool(ret.Results[0], false) {
				okEnd = true
			}
		}
		c.Check(R, "segment-pixel-test/no-edge-no-hit/"+li.Name, li.Decl.Pos(), okEnd, "when no edge decides, the segment does not touch the pixel", "lineIntersects does not return false after all edges were tested without a hit")
	}
}

// r03OverlapOnInclusiveEdge decides lineOverlapsInclusiveEdge as a decision table: for a vertical or horizontal edge,
// the segment overlaps it iff both endpoints lie on the edge's line, the segment is not a point along it, and one
// endpoint lies within the edge's range without being the edge's exclusive tip.
func r03OverlapOnInclusiveEdge(c *core.Ctx) {
	const R = "R03"
	f := c.Anchor(R, "pointindex.lineOverlapsInclusiveEdge")
	if f == nil || f.SSA == nil {
		return
	}
	fn := f.SSA
	construct := "overlap-with-inclusive-edge-is-exact/" + f.Name
	if len(fn.Params) != 3 {
		c.Bad(R, construct, f.Decl.Pos(), "unexpected signature")
		return
	}
	line, edgeI, edge := ssa.Value(fn.Params[0]), ssa.Value(fn.Params[1]), ssa.Value(fn.Params[2])
	// ordinate descriptor: which array (L/E), which endpoint, which axis
	type ord struct {
		base string
		k    int64
		ax   int64
	}
	// (resolved through local copies, helper and closure parameters and captured variables)
	ordOf := func(fr *boolFrame, v ssa.Value) (ord, bool) {
		root, path, ok := accessPath(fr, v, 0)
		if !ok || len(path) != 2 {
			return ord{}, false
		}
		switch root {
		case line:
			return ord{"L", path[0], path[1]}, true
		case edge:
			return ord{"E", path[0], path[1]}, true
		}
		return ord{}, false
	}
	pointOfIn := func(fr *boolFrame, v ssa.Value) (string, bool) {
		// whole endpoint line[k] / the exclusive tip of the edge
		root, path, ok := accessPath(fr, v, 0)
		if !ok {
			return "", false
		}
		if call, isCall := root.(*ssa.Call); isCall && len(path) == 0 && core.StaticCalleeID(call) == core.ModPath+"/pointindex.getExclusiveTip" && call.Call.Args[0] == edgeI && resolveValue(call.Call.Args[1]) == edge {
			return "tip", true
		}
		if root == line && len(path) == 1 {
			return fmt.Sprintf("L%d", path[0]), true
		}
		return "", false
	}
	var constAx int64
	atom := func(fr *boolFrame, v ssa.Value) (string, bool, bool) {
		switch x := v.(type) {
		case *ssa.BinOp:
			if x.Op != token.EQL && x.Op != token.NEQ {
				break
			}
			neg := x.Op == token.NEQ
			if a, ok := ordOf(fr, x.X); ok {
				if b, ok := ordOf(fr, x.Y); ok {
					switch {
					case a.base == "E" && b.base == "E" && a.ax == b.ax && a.k != b.k:
						if a.ax == 0 {
							return "EV", neg, true
						}
						return "EH", neg, true
					case a.base != b.base && a.ax == b.ax && a.ax == constAx:
						l := a
						if b.base == "L" {
							l = b
						}
						return fmt.Sprintf("A%d", l.k), neg, true
					case a.base == "L" && b.base == "L" && a.ax == b.ax && a.ax != constAx && a.k != b.k:
						return "D", !neg, true // D: the two endpoints differ along the edge
					}
				}
			}
			if p, ok := pointOfIn(fr, x.X); ok {
				if q, ok := pointOfIn(fr, x.Y); ok {
					if q != "tip" {
						p, q = q, p
					}
					if q == "tip" && (p == "L0" || p == "L1") {
						return "X" + p[1:], neg, true
					}
				}
			}
		case *ssa.Call:
			if core.StaticCalleeID(x) == core.ModPath+"/mathhelp.IBetweenInc" && len(x.Call.Args) == 3 {
				a, ok1 := ordOf(fr, x.Call.Args[0])
				e1, ok2 := ordOf(fr, x.Call.Args[1])
				e2, ok3 := ordOf(fr, x.Call.Args[2])
				if ok1 && ok2 && ok3 && a.base == "L" && e1.base == "E" && e2.base == "E" && e1.k != e2.k && a.ax != constAx && e1.ax == a.ax && e2.ax == a.ax {
					return fmt.Sprintf("B%d", a.k), false, true
				}
			}
		}
		return "", false, false
	}
	names := []string{"A0", "A1", "D", "B0", "B1", "X0", "X1"}
	n := 0
	for _, cfg := range []struct {
		ev, eh bool
		cax    int64
	}{{true, false, 0}, {false, true, 1}} {
		constAx = cfg.cax
		for m := 0; m < 1<<len(names); m++ {
			as := map[string]bool{"EV": cfg.ev, "EH": cfg.eh}
			for i, nm := range names {
				as[nm] = m&(1<<i) != 0
			}
			bi := &boolInterp{roleOf: func(*boolFrame, ssa.Value) string { return "" }, atom: atom, assign: as, used: map[string]bool{}}
			fr := &boolFrame{fn: fn, roles: map[ssa.Value]string{}, env: map[ssa.Value]bool{}}
			out, err := bi.run(fr, fn.Blocks[0], nil, 0)
			if err != nil {
				c.Unknown(R, construct, f.Decl.Pos(), "the overlap decision is not understood: "+err.Error())
				return
			}
			if out.kind != "return" {
				c.Bad(R, construct, f.Decl.Pos(), "lineOverlapsInclusiveEdge does not return for a straight edge")
				return
			}
			want := as["A0"] && as["A1"] && as["D"] && ((as["B0"] && !as["X0"]) || (as["B1"] && !as["X1"]))
			n++
			if out.val != want {
				c.Bad(R, construct, f.Decl.Pos(), fmt.Sprintf("for endpoint0-on-line=%v endpoint1-on-line=%v differ-along-edge=%v endpoint0-in-range=%v endpoint1-in-range=%v endpoint0-is-exclusive-tip=%v endpoint1-is-exclusive-tip=%v the code answers %v where the rule gives %v: a segment running along (or merely ending on) an owned border is attributed wrongly", as["A0"], as["A1"], as["D"], as["B0"], as["B1"], as["X0"], as["X1"], out.val, want))
				return
			}
		}
	}
	c.OK(R, construct, f.Decl.Pos(), fmt.Sprintf("decision table agrees with the rule on all %d valuations (vertical and horizontal edges)", n))
}

func describeAssign(names []string, a map[string]bool) string {
	text := map[string]string{"I": "crossing", "E": "exclusive-edge", "X0": "endpoint0==crossing", "X1": "endpoint1==crossing", "T0": "endpoint0==exclusive-tip", "T1": "endpoint1==exclusive-tip", "O": "overlaps-inclusive-edge"}
	out := ""
	for _, n := range names {
		if out != "" {
			out += ", "
		}
		out += fmt.Sprintf("%s=%v", text[n], a[n])
	}
	return out
}

// cmpAtom is a comparison l op r in negation normal form.
type cmpAtom struct {
	l, r ast.Expr
	op   token.Token
	info *types.Info
}

// nnfAtoms puts a boolean expression into negation normal form (pushing ! inward, flipping comparisons, inlining
// single-return boolean helper functions of the module with parameters substituted by arguments) and returns its
// atoms if the result is a pure disjunction (isOr) or a pure conjunction (!isOr) of comparisons.
func nnfAtoms(p *core.Prog, info *types.Info, e ast.Expr, neg bool, subst map[types.Object]ast.Expr, depth int) (atoms []cmpAtom, isOr bool, ok bool) {
	if depth > 6 {
		return nil, false, false
	}
	e = ast.Unparen(e)
	flip := map[token.Token]token.Token{token.LSS: token.GEQ, token.LEQ: token.GTR, token.GTR: token.LEQ, token.GEQ: token.LSS, token.EQL: token.NEQ, token.NEQ: token.EQL}
	resolve := func(x ast.Expr) ast.Expr {
		if o := core.ObjOf(info, x); o != nil {
			if r, has := subst[o]; has {
				return r
			}
		}
		return x
	}
	switch x := e.(type) {
	case *ast.UnaryExpr:
		if x.Op == token.NOT {
			return nnfAtoms(p, info, x.X, !neg, subst, depth+1)
		}
	case *ast.BinaryExpr:
		switch x.Op {
		case token.LAND, token.LOR:
			la, lor, ok1 := nnfAtoms(p, info, x.X, neg, subst, depth+1)
			ra, ror, ok2 := nnfAtoms(p, info, x.Y, neg, subst, depth+1)
			if !ok1 || !ok2 {
				return nil, false, false
			}
			thisOr := (x.Op == token.LOR) != neg
			// children must be atoms or of the same connective
			if (len(la) > 1 && lor != thisOr) || (len(ra) > 1 && ror != thisOr) {
				return nil, false, false
			}
			return append(la, ra...), thisOr, true
		case token.LSS, token.LEQ, token.GTR, token.GEQ, token.EQL, token.NEQ:
			op := x.Op
			if neg {
				op = flip[op]
			}
			return []cmpAtom{{resolve(x.X), resolve(x.Y), op, info}}, true, true
		}
	case *ast.CallExpr:
		if f := core.Callee(info, x); f != nil {
			if hf := p.ByObj[f.Origin()]; hf != nil && hf.Decl.Body != nil && len(hf.Decl.Body.List) >= 1 {
				// a predicate helper: optional definitions of locals (each assigned once), then one return
				body := hf.Decl.Body.List
				ret, isRet := body[len(body)-1].(*ast.ReturnStmt)
				if isRet && len(ret.Results) == 1 {
					hinfo := hf.Pkg.TypesInfo
					hs := hf.Obj.Type().(*types.Signature)
					sub := map[types.Object]ast.Expr{}
					for i := 0; i < hs.Params().Len() && i < len(x.Args); i++ {
						sub[hs.Params().At(i)] = resolve(x.Args[i])
					}
					okDefs := true
					for _, st := range body[:len(body)-1] {
						as, isAs := st.(*ast.AssignStmt)
						if !isAs || as.Tok != token.DEFINE || len(as.Lhs) != 1 || len(as.Rhs) != 1 {
							okDefs = false
							break
						}
						o := core.ObjOf(hinfo, as.Lhs[0])
						if o == nil || assignedCount(hinfo, hf.Decl.Body, o) != 1 {
							okDefs = false
							break
						}
						sub[o] = as.Rhs[0]
					}
					if okDefs {
						return nnfAtoms(p, hinfo, ret.Results[0], neg, sub, depth+1)
					}
				}
			}
		}
	}
	return nil, false, false
}

func returnsErrorValue(info *types.Info, b *ast.BlockStmt) bool {
	if b == nil || len(b.List) == 0 {
		return false
	}
	ret, ok := b.List[len(b.List)-1].(*ast.ReturnStmt)
	if !ok || len(ret.Results) != 1 {
		return false
	}
	return canon(ret.Results[0]) != "nil"
}

func keysInt(m map[int]bool) []int {
	var l []int
	for k := 0; k < 8; k++ {
		if m[k] {
			l = append(l, k)
		}
	}
	return l
}

// ---------------------------------------------------------------- R04

// condFact: a named boolean known true/false at a program point.
type condFact struct {
	expr string
	val  bool
}

// enclosingFacts collects the facts that hold at target inside body: if/else
// conditions and tagless switch cases (previous cases false).
func enclosingFacts(body *ast.BlockStmt, target ast.Node) []condFact {
	var facts []condFact
	path := pathTo(body, target)
	// statements that precede the target in an enclosing statement list and always leave it (continue, break,
	// return, panic) when their condition holds: afterwards every disjunct of that condition is false
	leaves := func(b *ast.BlockStmt) bool {
		if b == nil || len(b.List) == 0 {
			return false
		}
		switch l := b.List[len(b.List)-1].(type) {
		case *ast.BranchStmt:
			return l.Tok == token.CONTINUE || l.Tok == token.BREAK || l.Tok == token.GOTO
		case *ast.ReturnStmt:
			return true
		case *ast.ExprStmt:
			if c, ok := l.X.(*ast.CallExpr); ok {
				if id, ok := c.Fun.(*ast.Ident); ok && id.Name == "panic" {
					return true
				}
			}
		}
		return false
	}
	for i, n := range path {
		var list []ast.Stmt
		switch b := n.(type) {
		case *ast.BlockStmt:
			list = b.List
		case *ast.CaseClause:
			list = b.Body
		}
		if list != nil && i+1 < len(path) {
			for _, st := range list {
				if ast.Node(st) == path[i+1] {
					break
				}
				if is, ok := st.(*ast.IfStmt); ok && is.Else == nil && is.Init == nil && leaves(is.Body) {
					for _, dj := range disjuncts(is.Cond) {
						if len(conjuncts(dj)) == 1 {
							facts = append(facts, factOf(dj, false))
						}
					}
				}
			}
		}
	}
	for i, n := range path {
		switch s := n.(type) {
		case *ast.IfStmt:
			if i+1 < len(path) {
				if path[i+1] == ast.Node(s.Body) {
					for _, cj := range conjuncts(s.Cond) {
						facts = append(facts, factOf(cj, true))
					}
				} else if s.Else != nil && path[i+1] == ast.Node(s.Else) {
					if len(conjuncts(s.Cond)) == 1 {
						facts = append(facts, factOf(s.Cond, false))
					} else {
						facts = append(facts, condFact{"!(" + canon(s.Cond) + ")", true})
					}
				}
			}
		case *ast.SwitchStmt:
			if s.Tag != nil || i+2 >= len(path) {
				continue
			}
			for _, cc := range s.Body.List {
				cl := cc.(*ast.CaseClause)
				if ast.Node(cl) == path[i+2] {
					for _, e := range cl.List {
						for _, cj := range conjuncts(e) {
							facts = append(facts, factOf(cj, true))
						}
					}
					if cl.List == nil {
						facts = append(facts, condFact{"default", true})
					}
					break
				}
				for _, e := range cl.List {
					if len(conjuncts(e)) == 1 {
						facts = append(facts, factOf(e, false))
					}
				}
			}
		}
	}
	return facts
}

func factOf(e ast.Expr, val bool) condFact {
	e = ast.Unparen(e)
	if u, ok := e.(*ast.UnaryExpr); ok && u.Op == token.NOT {
		return condFact{canon(u.X), !val}
	}
	return condFact{canon(e), val}
}

func hasFact(fs []condFact, expr string, val bool) bool {
	for _, f := range fs {
		if f.expr == expr && f.val == val {
			return true
		}
	}
	return false
}

// R04: shape of the 2x2 decision table in findIntersectingQuadrants.
func r04DecisionTable(c *core.Ctx) {
	const R = "R04"
	f := c.Anchor(R, "pointindex.findIntersectingQuadrants")
	if f == nil {
		return
	}
	// the function that builds the lists: findIntersectingQuadrants itself or a helper it calls
	isListLit := func(info *types.Info, cl *ast.CompositeLit) bool {
		st, isSlice := info.TypeOf(cl).Underlying().(*types.Slice)
		return isSlice && core.TypeShort(st.Elem()) == "pointindex.quadrantToCheck"
	}
	builder := f
	hasLits := func(fn *core.Func) bool {
		n := 0
		ast.Inspect(fn.Decl.Body, func(x ast.Node) bool {
			if cl, ok := x.(*ast.CompositeLit); ok && isListLit(fn.Pkg.TypesInfo, cl) {
				n++
			}
			return true
		})
		return n > 0
	}
	if !hasLits(f) {
		builder = nil
		ast.Inspect(f.Decl.Body, func(x ast.Node) bool {
			if call, ok := x.(*ast.CallExpr); ok && builder == nil {
				if cal := core.Callee(f.Pkg.TypesInfo, call); cal != nil {
					if cf := c.P.ByObj[cal.Origin()]; cf != nil && hasLits(cf) {
						builder = cf
					}
				}
			}
			return builder == nil
		})
	}
	if builder == nil {
		c.Bad(R, "decision-table/"+f.Name, f.Decl.Pos(), "no []quadrantToCheck literals found in findIntersectingQuadrants or a function it calls")
		return
	}
	info := builder.Pkg.TypesInfo
	c.Saw(R, "decision table built in "+builder.Name)
	// names of the four classification variables, from their defining calls
	vars := map[string]string{} // role -> variable name
	boolDefs := map[string]ast.Expr{}
	classify := func(name string, rhs ast.Expr) {
		call, ok := ast.Unparen(rhs).(*ast.CallExpr)
		if !ok || len(call.Args) < 1 {
			if t := info.TypeOf(rhs); t != nil {
				if bt, isB := t.Underlying().(*types.Basic); isB && bt.Info()&types.IsBoolean != 0 {
					boolDefs[name] = rhs
				}
			}
			return
		}
		pt := canon(call.Args[0]) // line[0] / line[1]
		k := ""
		if strings.HasSuffix(pt, "[0]") {
			k = "1"
		} else if strings.HasSuffix(pt, "[1]") {
			k = "2"
		}
		if k == "" {
			// a named condition computed by a call (adjacent := quadrantsAreAdjacent(q1, q2))
			if t := info.TypeOf(rhs); t != nil {
				if bt, isB := t.Underlying().(*types.Basic); isB && bt.Info()&types.IsBoolean != 0 {
					boolDefs[name] = rhs
				}
			}
			return
		}
		switch {
		case core.IsCallTo(info, call, "pointindex.getInfiniteQuadrant"):
			vars["quad"+k] = name
		case core.IsCallTo(info, call, "pointindex.containsPoint"):
			vars["inside"+k] = name
		}
	}
	ast.Inspect(builder.Decl.Body, func(n ast.Node) bool {
		as, ok := n.(*ast.AssignStmt)
		if !ok || len(as.Lhs) != len(as.Rhs) {
			return true
		}
		for i := range as.Lhs {
			var name string
			switch l := ast.Unparen(as.Lhs[i]).(type) {
			case *ast.Ident:
				name = l.Name
			case *ast.SelectorExpr:
				name = canon(l)
			default:
				continue
			}
			// the flags of one end point kept together in a struct: pt1 := position{quadrant: …, inside: …}
			if cl, isLit := ast.Unparen(as.Rhs[i]).(*ast.CompositeLit); isLit {
				if st, isStruct := info.TypeOf(cl).Underlying().(*types.Struct); isStruct {
					for j, el := range cl.Elts {
						if kv, isKV := el.(*ast.KeyValueExpr); isKV {
							if key, isID := kv.Key.(*ast.Ident); isID {
								classify(name+"."+key.Name, kv.Value)
							}
						} else if j < st.NumFields() {
							classify(name+"."+st.Field(j).Name(), el)
						}
					}
				}
				continue
			}
			classify(name, as.Rhs[i])
		}
		return true
	})
	if len(vars) != 4 {
		c.Bad(R, "classification-vars/"+builder.Name, builder.Decl.Pos(), fmt.Sprintf("expected quadrant and inside flags for both endpoints, found %v", vars))
		return
	}
	q1, q2, in1, in2 := vars["quad1"], vars["quad2"], vars["inside1"], vars["inside2"]
	// boolean evaluation of an expression over (in1, in2); ok=false if it mentions anything else
	var evalBool func(e ast.Expr, a1, a2 bool, depth int) (val bool, ok bool)
	evalBool = func(e ast.Expr, a1, a2 bool, depth int) (bool, bool) {
		if depth > 6 {
			return false, false
		}
		switch x := ast.Unparen(e).(type) {
		case *ast.Ident:
			switch x.Name {
			case "true":
				return true, true
			case "false":
				return false, true
			case in1:
				return a1, true
			case in2:
				return a2, true
			}
			if def, has := boolDefs[x.Name]; has {
				return evalBool(def, a1, a2, depth+1)
			}
		case *ast.SelectorExpr:
			switch canon(x) {
			case in1:
				return a1, true
			case in2:
				return a2, true
			}
			if def, has := boolDefs[canon(x)]; has {
				return evalBool(def, a1, a2, depth+1)
			}
		case *ast.UnaryExpr:
			if x.Op == token.NOT {
				v, ok := evalBool(x.X, a1, a2, depth+1)
				return !v, ok
			}
		case *ast.BinaryExpr:
			l, ok1 := evalBool(x.X, a1, a2, depth+1)
			r, ok2 := evalBool(x.Y, a1, a2, depth+1)
			if ok1 && ok2 {
				switch x.Op {
				case token.LAND:
					return l && r, true
				case token.LOR:
					return l || r, true
				}
			}
		}
		return false, false
	}
	// consistent: the assignment does not contradict the facts that mention only in1/in2
	consistent := func(facts []condFact, a1, a2 bool) bool {
		for _, fc := range facts {
			switch fc.expr {
			case in1:
				if fc.val != a1 {
					return false
				}
			case in2:
				if fc.val != a2 {
					return false
				}
			default:
				if strings.HasPrefix(fc.expr, "!(") && fc.val {
					// negated conjunction !(in1&&in2)
					if fc.expr == "!("+in1+"&&"+in2+")" && a1 && a2 {
						return false
					}
				}
			}
		}
		return true
	}
	// the lists
	type entry struct {
		i              string
		certain        ast.Expr
		mutex          bool     // can be true under some consistent valuation of the inside flags
		mutexE         ast.Expr // as written
		mutexNotAlways bool     // an expression that is false under some valuation
		pos            token.Pos
	}
	type list struct {
		entries []entry
		facts   []condFact
		pos     token.Pos
	}
	var lists []list
	ast.Inspect(builder.Decl.Body, func(n ast.Node) bool {
		cl, ok := n.(*ast.CompositeLit)
		if !ok || !isListLit(info, cl) {
			return true
		}
		l := list{facts: enclosingFacts(builder.Decl.Body, cl), pos: cl.Pos()}
		// a path condition given a name first stands for its definition
		for fi := range l.facts {
			for k := 0; k < 3; k++ {
				def, has := boolDefs[l.facts[fi].expr]
				if !has {
					break
				}
				l.facts[fi].expr = canon(def)
			}
		}
		for _, el := range cl.Elts {
			e, ok := el.(*ast.CompositeLit)
			if !ok || len(e.Elts) != 3 {
				c.Unknown(R, "entry-shape/"+builder.Name, el.Pos(), "quadrantToCheck entry is not a positional {i, certain, mutex} literal")
				continue
			}
			l.entries = append(l.entries, entry{i: canon(e.Elts[0]), certain: e.Elts[1], mutex: canon(e.Elts[2]) == "true", mutexE: e.Elts[2], pos: e.Pos()})
		}
		lists = append(lists, l)
		return false
	})
	adjX1, adjY1 := "adjacentQuadrantX("+q1+")", "adjacentQuadrantY("+q1+")"
	for li, l := range lists {
		name := fmt.Sprintf("%s/list%d", builder.Name, li)
		diagonal := hasFact(l.facts, "default", true) || (hasFact(l.facts, q1+"=="+q2, false) && hasFact(l.facts, "quadrantsAreAdjacent("+q1+","+q2+")", false))
		same := hasFact(l.facts, q1+"=="+q2, true)
		var desc []string
		bad := ""
		// a mutex flag written as an expression over the inside flags: set if it can be true under a valuation the
		// list's own path conditions allow; anything else is not understood
		for ei := range l.entries {
			e := &l.entries[ei]
			if cm := canon(e.mutexE); cm == "true" || cm == "false" {
				continue
			}
			for _, a1 := range []bool{false, true} {
				for _, a2 := range []bool{false, true} {
					if !consistent(l.facts, a1, a2) {
						continue
					}
					mv, ok := evalBool(e.mutexE, a1, a2, 0)
					if !ok {
						bad += fmt.Sprintf("the `mutex` flag of entry %s is not a boolean combination of the two inside flags (%s); ", e.i, canon(e.mutexE))
					} else if mv {
						e.mutex = true
					} else {
						e.mutexNotAlways = true
					}
				}
			}
		}
		for _, e := range l.entries {
			desc = append(desc, fmt.Sprintf("{%s, %s, %v}", e.i, canon(e.certain), e.mutex))
			// (a) certain only for an endpoint's own quadrant when that endpoint is inside the parent
			for _, a1 := range []bool{false, true} {
				for _, a2 := range []bool{false, true} {
					if !consistent(l.facts, a1, a2) {
						continue
					}
					cv, ok := evalBool(e.certain, a1, a2, 0)
					if !ok {
						bad += fmt.Sprintf("the `certain` flag of entry %s is not a boolean combination of the two inside flags (%s); ", e.i, canon(e.certain))
						break
					}
					if !cv {
						continue
					}
					switch e.i {
					case q1:
						if !a1 {
							bad += fmt.Sprintf("entry %s can be certain although %s is false; ", e.i, in1)
						}
					case q2:
						if !a2 && !(same && a1) {
							bad += fmt.Sprintf("entry %s can be certain although %s is false; ", e.i, in2)
						}
					default:
						bad += fmt.Sprintf("entry %s can be certain but contains no endpoint; ", e.i)
					}
				}
			}
			// (b) mutex only on the two quadrants adjacent to pt1's, in the diagonal arm
			if e.mutex && e.mutexNotAlways && (e.i == adjX1 || e.i == adjY1) {
				bad += fmt.Sprintf("entry %s is mutually exclusive only under some positions of the end points; ", e.i)
			}
			if e.mutex && !(diagonal && (e.i == adjX1 || e.i == adjY1)) {
				bad += fmt.Sprintf("entry %s has mutex set outside the diagonal case / on a non-adjacent quadrant; ", e.i)
			}
		}
		c.Saw(R, fmt.Sprintf("list%d @%s under %v: %v", li, c.P.Pos(l.pos), l.facts, desc))
		if diagonal {
			nm := 0
			hasX, hasY := false, false
			for _, e := range l.entries {
				if e.mutex {
					nm++
				}
				if e.i == adjX1 {
					hasX = true
				}
				if e.i == adjY1 {
					hasY = true
				}
			}
			if !(hasX && hasY && nm == 2 && len(l.entries) == 4) {
				bad += "the diagonal case must list pt1's quadrant, both adjacent quadrants (mutually exclusive) and pt2's quadrant; "
			}
		}
		// (c) order of travel
		if len(l.entries) == 0 || l.entries[0].i != q1 || (l.entries[len(l.entries)-1].i != q2 && !(same && len(l.entries) == 1)) {
			bad += "the list does not start with pt1's quadrant and end with pt2's (order of travel); "
		}
		if same && len(l.entries) != 1 {
			bad += "same-quadrant case must have exactly one entry; "
		}
		c.Check(R, "list-shape/"+name, l.pos, bad == "", fmt.Sprintf("%d entries consistent with the geometry of a segment in a 2x2 split", len(l.entries)), bad)
	}
	// the three geometric cases are all present
	nSame, nAdj, nDiag := 0, 0, 0
	for _, l := range lists {
		switch {
		case hasFact(l.facts, q1+"=="+q2, true):
			nSame++
		case hasFact(l.facts, "quadrantsAreAdjacent("+q1+","+q2+")", true):
			nAdj++
		default:
			nDiag++
		}
	}
	c.Check(R, "cases-covered/"+builder.Name, builder.Decl.Pos(), nSame >= 1 && nAdj >= 1 && nDiag >= 1, fmt.Sprintf("same-quadrant (%d), adjacent (%d) and diagonal (%d) cases each have a list", nSame, nAdj, nDiag), "one of the cases same quadrant / adjacent quadrants / diagonal quadrants has no list")
	info = f.Pkg.TypesInfo
	// (d) the consumer loop, matched by structure and object identity (not by names)
	{
		var loop *ast.RangeStmt
		findLoop := func(fn *core.Func) *ast.RangeStmt {
			var l *ast.RangeStmt
			ast.Inspect(fn.Decl.Body, func(n ast.Node) bool {
				if r, ok := n.(*ast.RangeStmt); ok && core.TypeShort(sliceElem(fn.Pkg.TypesInfo.TypeOf(r.X))) == "pointindex.quadrantToCheck" {
					l = r
				}
				return true
			})
			return l
		}
		loop = findLoop(f)
		consumer := f
		okLoop := false
		why := "no loop over quadrantsToCheck"
		handoff := true
		if loop == nil {
			// the consuming phase in a helper: f must hand it its own quadrants map and the list just built, and
			// return what it returns
			ast.Inspect(f.Decl.Body, func(n ast.Node) bool {
				call, ok := n.(*ast.CallExpr)
				if !ok || loop != nil {
					return true
				}
				cal := core.Callee(info, call)
				if cal == nil {
					return true
				}
				h := c.P.ByObj[cal.Origin()]
				if h == nil || h == builder || h.Decl.Body == nil || h.Pkg != f.Pkg {
					return true
				}
				if l := findLoop(h); l != nil {
					hs := h.Obj.Type().(*types.Signature)
					fq := f.Obj.Type().(*types.Signature).Params().At(1)
					mapOK, listOK := false, false
					for i, a := range call.Args {
						if i >= hs.Params().Len() {
							break
						}
						if core.ObjOf(info, a) == fq && strings.HasPrefix(hs.Params().At(i).Type().String(), "map[") {
							mapOK = true
						}
						if core.TypeShort(sliceElem(hs.Params().At(i).Type())) == "pointindex.quadrantToCheck" && core.ObjOf(h.Pkg.TypesInfo, l.X) == hs.Params().At(i) {
							// the argument is the builder's result
							arg := ast.Unparen(a)
							if o := core.ObjOf(info, arg); o != nil {
								if def := singleDef(info, f.Decl.Body, o); def != nil {
									arg = ast.Unparen(def)
								}
							}
							if bc, ok := arg.(*ast.CallExpr); ok {
								if bcal := core.Callee(info, bc); bcal != nil && c.P.ByObj[bcal.Origin()] == builder {
									listOK = true
								}
							} else if builder == f {
								listOK = true
							}
						}
					}
					returned := false
					if last, ok := f.Decl.Body.List[len(f.Decl.Body.List)-1].(*ast.ReturnStmt); ok && len(last.Results) == 1 && ast.Unparen(last.Results[0]) == ast.Expr(call) {
						returned = true
					}
					loop, consumer = l, h
					handoff = mapOK && listOK && returned
				}
				return true
			})
		}
		if loop != nil {
			okLoop, why = consumerLoopTable(consumer.SSA)
			if okLoop && !handoff {
				okLoop, why = false, "the consuming helper is not handed the function's own quadrant map and the list just built, or its result is not returned"
			}
		}
		c.Check(R, "consumer-loop/"+f.Name, f.Decl.Pos(), okLoop, "a quadrant is reported iff it has points and (certain or lineIntersects(line, its extent)), honouring the mutex; the reported list is returned", "the loop consuming the decision table changed shape: "+why)
	}
	c.FloorPrefix(R, "list-shape/", 3)
}

// consumerLoopTable derives the per-entry decision of the loop that consumes the quadrantsToCheck list from the
// boolean skeleton of its SSA: for every valuation of (entry.mutex, mutex already taken, quadrant has points,
// entry.certain, lineIntersects) the entry's quadrant is appended iff !(mutex && taken) && hasPoints &&
// (certain || intersects), and the mutex is taken afterwards iff it was, or the entry was appended and is a mutex
// entry.  The form of the code (continue guards, nested ifs, flag updates) does not matter.
func consumerLoopTable(fn *ssa.Function) (bool, string) {
	if fn == nil {
		return false, "no SSA"
	}
	// the range loop over a []quadrantToCheck: header with the index phi, element cell
	var header *ssa.BasicBlock
	var elemCell ssa.Value
	for _, b := range fn.Blocks {
		i := core.BlockIf(b)
		if i == nil || len(b.Succs) != 2 {
			continue
		}
		cmp, ok := i.Cond.(*ssa.BinOp)
		if !ok || cmp.Op != token.LSS {
			continue
		}
		for _, in := range b.Succs[0].Instrs {
			ia, ok := in.(*ssa.IndexAddr)
			if !ok || ia.Index != cmp.X {
				continue
			}
			if core.TypeShort(sliceElem(ia.X.Type())) != "pointindex.quadrantToCheck" {
				continue
			}
			header = b
			// the element is copied into a local cell: *cell = *ia
			for _, r := range *ia.Referrers() {
				if ld, ok := r.(*ssa.UnOp); ok && ld.Op == token.MUL {
					for _, rr := range *ld.Referrers() {
						if st, ok := rr.(*ssa.Store); ok && st.Val == ssa.Value(ld) {
							elemCell = st.Addr
						}
					}
					if elemCell == nil {
						elemCell = ia
					}
				}
			}
		}
	}
	if header == nil || elemCell == nil {
		return false, "no loop over quadrantsToCheck"
	}
	elemField := func(v ssa.Value) string {
		ld, ok := v.(*ssa.UnOp)
		if !ok || ld.Op != token.MUL {
			return ""
		}
		fa, ok := ld.X.(*ssa.FieldAddr)
		if !ok || fa.X != elemCell {
			return ""
		}
		return fieldNameOf(fa.X.Type(), fa.Field)
	}
	var flagPhi, foundPhi *ssa.Phi
	for _, in := range header.Instrs {
		ph, ok := in.(*ssa.Phi)
		if !ok {
			continue
		}
		switch {
		case isBoolType(ph.Type()):
			flagPhi = ph
		case core.TypeShort(sliceElem(ph.Type())) == "pointindex.Q" || strings.HasSuffix(ph.Type().String(), "[]int"):
			if _, isSl := ph.Type().Underlying().(*types.Slice); isSl {
				foundPhi = ph
			}
		}
	}
	if flagPhi == nil || foundPhi == nil {
		return false, "no loop-carried mutex flag or result list"
	}
	var lookup *ssa.Lookup
	atom := func(fr *boolFrame, v ssa.Value) (string, bool, bool) {
		if v == ssa.Value(flagPhi) {
			return "X", false, true
		}
		switch elemField(v) {
		case "mutex":
			return "M", false, true
		case "certain":
			return "C", false, true
		}
		switch x := v.(type) {
		case *ssa.Extract:
			if lk, ok := x.Tuple.(*ssa.Lookup); ok && lk.CommaOk && x.Index == 1 && elemField(lk.Index) == "i" {
				if m, ok := lk.X.Type().Underlying().(*types.Map); ok && core.TypeShort(m.Elem()) == "pointindex.Quadrant" {
					if _, isParam := resolveValue(lk.X).(*ssa.Parameter); isParam {
						lookup = lk
						return "P", false, true
					}
				}
			}
		case *ssa.Call:
			if core.StaticCalleeID(x) == core.ModPath+"/pointindex.lineIntersects" && len(x.Call.Args) == 2 {
				if _, isParam := resolveValue(x.Call.Args[0]).(*ssa.Parameter); !isParam {
					break
				}
				// the extent of the quadrant just looked up
				ext := resolveValue(x.Call.Args[1])
				if ld, ok := ext.(*ssa.UnOp); ok {
					if fa, ok := ld.X.(*ssa.FieldAddr); ok && fieldNameOf(fa.X.Type(), fa.Field) == "intExtent" {
						if a, ok := fa.X.(*ssa.Alloc); ok {
							if sv := onceStoredIgnoringLoads(a); sv != nil {
								if e0, ok := sv.(*ssa.Extract); ok && e0.Index == 0 {
									if lk, ok := e0.Tuple.(*ssa.Lookup); ok && elemField(lk.Index) == "i" {
										return "L", false, true
									}
								}
							}
						}
					}
				}
				if f, ok := ext.(*ssa.Field); ok && fieldNameOf(f.X.Type(), f.Field) == "intExtent" {
					if e0, ok := f.X.(*ssa.Extract); ok && e0.Index == 0 {
						if lk, ok := e0.Tuple.(*ssa.Lookup); ok && elemField(lk.Index) == "i" {
							return "L", false, true
						}
					}
				}
			}
		}
		return "", false, false
	}
	names := []string{"M", "X", "P", "C", "L"}
	for m := 0; m < 1<<len(names); m++ {
		as := map[string]bool{}
		for i, n := range names {
			as[n] = m&(1<<i) != 0
		}
		bi := &boolInterp{roleOf: func(*boolFrame, ssa.Value) string { return "" }, atom: atom, assign: as, used: map[string]bool{}}
		fr := &boolFrame{fn: fn, roles: map[ssa.Value]string{}, env: map[ssa.Value]bool{}, prev: header}
		out, err := bi.run(fr, header.Succs[0], map[*ssa.BasicBlock]bool{header: true}, 0)
		if err != nil {
			return false, "the per-entry decision is not understood: " + err.Error()
		}
		if out.kind != "block" {
			return false, "an entry can end the loop early (" + out.kind + ")"
		}
		// effects on the back edge taken
		pi := -1
		for i, p := range header.Preds {
			if p == fr.prev {
				pi = i
			}
		}
		if pi < 0 {
			return false, "back edge not found"
		}
		appended := false
		switch e := foundPhi.Edges[pi].(type) {
		case *ssa.Phi:
			if e != foundPhi {
				return false, "the result list is replaced by something other than an append"
			}
		case *ssa.Call:
			if _, isApp := isBuiltinCall(e, "append"); !isApp || e.Call.Args[0] != ssa.Value(foundPhi) {
				return false, "the result list is replaced by something other than append(list, …)"
			}
			el := sliceLitElems(e.Call.Args[1])
			if len(el) != 1 || elemField(el[0]) != "i" {
				return false, "something other than the entry's quadrant number is appended"
			}
			appended = true
		default:
			return false, "the result list is replaced by something other than an append"
		}
		newFlag, err := bi.eval(fr, flagPhi.Edges[pi], 0)
		if err != nil {
			return false, "the mutex flag after an entry is not understood: " + err.Error()
		}
		wantApp := !(as["M"] && as["X"]) && as["P"] && (as["C"] || as["L"])
		wantFlag := as["X"] || (wantApp && as["M"])
		if appended != wantApp || newFlag != wantFlag {
			return false, fmt.Sprintf("for an entry with mutex=%v, mutex-taken=%v, has-points=%v, certain=%v, intersects=%v the code reports=%v / mutex-taken-after=%v where the rule gives %v / %v", as["M"], as["X"], as["P"], as["C"], as["L"], appended, newFlag, wantApp, wantFlag)
		}
	}
	_ = lookup
	// what leaves the loop is the list
	done := header.Succs[1]
	retOK := false
	for _, in := range done.Instrs {
		if ret, ok := in.(*ssa.Return); ok && len(ret.Results) == 1 && ret.Results[0] == ssa.Value(foundPhi) {
			retOK = true
		}
	}
	if !retOK {
		return false, "the list built by the loop is not what is returned"
	}
	return true, ""
}

// onceStoredIgnoringLoads: like onceStored, for a struct local that is stored once and otherwise only read through
// field addresses.
func onceStoredIgnoringLoads(a *ssa.Alloc) ssa.Value { return onceStored(a) }

func sliceElem(t types.Type) types.Type {
	if t == nil {
		return types.Typ[types.Invalid]
	}
	if s, ok := t.Underlying().(*types.Slice); ok {
		return s.Elem()
	}
	return t
}
