package rules

import (
	"fmt"
	"go/ast"
	"go/token"
	"go/types"
	"strings"

	"golang.org/x/tools/go/ssa"

	"texelverif/internal/core"
)

func init() {
	reg("R23", r23ChannelLifeCycle)
	reg("R24", r24DrainUntilClose)
	reg("R25", r25WaitGroups)
	reg("R26", r26GoroutineInventory)
	reg("R27", r27SharedData)
	reg("R28", r28OneDelivery)
}

// chanInfo describes one pipeline channel (a make(chan) site in package processing).
type chanInfo struct {
	make    *ssa.MakeChan
	name    string
	flow    map[ssa.Value]bool
	sends   []*ssa.Send
	closes  []*ssa.Call
	recvs   []*ssa.UnOp
	goSites []*ssa.Go // go statements receiving the channel as argument or capture
}

type pipeline struct {
	idx   core.SiteCallees
	chans []*chanInfo
	funcs []*ssa.Function // module functions incl. closures
}

func modFollow(f *ssa.Function) bool { return core.IsModPath(core.FuncPkgPath(f)) }

func allModFuncs(p *core.Prog) []*ssa.Function {
	var out []*ssa.Function
	for _, f := range sortedFuncs(p) {
		if f.SSA != nil {
			out = append(out, core.AllSSAFuncs(f.SSA)...)
		}
	}
	return out
}

func isBuiltinCall(in ssa.Instruction, name string) (*ssa.Call, bool) {
	c, ok := in.(*ssa.Call)
	if !ok {
		return nil, false
	}
	b, ok := c.Call.Value.(*ssa.Builtin)
	return c, ok && b.Name() == name
}

func buildPipeline(c *core.Ctx, R string) *pipeline {
	pl := &pipeline{idx: c.P.SiteIndex(c.P.VTA()), funcs: allModFuncs(c.P)}
	for _, fn := range pl.funcs {
		if core.ShortPkg(core.FuncPkgPath(fn)) != "processing" {
			continue
		}
		for _, b := range fn.Blocks {
			for _, in := range b.Instrs {
				mc, ok := in.(*ssa.MakeChan)
				if !ok {
					continue
				}
				ci := &chanInfo{make: mc, name: fn.Name() + "/" + chanVarName(mc)}
				// (a channel may be made in a helper and handed back, alone or inside a container)
				ci.flow = core.FlowOpts{Idx: pl.idx, Follow: modFollow, Returns: true, ReturnsAll: true, Callers: callersIndex(c)}.Run([]ssa.Value{mc})
				pl.chans = append(pl.chans, ci)
			}
		}
	}
	isChan := func(v ssa.Value) bool {
		_, ok := v.Type().Underlying().(*types.Chan)
		return ok
	}
	for _, ci := range pl.chans {
		for _, fn := range pl.funcs {
			for _, b := range fn.Blocks {
				for _, in := range b.Instrs {
					switch x := in.(type) {
					case *ssa.Send:
						if ci.flow[x.Chan] {
							ci.sends = append(ci.sends, x)
						}
					case *ssa.UnOp:
						if x.Op == token.ARROW && ci.flow[x.X] {
							ci.recvs = append(ci.recvs, x)
						}
					case *ssa.Call:
						if call, ok := isBuiltinCall(in, "close"); ok && ci.flow[call.Call.Args[0]] && isChan(call.Call.Args[0]) {
							ci.closes = append(ci.closes, call)
						}
					case *ssa.Go:
						uses := false
						for _, a := range x.Call.Args {
							if ci.flow[a] {
								uses = true
							}
						}
						if mcl, ok := x.Call.Value.(*ssa.MakeClosure); ok {
							for _, bnd := range mcl.Bindings {
								if ci.flow[bnd] {
									uses = true
								}
							}
						}
						if uses {
							ci.goSites = append(ci.goSites, x)
						}
					}
				}
			}
		}
	}
	return pl
}

// chanVarName names the channel after the variable the make(chan) is assigned to.
func chanVarName(mc *ssa.MakeChan) string {
	for _, r := range *mc.Referrers() {
		if st, ok := r.(*ssa.Store); ok {
			if a, ok := st.Addr.(*ssa.Alloc); ok && a.Comment != "" {
				return a.Comment
			}
		}
	}
	if syn := mc.Parent().Syntax(); syn != nil {
		name := ""
		ast.Inspect(syn, func(n ast.Node) bool {
			as, ok := n.(*ast.AssignStmt)
			if !ok {
				return true
			}
			for i, rhs := range as.Rhs {
				if call, ok := rhs.(*ast.CallExpr); ok && call.Lparen == mc.Pos() && i < len(as.Lhs) {
					if id, ok := as.Lhs[i].(*ast.Ident); ok {
						name = id.Name
					}
				}
			}
			return name == ""
		})
		if name != "" {
			return name
		}
	}
	return "chan"
}

func fnSet[T ssa.Instruction](ins []T) map[*ssa.Function]bool {
	out := map[*ssa.Function]bool{}
	for _, in := range ins {
		out[in.Parent()] = true
	}
	return out
}

func fnNames(m map[*ssa.Function]bool) string {
	var l []string
	for f := range m {
		l = append(l, f.String())
	}
	sortStrings(l)
	return strings.Join(l, ", ")
}

// rangeNextOf: v is Extract(#2) of a Next over a Range; returns the Next and the ranged value.
func rangeNextOf(v ssa.Value) (*ssa.Next, ssa.Value) {
	e, ok := v.(*ssa.Extract)
	if !ok {
		return nil, nil
	}
	nx, ok := e.Tuple.(*ssa.Next)
	if !ok {
		return nil, nil
	}
	rg, ok := nx.Iter.(*ssa.Range)
	if !ok {
		return nil, nil
	}
	return nx, rg.X
}

// okEdgeOnly: at the If testing extract #0 (ok) of tuple t, follow only the given successor.
func tupleOkEdge(t ssa.Value, okIndex int, succ int) func(b *ssa.BasicBlock, k int) bool {
	return func(b *ssa.BasicBlock, k int) bool {
		i := core.BlockIf(b)
		if i == nil {
			return true
		}
		if e, ok := i.Cond.(*ssa.Extract); ok && e.Tuple == t && e.Index == okIndex {
			return k == succ
		}
		return true
	}
}

func instrIs(x ssa.Instruction) func(ssa.Instruction) bool {
	return func(in ssa.Instruction) bool { return in == x }
}

// R23: who sends, who closes, and when.
func r23ChannelLifeCycle(c *core.Ctx) {
	const R = "R23"
	pl := buildPipeline(c, R)
	if len(pl.chans) < 3 {
		c.Bad(R, "channels", token.NoPos, fmt.Sprintf("found %d make(chan) sites in package processing, expected >= 3 (featuresBefore, featuresAfter, targetChannel)", len(pl.chans)))
	}
	for _, ci := range pl.chans {
		c.Saw(R, fmt.Sprintf("channel %s @%s: %d send sites, %d close sites, %d receive sites", ci.name, c.P.Pos(ci.make.Pos()), len(ci.sends), len(ci.closes), len(ci.recvs)))
		// a send in a helper that does not close the channel and is only called synchronously from one place
		// counts as a send at that call (the stage's sending loop may live in a function of its own)
		lifted := liftSends(c, ci)
		senders := map[*ssa.Function]bool{}
		for _, ls := range lifted {
			senders[ls.Parent()] = true
		}
		closers := fnSet(ci.closes)
		liftedClosers := map[*ssa.Function]bool{} // helpers that close on behalf of the sending function
		// the source channel is written by implementations of processing.Source; each is its own sender+closer
		c.Check(R, "has-sender-and-closer/"+ci.name, ci.make.Pos(), len(ci.sends) > 0 && len(ci.closes) > 0,
			fmt.Sprintf("%d send sites in %s; %d close sites in %s", len(ci.sends), fnNames(senders), len(ci.closes), fnNames(closers)),
			fmt.Sprintf("channel has %d send sites and %d close sites: never closed means its consumer never finishes", len(ci.sends), len(ci.closes)))
		for fn := range senders {
			construct := fmt.Sprintf("sender-closes/%s/%s", ci.name, fn.Name())
			var cl []*ssa.Call
			for _, x := range ci.closes {
				if liftInto(c, x, fn, ci.flow) != nil {
					cl = append(cl, x)
				}
			}
			if len(cl) != 1 {
				c.Bad(R, construct, fn.Pos(), fmt.Sprintf("function %s sends on the channel but contains %d close sites (need exactly one): the consumer of this channel cannot learn that the stream ended", fn.String(), len(cl)))
				continue
			}
			closeI := cl[0]
			// what stands for the close in the sending function: the close, or the call of the helper that does it
			closeRep := liftInto(c, closeI, fn, ci.flow)
			lifted2 := closeRep != ssa.Instruction(closeI)
			if lifted2 {
				liftedClosers[closeI.Parent()] = true
			}
			c.OK(R, construct, closeI.Pos(), "the sending function closes the channel")
			// close once: not in a loop, unless it is the close-all loop over the container of channels
			nx, container := rangeNextOf(closeI.Call.Args[0])
			if nx != nil {
				// close-all loop: every iteration closes; the loop is reached after the send loop
				hf := closeI.Parent()
				r, _ := core.Search{Fn: hf, From: nx, Target: func(in ssa.Instruction) bool { return in == ssa.Instruction(nx) || core.IsReturn(in) },
					Barrier: instrIs(closeI), Edge: tupleOkEdge(nx, 0, 0)}.Run()
				okLoop := !r && ci.flow[container]
				if lifted2 {
					// in a helper: the helper cannot return without having walked the loop
					miss, _ := core.Search{Fn: hf, Target: core.IsReturn, Barrier: instrIs(nx)}.Run()
					okLoop = okLoop && !miss
				}
				c.Check(R, fmt.Sprintf("close-all-no-skip/%s/%s", ci.name, fn.Name()), closeI.Pos(), okLoop,
					"every iteration of the range over the channel container closes its channel (no skip, break or early return)",
					"the loop closing the target channels can skip a channel (continue/break/early return): that target's writer never finishes and wg.Wait blocks forever")
				var anchor ssa.Instruction = nx
				if lifted2 {
					anchor = closeRep
				}
				for _, s := range sendsInLifted(lifted, fn) {
					c.Check(R, fmt.Sprintf("close-after-sends/%s/%s", ci.name, fn.Name()), closeI.Pos(),
						core.PostDominatesNormal(anchor, s) && !core.ReachableFrom(closeRep, s),
						"the close-all loop is on every normal path after the send, and no send is reachable from a close",
						"a normal return is reachable from the send without passing the close-all loop, or a send is reachable after a close (send on closed channel panics)")
				}
			} else {
				okOnce := !core.InLoop(closeI) && !core.InLoop(closeRep)
				if lifted2 {
					miss, _ := core.Search{Fn: closeI.Parent(), Target: core.IsReturn, Barrier: instrIs(closeI)}.Run()
					okOnce = okOnce && !miss
				}
				c.Check(R, fmt.Sprintf("close-not-in-loop/%s/%s", ci.name, fn.Name()), closeI.Pos(), okOnce,
					"close is outside every loop", "close(channel) is inside a loop: a second close or a send after close panics")
				for i, s := range sendsInLifted(lifted, fn) {
					c.Check(R, fmt.Sprintf("close-after-sends/%s/%s/send%d", ci.name, fn.Name(), i), closeI.Pos(),
						core.PostDominatesNormal(closeRep, s) && !core.ReachableFrom(closeRep, s),
						"close post-dominates the send on all normal-return paths and no send is reachable from the close",
						fmt.Sprintf("send @%s: a normal return is reachable without closing the channel (consumer blocks forever), or the send is reachable after the close (panic)", c.P.Pos(s.Pos())))
				}
				// functions that send must close even when nothing was sent: close on every normal path from entry
				r, _ := core.Reaches(fn, nil, core.IsReturn, instrIs(closeRep))
				c.Check(R, fmt.Sprintf("close-on-every-normal-path/%s/%s", ci.name, fn.Name()), closeI.Pos(), !r,
					"every normal return of the sender is preceded by the close (also for an empty stream)",
					"the sender can return normally without closing the channel")
			}
		}
		for fn := range closers {
			if !senders[fn] && !liftedClosers[fn] {
				c.Bad(R, fmt.Sprintf("closer-is-sender/%s/%s", ci.name, fn.Name()), fn.Pos(), "channel is closed by "+fn.String()+" which does not send on it; the sender(s) "+fnNames(senders)+" may send after the close (panic)")
			}
		}
	}
	// every module implementation of processing.Source closes its output
	r23SourceImpls(c, pl)
	c.FloorPrefix(R, "sender-closes/", 3)
	c.FloorPrefix(R, "close-after-sends/", 3)
}

// liftInto: the instruction of function `into` that stands for `in`: `in` itself if it is there, or the synchronous
// call through which a helper performs it (helper called from exactly one place, the call handing on one of the
// tracked values), climbing at most three calls.  nil when `in` is not performed on behalf of `into`.
func liftInto(c *core.Ctx, in ssa.Instruction, into *ssa.Function, flow map[ssa.Value]bool) ssa.Instruction {
	callers := callersIndex(c)
	fn := in.Parent()
	for depth := 0; depth < 4; depth++ {
		if fn == into {
			return in
		}
		sites := callers(fn)
		if len(sites) != 1 {
			return nil
		}
		call, ok := sites[0].(*ssa.Call)
		if !ok {
			return nil // go / defer: a different goroutine or a different time
		}
		if flow != nil {
			passes := false
			for _, a := range call.Call.Args {
				if flow[a] {
					passes = true
				}
			}
			if !passes {
				return nil
			}
		}
		in, fn = call, call.Parent()
	}
	return nil
}

// liftSends returns, per send on the channel, the instruction that stands for it in the function responsible for the
// channel: the send itself, or the synchronous call through which a non-closing helper performs it.
func liftSends(c *core.Ctx, ci *chanInfo) []ssa.Instruction {
	callers := callersIndex(c)
	closes := func(fn *ssa.Function) bool {
		for _, x := range ci.closes {
			if x.Parent() == fn || liftInto(c, x, fn, ci.flow) != nil {
				return true
			}
		}
		return false
	}
	seen := map[ssa.Instruction]bool{}
	var out []ssa.Instruction
	for _, s := range ci.sends {
		var in ssa.Instruction = s
		fn := s.Parent()
		for depth := 0; depth < 3 && !closes(fn); depth++ {
			sites := callers(fn)
			if len(sites) != 1 {
				break
			}
			call, ok := sites[0].(*ssa.Call)
			if !ok {
				break // go / defer: a different goroutine or a different time
			}
			passes := false
			for _, a := range call.Call.Args {
				if ci.flow[a] {
					passes = true
				}
			}
			if !passes {
				break
			}
			in, fn = call, call.Parent()
		}
		if !seen[in] {
			seen[in] = true
			out = append(out, in)
		}
	}
	return out
}

func sendsInLifted(lifted []ssa.Instruction, fn *ssa.Function) []ssa.Instruction {
	var out []ssa.Instruction
	for _, s := range lifted {
		if s.Parent() == fn {
			out = append(out, s)
		}
	}
	return out
}

func sendsIn(ci *chanInfo, fn *ssa.Function) []*ssa.Send {
	var out []*ssa.Send
	for _, s := range ci.sends {
		if s.Parent() == fn {
			out = append(out, s)
		}
	}
	return out
}

// implementations of an interface method among module types
func moduleImpls(c *core.Ctx, ifacePkg, ifaceName, method string) []*core.Func {
	pk := c.P.PkgShort(ifacePkg)
	if pk == nil {
		return nil
	}
	tn, _ := pk.Types.Scope().Lookup(ifaceName).(*types.TypeName)
	if tn == nil {
		return nil
	}
	it, _ := tn.Type().Underlying().(*types.Interface)
	if it == nil {
		return nil
	}
	var out []*core.Func
	for _, f := range sortedFuncs(c.P) {
		if f.Decl.Recv == nil || f.Decl.Name.Name != method {
			continue
		}
		sig := f.Obj.Type().(*types.Signature)
		rt := sig.Recv().Type()
		if types.Implements(rt, it) || types.Implements(types.NewPointer(rt), it) {
			out = append(out, f)
		}
	}
	return out
}

func r23SourceImpls(c *core.Ctx, pl *pipeline) {
	const R = "R23"
	impls := moduleImpls(c, "processing", "Source", "ReadFeatures")
	if len(impls) == 0 {
		c.Bad(R, "source-impls", token.NoPos, "no module type implements processing.Source")
		return
	}
	for _, f := range impls {
		construct := "source-impl-closes/" + f.Name
		if f.SSA == nil || len(f.SSA.Params) < 2 {
			c.Unknown(R, construct, f.Decl.Pos(), "no SSA")
			continue
		}
		ch := f.SSA.Params[len(f.SSA.Params)-1]
		flow := core.ForwardFlow([]ssa.Value{ch}, pl.idx, modFollow)
		var closeI *ssa.Call
		n := 0
		for _, b := range f.SSA.Blocks {
			for _, in := range b.Instrs {
				if call, ok := isBuiltinCall(in, "close"); ok && flow[call.Call.Args[0]] {
					closeI = call
					n++
				}
			}
		}
		if n != 1 {
			c.Bad(R, construct, f.Decl.Pos(), fmt.Sprintf("%s has %d close(features) sites, need exactly one: the snapper never sees the end of the stream", f.Name, n))
			continue
		}
		r, _ := core.Reaches(f.SSA, nil, core.IsReturn, instrIs(closeI))
		c.Check(R, construct, closeI.Pos(), !r && !core.InLoop(closeI), "closes its output exactly once on every normal path", "a normal return without close(features) exists, or the close is inside the read loop")
	}
}

// R24: every consumer drains its channel until it is closed.
func r24DrainUntilClose(c *core.Ctx) {
	const R = "R24"
	pl := buildPipeline(c, R)
	// receive sites on pipeline channels + receive sites in Target implementations
	type site struct {
		recv *ssa.UnOp
		what string
	}
	var sites []site
	seen := map[*ssa.UnOp]bool{}
	for _, ci := range pl.chans {
		for _, r := range ci.recvs {
			if !seen[r] {
				seen[r] = true
				sites = append(sites, site{r, ci.name})
			}
		}
		consumers := fnSet(ci.recvs)
		c.Check(R, "single-consumer/"+ci.name, ci.make.Pos(), len(consumers) == 1,
			"received in exactly one function: "+fnNames(consumers),
			fmt.Sprintf("channel is received from in %d functions (%s): features are split between consumers or nobody drains it", len(consumers), fnNames(consumers)))
	}
	for _, f := range moduleImpls(c, "processing", "Target", "WriteFeatures") {
		c.Saw(R, "Target implementation "+f.Name)
		if f.SSA == nil {
			continue
		}
		ch := f.SSA.Params[len(f.SSA.Params)-1]
		flow := core.ForwardFlow([]ssa.Value{ch}, pl.idx, modFollow)
		n := 0
		for _, fn := range pl.funcs {
			for _, b := range fn.Blocks {
				for _, in := range b.Instrs {
					if u, ok := in.(*ssa.UnOp); ok && u.Op == token.ARROW && flow[u.X] {
						n++
						if !seen[u] {
							seen[u] = true
							sites = append(sites, site{u, f.Name})
						}
					}
				}
			}
		}
		c.Check(R, "target-impl-receives/"+f.Name, f.Decl.Pos(), n >= 1, fmt.Sprintf("%d receive site(s) on its input channel", n), "Target.WriteFeatures implementation never receives from its channel: the router blocks forever on the first send")
	}
	for _, s := range sites {
		fn := s.recv.Parent()
		construct := fmt.Sprintf("drains-until-close/%s/%s", fn.Name(), s.what)
		c.Saw(R, "receive "+c.P.InstrStr(s.recv))
		if !s.recv.CommaOk {
			c.Bad(R, construct, s.recv.Pos(), "single-value receive: the consumer cannot see that the channel was closed (spins on zero values or blocks)")
			continue
		}
		if !core.InLoop(s.recv) {
			c.Bad(R, construct, s.recv.Pos(), "receive is not inside a loop: only one feature is consumed, the producer blocks on the next send")
			continue
		}
		// with ok == true the function cannot return normally without receiving again
		r, at := core.Search{Fn: fn, From: s.recv, Target: core.IsReturn, Barrier: instrIs(s.recv), Edge: tupleOkEdge(s.recv, 1, 0)}.Run()
		// the ok flag must actually be tested
		tested := false
		for _, rr := range *s.recv.Referrers() {
			if e, ok := rr.(*ssa.Extract); ok && e.Index == 1 {
				for _, r3 := range *e.Referrers() {
					if _, ok := r3.(*ssa.If); ok {
						tested = true
					}
				}
			}
		}
		detail := ""
		if r {
			detail = "after a successful receive the function can return (@" + c.P.Pos(at.Pos()) + ") without draining the channel: the upstream stage blocks forever on its next send and the pipeline never finishes"
		}
		if !tested {
			detail = "the ok result of the receive is never tested: the loop cannot end when the channel is closed"
		}
		c.Check(R, construct, s.recv.Pos(), !r && tested, "the receive loop is left only when the channel is closed (no other break/return; no-return calls excepted)", detail)
	}
	c.FloorPrefix(R, "drains-until-close/", 3)
}

// wgInfo describes one sync.WaitGroup variable.
type wgInfo struct {
	alloc  *ssa.Alloc
	flow   map[ssa.Value]bool
	adds   []*ssa.Call
	dones  []ssa.CallInstruction
	waits  []*ssa.Call
	gos    []*ssa.Go // go statements whose closure defers Done on this group
	parent *ssa.Function
}

func findWaitGroups(c *core.Ctx, pl *pipeline) []*wgInfo {
	var out []*wgInfo
	for _, fn := range pl.funcs {
		if core.ShortPkg(core.FuncPkgPath(fn)) != "processing" {
			continue
		}
		for _, b := range fn.Blocks {
			for _, in := range b.Instrs {
				a, ok := in.(*ssa.Alloc)
				if !ok {
					continue
				}
				pt := a.Type().(*types.Pointer)
				if !namedIs(pt.Elem(), "sync", "WaitGroup") {
					continue
				}
				w := &wgInfo{alloc: a, parent: fn}
				w.flow = core.ForwardFlow([]ssa.Value{a}, pl.idx, modFollow)
				out = append(out, w)
			}
		}
	}
	for _, w := range out {
		for _, fn := range pl.funcs {
			for _, b := range fn.Blocks {
				for _, in := range b.Instrs {
					ci, ok := in.(ssa.CallInstruction)
					if !ok {
						continue
					}
					id := core.StaticCalleeID(ci)
					if !strings.HasPrefix(id, "sync.WaitGroup.") || len(ci.Common().Args) == 0 || !w.flow[ci.Common().Args[0]] {
						continue
					}
					switch id {
					case "sync.WaitGroup.Add":
						if call, ok := ci.(*ssa.Call); ok {
							w.adds = append(w.adds, call)
						}
					case "sync.WaitGroup.Done":
						w.dones = append(w.dones, ci)
					case "sync.WaitGroup.Wait":
						if call, ok := ci.(*ssa.Call); ok {
							w.waits = append(w.waits, call)
						}
					}
				}
			}
		}
		for _, fn := range pl.funcs {
			for _, b := range fn.Blocks {
				for _, in := range b.Instrs {
					g, ok := in.(*ssa.Go)
					if !ok {
						continue
					}
					if target := goTarget(g); target != nil {
						for _, d := range w.dones {
							if d.Parent() == target {
								w.gos = append(w.gos, g)
							}
						}
					}
				}
			}
		}
	}
	return out
}

// goTarget returns the function a go statement starts (closure or static callee).
func goTarget(g *ssa.Go) *ssa.Function {
	if mc, ok := g.Call.Value.(*ssa.MakeClosure); ok {
		f, _ := mc.Fn.(*ssa.Function)
		return f
	}
	return g.Call.StaticCallee()
}

// R25: wait-group pairing and the two join points.
func r25WaitGroups(c *core.Ctx) {
	const R = "R25"
	pl := buildPipeline(c, R)
	wgs := findWaitGroups(c, pl)
	if len(wgs) < 2 {
		c.Bad(R, "waitgroups", token.NoPos, fmt.Sprintf("found %d sync.WaitGroup variables in package processing, expected 2", len(wgs)))
	}
	pf := c.Anchor(R, "processing.ProcessFeatures")
	wt := c.Anchor(R, "processing.writeFeaturesToTargets")
	for _, w := range wgs {
		name := w.parent.Name() + "/" + w.alloc.Comment
		c.Saw(R, fmt.Sprintf("wait group %s: %d Add, %d Done, %d Wait, %d go statements", name, len(w.adds), len(w.dones), len(w.waits), len(w.gos)))
		c.Check(R, "has-add-done-wait/"+name, w.alloc.Pos(), len(w.adds) >= 1 && len(w.dones) >= 1 && len(w.waits) == 1 && len(w.gos) >= 1,
			"Add, deferred Done in the goroutine, and one Wait are present", fmt.Sprintf("wait group has %d Add, %d Done, %d Wait, %d accounted go statements", len(w.adds), len(w.dones), len(w.waits), len(w.gos)))
		if len(w.waits) != 1 {
			continue
		}
		wait := w.waits[0]
		for i, g := range w.gos {
			gname := fmt.Sprintf("%s/go%d", name, i)
			// Add(1) dominates the go statement, in the same iteration
			var add *ssa.Call
			for _, a := range w.adds {
				if a.Parent() == g.Parent() && core.Dominates(a, g) {
					add = a
				}
			}
			okAdd := add != nil
			detail := "no wg.Add dominates the go statement: Wait may return before the goroutine is counted"
			if okAdd {
				if k, isC := add.Call.Args[1].(*ssa.Const); !isC || k.Int64() != 1 {
					okAdd = false
					detail = "wg.Add argument is not the constant 1"
				}
				if core.InLoop(g) {
					again, _ := core.Search{Fn: g.Parent(), From: g, Target: instrIs(g), Barrier: instrIs(add)}.Run()
					if again {
						okAdd = false
						detail = "the go statement is in a loop but wg.Add is not executed in every iteration"
					}
				}
			}
			c.Check(R, "add-before-go/"+gname, g.Pos(), okAdd, "wg.Add(1) dominates the go statement in the same iteration", detail)
			// Done is deferred first thing in the goroutine
			target := goTarget(g)
			firstOK := false
			if target != nil && len(target.Blocks) > 0 {
				for _, in := range target.Blocks[0].Instrs {
					if d, ok := in.(*ssa.Defer); ok {
						if core.StaticCalleeID(d) == "sync.WaitGroup.Done" && w.flow[d.Call.Args[0]] {
							firstOK = true
						}
						break
					}
					if _, isCall := in.(ssa.CallInstruction); isCall {
						break
					}
					if _, isSend := in.(*ssa.Send); isSend {
						break
					}
				}
			}
			c.Check(R, "done-deferred-first/"+gname, g.Pos(), firstOK, "the goroutine's first action is `defer wg.Done()`", "wg.Done is not deferred before anything else in the goroutine: a panic or early return leaves Wait blocked / Done is skipped")
			// Wait post-dominates the go statement
			gRep := liftInto(c, g, wait.Parent(), w.flow) // the go statement may sit in a helper that is handed the group
			c.Check(R, "wait-after-go/"+gname, wait.Pos(), gRep != nil && core.PostDominatesNormal(wait, gRep),
				"wg.Wait is on every normal path after the go statement", "a normal return is reachable after the go statement without wg.Wait: the function returns while the goroutine is still running")
		}
		// every normal return is preceded by Wait
		rets := 0
		okAll := true
		for _, b := range w.parent.Blocks {
			for _, in := range b.Instrs {
				if core.IsReturn(in) {
					rets++
					if !core.Dominates(wait, in) {
						okAll = false
					}
				}
			}
		}
		c.Check(R, "wait-before-every-return/"+name, wait.Pos(), okAll && rets > 0, fmt.Sprintf("wg.Wait dominates all %d normal returns of %s", rets, w.parent.Name()),
			"a normal return of "+w.parent.Name()+" is not preceded by wg.Wait: the caller continues while writers are still running (main re-assigns target.Table right after)")
	}
	// join structure: ProcessFeatures' group waits for the goroutine that runs writeFeaturesToTargets
	if pf != nil && wt != nil {
		okJoin := false
		for _, w := range wgs {
			if w.parent != pf.SSA {
				continue
			}
			for _, g := range w.gos {
				if t := goTarget(g); t != nil {
					for _, b := range t.Blocks {
						for _, in := range b.Instrs {
							if call, ok := in.(*ssa.Call); ok && call.Call.StaticCallee() == wt.SSA {
								okJoin = true
							}
						}
					}
				}
			}
		}
		c.Check(R, "outer-group-joins-router/processing.ProcessFeatures", pf.Decl.Pos(), okJoin,
			"the goroutine counted by ProcessFeatures' wait group runs writeFeaturesToTargets (which returns only after its own Wait)",
			"ProcessFeatures does not wait for the goroutine that runs writeFeaturesToTargets")
		// in the router: Wait comes after the close-all loop, and no close is reachable from Wait
		for _, w := range wgs {
			if w.parent != wt.SSA || len(w.waits) != 1 {
				continue
			}
			wait := w.waits[0]
			okOrder := true
			n := 0
			for _, ci := range pl.chans {
				for _, cl := range ci.closes {
					rep := liftInto(c, cl, wt.SSA, ci.flow)
					if rep == nil {
						continue
					}
					n++
					if core.ReachableFrom(wait, rep) {
						okOrder = false
					}
					if rep != ssa.Instruction(cl) {
						if !core.Dominates(rep, wait) {
							okOrder = false
						}
					} else if nx, _ := rangeNextOf(cl.Call.Args[0]); nx != nil && !core.Dominates(nx, wait) {
						okOrder = false
					}
				}
			}
			c.Check(R, "wait-after-closes/processing.writeFeaturesToTargets", wait.Pos(), okOrder && n > 0,
				"the close-all loop dominates wg.Wait and no close is reachable after it", "wg.Wait can run before the target channels are closed: writers wait for close, router waits for writers — deadlock")
		}
	}
	c.Floor(R, 8)
}

// R26: goroutine inventory.
func r26GoroutineInventory(c *core.Ctx) {
	const R = "R26"
	pl := buildPipeline(c, R)
	wgs := findWaitGroups(c, pl)
	joined := map[*ssa.Go]bool{}
	for _, w := range wgs {
		for _, g := range w.gos {
			joined[g] = true
		}
	}
	n := 0
	for _, fn := range pl.funcs {
		for _, b := range fn.Blocks {
			for _, in := range b.Instrs {
				g, ok := in.(*ssa.Go)
				if !ok {
					continue
				}
				n++
				target := goTarget(g)
				tname := "dynamic"
				if target != nil {
					tname = target.Name()
				}
				construct := fmt.Sprintf("goroutine-classified/%s/go-%s", fn.Name(), tname)
				c.Saw(R, "go statement "+c.P.InstrStr(g))
				if joined[g] {
					c.OK(R, construct, g.Pos(), "joined: counted by a wait group that is waited for (R25)")
					continue
				}
				if target == nil {
					c.Bad(R, construct, g.Pos(), "go statement with a dynamic callee cannot be classified")
					continue
				}
				// tail-terminating: its last communication is the close of its output channel
				ok2, why := tailTerminating(c, pl, target, 0)
				c.Check(R, construct, g.Pos(), ok2, "tail-terminating: "+why, "goroutine is neither joined by a wait group nor ends with the close of its output channel: "+why)
			}
		}
	}
	c.Check(R, "inventory-size", token.NoPos, n >= 4, fmt.Sprintf("%d go statements in the module", n), fmt.Sprintf("only %d go statements found, expected 4", n))
}

// tailTerminating: the function (or every module implementation it forwards to)
// closes a channel and after that close performs no channel operation, go, or sync call.
func tailTerminating(c *core.Ctx, pl *pipeline, fn *ssa.Function, depth int) (bool, string) {
	if depth > 3 {
		return false, "forwarding chain too deep"
	}
	var closes []*ssa.Call
	for _, b := range fn.Blocks {
		for _, in := range b.Instrs {
			if call, ok := isBuiltinCall(in, "close"); ok {
				closes = append(closes, call)
			}
		}
	}
	if len(closes) == 0 {
		// forwarder: single call to something that is tail-terminating (readFeaturesFromSource -> Source.ReadFeatures)
		var calls []ssa.CallInstruction
		for _, b := range fn.Blocks {
			for _, in := range b.Instrs {
				if ci, ok := in.(*ssa.Call); ok {
					if _, isB := ci.Call.Value.(*ssa.Builtin); !isB {
						calls = append(calls, ci)
					}
				}
			}
		}
		if len(calls) != 1 {
			return false, fmt.Sprintf("%s neither closes a channel nor forwards to a single callee", fn.Name())
		}
		callees := pl.idx.CalleesAt(calls[0])
		if len(callees) == 0 {
			return false, "forwarded call has no module callee"
		}
		for _, cal := range callees {
			if !modFollow(cal) {
				return false, "forwards to non-module code " + cal.String()
			}
			if ok, why := tailTerminating(c, pl, cal, depth+1); !ok {
				return false, why
			}
		}
		return true, fmt.Sprintf("%s forwards to %d implementation(s), each ending with the close of its output", fn.Name(), len(callees))
	}
	for _, cl := range closes {
		bad, at := core.Search{Fn: fn, From: cl, Target: func(in ssa.Instruction) bool {
			switch x := in.(type) {
			case *ssa.Send, *ssa.Select, *ssa.Go:
				return true
			case *ssa.UnOp:
				return x.Op == token.ARROW
			case ssa.CallInstruction:
				id := core.StaticCalleeID(x)
				return strings.HasPrefix(id, "sync.")
			}
			return false
		}}.Run()
		if bad {
			return false, fmt.Sprintf("%s communicates after closing its output (@%s)", fn.Name(), c.P.Pos(at.Pos()))
		}
	}
	return true, fmt.Sprintf("%s: nothing but logging / deferred clean-up after close of its output; the joined router waits for that close", fn.Name())
}
