package rules

import (
	"fmt"
	"go/constant"
	"go/token"
	"go/types"

	"golang.org/x/tools/go/ssa"

	"texelverif/internal/core"
)

// A tiny evaluator for pure functions over a finite domain (an edge number 0..3, a quadrant number 0..3): integers
// and booleans are computed, everything else is an opaque symbol ("edge", "edge[1]").  It folds the function's SSA
// for given small arguments, which decides its table whatever the form (== chains, switch, lookup arithmetic).  It
// is not used on texel's data paths: only on the handful of table-like helpers whose whole domain is four values.

type evSym string

type evAddr struct {
	cell ssa.Value
	path []int64
}

type evalState struct {
	fn    *ssa.Function
	vals  map[ssa.Value]interface{}
	cells map[ssa.Value]interface{}
	elems map[string]interface{} // element of a cell overwritten on its own: "cell/path" -> value
	steps int
}

func elemKey(a evAddr) string { return fmt.Sprintf("%p/%v", a.cell, a.path) }

// evalExtern, when set, gives the value of a call the evaluator does not follow (a standard library function).
var evalExtern func(id string, args []interface{}) (interface{}, bool)

func evConst(k *ssa.Const) (interface{}, bool) {
	if k.Value == nil {
		return evSym("nil"), true
	}
	switch k.Value.Kind() {
	case constant.Int:
		if v, ok := constant.Int64Val(k.Value); ok {
			return v, true
		}
	case constant.Bool:
		return constant.BoolVal(k.Value), true
	case constant.String:
		return evSym(constant.StringVal(k.Value)), true
	}
	return nil, false
}

// evalOracle, when set, answers comparisons between two symbols (an ordinate against another): it makes the
// evaluator enumerate a function's behaviour over the truth values of such comparisons.
type evalOracle func(op token.Token, l, r evSym) (bool, bool)

// evalPure runs fn on args (int64, bool or evSym).  outcome is "return" or "panic".
func evalPure(fn *ssa.Function, args []interface{}, depth int) (results []interface{}, outcome string, err error) {
	return evalPureWith(fn, args, depth, nil)
}

func evalPureWith(fn *ssa.Function, args []interface{}, depth int, oracle evalOracle) (results []interface{}, outcome string, err error) {
	if depth > 4 || len(fn.Blocks) == 0 || len(args) != len(fn.Params) {
		return nil, "", fmt.Errorf("cannot evaluate %s", fn.Name())
	}
	st := &evalState{fn: fn, vals: map[ssa.Value]interface{}{}, cells: map[ssa.Value]interface{}{}, elems: map[string]interface{}{}}
	for i, p := range fn.Params {
		st.vals[p] = args[i]
	}
	get := func(v ssa.Value) (interface{}, bool) {
		if k, ok := v.(*ssa.Const); ok {
			return evConst(k)
		}
		x, ok := st.vals[v]
		return x, ok
	}
	b := fn.Blocks[0]
	var prev *ssa.BasicBlock
	for {
		for _, in := range b.Instrs {
			st.steps++
			if st.steps > 2000 {
				return nil, "", fmt.Errorf("%s does not finish", fn.Name())
			}
			switch x := in.(type) {
			case *ssa.Phi:
				for i, p := range b.Preds {
					if p == prev {
						if v, ok := get(x.Edges[i]); ok {
							st.vals[x] = v
						}
					}
				}
			case *ssa.Alloc:
				st.vals[x] = evAddr{cell: x}
			case *ssa.Store:
				if a, ok := st.vals[x.Addr].(evAddr); ok {
					if v, ok := get(x.Val); ok {
						if len(a.path) == 0 {
							st.cells[a.cell] = v
							prefix := fmt.Sprintf("%p/", a.cell)
							for k := range st.elems {
								if len(k) >= len(prefix) && k[:len(prefix)] == prefix {
									delete(st.elems, k)
								}
							}
						} else {
							st.elems[elemKey(a)] = v
						}
					}
				}
			case *ssa.IndexAddr:
				if a, ok := st.vals[x.X].(evAddr); ok {
					if k, ok := get(x.Index); ok {
						if ki, ok := k.(int64); ok {
							st.vals[x] = evAddr{cell: a.cell, path: append(append([]int64{}, a.path...), ki)}
						}
					}
				}
			case *ssa.Index:
				if base, ok := get(x.X); ok {
					if s, ok := base.(evSym); ok {
						if k, ok := get(x.Index); ok {
							if ki, ok := k.(int64); ok {
								st.vals[x] = evSym(fmt.Sprintf("%s[%d]", s, ki))
							}
						}
					}
				}
			case *ssa.UnOp:
				switch x.Op {
				case token.MUL:
					if a, ok := st.vals[x.X].(evAddr); ok {
						if ev, ok := st.elems[elemKey(a)]; ok && len(a.path) > 0 {
							st.vals[x] = ev
						} else if cv, ok := st.cells[a.cell]; ok {
							if s, isSym := cv.(evSym); isSym {
								for _, k := range a.path {
									s = evSym(fmt.Sprintf("%s[%d]", s, k))
								}
								st.vals[x] = s
							} else if len(a.path) == 0 {
								st.vals[x] = cv
							}
						}
					}
				case token.NOT:
					if v, ok := get(x.X); ok {
						if bv, ok := v.(bool); ok {
							st.vals[x] = !bv
						}
					}
				case token.SUB:
					if v, ok := get(x.X); ok {
						if iv, ok := v.(int64); ok {
							st.vals[x] = -iv
						}
					}
				}
			case *ssa.Convert:
				if v, ok := get(x.X); ok {
					if _, isInt := v.(int64); isInt {
						if bt, ok := x.Type().Underlying().(*types.Basic); ok && bt.Info()&types.IsInteger != 0 {
							st.vals[x] = v
						}
					}
				}
			case *ssa.ChangeType:
				if v, ok := get(x.X); ok {
					st.vals[x] = v
				}
			case *ssa.BinOp:
				l, ok1 := get(x.X)
				r, ok2 := get(x.Y)
				if !ok1 || !ok2 {
					break
				}
				switch lv := l.(type) {
				case int64:
					rv, ok := r.(int64)
					if !ok {
						break
					}
					switch x.Op {
					case token.ADD:
						st.vals[x] = lv + rv
					case token.SUB:
						st.vals[x] = lv - rv
					case token.MUL:
						st.vals[x] = lv * rv
					case token.QUO:
						if rv != 0 {
							st.vals[x] = lv / rv
						}
					case token.REM:
						if rv != 0 {
							st.vals[x] = lv % rv
						}
					case token.AND:
						st.vals[x] = lv & rv
					case token.OR:
						st.vals[x] = lv | rv
					case token.XOR:
						st.vals[x] = lv ^ rv
					case token.SHL:
						if rv >= 0 && rv < 63 {
							st.vals[x] = lv << uint(rv)
						}
					case token.SHR:
						if rv >= 0 && rv < 63 {
							st.vals[x] = lv >> uint(rv)
						}
					case token.EQL:
						st.vals[x] = lv == rv
					case token.NEQ:
						st.vals[x] = lv != rv
					case token.LSS:
						st.vals[x] = lv < rv
					case token.LEQ:
						st.vals[x] = lv <= rv
					case token.GTR:
						st.vals[x] = lv > rv
					case token.GEQ:
						st.vals[x] = lv >= rv
					}
				case bool:
					if rv, ok := r.(bool); ok {
						switch x.Op {
						case token.EQL:
							st.vals[x] = lv == rv
						case token.NEQ:
							st.vals[x] = lv != rv
						}
					}
				case evSym:
					if rv, ok := r.(evSym); ok {
						switch x.Op {
						case token.ADD, token.SUB, token.MUL, token.QUO:
							// arithmetic on opaque numbers stays opaque: a compound symbol
							st.vals[x] = evSym("(" + string(lv) + x.Op.String() + string(rv) + ")")
						default:
							if oracle != nil {
								if ans, ok := oracle(x.Op, lv, rv); ok {
									st.vals[x] = ans
								}
							}
						}
					}
				}
			case *ssa.Call:
				// the builtins min and max on two values
				if bi, isB := x.Call.Value.(*ssa.Builtin); isB && (bi.Name() == "min" || bi.Name() == "max") && len(x.Call.Args) == 2 {
					l, ok1 := get(x.Call.Args[0])
					r, ok2 := get(x.Call.Args[1])
					if ok1 && ok2 {
						lessEq, known := false, false
						switch lv := l.(type) {
						case int64:
							if rv, ok := r.(int64); ok {
								lessEq, known = lv <= rv, true
							}
						case evSym:
							if rv, ok := r.(evSym); ok && oracle != nil {
								lessEq, known = oracle(token.LEQ, lv, rv)
							}
						}
						if known {
							if (bi.Name() == "min") == lessEq {
								st.vals[x] = l
							} else {
								st.vals[x] = r
							}
						}
					}
				}
				if callee := x.Call.StaticCallee(); callee != nil && !core.IsModPath(core.FuncPkgPath(callee)) && evalExtern != nil {
					var cargs []interface{}
					okArgs := true
					for _, a := range x.Call.Args {
						v, ok := get(a)
						if !ok {
							okArgs = false
						}
						cargs = append(cargs, v)
					}
					if okArgs {
						if v, ok := evalExtern(core.StaticCalleeID(x), cargs); ok {
							st.vals[x] = v
						}
					}
				}
				if callee := x.Call.StaticCallee(); callee != nil && len(callee.Blocks) > 0 && core.IsModPath(core.FuncPkgPath(callee)) {
					var cargs []interface{}
					okArgs := true
					for _, a := range x.Call.Args {
						v, ok := get(a)
						if !ok {
							okArgs = false
						}
						cargs = append(cargs, v)
					}
					if okArgs {
						res, oc, err := evalPureWith(callee, cargs, depth+1, oracle)
						if err == nil && oc == "panic" {
							return nil, "panic", nil
						}
						if err == nil && len(res) == 1 {
							st.vals[x] = res[0]
						}
					}
				}
			case *ssa.If:
				v, ok := get(x.Cond)
				bv, isB := v.(bool)
				if !ok || !isB {
					return nil, "", fmt.Errorf("a branch of %s depends on a value the evaluator does not know (%s)", fn.Name(), x.Cond.String())
				}
				prev = b
				if bv {
					b = b.Succs[0]
				} else {
					b = b.Succs[1]
				}
				goto next
			case *ssa.Jump:
				prev = b
				b = b.Succs[0]
				goto next
			case *ssa.Return:
				for _, r := range x.Results {
					v, ok := get(r)
					if !ok {
						return nil, "", fmt.Errorf("%s returns a value the evaluator does not know (%s)", fn.Name(), r.String())
					}
					results = append(results, v)
				}
				return results, "return", nil
			case *ssa.Panic:
				return nil, "panic", nil
			default:
				if core.NoReturnCall(in) {
					return nil, "panic", nil
				}
			}
		}
		return nil, "", fmt.Errorf("block without terminator in %s", fn.Name())
	next:
	}
}
