package rules

import (
	"fmt"
	"go/ast"
	"go/constant"
	"go/token"
	"go/types"
	"math/big"
	"sort"
	"strings"

	"texelverif/internal/core"
)

// A small symbolic evaluator: expressions of the addressing code are turned
// into Laurent polynomials with rational coefficients over opaque symbols
// (parameters, fields, calls of unknown functions).  Conversions and the
// 9-decimal rounding helper are ignored, integer division is treated as exact
// division: the rules built on it decide the *shape* of a formula (is the
// centre at min + (idx + 1/2)·span, is ToNative the inverse of FromNative),
// not its behaviour under truncation or floating point.

type lpoly map[string]*big.Rat // monomial key -> coefficient

type monoT map[string]int

func monoKey(m monoT) string {
	var ks []string
	for s, e := range m {
		if e != 0 {
			ks = append(ks, fmt.Sprintf("%s^%d", s, e))
		}
	}
	sort.Strings(ks)
	return strings.Join(ks, "*")
}

func parseMono(k string) monoT {
	m := monoT{}
	if k == "" {
		return m
	}
	for _, part := range strings.Split(k, "*") {
		i := strings.LastIndex(part, "^")
		var e int
		fmt.Sscanf(part[i+1:], "%d", &e)
		m[part[:i]] = e
	}
	return m
}

func pConst(r *big.Rat) lpoly { return lpoly{"": new(big.Rat).Set(r)} }
func pInt(i int64) lpoly      { return pConst(new(big.Rat).SetInt64(i)) }
func pSym(s string) lpoly     { return lpoly{monoKey(monoT{s: 1}): big.NewRat(1, 1)} }

func (p lpoly) clean() lpoly {
	for k, c := range p {
		if c.Sign() == 0 {
			delete(p, k)
		}
	}
	return p
}

func pAdd(a, b lpoly, sign int64) lpoly {
	out := lpoly{}
	for k, c := range a {
		out[k] = new(big.Rat).Set(c)
	}
	for k, c := range b {
		t := new(big.Rat).Mul(c, big.NewRat(sign, 1))
		if cur, ok := out[k]; ok {
			out[k] = new(big.Rat).Add(cur, t)
		} else {
			out[k] = t
		}
	}
	return out.clean()
}

func pMul(a, b lpoly) lpoly {
	out := lpoly{}
	for ka, ca := range a {
		for kb, cb := range b {
			m := parseMono(ka)
			for s, e := range parseMono(kb) {
				m[s] += e
			}
			k := monoKey(m)
			t := new(big.Rat).Mul(ca, cb)
			if cur, ok := out[k]; ok {
				out[k] = new(big.Rat).Add(cur, t)
			} else {
				out[k] = t
			}
		}
	}
	return out.clean()
}

// pDiv divides by a single-term polynomial.
func pDiv(a, b lpoly) (lpoly, bool) {
	if len(b) != 1 {
		return nil, false
	}
	for kb, cb := range b {
		if cb.Sign() == 0 {
			return nil, false
		}
		inv := monoT{}
		for s, e := range parseMono(kb) {
			inv[s] = -e
		}
		return pMul(a, lpoly{monoKey(inv): new(big.Rat).Inv(cb)}), true
	}
	return nil, false
}

func pEq(a, b lpoly) bool { return len(pAdd(a, b, -1)) == 0 }

func (p lpoly) String() string {
	if len(p) == 0 {
		return "0"
	}
	var ks []string
	for k := range p {
		ks = append(ks, k)
	}
	sort.Strings(ks)
	var parts []string
	for _, k := range ks {
		c := p[k].RatString()
		if k == "" {
			parts = append(parts, c)
		} else if c == "1" {
			parts = append(parts, k)
		} else {
			parts = append(parts, c+"*"+k)
		}
	}
	return strings.Join(parts, " + ")
}

// pSubst replaces symbol s (which must occur with exponent 0 or 1) by q.
func pSubst(p lpoly, s string, q lpoly) (lpoly, bool) {
	out := lpoly{}
	for k, c := range p {
		m := parseMono(k)
		e := m[s]
		switch e {
		case 0:
			out = pAdd(out, lpoly{k: c}, 1)
		case 1:
			delete(m, s)
			out = pAdd(out, pMul(lpoly{monoKey(m): c}, q), 1)
		default:
			return nil, false
		}
	}
	return out, true
}

// symEnv evaluates expressions of one function.
type symEnv struct {
	p     *core.Prog
	info  *types.Info
	vars  map[types.Object]lpoly // locals with a known symbolic value
	elem  map[string]lpoly       // array element assignments: "name[k]" -> value
	err   string
	depth int
	lits  map[types.Object]*ast.FuncLit // locals bound once to a function literal
}

func newSymEnv(p *core.Prog, info *types.Info) *symEnv {
	return &symEnv{p: p, info: info, vars: map[types.Object]lpoly{}, elem: map[string]lpoly{}}
}

func (e *symEnv) clone() *symEnv {
	n := newSymEnv(e.p, e.info)
	for k, v := range e.vars {
		n.vars[k] = v
	}
	for k, v := range e.elem {
		n.elem[k] = v
	}
	n.lits = e.lits
	n.depth = e.depth
	return n
}

// symName gives a stable symbol for a selector/index/call expression: local variables that merely name
// another opaque value (intPoint := intgeom.FromGeomPoint(point)) are replaced by that value, so renaming a
// local does not change the symbol.
func (e *symEnv) symName(x ast.Expr) string {
	var sb strings.Builder
	var w func(x ast.Expr)
	w = func(x ast.Expr) {
		switch v := ast.Unparen(x).(type) {
		case *ast.Ident:
			if o := core.ObjOf(e.info, v); o != nil {
				if p, ok := e.vars[o]; ok && len(p) == 1 {
					for k, c := range p {
						m := parseMono(k)
						if c.Cmp(big.NewRat(1, 1)) == 0 && len(m) == 1 {
							for s, ex := range m {
								if ex == 1 {
									sb.WriteString(s)
									return
								}
							}
						}
					}
				}
			}
			sb.WriteString(v.Name)
		case *ast.SelectorExpr:
			w(v.X)
			sb.WriteString("." + v.Sel.Name)
		case *ast.CallExpr:
			w(v.Fun)
			sb.WriteString("(")
			for i, a := range v.Args {
				if i > 0 {
					sb.WriteString(",")
				}
				w(a)
			}
			sb.WriteString(")")
		case *ast.IndexExpr:
			w(v.X)
			sb.WriteString("[")
			w(v.Index)
			sb.WriteString("]")
		case *ast.StarExpr:
			w(v.X)
		case *ast.UnaryExpr:
			if v.Op != token.AND && v.Op != token.MUL {
				sb.WriteString(v.Op.String())
			}
			w(v.X)
		default:
			sb.WriteString(canon(x))
		}
	}
	w(x)
	return sb.String()
}

func (e *symEnv) eval(x ast.Expr) (lpoly, bool) {
	x = ast.Unparen(x)
	if tv, ok := e.info.Types[x]; ok && tv.Value != nil {
		switch tv.Value.Kind() {
		case constant.Int:
			if i, exact := constant.Int64Val(tv.Value); exact {
				return pInt(i), true
			}
		case constant.Float:
			r := new(big.Rat)
			if _, ok := r.SetString(tv.Value.ExactString()); ok {
				return pConst(r), true
			}
		}
	}
	switch v := x.(type) {
	case *ast.Ident:
		if o := core.ObjOf(e.info, v); o != nil {
			if p, ok := e.vars[o]; ok {
				return p, true
			}
		}
		return pSym(v.Name), true
	case *ast.BinaryExpr:
		a, ok1 := e.eval(v.X)
		b, ok2 := e.eval(v.Y)
		if !ok1 || !ok2 {
			return nil, false
		}
		switch v.Op {
		case token.ADD:
			return pAdd(a, b, 1), true
		case token.SUB:
			return pAdd(a, b, -1), true
		case token.MUL:
			return pMul(a, b), true
		case token.QUO:
			// integer division truncates: keep it as an opaque term quo(a,b) so that a truncated quotient that is
			// multiplied afterwards is not mistaken for the exact one; float division is exact for our purposes
			if bt, ok := e.info.TypeOf(v).Underlying().(*types.Basic); ok && bt.Info()&types.IsInteger != 0 {
				return pSym("quo(" + a.String() + "," + b.String() + ")"), true
			}
			r, ok := pDiv(a, b)
			if !ok {
				e.err = "division by a sum: " + core.ExprStr(v)
			}
			return r, ok
		}
		// bit operations and remainders on two constants (a quadrant number that was fixed to 0..3)
		if ca, oka := constOf(a); oka {
			if cb, okb := constOf(b); okb {
				switch v.Op {
				case token.AND:
					return pInt(ca & cb), true
				case token.OR:
					return pInt(ca | cb), true
				case token.XOR:
					return pInt(ca ^ cb), true
				case token.SHR:
					if cb >= 0 && cb < 63 {
						return pInt(ca >> uint(cb)), true
					}
				case token.SHL:
					if cb >= 0 && cb < 63 {
						return pInt(ca << uint(cb)), true
					}
				case token.REM:
					if cb != 0 {
						return pInt(ca % cb), true
					}
				}
			}
		}
		// an operator the polynomials do not model (remainder, bit operations on symbols, comparisons): an opaque
		// term, so that a value computed with it is never mistaken for one computed without it
		return pSym("(" + a.String() + ")" + v.Op.String() + "(" + b.String() + ")"), true
	case *ast.UnaryExpr:
		if v.Op == token.SUB {
			a, ok := e.eval(v.X)
			return pMul(a, pInt(-1)), ok
		}
		if v.Op == token.MUL || v.Op == token.AND {
			return e.eval(v.X)
		}
	case *ast.StarExpr:
		return e.eval(v.X)
	case *ast.IndexExpr:
		if k, ok := core.ConstInt(e.info, v.Index); ok {
			key := fmt.Sprintf("%s[%d]", canon(v.X), k)
			if p, ok := e.elem[key]; ok {
				return p, true
			}
			// indexing a local with a symbolic value that is itself a symbol: name[k]
			return pSym(key), true
		}
		return pSym(e.symName(v)), true
	case *ast.SelectorExpr:
		return pSym(e.symName(v)), true
	case *ast.CallExpr:
		// conversion
		if tv, ok := e.info.Types[v.Fun]; ok && tv.IsType() && len(v.Args) == 1 {
			return e.eval(v.Args[0])
		}
		if r, ok := e.inlineLit(v); ok {
			return r, true
		}
		if f := core.Callee(e.info, v); f != nil {
			id := core.ShortFuncID(f)
			switch {
			case id == "tms20.roundFloat" && len(v.Args) == 2:
				return e.eval(v.Args[0])
			case id == "mathhelp.Pow2" && len(v.Args) == 1:
				a, ok := e.eval(v.Args[0])
				if !ok {
					return nil, false
				}
				return pSym("2^(" + a.String() + ")"), true
			}
			// a plain arithmetic helper of numeric parameters is evaluated in place; accessors (methods and
			// functions of non-numeric operands such as X(), MinX()) stay opaque symbols
			if r, ok := e.inlineCall(f, v); ok {
				return r, true
			}
			if pureAccessor(e.p, f) {
				return pSym(e.symName(v)), true
			}
		}
		return pSym(e.symName(v)), true
	}
	e.err = "unsupported expression " + core.ExprStr(x)
	return nil, false
}

// inlineCall evaluates a call of a small arithmetic module helper in place: numeric parameters, a numeric first
// result, and one value-carrying exit -- either a single return statement, or the (value, ok) / (value, error)
// idiom in which every return but the last gives the failure value.  The helper's parameters take the symbolic
// values of the arguments.
func (e *symEnv) inlineCall(f *types.Func, call *ast.CallExpr) (lpoly, bool) {
	h := e.p.ByObj[f.Origin()]
	if h == nil || h.Decl.Body == nil || h.Decl.Recv != nil || !core.IsModPath(h.Pkg.PkgPath) {
		return nil, false
	}
	return e.inlineBody(h.Decl.Body, h.Obj.Type().(*types.Signature), h.Pkg.TypesInfo, call)
}

// inlineLit: the same for a call of a local that was bound to a function literal (`f := func(i int) int {…}`).
func (e *symEnv) inlineLit(call *ast.CallExpr) (lpoly, bool) {
	id, ok := ast.Unparen(call.Fun).(*ast.Ident)
	if !ok || e.lits == nil {
		return nil, false
	}
	lit := e.lits[core.ObjOf(e.info, id)]
	if lit == nil {
		return nil, false
	}
	sig, ok := e.info.TypeOf(lit).(*types.Signature)
	if !ok {
		return nil, false
	}
	return e.inlineBody(lit.Body, sig, e.info, call)
}

func (e *symEnv) inlineBody(body *ast.BlockStmt, sig *types.Signature, info *types.Info, call *ast.CallExpr) (lpoly, bool) {
	if e.depth >= 2 || len(body.List) == 0 || len(body.List) > 12 {
		return nil, false
	}
	numeric := func(t types.Type) bool {
		b, ok := t.Underlying().(*types.Basic)
		return ok && b.Info()&types.IsNumeric != 0
	}
	if sig.Results().Len() == 0 || !numeric(sig.Results().At(0).Type()) || sig.Params().Len() != len(call.Args) || sig.Variadic() {
		return nil, false
	}
	for i := 0; i < sig.Params().Len(); i++ {
		if !numeric(sig.Params().At(i).Type()) {
			return nil, false
		}
	}
	var rets []*ast.ReturnStmt
	ast.Inspect(body, func(n ast.Node) bool {
		if _, isLit := n.(*ast.FuncLit); isLit {
			return false
		}
		if r, ok := n.(*ast.ReturnStmt); ok {
			rets = append(rets, r)
		}
		return true
	})
	last, ok := body.List[len(body.List)-1].(*ast.ReturnStmt)
	if !ok || len(rets) == 0 || rets[len(rets)-1] != last {
		return nil, false
	}
	switch {
	case len(rets) == 1:
	case sig.Results().Len() == 2:
		// every earlier exit is the failure exit
		for _, r := range rets[:len(rets)-1] {
			if len(r.Results) != 2 {
				return nil, false
			}
			fail := canon(r.Results[1])
			isErrCall := false
			if cl, ok := ast.Unparen(r.Results[1]).(*ast.CallExpr); ok {
				isErrCall = core.IsCallTo(info, cl, "errors.New", "fmt.Errorf")
			}
			if fail != "false" && !isErrCall {
				return nil, false
			}
		}
		if len(last.Results) == 2 && canon(last.Results[1]) == "false" {
			return nil, false
		}
	default:
		return nil, false
	}
	sub := newSymEnv(e.p, info)
	sub.depth = e.depth + 1
	for i := 0; i < sig.Params().Len(); i++ {
		a, ok := e.eval(call.Args[i])
		if !ok {
			return nil, false
		}
		sub.vars[sig.Params().At(i)] = a
	}
	sub.run(body.List)
	if len(last.Results) == 0 {
		// bare return with named results
		if p, ok := sub.vars[sig.Results().At(0)]; ok {
			return p, true
		}
		return nil, false
	}
	return sub.eval(last.Results[0])
}

// constOf: p is an integer constant.
func constOf(p lpoly) (int64, bool) {
	if len(p) == 0 {
		return 0, true
	}
	if len(p) != 1 {
		return 0, false
	}
	c, ok := p[""]
	if !ok || !c.IsInt() || !c.Num().IsInt64() {
		return 0, false
	}
	return c.Num().Int64(), true
}

// assign records `lhs = rhs` / `lhs := rhs`.
func (e *symEnv) assign(lhs, rhs ast.Expr) {
	if lit, isLit := ast.Unparen(rhs).(*ast.FuncLit); isLit {
		if id, isID := ast.Unparen(lhs).(*ast.Ident); isID {
			if o := core.ObjOf(e.info, id); o != nil {
				if e.lits == nil {
					e.lits = map[types.Object]*ast.FuncLit{}
				}
				if _, seen := e.lits[o]; seen {
					e.lits[o] = nil // bound twice: not a fixed helper
				} else {
					e.lits[o] = lit
				}
			}
		}
		return
	}
	val, ok := e.eval(rhs)
	if !ok {
		return
	}
	switch l := ast.Unparen(lhs).(type) {
	case *ast.Ident:
		if o := core.ObjOf(e.info, l); o != nil {
			e.vars[o] = val
		}
	case *ast.IndexExpr:
		if k, ok := core.ConstInt(e.info, l.Index); ok {
			e.elem[fmt.Sprintf("%s[%d]", canon(l.X), k)] = val
		}
	}
}

// run executes straight-line statements (assignments, declarations); if/switch are skipped by the caller.
func (e *symEnv) run(stmts []ast.Stmt) {
	for _, s := range stmts {
		switch st := s.(type) {
		case *ast.AssignStmt:
			if st.Tok != token.ASSIGN && st.Tok != token.DEFINE && len(st.Lhs) == 1 && len(st.Rhs) == 1 {
				// x op= y is x = x op y: evaluated as that expression (an operator the polynomials do not know
				// leaves an opaque symbol, so the variable no longer equals what it was defined as)
				opOf := map[token.Token]token.Token{token.ADD_ASSIGN: token.ADD, token.SUB_ASSIGN: token.SUB, token.MUL_ASSIGN: token.MUL, token.QUO_ASSIGN: token.QUO, token.REM_ASSIGN: token.REM, token.AND_ASSIGN: token.AND, token.OR_ASSIGN: token.OR, token.XOR_ASSIGN: token.XOR, token.SHL_ASSIGN: token.SHL, token.SHR_ASSIGN: token.SHR, token.AND_NOT_ASSIGN: token.AND_NOT}
				if op, ok := opOf[st.Tok]; ok {
					e.assign(st.Lhs[0], &ast.BinaryExpr{X: st.Lhs[0], Op: op, Y: st.Rhs[0], OpPos: st.TokPos})
				}
			} else if len(st.Lhs) == len(st.Rhs) {
				for i := range st.Lhs {
					e.assign(st.Lhs[i], st.Rhs[i])
				}
			} else if len(st.Lhs) == 2 && len(st.Rhs) == 1 {
				// v, ok := helper(…): the value of an inlinable arithmetic helper
				if call, isCall := ast.Unparen(st.Rhs[0]).(*ast.CallExpr); isCall {
					if f := core.Callee(e.info, call); f != nil {
						if r, ok := e.inlineCall(f, call); ok {
							if id, isID := st.Lhs[0].(*ast.Ident); isID {
								if o := core.ObjOf(e.info, id); o != nil {
									e.vars[o] = r
								}
							}
						}
					}
				}
			}
		case *ast.IfStmt:
			// flow-insensitive: single-assignment locals defined under a guard keep their defining expression
			if st.Init != nil {
				e.run([]ast.Stmt{st.Init})
			}
			e.run(st.Body.List)
			if st.Else != nil {
				e.run([]ast.Stmt{st.Else})
			}
		case *ast.BlockStmt:
			e.run(st.List)
		case *ast.ForStmt:
			e.run(st.Body.List)
		case *ast.RangeStmt:
			e.run(st.Body.List)
		case *ast.DeclStmt:
			if gd, ok := st.Decl.(*ast.GenDecl); ok {
				for _, sp := range gd.Specs {
					if vs, ok := sp.(*ast.ValueSpec); ok {
						for i, nm := range vs.Names {
							if i < len(vs.Values) {
								e.assign(nm, vs.Values[i])
							}
						}
					}
				}
			}
		}
	}
}

// litElems evaluates the elements of a flat array literal.
func (e *symEnv) litElems(cl *ast.CompositeLit) ([]lpoly, bool) {
	var out []lpoly
	for _, el := range cl.Elts {
		p, ok := e.eval(el)
		if !ok {
			return nil, false
		}
		out = append(out, p)
	}
	return out, true
}
