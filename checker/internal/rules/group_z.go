package rules

import (
	"fmt"
	"go/token"
	"go/types"
	"strings"

	"golang.org/x/tools/go/ssa"

	"texelverif/internal/core"
)

// Contracts of the small helper packages (mathhelp, mapslicehelp).  The other rules read the callers and take these
// helpers for what their names say; a one-token change inside one of them changes every caller at once and no rule
// on the callers can see it.  Each contract is decided on the helper's own SSA.
func init() {
	reg("R43", func(c *core.Ctx) { hPow2(c, "R43") })
	reg("R03", func(c *core.Ctx) { hBool2int(c, "R03"); hBetween(c, "R03") })
	reg("R38", func(c *core.Ctx) { hBetween(c, "R38") }) // the gate's cell-size window is an FBetweenInc
	reg("R13", func(c *core.Ctx) { hReverseClone(c, "R13") })
	reg("R06", func(c *core.Ctx) { hLastElement(c, "R06") })
	reg("R46", func(c *core.Ctx) { hDeleteByIndex(c, "R46"); hFindLastKeyWithMax(c, "R46") })
}

func helperFn(c *core.Ctx, R, name string) *ssa.Function {
	f := c.P.Lookup(name)
	if f == nil || f.SSA == nil || len(f.SSA.Blocks) == 0 {
		c.Unknown(R, "helper-contract/"+name, token.NoPos, "helper "+name+" not found: what its callers rely on cannot be decided")
		return nil
	}
	return f.SSA
}

// hPow2: Pow2(n) is 1 << n.
func hPow2(c *core.Ctx, R string) {
	fn := helperFn(c, R, "mathhelp.Pow2")
	if fn == nil {
		return
	}
	ok, n := true, 0
	for _, b := range fn.Blocks {
		for _, in := range b.Instrs {
			if ret, isRet := in.(*ssa.Return); isRet {
				n++
				sh, isSh := resolveValue(core.Unwrap(ret.Results[0])).(*ssa.BinOp)
				if !isSh || sh.Op != token.SHL || !isConstInt(core.Unwrap(sh.X), 1) || core.Unwrap(resolveValue(sh.Y)) != ssa.Value(fn.Params[0]) {
					ok = false
				}
			}
		}
	}
	c.Check(R, "helper-contract/mathhelp.Pow2", fn.Pos(), ok && n == 1, "Pow2(n) == 1 << n", "mathhelp.Pow2 is not 1 << n: every pixel span and every coarser address is computed with it")
}

// hBool2int: Bool2int(false) == 0, Bool2int(true) == 1 (folded over its whole domain).
func hBool2int(c *core.Ctx, R string) {
	fn := helperFn(c, R, "mathhelp.Bool2int")
	if fn == nil {
		return
	}
	bad := ""
	for _, v := range []bool{false, true} {
		res, oc, err := evalPure(fn, []interface{}{v}, 0)
		want := int64(0)
		if v {
			want = 1
		}
		if err != nil || oc != "return" || len(res) != 1 || res[0] != interface{}(want) {
			bad += fmt.Sprintf("Bool2int(%v) is not %d; ", v, want)
		}
	}
	c.Check(R, "helper-contract/mathhelp.Bool2int", fn.Pos(), bad == "", "Bool2int(false) == 0 and Bool2int(true) == 1", "the quadrant number of a point is built with it: "+bad)
}

// hBetween: IBetweenInc / FBetweenInc(f, p, q) <=> min(p,q) <= f <= max(p,q), over all 13 orderings of (f, p, q).
func hBetween(c *core.Ctx, R string) {
	for _, name := range []string{"mathhelp.IBetweenInc", "mathhelp.FBetweenInc"} {
		fn := helperFn(c, R, name)
		if fn == nil {
			continue
		}
		bad, cases := "", 0
		for a := 0; a < 3; a++ {
			for b := 0; b < 3; b++ {
				for d := 0; d < 3; d++ {
					used := map[int]bool{a: true, b: true, d: true}
					dense := true
					for k := 0; k < len(used); k++ {
						if !used[k] {
							dense = false
						}
					}
					if !dense {
						continue
					}
					cases++
					rank := map[evSym]int{"f": a, "p": b, "q": d}
					oracle := func(op token.Token, l, r evSym) (bool, bool) {
						lr, ok1 := rank[l]
						rr, ok2 := rank[r]
						if !ok1 || !ok2 {
							return false, false
						}
						switch op {
						case token.EQL:
							return lr == rr, true
						case token.NEQ:
							return lr != rr, true
						case token.LSS:
							return lr < rr, true
						case token.LEQ:
							return lr <= rr, true
						case token.GTR:
							return lr > rr, true
						case token.GEQ:
							return lr >= rr, true
						}
						return false, false
					}
					res, oc, err := evalPureWith(fn, []interface{}{evSym("f"), evSym("p"), evSym("q")}, 0, oracle)
					lo, hi := b, d
					if lo > hi {
						lo, hi = hi, lo
					}
					want := lo <= a && a <= hi
					if err != nil || oc != "return" || len(res) != 1 || res[0] != interface{}(want) {
						bad = fmt.Sprintf("with (f,p,q) ordered as %d,%d,%d the answer is %v, expected %v (%v)", a, b, d, res, want, err)
					}
				}
			}
		}
		c.Check(R, "helper-contract/"+name, fn.Pos(), bad == "" && cases == 13, "f lies between p and q, ends included, in either order of p and q (13 orderings)", name+" is not the inclusive between test: "+bad)
	}
}

// hReverseClone: ReverseClone(s) leaves s alone and returns fresh memory holding s back to front (nil for nil).
func hReverseClone(c *core.Ctx, R string) {
	fn := helperFn(c, R, "mapslicehelp.ReverseClone")
	if fn == nil {
		return
	}
	construct := "helper-contract/mapslicehelp.ReverseClone"
	s := ssa.Value(fn.Params[0])
	why := ""
	// no write into the parameter's storage
	for _, b := range fn.Blocks {
		for _, in := range b.Instrs {
			switch x := in.(type) {
			case *ssa.Store:
				if ia, ok := x.Addr.(*ssa.IndexAddr); ok && resolveValue(ia.X) == s {
					why = "the ring handed in is modified"
				}
			case *ssa.Call:
				if strings.HasPrefix(core.StaticCalleeID(x), "slices.Reverse") && len(x.Call.Args) == 1 && resolveValue(x.Call.Args[0]) == s {
					why = "the ring handed in is reversed in place"
				}
			}
		}
	}
	// every non-nil result is fresh and filled back to front
	nret := 0
	for _, b := range fn.Blocks {
		for _, in := range b.Instrs {
			ret, ok := in.(*ssa.Return)
			if !ok || len(ret.Results) != 1 {
				continue
			}
			r := resolveValue(core.Unwrap(ret.Results[0]))
			if isNilConst(r) {
				continue
			}
			nret++
			switch x := r.(type) {
			case *ssa.MakeSlice:
				// c[len-1-i] = s[i] for the counter i of a loop over the whole of s
				okFill := false
				for _, ref := range *x.Referrers() {
					ia, isIA := ref.(*ssa.IndexAddr)
					if !isIA {
						continue
					}
					for _, rr := range *ia.Referrers() {
						st, isSt := rr.(*ssa.Store)
						if !isSt || st.Addr != ssa.Value(ia) {
							continue
						}
						src := sliceElemLoad(resolveValue(st.Val))
						if src == nil || resolveValue(src.X) != s {
							continue
						}
						if mirrorIndex(ia.Index, src.Index, s, x) {
							okFill = true
						}
					}
				}
				if !okFill {
					// or: copy(c, s) followed by slices.Reverse(c)
					copied, reversed := false, false
					for _, ref := range *x.Referrers() {
						if call, ok := ref.(*ssa.Call); ok && core.Dominates(call, ret) {
							if _, isCopy := isBuiltinCall(call, "copy"); isCopy && call.Call.Args[0] == ssa.Value(x) && resolveValue(call.Call.Args[1]) == s {
								copied = true
							}
							if strings.HasPrefix(core.StaticCalleeID(call), "slices.Reverse") && call.Call.Args[0] == ssa.Value(x) {
								reversed = true
							}
						}
					}
					okFill = copied && reversed && resolveValue(x.Len) != nil && isLenOfValue(x.Len, s)
				}
				if !okFill {
					why = "the copy is not filled with c[len-1-i] = s[i] (nor copied and reversed as a whole)"
				}
			case *ssa.Call:
				// slices.Clone(s) reversed in place afterwards
				if !strings.HasPrefix(core.StaticCalleeID(x), "slices.Clone") || resolveValue(x.Call.Args[0]) != s {
					why = "the result is neither a fresh slice nor slices.Clone of the ring"
					break
				}
				rev := false
				for _, ref := range *x.Referrers() {
					if call, ok := ref.(*ssa.Call); ok && strings.HasPrefix(core.StaticCalleeID(call), "slices.Reverse") && core.Dominates(call, ret) {
						rev = true
					}
				}
				if !rev {
					why = "the clone is not reversed"
				}
			default:
				why = "the result is not fresh memory (" + strings.TrimSpace(r.String()) + ")"
			}
		}
	}
	c.Check(R, construct, fn.Pos(), why == "" && nret >= 1, "fresh slice, filled back to front, the argument untouched", "ReverseClone is not a reversed copy: "+why+" (turned holes and normalised rings are made with it)")
}

// mirrorIndex: dst + src == len - 1 as linear forms over the loop counter, where len is len(s) or the length the
// copy was made with.
func mirrorIndex(dst, src ssa.Value, s ssa.Value, mk *ssa.MakeSlice) bool {
	type lin map[string]int
	var linear func(v ssa.Value, depth int) (lin, bool)
	isLen := func(v ssa.Value) bool {
		v = resolveValue(v)
		if v == resolveValue(mk.Len) {
			return true
		}
		if call, ok := v.(*ssa.Call); ok {
			if _, isL := isBuiltinCall(call, "len"); isL {
				a := resolveValue(call.Call.Args[0])
				return a == s || a == ssa.Value(mk)
			}
		}
		return false
	}
	linear = func(v ssa.Value, depth int) (lin, bool) {
		if depth > 8 {
			return nil, false
		}
		v = resolveValue(v)
		if isLen(v) {
			return lin{"n": 1}, true
		}
		switch x := v.(type) {
		case *ssa.Const:
			if x.Value != nil {
				return lin{"1": int(x.Int64())}, true
			}
		case *ssa.Phi:
			return lin{"i:" + x.Name(): 1}, true
		case *ssa.BinOp:
			l, ok1 := linear(x.X, depth+1)
			r, ok2 := linear(x.Y, depth+1)
			if !ok1 || !ok2 || (x.Op != token.ADD && x.Op != token.SUB) {
				return nil, false
			}
			out := lin{}
			for k, c := range l {
				out[k] += c
			}
			sg := 1
			if x.Op == token.SUB {
				sg = -1
			}
			for k, c := range r {
				out[k] += sg * c
			}
			return out, true
		}
		return nil, false
	}
	d, ok1 := linear(dst, 0)
	sr, ok2 := linear(src, 0)
	if !ok1 || !ok2 {
		return false
	}
	sum := lin{}
	for k, c := range d {
		sum[k] += c
	}
	for k, c := range sr {
		sum[k] += c
	}
	for k, c := range sum {
		switch k {
		case "n":
			if c != 1 {
				return false
			}
		case "1":
			if c != -1 {
				return false
			}
		default:
			if c != 0 {
				return false
			}
		}
	}
	// the counter walks the whole of s (range form with phi+1 increments counts from -1)
	return sum["n"] == 1 && sum["1"] == -1
}

// hLastElement: LastElement(s) is &s[len(s)-1], nil only for an empty slice.
func hLastElement(c *core.Ctx, R string) {
	fn := helperFn(c, R, "mapslicehelp.LastElement")
	if fn == nil {
		return
	}
	s := ssa.Value(fn.Params[0])
	why, n := "", 0
	for _, b := range fn.Blocks {
		for _, in := range b.Instrs {
			ret, ok := in.(*ssa.Return)
			if !ok || len(ret.Results) != 1 {
				continue
			}
			r := resolveValue(ret.Results[0])
			if isNilConst(r) {
				// only when the slice is empty: not reachable with len > 0
				continue
			}
			n++
			ia, ok := r.(*ssa.IndexAddr)
			if !ok || resolveValue(ia.X) != s {
				why = "a result is not the address of an element of the slice"
				continue
			}
			sub, ok := resolveValue(ia.Index).(*ssa.BinOp)
			if !ok || sub.Op != token.SUB || !isConstInt(sub.Y, 1) {
				why = "the element is not the one at len-1"
				continue
			}
			lc, ok := resolveValue(sub.X).(*ssa.Call)
			if !ok {
				why = "the element is not the one at len-1"
				continue
			}
			if _, isLen := isBuiltinCall(lc, "len"); !isLen || resolveValue(lc.Call.Args[0]) != s {
				why = "the element is not the one at len-1"
			}
		}
	}
	c.Check(R, "helper-contract/mapslicehelp.LastElement", fn.Pos(), why == "" && n >= 1, "&s[len(s)-1], nil for an empty slice", "LastElement does not return the last element: "+why+" (the shared vertex of consecutive segments is recognised with it)")
}

// hDeleteByIndex: DeleteFromSliceByIndex(s, set, off) keeps, in order and in fresh memory, exactly the s[i] with
// i+off not in the set.
func hDeleteByIndex(c *core.Ctx, R string) {
	fn := helperFn(c, R, "mapslicehelp.DeleteFromSliceByIndex")
	if fn == nil {
		return
	}
	construct := "helper-contract/mapslicehelp.DeleteFromSliceByIndex"
	if len(fn.Params) != 3 {
		c.Unknown(R, construct, fn.Pos(), "expected (slice, index set, offset)")
		return
	}
	s, set, off := ssa.Value(fn.Params[0]), ssa.Value(fn.Params[1]), ssa.Value(fn.Params[2])
	var app *ssa.Call
	var look *ssa.Lookup
	napp := 0
	for _, b := range fn.Blocks {
		for _, in := range b.Instrs {
			switch x := in.(type) {
			case *ssa.Call:
				if _, isApp := isBuiltinCall(x, "append"); isApp {
					app = x
					napp++
				}
			case *ssa.Lookup:
				if resolveValue(x.X) == set {
					look = x
				}
			case *ssa.Store:
				if ia, ok := x.Addr.(*ssa.IndexAddr); ok && resolveValue(ia.X) == s {
					c.Bad(R, construct, x.Pos(), "the slice handed in is modified")
					return
				}
			}
		}
	}
	// the membership test: `_, ok := set[k]`, or a module helper that does exactly that
	var memKey, memOK ssa.Value
	var memInstr ssa.Instruction
	if look != nil && look.CommaOk {
		memKey, memOK, memInstr = look.Index, extractOf(look, 1), look
	} else {
		for _, b := range fn.Blocks {
			for _, in := range b.Instrs {
				call, ok := in.(*ssa.Call)
				if !ok || !isBoolType(call.Type()) {
					continue
				}
				h := call.Call.StaticCallee()
				if h != nil && h.Origin() != nil {
					h = h.Origin() // an instance of a generic helper: its generic body
				}
				if h == nil || len(h.Blocks) == 0 || !core.IsModPath(core.FuncPkgPath(h)) || len(call.Call.Args) != 2 || len(h.Params) != 2 {
					continue
				}
				mi, ki := -1, -1
				for i, a := range call.Call.Args {
					if resolveValue(a) == set {
						mi = i
					}
				}
				if mi < 0 {
					continue
				}
				ki = 1 - mi
				okHelper := false
				for _, hb := range h.Blocks {
					for _, hin := range hb.Instrs {
						if lk, isLk := hin.(*ssa.Lookup); isLk && lk.CommaOk && resolveValue(lk.X) == ssa.Value(h.Params[mi]) && resolveValue(lk.Index) == ssa.Value(h.Params[ki]) {
							okHelper = true
							for _, hb2 := range h.Blocks {
								for _, hin2 := range hb2.Instrs {
									if ret, isRet := hin2.(*ssa.Return); isRet && (len(ret.Results) != 1 || resolveValue(ret.Results[0]) != extractOf(lk, 1)) {
										okHelper = false
									}
								}
							}
						}
					}
				}
				if okHelper {
					memKey, memOK, memInstr = call.Call.Args[ki], call, call
				}
			}
		}
	}
	why := ""
	if app == nil || napp != 1 || memInstr == nil {
		why = "expected one append and one membership test on the index set"
	} else {
		elems := sliceLitElems(app.Call.Args[1])
		var src *ssa.IndexAddr
		if len(elems) == 1 {
			src = sliceElemLoad(resolveValue(elems[0]))
		}
		switch {
		case src == nil || resolveValue(src.X) != s:
			why = "what is appended is not an element of the slice"
		case fullLoopOver(src.Index, src.X) == nil && fullLoopOver(src.Index, s) == nil:
			why = "the index of the kept element is not the counter of a loop over the whole slice"
		default:
			// the key looked up is i + off for the same i
			key, ok := resolveValue(memKey).(*ssa.BinOp)
			if !ok || key.Op != token.ADD || !((resolveValue(key.X) == resolveValue(src.Index) && resolveValue(key.Y) == off) || (resolveValue(key.Y) == resolveValue(src.Index) && resolveValue(key.X) == off)) {
				why = "the index set is not asked about i + offset for the element's own i"
			}
			// appended exactly when the key is absent
			okV := memOK
			if why == "" && okV != nil {
				var gi *ssa.If
				for _, b := range fn.Blocks {
					if i := core.BlockIf(b); i != nil && i.Cond == okV {
						gi = i
					}
				}
				if gi == nil {
					why = "the outcome of the membership test does not decide a branch"
				} else {
					present, _ := core.Search{Fn: fn, From: gi, Target: instrIs(app), Edge: func(b *ssa.BasicBlock, k int) bool {
						if core.BlockIf(b) == gi {
							return k == 0
						}
						return b != gi.Block() || true
					}, Barrier: func(in ssa.Instruction) bool { return in == memInstr }}.Run()
					absentSkips, _ := core.Search{Fn: fn, From: gi, Target: func(in ssa.Instruction) bool { return in == memInstr || core.IsReturn(in) }, Barrier: instrIs(app), Edge: func(b *ssa.BasicBlock, k int) bool {
						if core.BlockIf(b) == gi {
							return k == 1
						}
						return true
					}}.Run()
					if present {
						why = "an element whose index is in the set is kept"
					} else if absentSkips {
						why = "an element whose index is not in the set can be dropped"
					}
				}
			}
			// fresh result
			base, _ := appendChain(app)
			for step := 0; step < 8; step++ {
				ph, ok := base.(*ssa.Phi)
				if !ok {
					break
				}
				var nxt ssa.Value
				for _, e := range ph.Edges {
					if e != ssa.Value(app) && e != ssa.Value(ph) {
						nxt = e
					}
				}
				if nxt == nil {
					break
				}
				base = nxt
			}
			if _, fresh := resolveValue(base).(*ssa.MakeSlice); !fresh {
				if sl, isSl := resolveValue(base).(*ssa.Slice); !isSl || func() bool { _, a := sl.X.(*ssa.Alloc); return !a }() {
					if !isNilConst(resolveValue(base)) && why == "" {
						why = "the result does not start from fresh memory"
					}
				}
			}
		}
	}
	c.Check(R, construct, fn.Pos(), why == "", "keeps s[i] exactly when i+offset is not in the set, in order, in fresh memory", "DeleteFromSliceByIndex: "+why+" (duplicate rings are removed with it)")
}

// hFindLastKeyWithMax: the third result counts the keys that share the maximum: it is reset to 1 whenever a new
// maximum is taken and incremented on equality, nothing else; the first two results are key and value of one entry.
func hFindLastKeyWithMax(c *core.Ctx, R string) {
	fn := helperFn(c, R, "mapslicehelp.FindLastKeyWithMaxValue")
	if fn == nil {
		return
	}
	construct := "helper-contract/mapslicehelp.FindLastKeyWithMaxValue"
	res := fn.Signature.Results()
	if res.Len() != 3 {
		c.Unknown(R, construct, fn.Pos(), "expected (key, value, number of winners)")
		return
	}
	// named results live in cells; collect the stores into the third one
	var cells []*ssa.Alloc
	for _, b := range fn.Blocks {
		for _, in := range b.Instrs {
			if a, ok := in.(*ssa.Alloc); ok && !a.Heap {
				for i := 0; i < res.Len(); i++ {
					if a.Comment == res.At(i).Name() && res.At(i).Name() != "" {
						cells = append(cells, a)
					}
				}
			}
		}
	}
	why := ""
	var cnt ssa.Value
	for _, a := range cells {
		if a.Comment == res.At(2).Name() {
			cnt = a
		}
	}
	stores, incs, ones := 0, 0, 0
	if cnt != nil {
		for _, r := range *cnt.Referrers() {
			st, ok := r.(*ssa.Store)
			if !ok || st.Addr != cnt {
				continue
			}
			stores++
			switch v := st.Val.(type) {
			case *ssa.Const:
				if isConstInt(v, 1) {
					ones++
				} else if !isConstInt(v, 0) {
					why = "the winner count is set to a constant other than 1"
				}
			case *ssa.BinOp:
				if v.Op == token.ADD && isConstInt(v.Y, 1) {
					if ld, ok := v.X.(*ssa.UnOp); ok && ld.X == cnt {
						incs++
						break
					}
				}
				why = "the winner count is computed from something else than itself + 1"
			default:
				why = "the winner count is assigned a value that is neither 1 nor itself + 1 (" + strings.TrimSpace(st.Val.String()) + ")"
			}
		}
		if why == "" && (ones < 1 || incs < 1) {
			why = "the winner count is not both reset to 1 on a new maximum and incremented on a tie"
		}
	} else {
		// SSA registers: the returned third value is a phi over 0/1/count+1
		var check func(v ssa.Value, seen map[ssa.Value]bool)
		check = func(v ssa.Value, seen map[ssa.Value]bool) {
			v = resolveValue(v)
			if seen[v] {
				return
			}
			seen[v] = true
			switch x := v.(type) {
			case *ssa.Const:
				if isConstInt(x, 1) {
					ones++
				} else if !isConstInt(x, 0) {
					why = "the winner count can be a constant other than 0 or 1"
				}
			case *ssa.Phi:
				for _, e := range x.Edges {
					check(e, seen)
				}
			case *ssa.BinOp:
				if x.Op == token.ADD && isConstInt(x.Y, 1) {
					incs++
					check(x.X, seen)
					return
				}
				why = "the winner count is not a count (" + strings.TrimSpace(x.String()) + ")"
			default:
				why = "the winner count is not a count (" + strings.TrimSpace(v.String()) + ")"
			}
		}
		for _, b := range fn.Blocks {
			for _, in := range b.Instrs {
				if ret, ok := in.(*ssa.Return); ok && len(ret.Results) == 3 {
					check(ret.Results[2], map[ssa.Value]bool{})
				}
			}
		}
		if why == "" && (ones < 1 || incs < 1) {
			why = "the winner count is not both reset to 1 on a new maximum and incremented on a tie"
		}
	}
	_ = stores
	// the types keep key, value and count apart unless value and count have the same type
	if types.Identical(res.At(1).Type(), res.At(2).Type()) && why == "" {
		why = "value and winner count have the same type: they can be exchanged unnoticed"
	}
	c.Check(R, construct, fn.Pos(), why == "", "numWinners is reset to 1 on a new maximum and incremented on a tie", "FindLastKeyWithMaxValue: "+why+" (a hole is attached early exactly when one shell leads the containment count alone)")
}

// isLenOfValue: v is len(s).
func isLenOfValue(v ssa.Value, s ssa.Value) bool {
	call, ok := resolveValue(v).(*ssa.Call)
	if !ok {
		return false
	}
	if _, isLen := isBuiltinCall(call, "len"); !isLen {
		return false
	}
	return resolveValue(call.Call.Args[0]) == s
}

func init() {
	reg("R46", func(c *core.Ctx) { hIndexAligned(c, "R46", "snap.outersToPolygons") })
	reg("R07", func(c *core.Ctx) { hIndexAligned(c, "R07", "geomhelp.FloatPolygonsToGeomPolygons") })
	reg("R20", func(c *core.Ctx) { hAsKeys(c, "R20") })
	reg("R13", func(c *core.Ctx) { hIsMember(c, "R13", "snap.isHitMultiple") })
}

// hIndexAligned: the result has as many elements as the argument and element i of the result is made of element i
// of the argument and nothing else (a ring wrapped into a polygon, a polygon converted to the library's type), for
// the counter i of a loop over the whole argument.
func hIndexAligned(c *core.Ctx, R, name string) {
	fn := helperFn(c, R, name)
	if fn == nil {
		return
	}
	construct := "helper-contract/" + name
	in := ssa.Value(fn.Params[0])
	why, nret := "", 0
	for _, b := range fn.Blocks {
		for _, instr := range b.Instrs {
			ret, ok := instr.(*ssa.Return)
			if !ok || len(ret.Results) != 1 {
				continue
			}
			nret++
			mk, ok := resolveValue(core.Unwrap(ret.Results[0])).(*ssa.MakeSlice)
			if !ok || !isLenOfValue(mk.Len, in) {
				why = "the result is not a fresh slice of len(argument) elements"
				continue
			}
			stores := 0
			for _, ref := range *mk.Referrers() {
				ia, isIA := ref.(*ssa.IndexAddr)
				if !isIA {
					continue
				}
				for _, rr := range *ia.Referrers() {
					st, isSt := rr.(*ssa.Store)
					if !isSt || st.Addr != ssa.Value(ia) {
						continue
					}
					stores++
					if fullLoopOver(ia.Index, in) == nil && fullLoopOver(ia.Index, mk) == nil {
						why = "the element written is not addressed by the counter of a loop over the whole argument"
						continue
					}
					// the value: element i of the argument, possibly converted or wrapped in a one-element slice
					vals := []ssa.Value{core.Unwrap(resolveValue(st.Val))}
					if el := sliceLitElems(resolveValue(st.Val)); len(el) > 0 {
						vals = el
					}
					for _, v := range vals {
						src := sliceElemLoad(core.Unwrap(resolveValue(v)))
						if src == nil || resolveValue(src.X) != in || resolveValue(src.Index) != resolveValue(ia.Index) {
							why = "element i of the result is not made of element i of the argument"
						}
					}
				}
			}
			if stores != 1 && why == "" {
				why = fmt.Sprintf("%d stores into the result", stores)
			}
		}
	}
	c.Check(R, construct, fn.Pos(), why == "" && nret == 1, "result[i] is made of argument[i], for every i", name+": "+why)
}

// hAsKeys: AsKeys(elements) has exactly the elements as keys: one map update per element of a loop over the whole
// slice, keyed by that element, into a fresh map that is returned.
func hAsKeys(c *core.Ctx, R string) {
	fn := helperFn(c, R, "mapslicehelp.AsKeys")
	if fn == nil {
		return
	}
	in := ssa.Value(fn.Params[0])
	why, n := "", 0
	var m ssa.Value
	for _, b := range fn.Blocks {
		for _, instr := range b.Instrs {
			switch x := instr.(type) {
			case *ssa.MapUpdate:
				n++
				m = x.Map
				src := sliceElemLoad(core.Unwrap(resolveValue(x.Key)))
				if src == nil || resolveValue(src.X) != in || fullLoopOver(src.Index, in) == nil && fullLoopOver(src.Index, src.X) == nil {
					why = "the key is not the element of a loop over the whole slice"
				}
				if _, fresh := resolveValue(x.Map).(*ssa.MakeMap); !fresh {
					why = "the map written is not a fresh one"
				}
			case *ssa.Return:
				if m != nil && len(x.Results) == 1 && resolveValue(x.Results[0]) != resolveValue(m) {
					why = "what is returned is not the map that was filled"
				}
			}
		}
	}
	c.Check(R, "helper-contract/mapslicehelp.AsKeys", fn.Pos(), why == "" && n == 1, "a fresh map with one key per element", "AsKeys: "+why+" (the set of requested levels is made with it)")
}

// hIsMember: the helper answers exactly whether its second argument is a key of its first.
func hIsMember(c *core.Ctx, R, name string) {
	f := c.P.Lookup(name)
	if f == nil || f.SSA == nil {
		return // written in place
	}
	fn := f.SSA
	why, n := "", 0
	for _, b := range fn.Blocks {
		for _, instr := range b.Instrs {
			ret, ok := instr.(*ssa.Return)
			if !ok || len(ret.Results) != 1 {
				continue
			}
			n++
			// a set kept as map[K]bool: the stored value is the answer
			if plain, isLk := resolveValue(ret.Results[0]).(*ssa.Lookup); isLk && !plain.CommaOk && isBoolType(plain.Type()) {
				if len(fn.Params) != 2 || resolveValue(plain.X) != ssa.Value(fn.Params[0]) || resolveValue(plain.Index) != ssa.Value(fn.Params[1]) {
					why = "the lookup is not argument 1 in argument 0"
				}
				continue
			}
			ex, ok := resolveValue(ret.Results[0]).(*ssa.Extract)
			if !ok || ex.Index != 1 {
				why = "the answer is not the comma-ok result of a map lookup"
				continue
			}
			lk, ok := ex.Tuple.(*ssa.Lookup)
			if !ok || len(fn.Params) != 2 || resolveValue(lk.X) != ssa.Value(fn.Params[0]) || resolveValue(lk.Index) != ssa.Value(fn.Params[1]) {
				why = "the lookup is not argument 1 in argument 0"
			}
		}
	}
	c.Check(R, "helper-contract/"+name, fn.Pos(), why == "" && n == 1, "key membership of the second argument in the first", name+": "+why)
}

func init() {
	reg("R46", func(c *core.Ctx) { hNoAppendOntoSizedSlice(c, "R46") })
	reg("R11", func(c *core.Ctx) { hNoAppendOntoSizedSlice(c, "R11") })
}

// hNoAppendOntoSizedSlice: a slice made with a non-zero length already has that many (zero) elements; appending to
// it adds further ones behind them.  Nowhere in the module is append applied to such a slice (directly or through
// the loop phi of `l = append(l, …)`): the classic slip of turning `l[i] = x` into `l = append(l, x)` without
// changing `make([]T, n)` into `make([]T, 0, n)` gives n spurious zero entries -- for index lists, entry 0.
func hNoAppendOntoSizedSlice(c *core.Ctx, R string) {
	n, bad := 0, ""
	for _, fn := range allModFuncs(c.P) {
		for _, b := range fn.Blocks {
			for _, in := range b.Instrs {
				mk, ok := in.(*ssa.MakeSlice)
				if !ok {
					continue
				}
				if k, isConst := mk.Len.(*ssa.Const); isConst && k.Value != nil && k.Int64() == 0 {
					continue
				}
				n++
				// values that are the made slice itself (not a reslice of it), through phis
				same := map[ssa.Value]bool{mk: true}
				work := []ssa.Value{mk}
				for len(work) > 0 {
					v := work[len(work)-1]
					work = work[:len(work)-1]
					for _, r := range *v.Referrers() {
						switch x := r.(type) {
						case *ssa.Phi:
							if !same[x] {
								same[x] = true
								work = append(work, x)
							}
						case *ssa.Call:
							if _, isApp := isBuiltinCall(x, "append"); isApp && x.Call.Args[0] == v {
								bad += fmt.Sprintf("%s: append onto a slice made with length %s in %s; ", c.P.Pos(x.Pos()), strings.TrimSpace(mk.Len.String()), fn.String())
							}
						}
					}
				}
			}
		}
	}
	c.Check(R, "no-append-onto-sized-slice/module", token.NoPos, bad == "" && n >= 5, fmt.Sprintf("%d slices made with a length; none is appended to", n), "a list gets spurious zero entries in front: "+bad)
}
