package rules

import "sort"

func sortStrings(s []string) { sort.Strings(s) }

// Property -> rules, with the clauses decided / not decided (DESIGN.md section 4).
func init() {
	Props["C01"] = &PropSpec{
		Level:       "other",
		Rules:       []string{"R05", "R08", "R06", "R07", "R03", "R04", "R01", "R18b", "R43", "R35"},
		Explanation: "Crossing-freedom is the snap-rounding theorem applied to this implementation; its premises are decided for all polygons, levels, flags and grids: (i) the hot-pixel set holds the pixel of every vertex of every ring before any edge is routed and only insertCoord writes it (R05, R08), (ii) every edge including each ring's closing edge is routed through the index, and routed points — never input points — are what is emitted (R06, R07), (iii) pixel ownership (left/bottom owned) is encoded consistently in all six places, the per-edge decision of lineIntersects has exactly the rule's decision table over its seven conditions (all 128 valuations of the boolean skeleton of the code, whatever its form), and conversions are index-aligned (R03, R01); (iv) the routed lists of different levels never share storage (R18b).",
		Decided:     []string{"every vertex of every ring is indexed before snapping (R05)", "only insertCoord adds hot pixels, after the range check (R08)", "every segment incl. the closing one is routed once through the index (R06)", "no input coordinate can reach an output structure; output coordinates are stored pixel centres (R07)", "half-open ownership tables agree and the five border rules of the segment/pixel test are present (R03)", "integer/float conversions are index-aligned (R01)", "per-level values own their storage (R18b)"},
		NotDecided:  []string{"numeric correctness of lineIntersects / float intersection for every segment-pixel pair", "that spike removal and ring splitting never invent an edge (data dependent; DESIGN F5)", "interior of a segment passing exactly through an excluded pixel corner"},
	}
	Props["C02"] = &PropSpec{
		Level:       "other",
		Rules:       []string{"R01", "R02", "R03", "R04", "R08", "R06", "R18b", "R43", "R35"},
		Explanation: "Structural necessary conditions of exact hot-pixel routing, for all segments and pixel sets: the integer intersection point is (x, y) (R01); every x/y pair of formulas in pixel addressing is mirror-symmetric with no cross-axis operand (R02); the six encodings of the half-open pixel agree, derived from Extent.Vertices/Edges (R03); the 2x2 decision table marks a quadrant certain only when it contains an endpoint inside the parent, uses the mutex only for the two quadrants adjacent to pt1 in the diagonal case, and lists quadrants in order of travel (R04); routed pixels come only from the stored set (R08); per-segment clean-up receives exactly the routed list (R06); per-level results own their storage (R18b).",
		Decided:     []string{"index alignment of SegmentIntersect (R01)", "axis symmetry of address/extent formulas (R02)", "agreement of the half-open tables (R03)", "shape of the quadrant decision table and its consumer loop (R04)", "routed output comes only from the hot-pixel set (R08)", "clean-up per segment and level (R06)"},
		NotDecided:  []string{"numeric correctness of the float intersection", "completeness of pruning by infinite quadrants", "exhaustive tie enumeration on a lattice (that is an execution technique)"},
	}
	Props["C03"] = &PropSpec{
		Level:       "other",
		Rules:       []string{"R07", "R02", "R09", "R43", "R18b", "R42", "R44", "R48"},
		Explanation: "For all inputs: every output coordinate is ToGeomPoint of the intCentroid of a stored Quadrant; intCentroid/intExtent are written only from getQuadrantExtentAndCentroid, index-aligned (R07); its x and y formulas are mirror images (R02); both copies of the level arithmetic agree and use the root tile width and the constant 16 (R09); the pixel formulas have the defining shape of a regular grid anchored at the extent corner, as polynomial identities over the symbols of the code with integer quotients kept opaque (R43); per-level results own their storage (R18b); the extent the grid is anchored at is the bounding box of matrix 0 in x,y order (R42, R44: origin through ToXYPoint, spans of matrix-size tiles; axis order of every built-in set answered by the EPSG table); the deviation of an uneven grid is reported from one pixel on (R48).",
		Decided:     []string{"the grid corner is the x,y-ordered origin of matrix 0 (R42, R44)", "a deviation of one pixel or more is logged, in units (R48)", "provenance of every output coordinate (R07)", "x/y symmetry of the pixel extent and centre formulas (R02)", "level = id + log2(tile width) + log2(16) in both places (R09)", "min = rootMin + idx*span; max - min = span; centre - min = quo(span,2) added once; span = 2^(deepest-level)*res; res = quo(rootSpan, 2^deepest); address = quo(p - min, res) (R43)"},
		NotDecided:  []string{"the effect of integer truncation (grids whose extent does not divide evenly)", "the bound by the reported deviation for such grids"},
	}
	Props["C04"] = &PropSpec{
		Level:       "other",
		Rules:       []string{"R07", "R08", "R05", "R18b", "R43", "R46", "R03", "R04", "R12", "R13"},
		Explanation: "Clause 1 only (every output vertex is the pixel centre of some input vertex), for all inputs: outputs are centroids of stored quadrants (R07); quadrants are stored only by insertCoord, only for addresses computed from polygon vertices after the range check (R08); every vertex is inserted (R05); per-level lists never alias (R18b). Necessary conditions of clause 2: an edge is routed only through pixels the segment/pixel test or the certainty argument of the 2x2 decision table admits (R03, R04) -- a pixel admitted without either puts a vertex more than half a pixel from the edge. Necessary conditions of clause 3: the containment predicate used for hole matching counts boundary points as inside and examines every segment (R46); a ring leaves cleanupNewRing only as points-and-lines or through splitRing, which classifies it by its role, and an unmatched hole is turned around before it becomes a shell (R12, R13).",
		Decided:     []string{"clause 1: every output vertex is the pixel centre of an input vertex", "necessary conditions of clause 2: pixels are admitted to a route only by the segment/pixel test or by certainty (R03, R04)", "necessary conditions of clause 3: ringContains answers outside only after all segments were examined (R46); ring roles survive clean-up (R12, R13)"},
		NotDecided:  []string{"clause 2: half-pixel Chebyshev distance of every edge point", "clause 3: coverage equivalence beyond one pixel; holes stay holes, parts stay parts"},
	}
	Props["C05"] = &PropSpec{
		Level:       "other",
		Rules:       []string{"R11", "R12", "R13", "R14", "R10", "R06"},
		Explanation: "Policy clauses, for all polygons and the four flag combinations: a present tile matrix always has at least one polygon (R11); rings below three vertices are diverted before de-duplication and before splitting, emitted only under keep-points-and-lines, after the polygons, and a level is dropped only when the shell collapses; the ring measured is the ring itself or the ring without its last vertex, the latter exactly when it has more than one vertex and first == last (R12); winding normalisation precedes routing (R06 under C01) and the configured reversal is the last transformation and covers every ring, and a hole that becomes a polygon of its own is turned around first (R13); each option is read exactly where it takes effect (R14); the orientation predicate is go-spatial's winding.Order.OfPoints, shared by normalisation and split classification (R13); every segment (zero-length ones too) is routed (R06); the repeated-vertex lookup does not go through a lossy int->float->int conversion (R10, the F4 defect class).",
		Decided:     []string{"absent-rather-than-empty (R11)", "ring-size guards and keep/drop policy (R12)", "reversal last and complete (R13)", "option reads (R14)", "no lossy round trip on the snapping path (R10)"},
		NotDecided:  []string{"that splitting yields simple rings with the right orientation for every input (depends on hit maps and float area signs)", "no two equal consecutive vertices"},
	}
	Props["C07"] = &PropSpec{
		Level:       "other",
		Rules:       []string{"R15", "R15p", "R16", "R13", "R14", "R06"},
		Explanation: "Determinism clause, complete: a race-free single-goroutine Go computation is deterministic except for map iteration order, select, scheduling, time, randomness and address-dependent behaviour. R16 shows the snapping call graph (module and dependencies) has none of the latter and writes no package-level state; R15 enumerates every map range and unordered producer (maps.Keys) on that call graph and proves each commutative: per-key stores/appends/deletes with an injective key, set insertion, fresh memory, callee write effects addressed by the iteration key (bottom-up effect summaries), append-only collections whose every later use is order-insensitive (len, max, set conversion, sort before use, commutative loops, followed interprocedurally). R15p does the same below processing.ProcessFeatures. Clause 3 (reverse flag changes direction only): R13 + R14.",
		Decided:     []string{"clause 1: identical output in every process, over all map iteration orders (R15, R16)", "clause 3: the reverse flag only reverses, last (R13, R14)", "necessary condition of clause 2: every ring is normalised before use (R06 under C01)"},
		NotDecided:  []string{"clause 2 sufficiency: that winding.Order classifies every valid ring correctly (trusted library)", "float arithmetic being deterministic across platforms"},
		Assumptions: []string{"callee read effects are not tracked: a callee reading per-level state of another level is caught by R18, not R15", "a sort with a custom comparator is accepted as fixing the order only if the comparator reads nothing but the elements (no map lookups, no calls) and, where it orders by a struct field, that field is in the frozen identity table (TileMatrix.ID)", "standard library functions are classified by a table (pure / output only / writes first argument / commutative sync); anything else inside a map-range loop fails"},
	}
	Props["C08"] = &PropSpec{
		Level:       "other",
		Rules:       []string{"R20", "R18", "R18b", "R19", "R09"},
		Explanation: "For all polygons and id subsets: result keys are exactly requested ids (R20); every access to level-indexed state (maps keyed by Level in snap and pointindex, 40+ sites) uses the level currently being processed, the root level, or the counter of the descent over all levels (R18, with one hop through parameters); the requested set only selects what is recorded and never steers the descent, a level is dropped only because of its own ring result, and the deepest requested level is used only to bound the descent and to scale deepest addresses (R19); loops over levels are never nested (R18); values stored per level never share backing storage (R18b); the level arithmetic is shared (R09).",
		Decided:     []string{"result keyed by requested ids only (R20)", "no cross-level access to per-level state (R18)", "no shared storage between levels (R18b)", "requested set does not influence the descent; ix.deepestLevel only bounds and scales (R19)"},
		NotDecided:  []string{"that coarser pixel addresses derived from the deepest address are independent of the deepest level — true exactly when the extent divides evenly, the property's own precondition (arithmetic)"},
	}
	Props["C09"] = &PropSpec{
		Level:       "other",
		Rules:       []string{"R21", "R22", "R05", "R08", "R02", "R03", "R14", "R43"},
		Explanation: "For all polygons, flags and grids: every quotient feeding the outside-grid range check has a numerator proven non-negative by an earlier rejection (R21; Go's / truncates toward zero, the F2 defect class); every vertex of every ring passes the range check before anything is stored or snapped (R05, R08); both axes and all four sides are treated alike (R02, R03); a failed check propagates unchanged and ends in panic or a fresh empty map with snapping unreachable, the quiet exit only for an OutsideGridError under IgnoreOutsideGrid, and the rejection error has exactly the dynamic type errors.As is asked for (R22, R14); the pixel size the range check divides by is quo(root span, 2^deepest), so that size x pixel count never exceeds the extent (R43).",
		Decided:     []string{"sound rejection on the left/bottom side (R21)", "range check before store, on all four sides, both axes (R08, R03, R02)", "rejection is final: panic or empty result (R22)", "the right option is consulted (R14)"},
		NotDecided:  []string{"offsets below the 1e-10 integer resolution", "exact position of the right/top border on grids whose extent does not divide evenly"},
	}
	Props["C10"] = &PropSpec{
		Level:       "other",
		Rules:       []string{"R28", "R29", "R30", "R11", "R23", "R24", "R27", "R15p", "R36"},
		Explanation: "For all feature streams, target sets and schedules: dispatch by geometry type with a default arm forwarding the untouched geometry once per target; exactly one delivery per (feature, tile matrix present in the result) carrying the received feature, that key and the geometry of the same key; the router sends exactly once per received feature on the channel selected by its TileMatrixID (R28); the wrapper is transparent for columns and id (R29); multipolygon parts are merged per tile matrix and the merged result has no entry without geometry (R30); absent <=> no geometry (R11); the per-tile-matrix wrapper is written only at construction and the constructor returns a fresh value (R27). Per-target FIFO follows from single sender / single consumer per channel (R23, R24); 'only the geometry computed for that target' needs no in-place write to the shared column slice (R27); map order cannot change deliveries (R15p); the per-polygon function main hands to the pipeline returns snap.SnapPolygon of its own arguments on every path (R36).",
		Decided:     []string{"one delivery per feature and tile matrix, none for absent ones (R28, R11)", "attribute pass-through (R29)", "multipolygon merge (R30)", "order per target (R23, R24)", "no cross-target contamination through shared column storage (R27)"},
		NotDecided:  []string{"correctness of the snapped geometry itself (C01-C09)", "nothing dynamic is sampled"},
	}
	Props["C11"] = &PropSpec{
		Level:       "other",
		Rules:       []string{"R23", "R24", "R25", "R26", "R27"},
		Explanation: "Structural proof of the premises of termination and join, for all interleavings: every pipeline channel has exactly one sending function, which closes it exactly once, outside loops, on every normal path after its sends, with no send reachable after the close; every module Source closes its output (R23). Every consumer (snapper, router, every module Target) leaves its receive loop only when the channel is closed (R24). wg.Add(1) dominates each go statement in the same iteration, Done is deferred first, Wait is on every path after the go and before every return; the router waits after closing all target channels; ProcessFeatures joins the router (R25). All four go statements are joined or tail-terminating (R26). No captured variable is reassigned after the go, shared feature storage is not written in place, and per-tile-matrix wrappers are immutable after construction (R27). Stage graph reader -> snapper -> router -> writers is acyclic, every producer closes, every consumer drains: every stage terminates on finite input under every schedule and ProcessFeatures returns only after every Target.WriteFeatures returned.",
		Decided:     []string{"channel life cycle (R23)", "drain until close (R24)", "wait-group pairing and join points (R25)", "goroutine inventory (R26)", "no unsynchronised writes to captured or shared data (R27)"},
		NotDecided:  []string{"races inside third-party code (database/sql is documented goroutine-safe)", "the Go memory model itself", "reader and snapper may still be logging for an instant after ProcessFeatures returns (not a leak)"},
	}
	Props["C12"] = &PropSpec{
		Level:       "other",
		Rules:       []string{"R31", "R32", "R33", "R47", "R34"},
		Explanation: "Row-completeness clauses for all (count, positive page size): typestate of the page buffer over all paths — every appended feature is flushed exactly once before WriteFeatures returns (R31); every flushed feature is inserted exactly once through a statement prepared on the page's transaction, which is committed on every normal path, with the extent accumulated over every feature, only through the two known idioms, and merged after commit (R32); attribute/geometry column order agrees between selectSQL, insertSQL, createSQL, ReadFeatures and writeFeatures (R33); the target table is registered from the source table's own description and every catalogue column is scanned into the field it describes, and every geometry type name the library writes maps back to its type (R47); the page size the user gives reaches TargetGeopackage.pagesize unchanged (R34).",
		Decided:     []string{"one flush per buffered feature incl. the final partial page (R31)", "one INSERT per flushed feature in a committed transaction; extent over all rows (R32)", "column order agreement (R33)", "schema (name, columns, geometry column/type, srs) copied field by field for every table (R47)"},
		NotDecided:  []string{"what SQLite/SpatiaLite do with the statements (rtree triggers, gpkg_contents arithmetic, schema copy)", "dropped Commit error (only matters under I/O faults, outside the quantifier)"},
	}
	Props["C13"] = &PropSpec{
		Level:       "other",
		Rules:       []string{"R34", "R14", "R35", "R36", "R37", "R45", "R28", "R30", "R11", "R25"},
		Explanation: "Plumbing clauses for all flag combinations: every flag is declared once, read with its declared kind (urfave/cli returns the zero value silently otherwise), and reaches the option it names; the page size reaches TargetGeopackage.pagesize; os.Remove runs exactly when overwrite is set — never without, and with it on every path to Init (R34, R14); same-typed arguments are not swapped (R35); validation gates all work; one target per validated id, stored under and named from that id, removed first under overwrite; tables are processed with source and every target switched to the table before the run and untouched afterwards (R36); the quadtree gate comes first inside validation and every validation error is returned (R37); the target name is the given name with _<id> inserted before exactly its extension (R45); the delivery clauses of the pipeline (R28, R30, R11) and the join of the writers before the next table is started (R25). Per-table content otherwise follows from C10-C12.",
		Decided:     []string{"flag table agreement (R34)", "option reads (R14)", "argument order (R35)", "order of operations in the action and in initGPKGTarget (R36)", "validation order (R37)"},
		NotDecided:  []string{"path.Split/Ext semantics of the standard library for unusual paths", "SQLite behaviour"},
	}
	Props["C14"] = &PropSpec{
		Level:       "other",
		Rules:       []string{"R37", "R38", "R09"},
		Explanation: "Validation cannot reach shape-assuming code (FromTileMatrixSet, MatrixSize, MatrixBoundingBox) before IsQuadTree accepted the set, IsQuadTree's error is returned, every explicit panic reachable from validation is excluded by a check in IsQuadTree on the same field, all guards on VariableMatrixWidths use one emptiness predicate, every error produced inside validation is returned, and the gate and the statistics receive the tile matrix set exactly as handed in (R37); IsQuadTree iterates the complete sorted id set without skips, updates the predecessor unconditionally, and enforces each of the ten quadtree conditions with the stated operands and operator, pairwise ones only under `previous != nil` (R38); accepted => the level arithmetic used by snapping is the one used by validation (R09).",
		Decided:     []string{"gate first, no panic behind it (R37)", "every condition enforced for every matrix incl. the last (R38)", "pixel-size relation shared by validation and snapping (R09)"},
		NotDecided:  []string{"the verdict on each of the 14 shipped documents (evaluating IsQuadTree on data)", "that the first id is 0 and matrix 0 is 1x1 (not tested by IsQuadTree; ids not starting at 0 are rejected later by MatrixBoundingBox(0))", "slices.Max panics on an empty id list (outside the quantifier)"},
	}
	Props["C15"] = &PropSpec{
		Level:       "other",
		Rules:       []string{"R02", "R42", "R44", "R16t"},
		Explanation: "Pairing clauses for all tile matrix sets: width-flavoured operands only on the x side and height-flavoured only on the y side in FromNative, ToNative, MatrixSize, MatrixBoundingBox (R02); identical corner-of-origin case analysis (default falls through to TopLeft; BottomLeft) and sign convention in the three functions; one common ToXYPoint for the origin (R42); FromNative(ToNative(tile)) == tile per axis and corner convention, MatrixSize = tiles x tile size, the bounding box spans matrix-size tiles from the origin — polynomial identities over the code's symbols (R44); a negative or too large column/row index never yields a tile (R44); the axis order of every built-in set is answered by IsLatLon itself -- partial evaluation of its decision on the CRS reference of each embedded document -- never by the orderedAxes fallback (R42); no package-level state, cache or sync below the addressing functions (R16t).",
		Decided:     []string{"operand pairing (R02)", "corner-of-origin agreement (R42)", "ToNative and FromNative are mutually inverse as formulas; bounding box spans the matrix (R44)", "addressing is stateless (R16t)"},
		NotDecided:  []string{"rounding (9 decimals) versus unrounded division at tile borders", "content of the EPSG axis table"},
	}
	Props["C16"] = &PropSpec{
		Level:       "other",
		Rules:       []string{"R39", "R40", "R15j"},
		Explanation: "For all documents: every hand-written codec reads exactly the keys it writes, json:\"-\" fields are exactly the re-added special keys, the three CRS variants have pairwise distinct required keys and no variant writes another's, and no encoder assigns to a field of the value it encodes (R39: decode(encode(v)) cannot change variant, lose a special key or rewrite an id). Decoding has no unchecked type assertion and no assertion whose ok result is discarded, no out-of-range submatch index, no missing-key fall-through, cannot return success without validate.Struct, has the positivity/required/non-empty constraints on the named fields, parses ids with strconv and returns the error, decodes every array element into a fresh value, and no explicit panic is reachable from decoding in module code (R40); the encoder emits the tile matrices in an order independent of map iteration: sorted by a comparator over an identity field of the elements (TileMatrix.ID, stored under the integer it parses to) (R15j).",
		Decided:     []string{"reader/writer key agreement and CRS variant exclusivity (R39)", "decode totality and validation (R40)"},
		NotDecided:  []string{"marshmallow / validator / defaults internals", "float formatting stability of encoding/json", "validate tags on unexported fields are never evaluated ({\"crs\":{\"wkt\":{}}} is accepted)"},
	}
	Props["C17"] = &PropSpec{
		Level:       "proof",
		Rules:       []string{"R41"},
		Explanation: "Bit-provenance abstract interpretation (known-bits style, loops unrolled on constant counters) of the SSA of morton.ToZ and morton.FromZ with the masks/powersOfTwo tables read from the source: under x, y <= MaxUint32 every result bit of ToZ is a plain copy (z[2k] = x[k], z[2k+1] = y[k]) hence injective; FromZ returns x[k] = z[2k], y[k] = z[2k+1] with zero upper halves, so FromZ(ToZ(x, y)) = (x, y); ToZ(x,y)>>2 = ToZ(x>>1,y>>1) bit for bit; ok is exactly x <= MaxUint32 && y <= MaxUint32 (truth table over the two comparisons) and MustToZ panics iff !ok; all callers outside morton use the checked encoder; words are 64 bit. A complete argument over all 2^64 address pairs.",
		Decided:     []string{"uniqueness (injectivity)", "decode inverts encode", "parent = key >> 2", "not-encodable reported, never aliased"},
		NotDecided:  []string{},
		Trusted:     []string{"the transfer functions of the bit-provenance domain (shift/and/or/xor with constant operands are exact, anything else yields 'mixed' and fails)", "uint is 64 bit on the analysed platform (amd64)"},
	}
}
