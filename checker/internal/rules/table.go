package rules

import "sort"

func sortStrings(s []string) { sort.Strings(s) }

func init() {
	Props["C09"] = &PropSpec{Level: "other", Rules: []string{"R21", "R22"}, Explanation: "tbd"}
	Props["C02"] = &PropSpec{Level: "other", Rules: []string{"R01"}, Explanation: "tbd"}
	Props["C05"] = &PropSpec{Level: "other", Rules: []string{"R10"}, Explanation: "tbd"}
}
