package rules

import "sort"

func sortStrings(s []string) { sort.Strings(s) }

func init() {
	Props["C09"] = &PropSpec{Level: "other", Rules: []string{"R21", "R22"}, Explanation: "tbd"}
	Props["C02"] = &PropSpec{Level: "other", Rules: []string{"R01", "R02", "R03", "R04"}, Explanation: "tbd"}
	Props["C05"] = &PropSpec{Level: "other", Rules: []string{"R10"}, Explanation: "tbd"}
	Props["C16"] = &PropSpec{Level: "other", Rules: []string{"R39", "R40"}, Explanation: "tbd"}
	Props["C01"] = &PropSpec{Level: "other", Rules: []string{"R05", "R06", "R07", "R08", "R09", "R11", "R12", "R13", "R14"}, Explanation: "tbd"}
	Props["C14"] = &PropSpec{Level: "other", Rules: []string{"R37", "R38"}, Explanation: "tbd"}
	Props["C07"] = &PropSpec{Level: "other", Rules: []string{"R15", "R15p", "R16"}, Explanation: "tbd"}
	Props["C17"] = &PropSpec{Level: "proof", Rules: []string{"R41"}, Explanation: "tbd"}
	Props["C15"] = &PropSpec{Level: "other", Rules: []string{"R42"}, Explanation: "tbd"}
	Props["C13"] = &PropSpec{Level: "other", Rules: []string{"R34", "R35", "R36"}, Explanation: "tbd"}
	Props["C12"] = &PropSpec{Level: "other", Rules: []string{"R31", "R32", "R33"}, Explanation: "tbd"}
	Props["C11"] = &PropSpec{Level: "other", Rules: []string{"R23", "R24", "R25", "R26", "R27"}, Explanation: "tbd"}
	Props["C10"] = &PropSpec{Level: "other", Rules: []string{"R28", "R29", "R30"}, Explanation: "tbd"}
}
