package rules

import "sort"

func sortStrings(s []string) { sort.Strings(s) }

func init() {
	Props["C09"] = &PropSpec{
		Level: "other",
		Rules: []string{"R21", "R22"},
		Explanation: "tbd",
	}
}
