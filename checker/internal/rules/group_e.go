package rules

import (
	"fmt"
	"go/ast"
	"go/token"
	"go/types"
	"regexp"
	"strings"

	"golang.org/x/tools/go/ssa"

	"texelverif/internal/core"
)

func init() {
	reg("R31", r31FlushDiscipline)
	reg("R32", r32OneInsertPerFeature)
	reg("R33", r33ColumnOrder)
}

const (
	stE uint = 1 << iota // empty
	stD                  // holds only unflushed features
	stF                  // holds only flushed features
	stM                  // holds flushed and new features
)

// R31: typestate of the page buffer in every Target.WriteFeatures implementation.
func r31FlushDiscipline(c *core.Ctx) {
	const R = "R31"
	impls := moduleImpls(c, "processing", "Target", "WriteFeatures")
	if len(impls) == 0 {
		c.Bad(R, "target-impls", token.NoPos, "no module implementation of processing.Target found")
		return
	}
	for _, f := range impls {
		info := f.Pkg.TypesInfo
		c.Saw(R, "Target implementation "+f.Name)
		// the buffer: local slice variable that is appended to with itself as first argument
		var buf types.Object
		ast.Inspect(f.Decl.Body, func(n ast.Node) bool {
			as, ok := n.(*ast.AssignStmt)
			if !ok || len(as.Lhs) != 1 || len(as.Rhs) != 1 {
				return true
			}
			call, ok := as.Rhs[0].(*ast.CallExpr)
			if ok && core.IsBuiltinCall(info, call, "append") && len(call.Args) >= 2 && core.SameObj(info, as.Lhs[0], call.Args[0]) {
				if o := core.ObjOf(info, as.Lhs[0]); o != nil && buf == nil {
					buf = o
				}
			}
			return true
		})
		if buf == nil {
			c.Unknown(R, "buffer/"+f.Name, f.Decl.Pos(), "no page buffer (x = append(x, feature)) found: the idiom of this Target implementation is not known to the rule")
			continue
		}
		reports := map[string]token.Pos{}
		report := func(pos token.Pos, msg string) { reports[msg+" @"+c.P.Pos(pos)] = pos }
		mayReturn := func(call *ast.CallExpr) bool { return !noReturnAST(c.P, info, call) }
		nflush := 0
		// events inside one cfg node, in source order
		transfer := func(n ast.Node, st uint) uint {
			type ev struct {
				pos  token.Pos
				kind string
			}
			var evs []ev
			core.InspectNoLit(n, func(x ast.Node) bool {
				switch s := x.(type) {
				case *ast.AssignStmt:
					for i, l := range s.Lhs {
						if core.ObjOf(info, l) != buf {
							continue
						}
						var rhs ast.Expr
						if len(s.Rhs) == len(s.Lhs) {
							rhs = ast.Unparen(s.Rhs[i])
						}
						switch r := rhs.(type) {
						case *ast.Ident:
							if r.Name == "nil" {
								evs = append(evs, ev{s.Pos(), "reset"})
								continue
							}
						case *ast.CallExpr:
							if core.IsBuiltinCall(info, r, "append") && core.ObjOf(info, r.Args[0]) == buf {
								evs = append(evs, ev{s.Pos(), "append"})
								continue
							}
						case *ast.SliceExpr:
							if core.ObjOf(info, r.X) == buf && r.Low == nil && r.High != nil && canon(r.High) == "0" {
								evs = append(evs, ev{s.Pos(), "reset"})
								continue
							}
						}
						evs = append(evs, ev{s.Pos(), "other-assign"})
					}
				case *ast.CallExpr:
					if core.IsBuiltinCall(info, s, "append") || core.IsBuiltinCall(info, s, "len") || core.IsBuiltinCall(info, s, "cap") {
						return true
					}
					for _, a := range s.Args {
						if core.ObjOf(info, a) == buf {
							evs = append(evs, ev{s.Pos(), "flush"})
						} else if core.UsesObj(info, a, buf) {
							if inner, isCall := ast.Unparen(a).(*ast.CallExpr); isCall && core.IsBuiltinCall(info, inner, "len") {
								continue
							}
							evs = append(evs, ev{s.Pos(), "partial-flush"})
						}
					}
				}
				return true
			})
			for _, e := range evs {
				var out uint
				for _, s := range []uint{stE, stD, stF, stM} {
					if st&s == 0 {
						continue
					}
					switch e.kind {
					case "append":
						switch s {
						case stE, stD:
							out |= stD
						default:
							out |= stM
						}
					case "flush":
						nflush++
						switch s {
						case stE:
							out |= stE
						case stD:
							out |= stF
						case stF:
							out |= stF
							report(e.pos, "the buffer is written again although it only holds features that were already written and was not reset: rows are duplicated")
						case stM:
							out |= stF
							report(e.pos, "the buffer is written while it still holds already written features (not reset after the previous write): rows are duplicated")
						}
					case "reset":
						switch s {
						case stD, stM:
							out |= stE
							report(e.pos, "the buffer is reset while it holds features that were not written yet: rows are lost")
						default:
							out |= stE
						}
					case "partial-flush":
						out |= s
						report(e.pos, "only a part/derivative of the buffer is passed on; the rule cannot see that every buffered feature is written exactly once")
					case "other-assign":
						out |= s
						report(e.pos, "the buffer is assigned something other than append(buffer, …) or nil")
					}
				}
				st = out
			}
			return st
		}
		core.StateFlow{Body: f.Decl.Body, MayReturn: mayReturn, Init: stE, Transfer: transfer,
			AtExit: func(n ast.Node, st uint) {
				if st&(stD|stM) != 0 {
					report(n.End(), "WriteFeatures can return while the buffer still holds features that were not written (missing final flush): the last page of every table is lost")
				}
			}}.Run()
		c.Check(R, "buffer-flushed-exactly-once/"+f.Name, f.Decl.Pos(), len(reports) == 0 && nflush > 0,
			"typestate over all paths: every appended feature is passed to the page writer exactly once before WriteFeatures returns (states empty/dirty/flushed)",
			strings.Join(keysPos(reports), "; "))
		// the flush target must be the function that inserts (anchor of R32)
		flushOK := true
		nf := 0
		ast.Inspect(f.Decl.Body, func(n ast.Node) bool {
			call, ok := n.(*ast.CallExpr)
			if !ok {
				return true
			}
			for _, a := range call.Args {
				if core.ObjOf(info, a) == buf && !core.IsBuiltinCall(info, call, "append") && !core.IsBuiltinCall(info, call, "len") {
					nf++
					callee := core.Callee(info, call)
					if callee == nil || !insertsRows(c, callee) {
						flushOK = false
					}
				}
			}
			return true
		})
		c.Check(R, "flush-reaches-insert/"+f.Name, f.Decl.Pos(), flushOK && nf >= 2, fmt.Sprintf("%d flush sites, each calls a function that executes the prepared INSERT", nf),
			"a flush site passes the buffer to something that does not execute the INSERT statement, or fewer than two flush sites (page flush + final flush) exist")
		// page size must be positive for the modulo (documented precondition); record where it is read
		c.Note(R, "%s: page boundary test is not part of completeness (any boundary is fine as long as the final flush exists)", f.Name)
	}
	c.Floor(R, 2)
}

func keysPos(m map[string]token.Pos) []string {
	var l []string
	for k := range m {
		l = append(l, k)
	}
	sortStrings(l)
	return l
}

// insertsRows: the function (module) calls (*sql.Stmt).Exec.
func insertsRows(c *core.Ctx, f *types.Func) bool {
	fn := c.P.ByObj[f.Origin()]
	if fn == nil || fn.SSA == nil {
		return false
	}
	for _, b := range fn.SSA.Blocks {
		for _, in := range b.Instrs {
			if ci, ok := in.(ssa.CallInstruction); ok && core.StaticCalleeID(ci) == "database/sql.Stmt.Exec" {
				return true
			}
		}
	}
	return false
}

func findCalls(fn *ssa.Function, id string) []*ssa.Call {
	var out []*ssa.Call
	for _, b := range fn.Blocks {
		for _, in := range b.Instrs {
			if call, ok := in.(*ssa.Call); ok && core.StaticCalleeID(call) == id {
				out = append(out, call)
			}
		}
	}
	return out
}

// effCall is a call to a given function as seen from a host function: made there directly (Site is the call,
// Args its arguments), or made in a module helper the host calls (Site is the host's call of the helper and Args
// are the host's values of the helper parameters the inner call passes on; nil where it passes something else).
type effCall struct {
	Site  *ssa.Call
	Inner *ssa.Call
	Args  []ssa.Value
}

func effectiveCalls(fn *ssa.Function, id string, depth int) []effCall {
	var out []effCall
	for _, b := range fn.Blocks {
		for _, in := range b.Instrs {
			call, ok := in.(*ssa.Call)
			if !ok {
				continue
			}
			if core.StaticCalleeID(call) == id {
				out = append(out, effCall{call, call, call.Call.Args})
				continue
			}
			h := call.Call.StaticCallee()
			if h == nil || depth <= 0 || len(h.Blocks) == 0 || !core.IsModPath(core.FuncPkgPath(h)) || h == fn {
				continue
			}
			for _, ec := range effectiveCalls(h, id, depth-1) {
				args := make([]ssa.Value, len(ec.Args))
				for i, a := range ec.Args {
					for k, prm := range h.Params {
						if a == ssa.Value(prm) && k < len(call.Call.Args) {
							args[i] = call.Call.Args[k]
						}
					}
				}
				out = append(out, effCall{call, ec.Inner, args})
			}
		}
	}
	return out
}

func extractOf(t ssa.Value, idx int) ssa.Value {
	refs := t.Referrers()
	if refs == nil {
		return nil
	}
	for _, r := range *refs {
		if e, ok := r.(*ssa.Extract); ok && e.Index == idx {
			return e
		}
	}
	return nil
}

// appendChain collects, in order, the variadic sources appended to build v.
func appendChain(v ssa.Value) (base ssa.Value, parts []ssa.Value) {
	call, ok := v.(*ssa.Call)
	if !ok {
		return v, nil
	}
	if _, isApp := isBuiltinCall(call, "append"); !isApp {
		return v, nil
	}
	b, p := appendChain(call.Call.Args[0])
	return b, append(p, call.Call.Args[1])
}

// sliceLitElems: v is `slice t[:]` of a fresh array whose elements were stored; returns the stored values in index order.
func sliceLitElems(v ssa.Value) []ssa.Value {
	sl, ok := v.(*ssa.Slice)
	if !ok {
		return nil
	}
	al, ok := sl.X.(*ssa.Alloc)
	if !ok {
		return nil
	}
	var out []ssa.Value
	for _, r := range *al.Referrers() {
		if ia, ok := r.(*ssa.IndexAddr); ok {
			for _, rr := range *ia.Referrers() {
				if st, ok := rr.(*ssa.Store); ok && st.Addr == ia {
					out = append(out, st.Val)
				}
			}
		}
	}
	return out
}

// R32: one INSERT per buffered feature, inside one committed transaction.
func r32OneInsertPerFeature(c *core.Ctx) {
	const R = "R32"
	f := c.Anchor(R, "gpkg.TargetGeopackage.writeFeatures")
	if f == nil || f.SSA == nil {
		return
	}
	fn := f.SSA
	begins := findCalls(fn, "database/sql.DB.Begin")
	preps := findCalls(fn, "database/sql.Tx.Prepare")
	execs := findCalls(fn, "database/sql.Stmt.Exec")
	commits := findCalls(fn, "database/sql.Tx.Commit")
	upd := findCalls(fn, "github.com/go-spatial/geom/encoding/gpkg.Handle.UpdateGeometryExtent")
	if len(begins) != 1 || len(preps) != 1 || len(execs) != 1 || len(commits) != 1 || len(upd) != 1 {
		c.Bad(R, "shape/"+f.Name, f.Decl.Pos(), fmt.Sprintf("expected one Begin/Prepare/Exec/Commit/UpdateGeometryExtent each, found %d/%d/%d/%d/%d", len(begins), len(preps), len(execs), len(commits), len(upd)))
		return
	}
	begin, prep, exec, commit, update := begins[0], preps[0], execs[0], commits[0], upd[0]
	tx := extractOf(begin, 0)
	stmt := extractOf(prep, 0)
	c.Check(R, "begin-prepare-exec-order/"+f.Name, prep.Pos(),
		core.Dominates(begin, prep) && core.Dominates(prep, exec) && tx != nil && prep.Call.Args[0] == tx && stmt != nil && exec.Call.Args[0] == stmt,
		"Begin dominates Prepare dominates Exec; the statement is prepared on that transaction and executed from it",
		"the INSERT is not executed through a statement prepared on the transaction begun in this call")
	// the statement text is the table's insertSQL()
	sqlOK := false
	if call, ok := prep.Call.Args[1].(*ssa.Call); ok {
		if callee := call.Call.StaticCallee(); callee != nil && callee.Name() == "insertSQL" {
			sqlOK = isFieldRead(call.Call.Args[0], "Table")
		}
	}
	c.Check(R, "prepares-table-insert/"+f.Name, prep.Pos(), sqlOK, "Prepare(target.Table.insertSQL())", "the prepared statement is not the current table's insertSQL()")
	// loop over the features parameter: exactly one Exec per element
	features := fn.Params[len(fn.Params)-1]
	var header *ssa.BinOp
	var elem ssa.Value
	for _, b := range fn.Blocks {
		for _, in := range b.Instrs {
			if ia, ok := in.(*ssa.IndexAddr); ok && ia.X == ssa.Value(features) {
				if bo, ok := ia.Index.(*ssa.BinOp); ok && bo.Op == token.ADD {
					header = bo
					for _, r := range *ia.Referrers() {
						if u, ok := r.(*ssa.UnOp); ok && u.Op == token.MUL {
							elem = u
						}
					}
				}
			}
		}
	}
	if header == nil || elem == nil {
		c.Bad(R, "feature-loop/"+f.Name, f.Decl.Pos(), "no range loop over the features parameter found")
		return
	}
	isExec := instrIs(exec)
	bodyEntry := func(b *ssa.BasicBlock, k int) bool {
		// at the loop condition (the If using header's comparison) follow only the body edge
		if i := core.BlockIf(b); i != nil {
			if cmp, ok := i.Cond.(*ssa.BinOp); ok && cmp.X == ssa.Value(header) {
				return k == 0
			}
		}
		return true
	}
	skip, _ := core.Search{Fn: fn, From: header, Target: instrIs(header), Barrier: isExec, Edge: bodyEntry}.Run()
	dup, _ := core.Search{Fn: fn, From: exec, Target: isExec, Barrier: instrIs(header)}.Run()
	c.Check(R, "one-exec-per-feature/"+f.Name, exec.Pos(), !skip && !dup,
		"every iteration over the buffered features executes the INSERT exactly once (or ends the process)",
		fmt.Sprintf("an iteration can complete without Exec (skip=%v) or execute it twice (dup=%v): a buffered feature is not written / written twice", skip, dup))
	// Exec arguments: columns of this feature, then the geometry blob of this feature, geometry last
	base, parts := appendChain(exec.Call.Args[1])
	argsOK, why := false, ""
	if len(parts) >= 2 {
		colsOK := false
		for _, p := range parts[:len(parts)-1] {
			if call, ok := p.(*ssa.Call); ok && call.Call.IsInvoke() && call.Call.Method.Name() == "Columns" && call.Call.Value == elem {
				colsOK = true
			}
		}
		if call, ok := base.(*ssa.Call); ok && call.Call.IsInvoke() && call.Call.Method.Name() == "Columns" && call.Call.Value == elem {
			colsOK = true
		}
		last := sliceLitElems(parts[len(parts)-1])
		geomOK := false
		if len(last) == 1 {
			if e, ok := core.Unwrap(last[0]).(*ssa.Extract); ok && e.Index == 0 {
				if nb, ok := e.Tuple.(*ssa.Call); ok && core.StaticCalleeID(nb) == "github.com/go-spatial/geom/encoding/gpkg.NewBinary" {
					if g, ok := nb.Call.Args[1].(*ssa.Call); ok && g.Call.IsInvoke() && g.Call.Method.Name() == "Geometry" && g.Call.Value == elem {
						geomOK = true
					}
				}
			}
		}
		argsOK = colsOK && geomOK
		why = fmt.Sprintf("columns-of-this-feature=%v geometry-blob-of-this-feature-last=%v", colsOK, geomOK)
	} else {
		why = "Exec arguments are not built as append(columns…, geometry)"
	}
	c.Check(R, "exec-args-columns-then-geometry/"+f.Name, exec.Pos(), argsOK, "Exec(append(f.Columns()…, NewBinary(srs, f.Geometry()))) for the feature of this iteration, geometry last", "INSERT arguments: "+why)
	// Commit on every normal path after the loop, on the same transaction; extent update after commit
	noCommit, _ := core.Search{Fn: fn, From: begin, Target: core.IsReturn, Barrier: instrIs(commit)}.Run()
	c.Check(R, "commit-on-every-path/"+f.Name, commit.Pos(), !noCommit && commit.Call.Args[0] == tx && !core.InLoop(commit),
		"every normal path from Begin to return passes Commit of that transaction, outside the loop", "a normal return without tx.Commit() exists (page silently rolled back), or Commit is on another transaction / inside the loop")
	c.Check(R, "extent-update-after-commit/"+f.Name, update.Pos(), core.Dominates(commit, update), "UpdateGeometryExtent runs after the commit", "the table extent is updated before the rows are committed")
	// extent accumulated over every feature
	const newExtID, addGeomID = "github.com/go-spatial/geom.NewExtentFromGeometry", "github.com/go-spatial/geom.Extent.AddGeometry"
	// extHelper: a module helper called with this feature (or its geometry) in which every normal path to a
	// return feeds that geometry to NewExtentFromGeometry/AddGeometry
	extHelpers := map[*ssa.Function]bool{}
	extHelper := func(call *ssa.Call) bool {
		h := call.Call.StaticCallee()
		if h == nil || len(h.Blocks) == 0 || !core.IsModPath(core.FuncPkgPath(h)) {
			return false
		}
		for i, a := range call.Call.Args {
			if i >= len(h.Params) {
				break
			}
			a = core.Unwrap(a)
			prm := h.Params[i]
			var isGeomOfParam func(v ssa.Value) bool
			if a == elem {
				isGeomOfParam = func(v ssa.Value) bool {
					g, ok := v.(*ssa.Call)
					return ok && g.Call.IsInvoke() && g.Call.Method.Name() == "Geometry" && g.Call.Value == ssa.Value(prm)
				}
			} else if g, ok := a.(*ssa.Call); ok && g.Call.IsInvoke() && g.Call.Method.Name() == "Geometry" && g.Call.Value == elem {
				isGeomOfParam = func(v ssa.Value) bool { return v == ssa.Value(prm) }
			} else {
				continue
			}
			feeds := func(in ssa.Instruction) bool {
				hc, ok := in.(*ssa.Call)
				if !ok {
					return false
				}
				if id := core.StaticCalleeID(hc); id != newExtID && id != addGeomID {
					return false
				}
				return isGeomOfParam(hc.Call.Args[len(hc.Call.Args)-1])
			}
			if miss, _ := (core.Search{Fn: h, Target: core.IsReturn, Barrier: feeds}).Run(); !miss {
				extHelpers[h] = true
				return true
			}
		}
		return false
	}
	isExt := func(in ssa.Instruction) bool {
		call, ok := in.(*ssa.Call)
		if !ok {
			return false
		}
		id := core.StaticCalleeID(call)
		if id != newExtID && id != addGeomID {
			return extHelper(call)
		}
		g, ok := call.Call.Args[len(call.Call.Args)-1].(*ssa.Call)
		return ok && g.Call.IsInvoke() && g.Call.Method.Name() == "Geometry" && g.Call.Value == elem
	}
	noExt, _ := core.Search{Fn: fn, From: header, Target: instrIs(header), Barrier: isExt, Edge: bodyEntry}.Run()
	// the accumulated extent is what is handed to UpdateGeometryExtent: it merges the extent a feature started
	// (NewExtentFromGeometry's result, directly or as the result of the helper that calls it)
	yieldsNewExtent := func(v ssa.Value) bool {
		if ex, ok := v.(*ssa.Extract); ok {
			if call, ok := ex.Tuple.(*ssa.Call); ok && core.StaticCalleeID(call) == newExtID {
				return true
			}
		}
		return false
	}
	extArg := false
	if len(update.Call.Args) == 3 {
		if phi, ok := update.Call.Args[2].(*ssa.Phi); ok {
			for _, e := range phi.Edges {
				if yieldsNewExtent(e) {
					extArg = true
				}
				if hc, ok := e.(*ssa.Call); ok && extHelper(hc) {
					h := hc.Call.StaticCallee()
					for _, hb := range h.Blocks {
						for _, hin := range hb.Instrs {
							if ret, ok := hin.(*ssa.Return); ok && len(ret.Results) == 1 {
								if yieldsNewExtent(ret.Results[0]) {
									extArg = true
								}
								if rp, ok := ret.Results[0].(*ssa.Phi); ok {
									for _, re := range rp.Edges {
										if yieldsNewExtent(re) {
											extArg = true
										}
									}
								}
							}
						}
					}
				}
			}
		}
	}
	c.Check(R, "extent-covers-every-feature/"+f.Name, update.Pos(), !noExt && extArg,
		"every iteration feeds this feature's geometry to NewExtentFromGeometry/AddGeometry and the accumulated extent is what is merged into gpkg_contents",
		"an iteration can complete without adding the feature's geometry to the page extent, or the extent passed to UpdateGeometryExtent is not the accumulated one")
	// the page extent starts empty in every call (a page's extent carried over in the target would leak into the
	// next table written through it), and no page leaves without merging its extent into the table's
	{
		var acc ssa.Value
		if len(update.Call.Args) == 3 {
			acc = update.Call.Args[2]
		}
		badLeaf := ""
		seenL := map[ssa.Value]bool{}
		var leaves func(v ssa.Value)
		leaves = func(v ssa.Value) {
			if v == nil || seenL[v] {
				return
			}
			seenL[v] = true
			switch x := v.(type) {
			case *ssa.Phi:
				for _, e := range x.Edges {
					leaves(e)
				}
				return
			case *ssa.Const:
				if x.IsNil() {
					return
				}
			case *ssa.Call:
				if extHelper(x) {
					return
				}
			}
			if yieldsNewExtent(v) {
				return
			}
			badLeaf += v.String() + " @" + c.P.Pos(v.Pos()) + "; "
		}
		leaves(acc)
		c.Check(R, "page-extent-starts-empty/"+f.Name, update.Pos(), badLeaf == "" && acc != nil,
			"the extent merged into the table's is nil or what this call's features started and grew", "the page extent does not start empty in every call: it is also "+badLeaf+"(state kept between calls reaches the extent of whatever table is written next)")
		// (leaving with an extent that is still nil skips nothing: there is nothing to merge)
		notNilSide := func(b *ssa.BasicBlock, k int) bool {
			i := core.BlockIf(b)
			if i == nil {
				return true
			}
			bo, ok := i.Cond.(*ssa.BinOp)
			if !ok || (bo.Op != token.EQL && bo.Op != token.NEQ) {
				return true
			}
			l, r := bo.X, bo.Y
			if isNilConst(l) {
				l, r = r, l
			}
			if l != acc || !isNilConst(r) {
				return true
			}
			nilSide := 0
			if bo.Op == token.NEQ {
				nilSide = 1
			}
			return k != nilSide
		}
		skipped, _ := core.Search{Fn: fn, From: header, Target: core.IsReturn, Barrier: instrIs(update), Edge: notNilSide}.Run()
		c.Check(R, "page-extent-always-merged/"+f.Name, update.Pos(), !skipped,
			"every return after the page loop lies behind UpdateGeometryExtent", "a page can be written without its extent being merged into the table's (return before UpdateGeometryExtent): the recorded extent misses that page")
	}
	// the extent accumulator is only updated by the two known idioms; anything else (ext.Add(other), …) is not understood
	{
		var acc ssa.Value
		if len(update.Call.Args) == 3 {
			acc = update.Call.Args[2]
		}
		unknown := ""
		if phi, ok := acc.(*ssa.Phi); ok {
			for _, b := range fn.Blocks {
				for _, in := range b.Instrs {
					ci, ok := in.(*ssa.Call)
					if !ok || len(ci.Call.Args) == 0 {
						continue
					}
					recvIsAcc := ci.Call.Args[0] == ssa.Value(phi)
					for _, e := range phi.Edges {
						if ci.Call.Args[0] == e {
							recvIsAcc = true
						}
					}
					if !recvIsAcc {
						continue
					}
					id := core.StaticCalleeID(ci)
					if strings.HasPrefix(id, "github.com/go-spatial/geom.Extent.") && id != "github.com/go-spatial/geom.Extent.AddGeometry" {
						unknown += fmt.Sprintf("%s @%s; ", id, c.P.Pos(ci.Pos()))
					}
				}
			}
		}
		// inside the helpers that grow the extent: the extent parameter is only used as AddGeometry's receiver
		for h := range extHelpers {
			for _, prm := range h.Params {
				if !strings.HasSuffix(prm.Type().String(), "geom.Extent") {
					continue
				}
				for _, b := range h.Blocks {
					for _, in := range b.Instrs {
						ci, ok := in.(*ssa.Call)
						if !ok || len(ci.Call.Args) == 0 || ci.Call.Args[0] != ssa.Value(prm) {
							continue
						}
						id := core.StaticCalleeID(ci)
						if strings.HasPrefix(id, "github.com/go-spatial/geom.Extent.") && id != addGeomID {
							unknown += fmt.Sprintf("%s @%s; ", id, c.P.Pos(ci.Pos()))
						}
					}
				}
			}
		}
		if unknown == "" {
			c.OK(R, "extent-accumulated-by-known-idioms/"+f.Name, update.Pos(), "the page extent is only started with NewExtentFromGeometry and grown with AddGeometry")
		} else {
			c.Unknown(R, "extent-accumulated-by-known-idioms/"+f.Name, update.Pos(), "the page extent is updated through a method the rule does not know ("+unknown+"); e.g. Extent.Add(nil) means `the whole universe` in go-spatial, and NewExtentFromGeometry returns nil for an empty geometry")
		}
	}
	c.Floor(R, 6)
}

// typeSwitchAppendsOne: every non-default case of the type switch appends exactly one value (to acc when given, and
// then by `acc = append(acc, x)` or `return append(acc, x)`), and the default case aborts.  Returns "" or the reason.
func typeSwitchAppendsOne(p *core.Prog, info *types.Info, ts *ast.TypeSwitchStmt, acc types.Object) string {
	for _, tc := range ts.Body.List {
		tcl := tc.(*ast.CaseClause)
		apps := core.BuiltinCallsIn(info, tcl, "append")
		if tcl.List == nil {
			if len(tcl.Body) != 1 || !stmtTerminates(p, info, tcl.Body[0]) {
				return "the default type case does not abort"
			}
			continue
		}
		if len(apps) != 1 {
			return fmt.Sprintf("a value type case appends %d values", len(apps))
		}
		if len(apps[0].Args) != 2 || apps[0].Ellipsis.IsValid() {
			return "a value type case does not append exactly one value"
		}
		if acc != nil {
			if core.ObjOf(info, apps[0].Args[0]) != acc {
				return "a value type case appends to something other than the column list"
			}
			okUse := false
			for _, s := range tcl.Body {
				switch x := s.(type) {
				case *ast.AssignStmt:
					if len(x.Lhs) == 1 && len(x.Rhs) == 1 && ast.Unparen(x.Rhs[0]) == ast.Expr(apps[0]) && core.ObjOf(info, x.Lhs[0]) == acc {
						okUse = true
					}
				case *ast.ReturnStmt:
					if len(x.Results) == 1 && ast.Unparen(x.Results[0]) == ast.Expr(apps[0]) {
						okUse = true
					}
				}
			}
			if !okUse {
				return "a value type case drops the appended column list"
			}
		}
	}
	return ""
}

// R33: column order agrees between reader and writer.
func r33ColumnOrder(c *core.Ctx) {
	const R = "R33"
	for _, name := range []string{"gpkg.Table.selectSQL", "gpkg.Table.insertSQL", "gpkg.Table.createSQL"} {
		f := c.Anchor(R, name)
		if f == nil {
			continue
		}
		info := f.Pkg.TypesInfo
		// one pass over t.columns, or several passes each building one list (names, placeholders): every loop of the
		// function ranges over t.columns itself
		var loop *colLoop
		var loops []*colLoop
		nloops := 0
		ast.Inspect(f.Decl.Body, func(n ast.Node) bool {
			switch r := n.(type) {
			case *ast.RangeStmt:
				nloops++
				if fv := core.FieldOf(info, r.X); fv != nil && fv.Name() == "columns" {
					loops = append(loops, &colLoop{r, r.Body})
					if loop == nil {
						loop = loops[len(loops)-1]
					}
				}
			case *ast.ForStmt:
				// for i := 0; i < len(t.columns); i++ with i untouched in the body: the same pass
				nloops++
				if x := countedLoopOver(info, r); x != nil {
					if fv := core.FieldOf(info, x); fv != nil && fv.Name() == "columns" {
						loops = append(loops, &colLoop{r, r.Body})
						if loop == nil {
							loop = loops[len(loops)-1]
						}
					}
				}
			}
			return true
		})
		sorted := len(core.CallsIn(info, f.Decl, "sort.Slice", "sort.Strings", "slices.Sort", "slices.Reverse", "sort.Sort", "slices.SortFunc")) > 0
		ok := loop != nil && nloops == len(loops) && !sorted
		// every append in a loop appends to a slice in iteration order (no prepend: first arg is the slice itself)
		if ok {
			for _, lp := range loops {
				for _, call := range core.BuiltinCallsIn(info, lp.Body, "append") {
					path := pathTo(lp.Body, call)
					if len(path) >= 2 {
						if as, isAs := path[len(path)-2].(*ast.AssignStmt); !isAs || !core.SameObj(info, as.Lhs[0], call.Args[0]) {
							ok = false
						}
					}
				}
			}
		}
		c.Check(R, "table-order/"+name, f.Decl.Pos(), ok, "ranges once over t.columns in slice order and appends in that order", "the statement is not built by one in-order pass over t.columns")
		if name == "gpkg.Table.insertSQL" && loop != nil {
			// skip predicate: c.name != t.gcolumn guards the appends; the geometry column is appended after the loop
			// (as an enclosing `if name != gcolumn` or an earlier `if name == gcolumn { continue }`: in both forms
			// the only fact that holds at the appends is that the column is not the geometry column)
			skipOK := true
			notGeom := regexp.MustCompile(`^([\w.\[\]]+\.name(==|!=)\w+\.gcolumn|\w+\.gcolumn(==|!=)[\w.\[\]]+\.name)$`)
			// a local that names the column's name field once (name := t.columns[i].name)
			alias := map[types.Object]ast.Expr{}
			for _, lp := range loops {
				for _, st := range lp.Body.List {
					if as, isAs := st.(*ast.AssignStmt); isAs && as.Tok == token.DEFINE && len(as.Lhs) == 1 && len(as.Rhs) == 1 {
						if fv := core.FieldOf(info, as.Rhs[0]); fv != nil && fv.Name() == "name" {
							if o := core.ObjOf(info, as.Lhs[0]); o != nil && assignedCount(info, lp.Body, o) == 1 {
								alias[o] = as.Rhs[0]
							}
						}
					}
				}
			}
			unalias := func(e ast.Expr) ast.Expr {
				if o := core.ObjOf(info, e); o != nil {
					if r, ok := alias[o]; ok {
						return r
					}
				}
				return e
			}
			napps := 0
			var namesLoop *colLoop
			var namesSlice ast.Expr
			for _, lp := range loops {
				for _, app := range core.BuiltinCallsIn(info, lp.Body, "append") {
					napps++
					if len(app.Args) == 2 {
						if fv := core.FieldOf(info, unalias(app.Args[1])); fv != nil && fv.Name() == "name" {
							namesLoop, namesSlice = lp, app.Args[0]
						}
					}
					facts := enclosingFacts(lp.Body, app)
					if len(facts) != 1 {
						skipOK = false
						continue
					}
					fexpr := facts[0].expr
					for o, r := range alias {
						fexpr = regexp.MustCompile(`\b`+regexp.QuoteMeta(o.Name())+`\b`).ReplaceAllString(fexpr, canon(r))
					}
					m := notGeom.FindStringSubmatch(fexpr)
					if m == nil {
						skipOK = false
						continue
					}
					op := m[2] + m[3]
					if (op == "!=") != facts[0].val {
						skipOK = false
					}
				}
			}
			if napps < 2 || namesLoop == nil {
				skipOK = false
			}
			// the geometry column is appended to the list of names after the loop that fills it
			lastOK := false
			if namesLoop != nil {
				for _, s := range f.Decl.Body.List {
					if s.Pos() < namesLoop.node.End() {
						continue
					}
					if as, isAs := s.(*ast.AssignStmt); isAs && len(as.Rhs) == 1 {
						if call, isCall := as.Rhs[0].(*ast.CallExpr); isCall && core.IsBuiltinCall(info, call, "append") && len(call.Args) == 2 && core.SameObj(info, call.Args[0], namesSlice) {
							if fv := core.FieldOf(info, call.Args[1]); fv != nil && fv.Name() == "gcolumn" {
								lastOK = true
							}
						}
					}
				}
			}
			c.Check(R, "insert-skips-geometry-and-appends-it-last/"+name, loop.node.Pos(), skipOK && lastOK,
				"non-geometry columns in table order (skip predicate name != gcolumn), geometry column appended after the loop",
				"insertSQL does not list the attribute columns in table order followed by the geometry column: writeFeatures binds attributes first and the geometry blob last")
		}
	}
	// reader: every non-geometry column value appended in result order, geometry kept apart
	if f := c.Anchor(R, "gpkg.SourceGeopackage.ReadFeatures"); f != nil {
		info := f.Pkg.TypesInfo
		// the column loop decides per column name: geometry column (kept apart) or attribute (appended); written as
		// `switch colName { case t.gcolumn: … default: … }` or as `if colName == t.gcolumn { … } else { … }`
		var colLoop *ast.RangeStmt
		var geomArm, defArm []ast.Stmt
		arms := false
		isGcol := func(e ast.Expr) bool {
			fv := core.FieldOf(info, e)
			return fv != nil && fv.Name() == "gcolumn"
		}
		ast.Inspect(f.Decl.Body, func(n ast.Node) bool {
			r, ok := n.(*ast.RangeStmt)
			if !ok || r.Value == nil {
				return true
			}
			col := core.ObjOf(info, r.Value)
			for _, s := range r.Body.List {
				switch x := s.(type) {
				case *ast.SwitchStmt:
					if x.Tag == nil || core.ObjOf(info, x.Tag) != col {
						continue
					}
					for _, cc := range x.Body.List {
						cl := cc.(*ast.CaseClause)
						if cl.List == nil {
							defArm = cl.Body
						} else if len(cl.List) == 1 && isGcol(cl.List[0]) {
							geomArm = cl.Body
						}
					}
					colLoop, arms = r, len(x.Body.List) == 2
				case *ast.IfStmt:
					be, ok := ast.Unparen(x.Cond).(*ast.BinaryExpr)
					if !ok || (be.Op != token.EQL && be.Op != token.NEQ) || x.Init != nil {
						continue
					}
					if !((core.ObjOf(info, be.X) == col && isGcol(be.Y)) || (core.ObjOf(info, be.Y) == col && isGcol(be.X))) {
						continue
					}
					eb, ok := x.Else.(*ast.BlockStmt)
					if !ok {
						continue
					}
					if be.Op == token.EQL {
						geomArm, defArm = x.Body.List, eb.List
					} else {
						geomArm, defArm = eb.List, x.Body.List
					}
					colLoop, arms = r, true
				}
			}
			return true
		})
		ok := colLoop != nil && arms && geomArm != nil && defArm != nil
		why := "no decision `column name == <table>.gcolumn` (switch or if/else) over the result columns found"
		if ok {
			geomCase, defCase := false, false
			{
				{
					// default: a type switch whose every non-default case appends exactly one value to the column
					// slice -- written out here, or in a module helper called as `c = helper(c, …)`
					for _, s := range defArm {
						if ts, isTS := s.(*ast.TypeSwitchStmt); isTS {
							defCase = true
							if w := typeSwitchAppendsOne(c.P, info, ts, nil); w != "" {
								defCase, why = false, w
							}
							continue
						}
						as, isAs := s.(*ast.AssignStmt)
						if !isAs || len(as.Lhs) != 1 || len(as.Rhs) != 1 {
							continue
						}
						call, isCall := ast.Unparen(as.Rhs[0]).(*ast.CallExpr)
						if !isCall {
							continue
						}
						callee := core.Callee(info, call)
						if callee == nil {
							continue
						}
						h := c.P.ByObj[callee.Origin()]
						if h == nil || h.Decl.Body == nil || !core.IsModPath(h.Pkg.PkgPath) {
							continue
						}
						// the accumulator: the argument that is also the assignment's target
						hs := h.Obj.Type().(*types.Signature)
						var acc types.Object
						for i, a := range call.Args {
							if i < hs.Params().Len() && core.ObjOf(info, a) != nil && core.ObjOf(info, a) == core.ObjOf(info, as.Lhs[0]) {
								acc = hs.Params().At(i)
							}
						}
						if acc == nil {
							continue
						}
						for _, hsn := range h.Decl.Body.List {
							if ts, isTS := hsn.(*ast.TypeSwitchStmt); isTS {
								defCase = true
								if w := typeSwitchAppendsOne(c.P, h.Pkg.TypesInfo, ts, acc); w != "" {
									defCase, why = false, w
								}
							}
						}
						if defCase {
							// besides the type switch the helper only returns the accumulator
							for _, hsn := range h.Decl.Body.List {
								switch x := hsn.(type) {
								case *ast.TypeSwitchStmt:
								case *ast.ReturnStmt:
									if len(x.Results) != 1 || core.ObjOf(h.Pkg.TypesInfo, x.Results[0]) != acc {
										defCase, why = false, "the helper does not return the column list it appended to"
									}
								default:
									defCase, why = false, "the helper does more than a type switch and a return"
								}
							}
						}
					}
				}
				napp := 0
				for _, gs := range geomArm {
					napp += len(core.BuiltinCallsIn(info, gs, "append"))
				}
				geomCase = napp == 0
			}
			ok = geomCase && defCase
			if !geomCase {
				why = "no `case <table>.gcolumn` arm that keeps the geometry apart"
			}
			// loop must not skip columns
			ast.Inspect(colLoop.Body, func(n ast.Node) bool {
				if b, isB := n.(*ast.BranchStmt); isB && b.Tok == token.CONTINUE {
					ok = false
					why = "continue in the column loop"
				}
				return true
			})
		}
		c.Check(R, "reader-appends-attributes-in-result-order/"+f.Name, f.Decl.Pos(), ok,
			"each result column is either the geometry (kept apart, predicate name == gcolumn) or appended once to the attribute list, in result order", "ReadFeatures: "+why)
	}
	// SELECT order = table order = order of values scanned: selectSQL feeds Query in ReadFeatures
	if f := c.Anchor(R, "gpkg.SourceGeopackage.ReadFeatures"); f != nil {
		info := f.Pkg.TypesInfo
		q := false
		for _, call := range core.CallsIn(info, f.Decl, "database/sql.DB.Query") {
			if len(call.Args) >= 1 {
				if inner, ok := call.Args[0].(*ast.CallExpr); ok && isCallToAnchor(c, info, inner, "gpkg.Table.selectSQL") {
					q = true
				}
			}
		}
		c.Check(R, "reader-queries-select-sql/"+f.Name, f.Decl.Pos(), q, "rows come from Query(source.Table.selectSQL())", "ReadFeatures does not query with the table's selectSQL(): column order of the values is not the table order")
	}
	c.Floor(R, 5)
}

// isCallToAnchor: the call's callee is the module function known under the given anchor name (whether it is
// written as a method or as a plain function today).
func isCallToAnchor(c *core.Ctx, info *types.Info, call *ast.CallExpr, name string) bool {
	f := c.P.Lookup(name)
	if f == nil {
		return false
	}
	cal := core.Callee(info, call)
	return cal != nil && cal.Origin() == f.Obj
}

// subjectOf: the operand a method-or-function helper works on: the receiver of a method call, else the first
// argument.
func subjectOf(info *types.Info, call *ast.CallExpr) ast.Expr {
	if sel, ok := ast.Unparen(call.Fun).(*ast.SelectorExpr); ok {
		if s := info.Selections[sel]; s != nil {
			return sel.X
		}
	}
	if len(call.Args) > 0 {
		return call.Args[0]
	}
	return nil
}

// colLoop: one pass over a slice, written as a range loop or as a counted loop from 0 to len-1.
type colLoop struct {
	node ast.Node
	Body *ast.BlockStmt
}

// countedLoopOver: fs is `for i := 0; i < len(X); i++ { … }` and the body never assigns i; returns X.
func countedLoopOver(info *types.Info, fs *ast.ForStmt) ast.Expr {
	init, ok := fs.Init.(*ast.AssignStmt)
	if !ok || len(init.Lhs) != 1 || len(init.Rhs) != 1 || canon(init.Rhs[0]) != "0" {
		return nil
	}
	iv := core.ObjOf(info, init.Lhs[0])
	cond, ok := fs.Cond.(*ast.BinaryExpr)
	if !ok || cond.Op != token.LSS || core.ObjOf(info, cond.X) != iv || iv == nil {
		return nil
	}
	lc, ok := ast.Unparen(cond.Y).(*ast.CallExpr)
	if !ok || !core.IsBuiltinCall(info, lc, "len") || len(lc.Args) != 1 {
		return nil
	}
	post, ok := fs.Post.(*ast.IncDecStmt)
	if !ok || post.Tok != token.INC || core.ObjOf(info, post.X) != iv {
		return nil
	}
	assigned := false
	ast.Inspect(fs.Body, func(n ast.Node) bool {
		switch x := n.(type) {
		case *ast.AssignStmt:
			for _, l := range x.Lhs {
				if core.ObjOf(info, l) == iv {
					assigned = true
				}
			}
		case *ast.IncDecStmt:
			if core.ObjOf(info, x.X) == iv {
				assigned = true
			}
		}
		return true
	})
	if assigned {
		return nil
	}
	return lc.Args[0]
}
