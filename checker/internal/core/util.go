package core

import (
	"fmt"
	"go/ast"
	"go/constant"
	"go/token"
	"go/types"
	"strings"

	"golang.org/x/tools/go/packages"
	"golang.org/x/tools/go/ssa"
	"golang.org/x/tools/go/types/typeutil"
)

// ---------- AST / types helpers ----------

// Callee resolves the static callee of a call through type information.
func Callee(info *types.Info, call *ast.CallExpr) *types.Func {
	f, _ := typeutil.Callee(info, call).(*types.Func)
	return f
}

// FuncID renders a *types.Func as "pkgpath.Name" or "pkgpath.Type.Name".
func FuncID(f *types.Func) string {
	if f == nil {
		return ""
	}
	f = f.Origin()
	pkg := ""
	if f.Pkg() != nil {
		pkg = f.Pkg().Path()
	}
	sig, _ := f.Type().(*types.Signature)
	if sig != nil && sig.Recv() != nil {
		t := sig.Recv().Type()
		if p, ok := t.(*types.Pointer); ok {
			t = p.Elem()
		}
		switch n := t.(type) {
		case *types.Named:
			return pkg + "." + n.Obj().Name() + "." + f.Name()
		case *types.Alias:
			return pkg + "." + n.Obj().Name() + "." + f.Name()
		}
		return pkg + ".?." + f.Name()
	}
	return pkg + "." + f.Name()
}

// ShortFuncID renders module functions with the short package name.
func ShortFuncID(f *types.Func) string {
	id := FuncID(f)
	if f != nil && f.Pkg() != nil && IsModPath(f.Pkg().Path()) {
		return ShortPkg(f.Pkg().Path()) + strings.TrimPrefix(id, f.Pkg().Path())
	}
	return id
}

// IsCallTo reports whether call statically resolves to one of the ids
// (FuncID form, module functions also in short form).
func IsCallTo(info *types.Info, call *ast.CallExpr, ids ...string) bool {
	f := Callee(info, call)
	if f == nil {
		return false
	}
	id, sid := FuncID(f), ShortFuncID(f)
	for _, want := range ids {
		if want == id || want == sid || SameAnchor(want, sid) {
			return true
		}
	}
	return false
}

// module function names (short form) and how many functions of a package share a base name; filled by Load.
var (
	modFuncNames = map[string]bool{}
	modBaseCount = map[string]int{}
)

// SameAnchor: want names a module function that no longer exists under that exact name, and have is the only
// function of the same package with the same base name: a function that became a method or the reverse.
func SameAnchor(want, have string) bool {
	if want == have {
		return true
	}
	if modFuncNames[want] || !modFuncNames[have] {
		return false
	}
	wp, hp := strings.Split(want, "."), strings.Split(have, ".")
	if len(wp) < 2 || len(hp) < 2 || wp[0] != hp[0] || wp[len(wp)-1] != hp[len(hp)-1] {
		return false
	}
	return modBaseCount[hp[0]+"."+hp[len(hp)-1]] == 1
}

// IsBuiltinCall reports a call to the named builtin (append, len, close, …).
func IsBuiltinCall(info *types.Info, call *ast.CallExpr, name string) bool {
	id, ok := ast.Unparen(call.Fun).(*ast.Ident)
	if !ok {
		return false
	}
	b, ok := info.Uses[id].(*types.Builtin)
	return ok && b.Name() == name
}

// InspectNoLit walks n without descending into function literals.
func InspectNoLit(n ast.Node, f func(ast.Node) bool) {
	ast.Inspect(n, func(x ast.Node) bool {
		if x == nil {
			return false
		}
		if _, ok := x.(*ast.FuncLit); ok && x != n {
			return false
		}
		return f(x)
	})
}

// CallsIn lists the calls in n (no function literals) whose callee matches ids.
func CallsIn(info *types.Info, n ast.Node, ids ...string) []*ast.CallExpr {
	var out []*ast.CallExpr
	InspectNoLit(n, func(x ast.Node) bool {
		if c, ok := x.(*ast.CallExpr); ok && IsCallTo(info, c, ids...) {
			out = append(out, c)
		}
		return true
	})
	return out
}

// BuiltinCallsIn lists calls to the named builtin in n (no function literals).
func BuiltinCallsIn(info *types.Info, n ast.Node, name string) []*ast.CallExpr {
	var out []*ast.CallExpr
	InspectNoLit(n, func(x ast.Node) bool {
		if c, ok := x.(*ast.CallExpr); ok && IsBuiltinCall(info, c, name) {
			out = append(out, c)
		}
		return true
	})
	return out
}

// ObjOf returns the object an identifier expression denotes (use or def).
func ObjOf(info *types.Info, e ast.Expr) types.Object {
	id, ok := ast.Unparen(e).(*ast.Ident)
	if !ok {
		return nil
	}
	if o := info.Uses[id]; o != nil {
		return o
	}
	return info.Defs[id]
}

// SameObj reports that both expressions are identifiers of one object.
func SameObj(info *types.Info, a, b ast.Expr) bool {
	oa, ob := ObjOf(info, a), ObjOf(info, b)
	if oa != nil && oa == ob {
		return true
	}
	// the same field of the same variable: v.f and v.f (a pair of locals gathered in a struct)
	sa, ok1 := ast.Unparen(a).(*ast.SelectorExpr)
	sb, ok2 := ast.Unparen(b).(*ast.SelectorExpr)
	if ok1 && ok2 {
		fa, fb := info.Uses[sa.Sel], info.Uses[sb.Sel]
		if fa != nil && fa == fb {
			if _, isVar := fa.(*types.Var); isVar {
				return SameObj(info, sa.X, sb.X)
			}
		}
	}
	return false
}

// UsesObj reports whether obj is mentioned anywhere in n.
func UsesObj(info *types.Info, n ast.Node, obj types.Object) bool {
	if n == nil || obj == nil {
		return false
	}
	found := false
	ast.Inspect(n, func(x ast.Node) bool {
		if id, ok := x.(*ast.Ident); ok && (info.Uses[id] == obj || info.Defs[id] == obj) {
			found = true
		}
		return !found
	})
	return found
}

// ConstInt returns the constant integer value of e, if any.
func ConstInt(info *types.Info, e ast.Expr) (int64, bool) {
	tv, ok := info.Types[e]
	if !ok || tv.Value == nil {
		return 0, false
	}
	v := constant.ToInt(tv.Value)
	if v.Kind() != constant.Int {
		return 0, false
	}
	i, exact := constant.Int64Val(v)
	return i, exact
}

// ConstString returns the constant string value of e, if any.
func ConstString(info *types.Info, e ast.Expr) (string, bool) {
	tv, ok := info.Types[e]
	if !ok || tv.Value == nil || tv.Value.Kind() != constant.String {
		return "", false
	}
	return constant.StringVal(tv.Value), true
}

func ExprStr(e ast.Expr) string {
	if e == nil {
		return "<nil>"
	}
	return types.ExprString(e)
}

// FieldOf returns the struct field a selector expression selects, if any.
func FieldOf(info *types.Info, e ast.Expr) *types.Var {
	sel, ok := ast.Unparen(e).(*ast.SelectorExpr)
	if !ok {
		return nil
	}
	if s := info.Selections[sel]; s != nil && s.Kind() == types.FieldVal {
		v, _ := s.Obj().(*types.Var)
		return v
	}
	return nil
}

// FieldID renders a field as "pkgpath.Type.field" given the receiver type of the selection.
func SelFieldID(info *types.Info, e ast.Expr) string {
	sel, ok := ast.Unparen(e).(*ast.SelectorExpr)
	if !ok {
		return ""
	}
	s := info.Selections[sel]
	if s == nil || s.Kind() != types.FieldVal {
		return ""
	}
	t := s.Recv()
	// walk embedded path to the struct that declares the field
	idx := s.Index()
	for i := 0; i < len(idx)-1; i++ {
		t = derefStruct(t).Field(idx[i]).Type()
	}
	return TypeShort(t) + "." + s.Obj().Name()
}

func derefStruct(t types.Type) *types.Struct {
	if p, ok := t.Underlying().(*types.Pointer); ok {
		t = p.Elem()
	}
	s, _ := t.Underlying().(*types.Struct)
	return s
}

// TypeShort renders a (pointer to) named type as shortpkg.Name.
func TypeShort(t types.Type) string {
	if p, ok := t.(*types.Pointer); ok {
		t = p.Elem()
	}
	switch n := t.(type) {
	case *types.Named:
		if n.Obj().Pkg() != nil {
			return ShortPkg(n.Obj().Pkg().Path()) + "." + n.Obj().Name()
		}
		return n.Obj().Name()
	case *types.Alias:
		if n.Obj().Pkg() != nil {
			return ShortPkg(n.Obj().Pkg().Path()) + "." + n.Obj().Name()
		}
		return n.Obj().Name()
	}
	return t.String()
}

// FileOf finds the syntax file of pkg containing pos.
func FileOf(pk *packages.Package, pos token.Pos) *ast.File {
	for _, f := range pk.Syntax {
		if f.Pos() <= pos && pos <= f.End() {
			return f
		}
	}
	return nil
}

// ---------- SSA helpers ----------

// AllSSAFuncs returns fn and all functions nested in it (closures).
func AllSSAFuncs(fn *ssa.Function) []*ssa.Function {
	out := []*ssa.Function{fn}
	for _, a := range fn.AnonFuncs {
		out = append(out, AllSSAFuncs(a)...)
	}
	return out
}

// CallAt finds the call/go/defer instruction created for the call expression
// whose left parenthesis is at lparen, in fn or its closures.
func CallAt(fn *ssa.Function, lparen token.Pos) ssa.CallInstruction {
	for _, f := range AllSSAFuncs(fn) {
		for _, b := range f.Blocks {
			for _, in := range b.Instrs {
				if ci, ok := in.(ssa.CallInstruction); ok && ci.Pos() == lparen {
					return ci
				}
			}
		}
	}
	return nil
}

// StaticCalleeID gives FuncID of the static callee of an SSA call ("" if dynamic).
func StaticCalleeID(ci ssa.CallInstruction) string {
	c := ci.Common()
	if c.IsInvoke() {
		return ""
	}
	if f := c.StaticCallee(); f != nil {
		if obj, ok := f.Object().(*types.Func); ok {
			return FuncID(obj)
		}
		return f.String()
	}
	if b, ok := c.Value.(*ssa.Builtin); ok {
		return "builtin." + b.Name()
	}
	return ""
}

var noReturnIDs = map[string]bool{
	"log.Fatal": true, "log.Fatalf": true, "log.Fatalln": true,
	"log.Panic": true, "log.Panicf": true, "log.Panicln": true,
	"log.Logger.Fatal": true, "log.Logger.Fatalf": true, "log.Logger.Fatalln": true,
	"os.Exit": true, "runtime.Goexit": true,
}

// NoReturnCall reports calls that never return normally: log.Fatal*, os.Exit,
// and module functions without any return instruction (they end in panic).
func NoReturnCall(in ssa.Instruction) bool {
	if _, ok := in.(*ssa.Panic); ok {
		return true
	}
	ci, ok := in.(*ssa.Call)
	if !ok {
		return false
	}
	if noReturnIDs[StaticCalleeID(ci)] {
		return true
	}
	if f := ci.Common().StaticCallee(); f != nil && len(f.Blocks) > 0 && IsModPath(FuncPkgPath(f)) {
		for _, b := range f.Blocks {
			for _, i := range b.Instrs {
				if _, ok := i.(*ssa.Return); ok {
					return false
				}
			}
		}
		return true
	}
	return false
}

// Search explores the instruction-level control flow of Fn starting right
// after From (function entry if From is nil).  Run returns true, with the
// instruction reached, if some path reaches an instruction satisfying Target
// without first crossing an instruction satisfying Barrier.  No-return calls
// end a path.  Edge, if set, filters which successor edges may be followed.
type Search struct {
	Fn      *ssa.Function
	From    ssa.Instruction
	Target  func(ssa.Instruction) bool
	Barrier func(ssa.Instruction) bool
	Edge    func(from *ssa.BasicBlock, succIdx int) bool
}

func (s Search) Run() (bool, ssa.Instruction) {
	fn := s.Fn
	if fn == nil || len(fn.Blocks) == 0 {
		return false, nil
	}
	type st struct {
		b *ssa.BasicBlock
		i int
	}
	var work []st
	seenBlockStart := map[*ssa.BasicBlock]bool{}
	if s.From == nil {
		work = append(work, st{fn.Blocks[0], 0})
		seenBlockStart[fn.Blocks[0]] = true
	} else {
		b := s.From.Block()
		idx := -1
		for i, in := range b.Instrs {
			if in == s.From {
				idx = i
				break
			}
		}
		if idx < 0 {
			return false, nil
		}
		work = append(work, st{b, idx + 1})
	}
	for len(work) > 0 {
		cur := work[len(work)-1]
		work = work[:len(work)-1]
		stopped := false
		for i := cur.i; i < len(cur.b.Instrs); i++ {
			in := cur.b.Instrs[i]
			if s.Target != nil && s.Target(in) {
				return true, in
			}
			if s.Barrier != nil && s.Barrier(in) {
				stopped = true
				break
			}
			if NoReturnCall(in) {
				stopped = true
				break
			}
		}
		if stopped {
			continue
		}
		for k, succ := range cur.b.Succs {
			if s.Edge != nil && !s.Edge(cur.b, k) {
				continue
			}
			if !seenBlockStart[succ] {
				seenBlockStart[succ] = true
				work = append(work, st{succ, 0})
			}
		}
	}
	return false, nil
}

// Reaches is Search without edge filter.
func Reaches(fn *ssa.Function, from ssa.Instruction, target, barrier func(ssa.Instruction) bool) (bool, ssa.Instruction) {
	return Search{Fn: fn, From: from, Target: target, Barrier: barrier}.Run()
}

// BlockIf returns the If instruction terminating b, if any.
func BlockIf(b *ssa.BasicBlock) *ssa.If {
	if len(b.Instrs) == 0 {
		return nil
	}
	i, _ := b.Instrs[len(b.Instrs)-1].(*ssa.If)
	return i
}

func isInstr(x ssa.Instruction) func(ssa.Instruction) bool {
	return func(in ssa.Instruction) bool { return in == x }
}

func IsReturn(in ssa.Instruction) bool { _, ok := in.(*ssa.Return); return ok }

// Dominates: every path from function entry to b passes through a.
func Dominates(a, b ssa.Instruction) bool {
	if a == nil || b == nil || a.Parent() != b.Parent() {
		return false
	}
	if a == b {
		return true
	}
	r, _ := Reaches(a.Parent(), nil, isInstr(b), isInstr(a))
	return !r
}

// PostDominatesNormal: every path from just after b to a normal return passes through a.
func PostDominatesNormal(a, b ssa.Instruction) bool {
	if a == nil || b == nil || a.Parent() != b.Parent() {
		return false
	}
	r, _ := Reaches(b.Parent(), b, IsReturn, isInstr(a))
	return !r
}

// ReachableFrom: some path leads from just after a to b.
func ReachableFrom(a, b ssa.Instruction) bool {
	if a == nil || b == nil || a.Parent() != b.Parent() {
		return false
	}
	r, _ := Reaches(a.Parent(), a, isInstr(b), nil)
	return r
}

// InLoop reports whether the instruction can reach itself again.
func InLoop(a ssa.Instruction) bool {
	return ReachableFrom(a, a)
}

// InstrStr renders an instruction with position for reports.
func (p *Prog) InstrStr(in ssa.Instruction) string {
	if in == nil {
		return "<nil>"
	}
	return fmt.Sprintf("%s @%s", in.String(), p.Pos(in.Pos()))
}

// Unwrap strips conversions/ChangeType/MakeInterface from a value.
func Unwrap(v ssa.Value) ssa.Value {
	for {
		switch x := v.(type) {
		case *ssa.ChangeType:
			v = x.X
		case *ssa.Convert:
			v = x.X
		case *ssa.MakeInterface:
			v = x.X
		case *ssa.ChangeInterface:
			v = x.X
		default:
			return v
		}
	}
}

// DerefStruct returns the struct type of t or of what t points to.
func DerefStruct(t types.Type) (*types.Struct, bool) {
	s := derefStruct(t)
	return s, s != nil
}
