// Package core loads /repo's current working tree (type-checked syntax of the
// module and all dependencies), builds go/ssa and call graphs on demand, and
// offers the obligation/evidence plumbing shared by all rules.
package core

import (
	"fmt"
	"go/ast"
	"go/token"
	"go/types"
	"os"
	"sort"
	"strings"

	"golang.org/x/tools/go/callgraph"
	"golang.org/x/tools/go/callgraph/cha"
	"golang.org/x/tools/go/callgraph/vta"
	"golang.org/x/tools/go/packages"
	"golang.org/x/tools/go/ssa"
	"golang.org/x/tools/go/ssa/ssautil"
)

const ModPath = "github.com/pdok/texel"

// Func is a declared function or method of the module.
type Func struct {
	Name string // short name: "snap.SnapPolygon", "pointindex.PointIndex.InsertPoint"
	Pkg  *packages.Package
	Decl *ast.FuncDecl
	Obj  *types.Func
	SSA  *ssa.Function
}

type Prog struct {
	RepoDir string
	Fset    *token.FileSet
	All     []*packages.Package
	ByPath  map[string]*packages.Package
	Mod     []*packages.Package // packages of the module under analysis
	SSA     *ssa.Program
	Funcs   map[string]*Func
	ByObj   map[*types.Func]*Func

	vtaG, chaG  *callgraph.Graph
	siteIdx     map[ssa.CallInstruction][]*ssa.Function
	chaFallback []*callgraph.Edge
}

// ShortPkg gives the short package name used in rule tables.
func ShortPkg(path string) string {
	if path == ModPath {
		return "main"
	}
	if strings.HasPrefix(path, ModPath+"/") {
		p := strings.TrimPrefix(path, ModPath+"/")
		if i := strings.LastIndex(p, "/"); i >= 0 {
			p = p[i+1:]
		}
		return p
	}
	return path
}

func IsModPath(path string) bool {
	return path == ModPath || strings.HasPrefix(path, ModPath+"/")
}

// Load type-checks the repository at dir (non-test files, default build
// configuration: linux/amd64, cgo on) and builds SSA for the whole program.
func Load(dir string) (*Prog, error) {
	env := []string{}
	for _, e := range os.Environ() {
		if strings.HasPrefix(e, "GOWORK=") || strings.HasPrefix(e, "GOFLAGS=") {
			continue
		}
		env = append(env, e)
	}
	env = append(env, "GOFLAGS=-mod=mod", "GOPROXY=off", "GOSUMDB=off", "GOTOOLCHAIN=local", "GOWORK=off")
	cfg := &packages.Config{
		Mode:  packages.LoadAllSyntax,
		Dir:   dir,
		Env:   env,
		Tests: false,
	}
	pkgs, err := packages.Load(cfg, "./...")
	if err != nil {
		return nil, err
	}
	p := &Prog{RepoDir: dir, ByPath: map[string]*packages.Package{}, Funcs: map[string]*Func{}, ByObj: map[*types.Func]*Func{}}
	var errs []string
	packages.Visit(pkgs, nil, func(pk *packages.Package) {
		p.All = append(p.All, pk)
		p.ByPath[pk.PkgPath] = pk
		if IsModPath(pk.PkgPath) {
			for _, e := range pk.Errors {
				errs = append(errs, e.Error())
			}
			if pk.IllTyped {
				errs = append(errs, pk.PkgPath+": ill-typed")
			}
		}
	})
	if len(errs) > 0 {
		return nil, fmt.Errorf("type-check errors in module: %s", strings.Join(errs, "; "))
	}
	for _, pk := range pkgs {
		if IsModPath(pk.PkgPath) {
			p.Mod = append(p.Mod, pk)
		}
	}
	sort.Slice(p.Mod, func(i, j int) bool { return p.Mod[i].PkgPath < p.Mod[j].PkgPath })
	if len(p.Mod) < 11 {
		return nil, fmt.Errorf("only %d module packages loaded from %s, expected >= 11", len(p.Mod), dir)
	}
	if len(pkgs) > 0 {
		p.Fset = pkgs[0].Fset
	}
	prog, _ := ssautil.AllPackages(pkgs, ssa.InstantiateGenerics)
	prog.Build()
	p.SSA = prog
	for _, pk := range p.Mod {
		spkg := prog.Package(pk.Types)
		for _, f := range pk.Syntax {
			for _, d := range f.Decls {
				fd, ok := d.(*ast.FuncDecl)
				if !ok {
					continue
				}
				obj, _ := pk.TypesInfo.Defs[fd.Name].(*types.Func)
				if obj == nil {
					continue
				}
				name := ShortPkg(pk.PkgPath) + "."
				if fd.Recv != nil && len(fd.Recv.List) == 1 {
					name += recvTypeName(fd.Recv.List[0].Type) + "."
				}
				name += fd.Name.Name
				fn := &Func{Name: name, Pkg: pk, Decl: fd, Obj: obj}
				if spkg != nil {
					fn.SSA = prog.FuncValue(obj)
				}
				p.Funcs[name] = fn
				p.ByObj[obj] = fn
				modFuncNames[name] = true
				modBaseCount[ShortPkg(pk.PkgPath)+"."+fd.Name.Name]++
			}
		}
	}
	return p, nil
}

// Lookup finds a module function by short name ("pkg.Func" or "pkg.Type.Method").  A function that was turned into
// a method, or a method into a function (same package, same name), is still the same anchor: when the exact name is
// gone and exactly one function of that package carries the name, that one is returned.
func (p *Prog) Lookup(name string) *Func {
	if f := p.Funcs[name]; f != nil {
		return f
	}
	parts := strings.Split(name, ".")
	if len(parts) < 2 {
		return nil
	}
	pkg, base := parts[0], parts[len(parts)-1]
	var found *Func
	n := 0
	for k, f := range p.Funcs {
		kp := strings.Split(k, ".")
		if kp[0] == pkg && kp[len(kp)-1] == base {
			found = f
			n++
		}
	}
	if n == 1 {
		return found
	}
	return nil
}

func recvTypeName(e ast.Expr) string {
	switch t := e.(type) {
	case *ast.StarExpr:
		return recvTypeName(t.X)
	case *ast.Ident:
		return t.Name
	case *ast.IndexExpr:
		return recvTypeName(t.X)
	case *ast.IndexListExpr:
		return recvTypeName(t.X)
	}
	return "?"
}

// Pos renders a position relative to the repository root.
func (p *Prog) Pos(pos token.Pos) string {
	if !pos.IsValid() {
		return ""
	}
	ps := p.Fset.Position(pos)
	fn := ps.Filename
	if strings.HasPrefix(fn, p.RepoDir+"/") {
		fn = strings.TrimPrefix(fn, p.RepoDir+"/")
	} else if i := strings.Index(fn, "/pkg/mod/"); i >= 0 {
		fn = fn[i+len("/pkg/mod/"):]
	}
	return fmt.Sprintf("%s:%d", fn, ps.Line)
}

// PkgShort finds a module package by short name.
func (p *Prog) PkgShort(short string) *packages.Package {
	for _, pk := range p.Mod {
		if ShortPkg(pk.PkgPath) == short {
			return pk
		}
	}
	return nil
}

// VTA returns the VTA call graph (refined from CHA), built once.
func (p *Prog) VTA() *callgraph.Graph {
	if p.vtaG == nil && os.Getenv("TEXEL_CALLGRAPH") == "cha" {
		// thorough-tier cross-check: every call-graph rule re-evaluated on the coarser CHA graph
		p.vtaG = p.CHA()
	}
	if p.vtaG == nil {
		p.vtaG = vta.CallGraph(ssautil.AllFunctions(p.SSA), p.CHA())
	}
	return p.vtaG
}

func (p *Prog) CHA() *callgraph.Graph {
	if p.chaG == nil {
		p.chaG = cha.CallGraph(p.SSA)
	}
	return p.chaG
}

// Reachable returns all functions reachable from the roots in graph g
// (roots included), with one predecessor per function for path reporting.
func Reachable(g *callgraph.Graph, roots ...*ssa.Function) map[*ssa.Function]*ssa.Function {
	seen := map[*ssa.Function]*ssa.Function{}
	var work []*ssa.Function
	for _, r := range roots {
		if r != nil {
			if _, ok := seen[r]; !ok {
				seen[r] = nil
				work = append(work, r)
			}
		}
	}
	for len(work) > 0 {
		f := work[len(work)-1]
		work = work[:len(work)-1]
		n := g.Nodes[f]
		if n == nil {
			continue
		}
		for _, e := range n.Out {
			c := e.Callee.Func
			if _, ok := seen[c]; !ok {
				seen[c] = f
				work = append(work, c)
			}
		}
	}
	return seen
}

// ReachableNoStdlibTransit is Reachable, but calls made *by* standard library
// functions are not followed (database/sql -> driver, sort -> callbacks);
// closures nested in reachable functions are included instead, so callbacks
// handed to the standard library are still analysed.
func ReachableNoStdlibTransit(g *callgraph.Graph, roots ...*ssa.Function) map[*ssa.Function]*ssa.Function {
	seen := map[*ssa.Function]*ssa.Function{}
	var work []*ssa.Function
	push := func(f, from *ssa.Function) {
		if f == nil {
			return
		}
		if _, ok := seen[f]; !ok {
			seen[f] = from
			work = append(work, f)
		}
	}
	for _, r := range roots {
		push(r, nil)
	}
	for len(work) > 0 {
		f := work[len(work)-1]
		work = work[:len(work)-1]
		for _, a := range f.AnonFuncs {
			push(a, f)
		}
		pkg := FuncPkgPath(f)
		if IsStdlib(pkg) && pkg != "slices" && pkg != "maps" {
			continue
		}
		n := g.Nodes[f]
		if n == nil {
			continue
		}
		for _, e := range n.Out {
			push(e.Callee.Func, f)
		}
	}
	return seen
}

// PathTo renders the call chain root -> ... -> f from a Reachable map.
func PathTo(reach map[*ssa.Function]*ssa.Function, f *ssa.Function) []string {
	var rev []string
	for cur := f; cur != nil; cur = reach[cur] {
		rev = append(rev, cur.String())
		if len(rev) > 64 {
			break
		}
	}
	for i, j := 0, len(rev)-1; i < j; i, j = i+1, j-1 {
		rev[i], rev[j] = rev[j], rev[i]
	}
	return rev
}

// FuncPkgPath is the import path of the package a SSA function belongs to
// ("" for synthetic wrappers without package); generic instances report the
// package of their origin.
func FuncPkgPath(f *ssa.Function) string {
	if f == nil {
		return ""
	}
	if f.Pkg != nil {
		return f.Pkg.Pkg.Path()
	}
	if o := f.Origin(); o != nil && o.Pkg != nil {
		return o.Pkg.Pkg.Path()
	}
	if f.Object() != nil && f.Object().Pkg() != nil {
		return f.Object().Pkg().Path()
	}
	if f.Parent() != nil {
		return FuncPkgPath(f.Parent())
	}
	return ""
}

// IsStdlib reports whether an import path belongs to the standard library
// (no dot in the first path element) — golang.org/x is not stdlib.
func IsStdlib(path string) bool {
	if path == "" {
		return false
	}
	first := path
	if i := strings.Index(path, "/"); i >= 0 {
		first = path[:i]
	}
	return !strings.Contains(first, ".")
}
