package core

import (
	"go/token"

	"golang.org/x/tools/go/callgraph"
	"golang.org/x/tools/go/ssa"
)

// SiteCallees indexes call sites to the callees the call graph gives them.
type SiteCallees map[ssa.CallInstruction][]*ssa.Function

func (p *Prog) SiteIndex(g *callgraph.Graph) SiteCallees {
	if p.siteIdx != nil && g == p.vtaG {
		return p.siteIdx
	}
	idx := SiteCallees{}
	for _, n := range g.Nodes {
		for _, e := range n.Out {
			if e.Site != nil {
				idx[e.Site] = append(idx[e.Site], e.Callee.Func)
			}
		}
	}
	if g == p.vtaG {
		// sites VTA leaves unresolved (function values passed through variadic option lists in generic
		// code): fall back to CHA's call-by-signature resolution, a superset
		for _, n := range p.CHA().Nodes {
			for _, e := range n.Out {
				if e.Site != nil {
					if _, ok := idx[e.Site]; !ok {
						p.chaFallback = append(p.chaFallback, e)
					}
				}
			}
		}
		for _, e := range p.chaFallback {
			idx[e.Site] = append(idx[e.Site], e.Callee.Func)
		}
		p.siteIdx = idx
	}
	return idx
}

// CalleesAt lists the possible callees of a call instruction: the static
// callee, or the call graph's resolution of an interface/function-value call.
func (idx SiteCallees) CalleesAt(ci ssa.CallInstruction) []*ssa.Function {
	if f := ci.Common().StaticCallee(); f != nil {
		return []*ssa.Function{f}
	}
	return idx[ci]
}

// ForwardFlow computes the set of SSA values that are, point to, or contain
// (map/slice/struct/closure capture) one of the seed values, propagating
// through copies, stores/loads of local cells, map updates/lookups/ranges,
// closure captures and call arguments (call graph resolved).  It is flow- and
// context-insensitive and meant for following one kind of object (a channel,
// a wait group, a slice) through a few small functions.
func ForwardFlow(seeds []ssa.Value, idx SiteCallees, follow func(*ssa.Function) bool) map[ssa.Value]bool {
	return FlowOpts{Idx: idx, Follow: follow}.Run(seeds)
}

// FlowOpts configures ForwardFlow.  Returns: values returned by a followed
// function flow to its (static) call sites given by Callers.  Containers:
// storing into an element/field address also marks the base object.
type FlowOpts struct {
	Idx        SiteCallees
	Follow     func(*ssa.Function) bool
	Returns    bool
	Callers    func(*ssa.Function) []ssa.CallInstruction
	Containers bool
	Appends    bool // append(s, x) with a tracked x (or s) yields a tracked slice
	ReturnsAll bool // tracked return values flow to every call site (no argument filter)
}

func (fo FlowOpts) Run(seeds []ssa.Value) map[ssa.Value]bool {
	idx, follow := fo.Idx, fo.Follow
	T := map[ssa.Value]bool{}
	var work []ssa.Value
	add := func(v ssa.Value) {
		if v != nil && !T[v] {
			T[v] = true
			work = append(work, v)
		}
	}
	for _, s := range seeds {
		add(s)
	}
	// struct values (or pointers to them) one of whose fields holds a tracked value: field-sensitive, so that a
	// value put into an options struct is found again where that field -- and only that field -- is read
	P := map[ssa.Value]map[int]bool{}
	type pItem struct {
		v ssa.Value
		k int
	}
	var pwork []pItem
	addP := func(v ssa.Value, k int) {
		if v == nil {
			return
		}
		if P[v] == nil {
			P[v] = map[int]bool{}
		}
		if !P[v][k] {
			P[v][k] = true
			pwork = append(pwork, pItem{v, k})
		}
	}
	drainPartial := func() {
		for len(pwork) > 0 {
			it := pwork[len(pwork)-1]
			pwork = pwork[:len(pwork)-1]
			refs := it.v.Referrers()
			if refs == nil {
				continue
			}
			for _, in := range *refs {
				switch r := in.(type) {
				case *ssa.UnOp:
					if r.Op == token.MUL && r.X == it.v {
						addP(r, it.k)
					}
				case *ssa.Store:
					if r.Val == it.v {
						addP(r.Addr, it.k)
					}
				case *ssa.Phi:
					addP(r, it.k)
				case *ssa.ChangeType:
					addP(r, it.k)
				case *ssa.Field:
					if r.X == it.v && r.Field == it.k {
						add(r)
					}
				case *ssa.FieldAddr:
					if r.X == it.v && r.Field == it.k {
						add(r)
					}
				case *ssa.MakeClosure:
					fn, _ := r.Fn.(*ssa.Function)
					for j, b := range r.Bindings {
						if b == it.v && fn != nil && j < len(fn.FreeVars) {
							addP(fn.FreeVars[j], it.k)
						}
					}
				case ssa.CallInstruction:
					com := r.Common()
					for _, callee := range idx.CalleesAt(r) {
						if callee == nil || len(callee.Blocks) == 0 || (follow != nil && !follow(callee)) {
							continue
						}
						off := 0
						if com.IsInvoke() {
							off = 1
						}
						for i, a := range com.Args {
							if a == it.v && i+off < len(callee.Params) {
								addP(callee.Params[i+off], it.k)
							}
						}
					}
				}
			}
		}
	}
	pendingReturns := map[*ssa.Return]bool{}
	for {
		before := len(T)
		for len(work) > 0 {
			x := work[len(work)-1]
			work = work[:len(work)-1]
			refs := x.Referrers()
			if refs == nil {
				continue
			}
			for _, in := range *refs {
				switch r := in.(type) {
				case *ssa.Store:
					if r.Val == x {
						add(r.Addr)
						if fa, ok := r.Addr.(*ssa.FieldAddr); ok {
							addP(fa.X, fa.Field)
						}
						if fo.Containers {
							base := r.Addr
							for {
								if ia, ok := base.(*ssa.IndexAddr); ok {
									base = ia.X
								} else if fa, ok := base.(*ssa.FieldAddr); ok {
									base = fa.X
								} else {
									break
								}
								add(base)
							}
						}
					}
				case *ssa.Return:
					if fo.Returns && fo.Callers != nil {
						pendingReturns[r] = true
					}
				case *ssa.UnOp:
					if r.Op == token.MUL && r.X == x {
						add(r)
					}
				case *ssa.MapUpdate:
					if r.Value == x {
						add(r.Map)
					}
				case *ssa.Lookup:
					if r.X == x {
						if r.CommaOk {
							for _, rr := range *r.Referrers() {
								if e, ok := rr.(*ssa.Extract); ok && e.Index == 0 {
									add(e)
								}
							}
						} else {
							add(r)
						}
					}
				case *ssa.Range:
					if r.X == x {
						for _, rr := range *r.Referrers() {
							if nx, ok := rr.(*ssa.Next); ok {
								for _, r3 := range *nx.Referrers() {
									if e, ok := r3.(*ssa.Extract); ok && e.Index == 2 {
										add(e)
									}
								}
							}
						}
					}
				case *ssa.Phi:
					add(r)
				case *ssa.ChangeType:
					add(r)
				case *ssa.ChangeInterface:
					add(r)
				case *ssa.MakeInterface:
					add(r)
				case *ssa.Convert:
					add(r)
				case *ssa.Slice:
					if r.X == x {
						add(r)
					}
				case *ssa.FieldAddr:
					add(r)
				case *ssa.IndexAddr:
					if r.X == x {
						add(r)
					}
				case *ssa.Index:
					if r.X == x {
						add(r)
					}
				case *ssa.Field:
					add(r)
				case *ssa.TypeAssert:
					if r.CommaOk {
						for _, rr := range *r.Referrers() {
							if e, ok := rr.(*ssa.Extract); ok && e.Index == 0 {
								add(e)
							}
						}
					} else {
						add(r)
					}
				case *ssa.MakeClosure:
					fn, _ := r.Fn.(*ssa.Function)
					for j, b := range r.Bindings {
						if b == x && fn != nil && j < len(fn.FreeVars) {
							add(fn.FreeVars[j])
						}
					}
				case ssa.CallInstruction:
					com := r.Common()
					if b, isB := com.Value.(*ssa.Builtin); isB && fo.Appends && b.Name() == "append" {
						if v := r.Value(); v != nil {
							add(v)
						}
					}
					for _, callee := range idx.CalleesAt(r) {
						if callee == nil || len(callee.Blocks) == 0 {
							continue
						}
						if follow != nil && !follow(callee) {
							continue
						}
						off := 0
						if com.IsInvoke() {
							off = 1 // concrete method: receiver is Params[0]
							if com.Value == x && len(callee.Params) > 0 {
								add(callee.Params[0])
							}
						}
						for i, a := range com.Args {
							if a == x && i+off < len(callee.Params) {
								add(callee.Params[i+off])
							}
						}
						// closure called directly: the closure value itself is com.Value
					}
				}
			}
		}
		drainPartial()
		// returns: context-sensitive in a cheap way — a tracked return value flows to a call site only
		// if that site passes a tracked argument (or the callee has no parameters)
		for ret := range pendingReturns {
			for ri, res := range ret.Results {
				if !T[res] {
					continue
				}
				for _, site := range fo.Callers(ret.Parent()) {
					com := site.Common()
					tracked := len(com.Args) == 0 || fo.ReturnsAll
					for _, a := range com.Args {
						if T[a] {
							tracked = true
						}
					}
					if !tracked {
						continue
					}
					v := site.Value()
					if v == nil {
						continue
					}
					if len(ret.Results) == 1 {
						add(v)
					} else {
						for _, rr := range *v.Referrers() {
							if e, ok := rr.(*ssa.Extract); ok && e.Index == ri {
								add(e)
							}
						}
					}
				}
			}
		}
		if len(T) == before && len(work) == 0 && len(pwork) == 0 {
			break
		}
	}
	return T
}
