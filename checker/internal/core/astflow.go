package core

import (
	"go/ast"

	"golang.org/x/tools/go/cfg"
)

// StateFlow runs a forward may-analysis over the go/cfg graph of body.  A
// state is a bitset; transfer is applied per cfg node (statement or decomposed
// expression) and may report through its closure.  AtExit is called with the
// state reaching every normal exit (return statement or falling off the end);
// exits through no-return calls are skipped.
type StateFlow struct {
	Body      *ast.BlockStmt
	MayReturn func(*ast.CallExpr) bool
	Init      uint
	Transfer  func(n ast.Node, in uint) uint
	AtExit    func(n ast.Node, state uint)
}

func (sf StateFlow) Run() {
	g := cfg.New(sf.Body, sf.MayReturn)
	in := make(map[*cfg.Block]uint)
	if len(g.Blocks) == 0 {
		return
	}
	in[g.Blocks[0]] = sf.Init
	work := []*cfg.Block{g.Blocks[0]}
	queued := map[*cfg.Block]bool{g.Blocks[0]: true}
	out := make(map[*cfg.Block]uint)
	visited := map[*cfg.Block]bool{}
	for len(work) > 0 {
		b := work[0]
		work = work[1:]
		queued[b] = false
		st := in[b]
		for _, n := range b.Nodes {
			st = sf.transferQuiet(n, st)
		}
		if visited[b] && out[b] == st {
			continue
		}
		visited[b] = true
		out[b] = st
		for _, s := range b.Succs {
			if in[s]|st != in[s] || !visited[s] {
				in[s] |= st
				if !queued[s] {
					queued[s] = true
					work = append(work, s)
				}
			}
		}
	}
	// reporting pass over the fixed point
	for _, b := range g.Blocks {
		if !b.Live || !visited[b] {
			continue
		}
		st := in[b]
		for _, n := range b.Nodes {
			st = sf.Transfer(n, st)
		}
		if len(b.Succs) == 0 && sf.AtExit != nil {
			var last ast.Node = sf.Body
			if len(b.Nodes) > 0 {
				last = b.Nodes[len(b.Nodes)-1]
				if es, ok := last.(*ast.ExprStmt); ok {
					if call, ok := es.X.(*ast.CallExpr); ok && sf.MayReturn != nil && !sf.MayReturn(call) {
						continue // ends in a no-return call
					}
				}
			}
			sf.AtExit(last, st)
		}
	}
}

// quiet: during fixed-point iteration the transfer function is called too; it
// must be idempotent in its reporting (rules collect reports in a set).
func (sf StateFlow) transferQuiet(n ast.Node, st uint) uint { return sf.Transfer(n, st) }
