package core

import (
	"fmt"
	"go/token"
	"runtime/debug"
	"sort"
	"strings"
)

type Status string

const (
	Discharged Status = "discharged"
	Violated   Status = "violated"
	Undecided  Status = "undecided"
)

// Obligation is one instance of a rule on one construct of the program.
type Obligation struct {
	Rule      string   `json:"rule"`
	Construct string   `json:"construct"`
	Status    Status   `json:"status"`
	Pos       string   `json:"pos,omitempty"`
	Detail    string   `json:"detail,omitempty"`
	Path      []string `json:"path,omitempty"`
}

func (o *Obligation) Key() string { return o.Rule + "/" + o.Construct }

// Ctx collects obligations of one run.
type Ctx struct {
	P        *Prog
	Obs      []*Obligation
	Analysed map[string][]string // rule -> list of analysed constructs (functions, call sites, …)
	Notes    map[string][]string // rule -> free-text notes for the evidence
	curRule  string
	seen     map[string]bool
}

func NewCtx(p *Prog) *Ctx {
	return &Ctx{P: p, Analysed: map[string][]string{}, Notes: map[string][]string{}, seen: map[string]bool{}}
}

func (c *Ctx) add(o *Obligation) *Obligation {
	k := o.Key()
	if c.seen[k] {
		// keep keys unique: suffix with a counter (stable given deterministic rule order)
		for i := 2; ; i++ {
			k2 := fmt.Sprintf("%s#%d", k, i)
			if !c.seen[k2] {
				o.Construct = fmt.Sprintf("%s#%d", o.Construct, i)
				k = k2
				break
			}
		}
	}
	c.seen[k] = true
	c.Obs = append(c.Obs, o)
	return o
}

// OK records a discharged obligation.
func (c *Ctx) OK(rule, construct string, pos token.Pos, reason string) {
	c.add(&Obligation{Rule: rule, Construct: construct, Status: Discharged, Pos: c.P.Pos(pos), Detail: reason})
}

// Bad records a violated obligation.
func (c *Ctx) Bad(rule, construct string, pos token.Pos, detail string, path ...string) {
	c.add(&Obligation{Rule: rule, Construct: construct, Status: Violated, Pos: c.P.Pos(pos), Detail: detail, Path: path})
}

// Unknown records an obligation the rule could not decide (counts as failure).
func (c *Ctx) Unknown(rule, construct string, pos token.Pos, detail string) {
	c.add(&Obligation{Rule: rule, Construct: construct, Status: Undecided, Pos: c.P.Pos(pos), Detail: detail})
}

// Check records OK or Bad depending on cond.
func (c *Ctx) Check(rule, construct string, pos token.Pos, cond bool, okReason, badDetail string) bool {
	if cond {
		c.OK(rule, construct, pos, okReason)
	} else {
		c.Bad(rule, construct, pos, badDetail)
	}
	return cond
}

// Anchor resolves a module function by short name; an unresolved anchor is a
// violated obligation (a rule must never pass vacuously).
func (c *Ctx) Anchor(rule, name string) *Func {
	f := c.P.Lookup(name)
	if f == nil || f.Decl == nil || f.Decl.Body == nil {
		c.Bad(rule, "anchor/"+name, token.NoPos, "reason=anchor-unresolved: function "+name+" not found in the module (renamed or removed?)")
		return nil
	}
	return f
}

func (c *Ctx) Note(rule, format string, a ...any) {
	c.Notes[rule] = append(c.Notes[rule], fmt.Sprintf(format, a...))
}

func (c *Ctx) Saw(rule, what string) {
	c.Analysed[rule] = append(c.Analysed[rule], what)
}

// Floor fails the rule if fewer than n obligations of it were produced.
func (c *Ctx) Floor(rule string, n int) {
	cnt := 0
	for _, o := range c.Obs {
		if o.Rule == rule {
			cnt++
		}
	}
	if cnt < n {
		c.Bad(rule, "instance-floor", token.NoPos, fmt.Sprintf("rule produced %d obligations, hand-confirmed floor is %d: analysed code disappeared or rule no longer matches", cnt, n))
	}
}

// FloorPrefix fails the rule if fewer than n obligations whose construct
// starts with prefix were produced.
func (c *Ctx) FloorPrefix(rule, prefix string, n int) {
	cnt := 0
	for _, o := range c.Obs {
		if o.Rule == rule && strings.HasPrefix(o.Construct, prefix) {
			cnt++
		}
	}
	if cnt < n {
		c.Bad(rule, "instance-floor/"+prefix, token.NoPos, fmt.Sprintf("rule produced %d obligations for %q, hand-confirmed floor is %d", cnt, prefix, n))
	}
}

// Run executes a rule, turning a panic of the checker into a violation.
func (c *Ctx) Run(rule string, f func(c *Ctx)) {
	defer func() {
		if r := recover(); r != nil {
			st := string(debug.Stack())
			if len(st) > 1500 {
				st = st[:1500]
			}
			c.Bad(rule, "checker-panic", token.NoPos, fmt.Sprintf("reason=checker-panic: %v\n%s", r, st))
		}
	}()
	f(c)
}

func (c *Ctx) Counts() (total, ok, bad int) {
	for _, o := range c.Obs {
		total++
		if o.Status == Discharged {
			ok++
		} else {
			bad++
		}
	}
	return
}

func (c *Ctx) Sorted() []*Obligation {
	obs := append([]*Obligation(nil), c.Obs...)
	sort.SliceStable(obs, func(i, j int) bool { return obs[i].Key() < obs[j].Key() })
	return obs
}

// Obligations lists the constructs of the obligations recorded so far for a rule.
func (c *Ctx) Obligations(rule string) []string {
	var out []string
	for _, o := range c.Obs {
		if o.Rule == rule {
			out = append(out, o.Construct)
		}
	}
	return out
}
