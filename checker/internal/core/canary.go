package core

import (
	"fmt"
	"os"
	"path/filepath"

	"golang.org/x/tools/go/callgraph/cha"
	"golang.org/x/tools/go/packages"
	"golang.org/x/tools/go/ssa"
	"golang.org/x/tools/go/ssa/ssautil"
)

// CanaryDir is the directory holding the positive examples (checker/canary).
var CanaryDir = ""

func canaryRoot() string {
	if CanaryDir != "" {
		return CanaryDir
	}
	if d := os.Getenv("TEXEL_CANARY_DIR"); d != "" {
		return d
	}
	if exe, err := os.Executable(); err == nil {
		return filepath.Join(filepath.Dir(exe), "..", "checker", "canary")
	}
	return "canary"
}

type canaryProg struct {
	funcs []*ssa.Function
	idx   SiteCallees
	pkgs  []*packages.Package
}

var canaryCache = map[string]*canaryProg{}

// LoadCanary type-checks and SSA-builds the tiny positive-example package
// checker/canary/<name> and returns its functions.
func LoadCanary(name string) ([]*ssa.Function, SiteCallees, error) {
	cp, err := loadCanary(name)
	if err != nil {
		return nil, nil, err
	}
	return cp.funcs, cp.idx, nil
}

// LoadCanaryPkgs also returns the typed syntax (for AST-level rules).
func LoadCanaryPkgs(name string) ([]*packages.Package, []*ssa.Function, error) {
	cp, err := loadCanary(name)
	if err != nil {
		return nil, nil, err
	}
	return cp.pkgs, cp.funcs, nil
}

func loadCanary(name string) (*canaryProg, error) {
	if cp, ok := canaryCache[name]; ok {
		return cp, nil
	}
	root := canaryRoot()
	dir := filepath.Join(root, name)
	if _, err := os.Stat(dir); err != nil {
		return nil, fmt.Errorf("canary directory %s: %w", dir, err)
	}
	env := append(os.Environ(), "GOFLAGS=-mod=mod", "GOPROXY=off", "GOSUMDB=off", "GOTOOLCHAIN=local", "GOWORK=off")
	cfg := &packages.Config{Mode: packages.LoadAllSyntax, Dir: dir, Env: env}
	pkgs, err := packages.Load(cfg, ".")
	if err != nil {
		return nil, err
	}
	if len(pkgs) != 1 || len(pkgs[0].Errors) > 0 {
		return nil, fmt.Errorf("canary %s does not type-check: %v", name, pkgs[0].Errors)
	}
	prog, spkgs := ssautil.AllPackages(pkgs, ssa.InstantiateGenerics)
	prog.Build()
	cp := &canaryProg{pkgs: pkgs}
	for _, sp := range spkgs {
		if sp == nil {
			continue
		}
		for _, m := range sp.Members {
			if f, ok := m.(*ssa.Function); ok {
				cp.funcs = append(cp.funcs, AllSSAFuncs(f)...)
			}
		}
	}
	g := cha.CallGraph(prog)
	cp.idx = SiteCallees{}
	for _, n := range g.Nodes {
		for _, e := range n.Out {
			if e.Site != nil {
				cp.idx[e.Site] = append(cp.idx[e.Site], e.Callee.Func)
			}
		}
	}
	canaryCache[name] = cp
	return cp, nil
}
