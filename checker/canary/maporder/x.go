// Package maporder is a positive example for rule R15: the three Bad loops
// must be reported on every run and the Good ones must not.
package maporder

import "sort"

func BadFirst(m map[int]string) string {
	for _, v := range m {
		return v // first element in map order
	}
	return ""
}

func BadCollect(m map[int]string) []int {
	var ks []int
	for k := range m {
		ks = append(ks, k)
	}
	return ks // escapes in map order
}

func BadLastWriter(m map[int]int) map[int]int {
	out := map[int]int{}
	for k, v := range m {
		out[k%2] = v // non-injective key: last writer wins
	}
	return out
}

func BadCarried(m map[int]float64) float64 {
	last := 0.0
	for _, v := range m {
		last = v - last // order dependent carried state
	}
	return last
}

func GoodSorted(m map[int]string) []int {
	var ks []int
	for k := range m {
		ks = append(ks, k)
	}
	sort.Ints(ks)
	return ks
}

func GoodPerKey(m map[int]int) map[int]int {
	out := make(map[int]int, len(m))
	n := 0
	for k, v := range m {
		out[k] = v + 1
		n++
	}
	_ = n
	return out
}
