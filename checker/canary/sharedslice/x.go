// Package sharedslice is a positive example for rule R27b: the rule must flag
// the three in-place writes below on every run, and must not flag the clones.
package sharedslice

type Feature interface {
	Columns() []interface{}
}

func BadAppend(f Feature, blob interface{}) []interface{} {
	data := f.Columns()
	data = append(data, blob) // writes into shared spare capacity
	return data
}

func BadCopy(f Feature, other []interface{}) {
	copy(f.Columns(), other)
}

func BadStore(f Feature, v interface{}) {
	cols := f.Columns()
	if len(cols) > 0 {
		cols[0] = v
	}
}

func helper(cols []interface{}, v interface{}) []interface{} {
	return append(cols, v)
}

func BadViaHelper(f Feature, v interface{}) []interface{} {
	return helper(f.Columns(), v)
}

func GoodClone(f Feature, blob interface{}) []interface{} {
	cols := f.Columns()
	data := append(make([]interface{}, 0, len(cols)+1), cols...)
	data = append(data, blob)
	return data
}

func GoodClip(f Feature, blob interface{}) []interface{} {
	cols := f.Columns()
	return append(cols[:len(cols):len(cols)], blob)
}
