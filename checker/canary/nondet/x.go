// Package nondet is a positive example for rule R16: every construct below
// must be seen by the deny-list on every run.
package nondet

import (
	"math/rand"
	"time"
)

func TieBreak(n int) int { return rand.Intn(n) }

func Stamp() int64 { return time.Now().UnixNano() }

func Fan(xs []int) int {
	ch := make(chan int)
	for _, x := range xs {
		go func(x int) { ch <- x }(x)
	}
	return <-ch
}
