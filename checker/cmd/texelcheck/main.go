// texelcheck decides the structural clauses of properties C01..C18 of
// PDOK/texel by static analysis of the repository's current working tree.
package main

import (
	"encoding/json"
	"flag"
	"fmt"
	"os"
	"path/filepath"
	"sort"
	"strconv"
	"strings"
	"time"

	"texelverif/internal/core"
	"texelverif/internal/rules"
)

type knownEntry struct {
	Property string `json:"property"`
	Key      string `json:"key"`
	Status   string `json:"status"` // "known" | "fixed"
	Commit   string `json:"commit,omitempty"`
	What     string `json:"what"`
}

type evidence struct {
	PropertyID  string         `json:"property_id"`
	Tier        string         `json:"tier"`
	Seed        int            `json:"seed"`
	Level       string         `json:"level"`
	Coverage    map[string]any `json:"coverage"`
	Assumptions []string       `json:"assumptions"`
	WallS       float64        `json:"wall_s"`
	Violations  int            `json:"violations"`
}

func main() {
	prop := flag.String("property", "", "property id (C01..C18)")
	tier := flag.String("tier", "quick", "quick|thorough")
	repo := flag.String("repo", "/repo", "repository working tree to analyse")
	evPath := flag.String("evidence", "", "evidence file to write")
	knownPath := flag.String("known", "", "known_findings.json")
	replayDir := flag.String("replaydir", "", "directory for replay records")
	expect := flag.String("expect", "", "self-test mode: comma separated obligation-key prefixes of which at least one must be violated; exit 0 iff so")
	dump := flag.Bool("dump", false, "print every obligation")
	extra := flag.String("extra", "", "JSON file with extra coverage keys to merge into the evidence (thorough tier self-test results)")
	flag.Parse()

	start := time.Now()
	spec, ok := rules.Props[*prop]
	if !ok {
		fmt.Fprintf(os.Stderr, "unknown property %q\n", *prop)
		os.Exit(2)
	}
	spec.Fill()
	seed := 0
	if s := os.Getenv("VERIF_SEED"); s != "" {
		seed, _ = strconv.Atoi(s)
	}

	fail := func(msg string) {
		// load failure: the check cannot decide anything -> violation, as designed
		fmt.Printf("texelcheck: %s\n", msg)
		rp := writeReplay(*replayDir, *prop, 0, map[string]any{"property": *prop, "reason": "analysis-failed", "detail": msg})
		fmt.Printf("VIOLATION property=%s replay=%s\n", *prop, rp)
		if *evPath != "" {
			ev := evidence{PropertyID: *prop, Tier: *tier, Seed: seed, Level: spec.Level,
				Coverage:    map[string]any{"explanation": "analysis failed before any rule ran: " + msg, "obligations": 0, "discharged": 0, "evaluations": 1, "distinct_nontrivial": 0, "samples": []any{msg}},
				Assumptions: spec.Assumptions, WallS: time.Since(start).Seconds(), Violations: 1}
			writeJSON(*evPath, ev)
		}
		os.Exit(1)
	}

	p, err := core.Load(*repo)
	if err != nil {
		if *expect != "" {
			fmt.Printf("SELFTEST load-failed (mutant does not type-check): %v\n", err)
			os.Exit(3)
		}
		fail("cannot load/type-check " + *repo + ": " + err.Error())
	}
	loadS := time.Since(start).Seconds()
	ctx := core.NewCtx(p)
	for _, r := range spec.Rules {
		fn, ok := rules.Registry[r]
		if !ok {
			ctx.Bad(r, "rule-missing", 0, "rule not implemented in registry")
			continue
		}
		ctx.Run(r, fn)
	}
	if *tier == "thorough" {
		// re-run call-graph dependent rules on the CHA graph; verdicts must agree
		rules.ThoroughCrossCheck(ctx, spec)
	}

	obs := ctx.Sorted()
	if *dump {
		for _, o := range obs {
			fmt.Printf("%-10s %-70s %s  %s\n", o.Status, o.Key(), o.Pos, oneLine(o.Detail))
		}
	}

	if *expect != "" {
		want := strings.Split(*expect, ",")
		for _, o := range obs {
			if o.Status == core.Discharged {
				continue
			}
			for _, w := range want {
				if strings.HasPrefix(o.Key(), w) {
					fmt.Printf("SELFTEST killed by %s @%s: %s\n", o.Key(), o.Pos, oneLine(o.Detail))
					os.Exit(0)
				}
			}
		}
		fmt.Printf("SELFTEST survived: none of %v violated\n", want)
		os.Exit(1)
	}

	known := loadKnown(*knownPath)
	total, okc, _ := ctx.Counts()
	nviol := 0
	nknown := 0
	var violSamples []any
	for _, o := range obs {
		if o.Status == core.Discharged {
			continue
		}
		if k := matchKnown(known, *prop, o.Key()); k != nil {
			nknown++
			fmt.Printf("KNOWN-FINDING: property=%s %s [%s @%s]\n", *prop, k.What, o.Key(), o.Pos)
			continue
		}
		nviol++
		rp := writeReplay(*replayDir, *prop, nviol, map[string]any{"property": *prop, "obligation": o})
		fmt.Printf("%s: %s %s: %s\n", o.Pos, o.Status, o.Key(), o.Detail)
		for _, s := range o.Path {
			fmt.Printf("    via %s\n", s)
		}
		fmt.Printf("VIOLATION property=%s replay=%s\n", *prop, rp)
		violSamples = append(violSamples, o)
	}

	// evidence
	perRule := map[string]map[string]int{}
	for _, o := range obs {
		m := perRule[o.Rule]
		if m == nil {
			m = map[string]int{}
			perRule[o.Rule] = m
		}
		m[string(o.Status)]++
	}
	samples := []any{}
	seenRule := map[string]int{}
	for _, o := range obs {
		if seenRule[o.Rule] < 3 {
			samples = append(samples, o)
			seenRule[o.Rule]++
		}
	}
	samples = append(samples, violSamples...)
	distinct := map[string]bool{}
	for _, o := range obs {
		distinct[o.Key()] = true
	}
	analysed := map[string]any{}
	nAnalysed := 0
	for r, l := range ctx.Analysed {
		sort.Strings(l)
		analysed[r] = l
		nAnalysed += len(l)
	}
	cov := map[string]any{
		"explanation":         spec.Explanation,
		"obligations":         total,
		"discharged":          okc,
		"known_findings":      nknown,
		"evaluations":         total,
		"distinct_nontrivial": len(distinct),
		"rule":                "one obligation per (rule, construct) instance enumerated from the type-checked program; distinct = distinct obligation keys; every one is non-trivial (tied to a resolved program construct)",
		"checker_cmd":         fmt.Sprintf("texelcheck -property %s -tier %s -repo %s", *prop, *tier, *repo),
		"trusted_base":        spec.Trusted,
		"per_rule":            perRule,
		"rules":               spec.Rules,
		"clauses_decided":     spec.Decided,
		"clauses_not_decided": spec.NotDecided,
		"analysed":            analysed,
		"analysed_constructs": nAnalysed,
		"notes":               ctx.Notes,
		"module_packages":     len(p.Mod),
		"all_packages":        len(p.All),
		"load_s":              loadS,
		"samples":             samples,
		"all_obligations":     obs,
		"exhaustive":          true,
	}
	if *extra != "" {
		if b, err := os.ReadFile(*extra); err == nil {
			var m map[string]any
			if json.Unmarshal(b, &m) == nil {
				for k, v := range m {
					cov[k] = v
				}
			}
		}
	}
	ev := evidence{PropertyID: *prop, Tier: *tier, Seed: seed, Level: spec.Level, Coverage: cov,
		Assumptions: spec.Assumptions, WallS: time.Since(start).Seconds(), Violations: nviol}
	if *evPath != "" {
		writeJSON(*evPath, ev)
	}
	fmt.Printf("texelcheck %s (%s): %d obligations, %d discharged, %d known findings, %d violations; %d packages (%d module), %.1fs\n",
		*prop, *tier, total, okc, nknown, nviol, len(p.All), len(p.Mod), time.Since(start).Seconds())
	if nviol > 0 {
		os.Exit(1)
	}
}

func oneLine(s string) string {
	s = strings.ReplaceAll(s, "\n", " | ")
	if len(s) > 220 {
		s = s[:220] + "…"
	}
	return s
}

func writeJSON(path string, v any) {
	b, err := json.MarshalIndent(v, "", " ")
	if err != nil {
		fmt.Fprintln(os.Stderr, "evidence marshal:", err)
		os.Exit(2)
	}
	_ = os.MkdirAll(filepath.Dir(path), 0o755)
	if err := os.WriteFile(path, append(b, '\n'), 0o644); err != nil {
		fmt.Fprintln(os.Stderr, "evidence write:", err)
		os.Exit(2)
	}
}

func writeReplay(dir, prop string, n int, v any) string {
	if dir == "" {
		dir = os.TempDir()
	}
	_ = os.MkdirAll(dir, 0o755)
	path := filepath.Join(dir, fmt.Sprintf("%s-violation-%d.json", prop, n))
	b, _ := json.MarshalIndent(v, "", " ")
	_ = os.WriteFile(path, append(b, '\n'), 0o644)
	return path
}

func loadKnown(path string) []knownEntry {
	if path == "" {
		return nil
	}
	b, err := os.ReadFile(path)
	if err != nil {
		return nil
	}
	var f struct {
		Findings []knownEntry `json:"findings"`
	}
	if err := json.Unmarshal(b, &f); err != nil {
		fmt.Fprintln(os.Stderr, "known findings file unreadable:", err)
		os.Exit(2)
	}
	return f.Findings
}

func matchKnown(known []knownEntry, prop, key string) *knownEntry {
	for i := range known {
		k := &known[i]
		if k.Status == "known" && k.Property == prop && k.Key == key {
			return k
		}
	}
	return nil
}
