#!/bin/bash
# usage: run_check.sh <property id> [quick|thorough]
# Static analysis of /repo's current working tree (override with TEXEL_REPO).
set -u
ID="$1"
TIER="${2:-${VERIF_TIER:-quick}}"
HERE="$(cd "$(dirname "$0")" && pwd)"
REPO="${TEXEL_REPO:-/repo}"
export GOFLAGS=-mod=mod GOPROXY=off GOSUMDB=off GOTOOLCHAIN=local
unset GOWORK || true
cd "$HERE"
if ! ./build.sh >"$HERE/bin/.build.log" 2>&1; then
  mkdir -p "$HERE/bin"; cat "$HERE/bin/.build.log" 2>/dev/null
  echo "run_check: cannot build the checker (infrastructure error, not a verdict)"
  exit 2
fi
mkdir -p "$HERE/evidence/replay"
EXTRA=()
if [ "$TIER" = "thorough" ]; then
  SELF="$(mktemp /tmp/texel-selftest-XXXXXX.json)"
  "$HERE/selftest.sh" "$ID" "$SELF" || true
  TEXEL_REPO="$REPO" python3 "$HERE/tools/crosscheck.py" "$ID" "$SELF" || true
  EXTRA=(-extra "$SELF")
fi
"$HERE/bin/texelcheck" -property "$ID" -tier "$TIER" -repo "$REPO" \
  -evidence "$HERE/evidence/$ID.json" -known "$HERE/known_findings.json" \
  -replaydir "$HERE/evidence/replay" "${EXTRA[@]}"
RC=$?
[ "$TIER" = "thorough" ] && rm -f "$SELF"
exit $RC
