#!/bin/bash
# full regression of the checker: (1) every claimed check is green on /repo, (2) every recorded mutant and seeded
# change of every property is caught by that property's check, (3) every behaviour-preserving edit stays green
HERE="$(cd "$(dirname "$0")/.." && pwd)"; cd "$HERE"
./build.sh || exit 2
PROPS=$(python3 -c "import json;print(' '.join(c['property_id'] for c in json.load(open('MANIFEST.json'))['checks']))")
echo "== /repo"; for p in $PROPS; do ./bin/texelcheck -property $p | tail -1 | grep -v " 0 violations" ; done
echo "== mutants + seeds"
for p in $PROPS; do (python3 tools/mutant.py run --prop $p > /tmp/regress-$p.log 2>&1; tail -1 /tmp/regress-$p.log; grep "survived\|patch-does-not-apply\|does-not-type-check\|error-" /tmp/regress-$p.log | cut -c1-160) & done; wait
echo "== behaviour-preserving edits"
python3 tools/mutant.py run --prop NEG > /tmp/regress-NEG.log 2>&1; tail -1 /tmp/regress-NEG.log; grep "survived" /tmp/regress-NEG.log | cut -c1-420
rm -f /tmp/regress-*.log
