#!/usr/bin/env python3
"""Confirms an independently written property-breaking change and records it under /verif/seeded/.

  seed.py verify --src DIR --prop C10 --name short-name --demo FILE:repo/relative/dest_test.go [--demo ...] [--race] [--needs TEXT]

 1. scratch copy of /repo (outside /repo and /verif), apply DIR/patch.diff, `go build ./...` and the full test suite must pass
 2. copy the demonstration(s) in, run their tests: must FAIL with the change
 3. revert the change: the demonstration must PASS
 4. re-apply the change (without the demonstration) and run every claimed check on the scratch copy; record which obligations fire
 5. store patch.diff, the demonstration, NOTES.md and meta.json under /verif/seeded/<prop>-<name>/
"""
import argparse, json, os, re, shutil, subprocess, sys, tempfile

HERE = os.path.dirname(os.path.dirname(os.path.abspath(__file__)))
REPO = "/repo"
ENV = dict(os.environ, GOFLAGS="-mod=mod", GOPROXY="off", GOSUMDB="off", GOTOOLCHAIN="local")
ENV.pop("GOWORK", None)


def run(cmd, cwd, timeout=1800):
    p = subprocess.run(cmd, cwd=cwd, env=ENV, stdout=subprocess.PIPE, stderr=subprocess.STDOUT, text=True, timeout=timeout)
    return p.returncode, p.stdout


def claimed():
    return [c["property_id"] for c in json.load(open(os.path.join(HERE, "MANIFEST.json")))["checks"]]


def detect(scratch, props):
    from concurrent.futures import ThreadPoolExecutor
    out = {}

    def one(p):
        return p, run([os.path.join(HERE, "bin", "texelcheck"), "-property", p, "-repo", scratch, "-dump"], cwd=HERE)

    with ThreadPoolExecutor(max_workers=8) as ex:
        results = list(ex.map(one, props))
    for p, (rc, o) in results:
        keys = []
        for line in o.splitlines():
            if line.startswith("violated ") or line.startswith("undecided "):
                keys.append(line.split()[1])
        if keys:
            out[p] = sorted(set(keys))
    return out


def main():
    ap = argparse.ArgumentParser()
    ap.add_argument("cmd", choices=["verify", "recheck"])
    ap.add_argument("--src")
    ap.add_argument("--prop")
    ap.add_argument("--name")
    ap.add_argument("--demo", action="append", default=[])
    ap.add_argument("--race", action="store_true")
    ap.add_argument("--needs", default="")
    ap.add_argument("--count", default="1")
    a = ap.parse_args()

    if a.cmd == "recheck":
        # re-run the checks against every stored seed and rewrite detected_by
        base = os.path.join(HERE, "seeded")
        for d in sorted(os.listdir(base)):
            if a.name and a.name not in d:
                continue
            mp = os.path.join(base, d, "meta.json")
            if not os.path.exists(mp):
                continue
            meta = json.load(open(mp))
            s = tempfile.mkdtemp(prefix="texel-seed-")
            try:
                subprocess.check_call(["rsync", "-a", "--exclude", ".git", REPO + "/", s + "/"])
                rc, o = run(["patch", "-p1", "-s", "-i", os.path.join(base, d, "patch.diff")], cwd=s)
                if rc != 0:
                    print(d, "PATCH DOES NOT APPLY", o[-300:])
                    continue
                det = detect(s, claimed())
                meta["detected_by"] = det
                meta["detected_by_own_property_check"] = meta["property"] in det
                json.dump(meta, open(mp, "w"), indent=1)
                print(f"{d}: own={meta['property'] in det} {json.dumps(det)[:300]}")
            finally:
                shutil.rmtree(s, ignore_errors=True)
        return

    s = tempfile.mkdtemp(prefix="texel-seed-")
    log = []
    try:
        subprocess.check_call(["rsync", "-a", "--exclude", ".git", REPO + "/", s + "/"])
        patch = os.path.join(a.src, "patch.diff")
        rc, o = run(["patch", "-p1", "-s", "-i", patch], cwd=s)
        if rc != 0:
            sys.exit("patch does not apply:\n" + o)
        rc, o = run(["go", "build", "./..."], cwd=s)
        if rc != 0:
            sys.exit("does not build:\n" + o)
        rc, o = run(["go", "test", "-vet=off", "-count=1", "./..."], cwd=s)
        log.append("suite with change: rc=%d" % rc)
        if rc != 0:
            sys.exit("existing test suite FAILS with the change (not kept):\n" + o[-2000:])
        # demonstrations
        cmds = []
        dests = []
        for d in a.demo:
            src, dest = d.split(":")
            dests.append(dest)
            shutil.copy(os.path.join(a.src, src), os.path.join(s, dest))
            tests = re.findall(r"^func (Test\w+)\(", open(os.path.join(s, dest)).read(), re.M)
            pkg = "./" + os.path.dirname(dest) if os.path.dirname(dest) else "."
            cmd = ["go", "test", pkg, "-run", "^(" + "|".join(tests) + ")$", "-count=" + a.count]
            if a.race:
                cmd.insert(2, "-race")
            cmds.append(cmd)
        failed_with = False
        out_with = ""
        for cmd in cmds:
            rc, o = run(cmd, cwd=s)
            out_with += "$ " + " ".join(cmd) + "\n" + o[-3000:] + "\n"
            if rc != 0:
                failed_with = True
        if not failed_with:
            sys.exit("demonstration does NOT fail with the change:\n" + out_with[-3000:])
        rc, o = run(["patch", "-R", "-p1", "-s", "-i", patch], cwd=s)
        passed_without = True
        out_without = ""
        for cmd in cmds:
            rc, o = run(cmd, cwd=s)
            out_without += "$ " + " ".join(cmd) + "\n" + o[-1500:] + "\n"
            if rc != 0:
                passed_without = False
        if not passed_without:
            sys.exit("demonstration FAILS without the change:\n" + out_without[-3000:])
        # detection
        run(["patch", "-p1", "-s", "-i", patch], cwd=s)
        for dest in dests:
            os.remove(os.path.join(s, dest))
        det = detect(s, claimed())
        outdir = os.path.join(HERE, "seeded", f"{a.prop}-{a.name}")
        os.makedirs(outdir, exist_ok=True)
        shutil.copy(patch, os.path.join(outdir, "patch.diff"))
        for d in a.demo:
            src, dest = d.split(":")
            shutil.copy(os.path.join(a.src, src), os.path.join(outdir, os.path.basename(dest) + ".txt"))
        if os.path.exists(os.path.join(a.src, "NOTES.md")):
            shutil.copy(os.path.join(a.src, "NOTES.md"), os.path.join(outdir, "NOTES.md"))
        meta = {
            "property": a.prop,
            "name": a.name,
            "written_by": "sub-agent that saw only the text of the property and its own scratch worktree of /repo",
            "needs_to_manifest": a.needs,
            "demonstration": [{"file": os.path.basename(d.split(":")[1]) + ".txt", "intended_path": d.split(":")[1]} for d in a.demo],
            "confirmed": {
                "builds_with_change": True,
                "existing_suite_passes_with_change": True,
                "demonstration_fails_with_change": True,
                "demonstration_passes_without_change": True,
                "commands": [" ".join(c) for c in cmds],
                "output_with_change_tail": out_with[-1500:],
            },
            "detected_by": det,
            "detected_by_own_property_check": a.prop in det,
        }
        json.dump(meta, open(os.path.join(outdir, "meta.json"), "w"), indent=1)
        print(f"kept as seeded/{a.prop}-{a.name}; detected by: {json.dumps(det)[:600]}")
        if a.prop not in det:
            print("NOT DETECTED by the property's own check")
    finally:
        shutil.rmtree(s, ignore_errors=True)


main()
