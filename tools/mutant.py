#!/usr/bin/env python3
"""Mutant self-test tooling.

  mutant.py add  --prop C17 --name mask-bit --file morton/morton.go --old OLD --new NEW --expect R41/toz [--notests]
        makes a scratch copy of /repo (outside /repo and /verif), replaces OLD by NEW (exactly one occurrence) in FILE,
        checks that the copy still builds and (unless --notests) passes the repository's tests, records the patch
        as /verif/mutants/<prop>__<name>.patch and the expectation in /verif/mutants/index.json, and runs the check on it.
  mutant.py run  --prop C17 [--out FILE]
        applies every recorded mutant of the property to a fresh scratch copy (one process per mutant), runs
        texelcheck -expect, prints a summary and writes it as JSON (coverage keys for the evidence file).
"""
import argparse, json, os, shutil, subprocess, sys, tempfile, time
from concurrent.futures import ThreadPoolExecutor

HERE = os.path.dirname(os.path.dirname(os.path.abspath(__file__)))
REPO = os.environ.get("TEXEL_REPO", "/repo")
MUT = os.path.join(HERE, "mutants")
INDEX = os.path.join(MUT, "index.json")
ENV = dict(os.environ, GOFLAGS="-mod=mod", GOPROXY="off", GOSUMDB="off", GOTOOLCHAIN="local")
ENV.pop("GOWORK", None)


def load_index():
    if os.path.exists(INDEX):
        return json.load(open(INDEX))
    return {"mutants": []}


def scratch_copy():
    d = tempfile.mkdtemp(prefix="texel-mut-")
    subprocess.check_call(["rsync", "-a", "--exclude", ".git", REPO + "/", d + "/"])
    return d


def run(cmd, cwd=None, timeout=900):
    p = subprocess.run(cmd, cwd=cwd, env=ENV, stdout=subprocess.PIPE, stderr=subprocess.STDOUT, text=True, timeout=timeout)
    return p.returncode, p.stdout


def claimed():
    return [c["property_id"] for c in json.load(open(os.path.join(HERE, "MANIFEST.json")))["checks"]]


def check(scratch, prop, expect):
    if prop == "NEG":
        # behaviour-preserving refactor: every claimed check must stay green ("killed" = stays green)
        bad = []
        for p in claimed():
            rc, out = run([os.path.join(HERE, "bin", "texelcheck"), "-property", p, "-repo", scratch])
            if rc != 0:
                viol = [l for l in out.splitlines() if ": violated " in l or ": undecided " in l]
                bad.append(p + ": " + (viol[0][:300] if viol else out.strip().splitlines()[-1][:300]))
        if bad:
            return 1, "FALSE ALARM on a behaviour-preserving edit: " + " || ".join(bad)
        return 0, "SELFTEST stays green on all %d checks (behaviour-preserving edit)" % len(claimed())
    return run([os.path.join(HERE, "bin", "texelcheck"), "-property", prop, "-repo", scratch, "-expect", expect])


def cmd_add(a):
    os.makedirs(MUT, exist_ok=True)
    d = scratch_copy()
    try:
        edits = list(zip(a.file, a.old, a.new))
        for f, old, new in edits:
            p = os.path.join(d, f)
            s = open(p).read()
            if s.count(old) != 1:
                sys.exit(f"OLD must occur exactly once in {f}, found {s.count(old)}")
            open(p, "w").write(s.replace(old, new))
        rc, out = run(["go", "build", "./..."], cwd=d)
        if rc != 0:
            sys.exit("mutant does not build:\n" + out)
        if not a.notests:
            rc, out = run(["go", "test", "-vet=off", "-count=1", "./..."], cwd=d)
            if rc != 0:
                sys.exit("mutant fails the existing tests (not a realistic seeded change):\n" + out[-3000:])
        patch = ""
        for f in sorted(set(a.file)):
            rc, out = run(["diff", "-u", "--label", "a/" + f, "--label", "b/" + f, os.path.join(REPO, f), os.path.join(d, f)])
            patch += out
        name = f"{a.prop}__{a.name}.patch"
        open(os.path.join(MUT, name), "w").write(patch)
        rc, out = check(d, a.prop, a.expect)
        print(out.strip().splitlines()[-1] if out.strip() else "(no output)")
        idx = load_index()
        idx["mutants"] = [m for m in idx["mutants"] if m["patch"] != name]
        idx["mutants"].append({"patch": name, "property": a.prop, "expect": a.expect, "what": a.what, "tests_pass": not a.notests, "killed_when_added": rc == 0})
        idx["mutants"].sort(key=lambda m: m["patch"])
        json.dump(idx, open(INDEX, "w"), indent=1)
        if rc != 0:
            print("NOT KILLED (recorded anyway; strengthen the rule)")
            sys.exit(1)
    finally:
        shutil.rmtree(d, ignore_errors=True)


def cmd_addpatch(a):
    """record an existing patch file (behaviour-preserving refactor => --prop NEG, or a breaking change)"""
    os.makedirs(MUT, exist_ok=True)
    d = scratch_copy()
    try:
        rc, out = run(["patch", "-p1", "-s", "-i", a.patch], cwd=d)
        if rc != 0:
            sys.exit("patch does not apply:\n" + out)
        rc, out = run(["go", "build", "./..."], cwd=d)
        if rc != 0:
            sys.exit("does not build:\n" + out)
        tests_pass = True
        if getattr(a, "notests", False):
            rc, out = run(["go", "test", "-vet=off", "-count=1", "./..."], cwd=d)
            tests_pass = rc == 0
        else:
            rc, out = run(["go", "test", "-vet=off", "-count=1", "./..."], cwd=d)
            if rc != 0:
                sys.exit("fails the existing tests:\n" + out[-2000:])
        name = f"{a.prop}__{a.name}.patch"
        shutil.copy(a.patch, os.path.join(MUT, name))
        rc, out = check(d, a.prop, a.expect)
        print(out.strip().splitlines()[-1][:1500] if out.strip() else "(no output)")
        idx = load_index()
        idx["mutants"] = [m for m in idx["mutants"] if m["patch"] != name]
        idx["mutants"].append({"patch": name, "property": a.prop, "expect": a.expect, "what": a.what, "tests_pass": tests_pass, "killed_when_added": rc == 0})
        idx["mutants"].sort(key=lambda m: m["patch"])
        json.dump(idx, open(INDEX, "w"), indent=1)
        return 0 if rc == 0 else 1
    finally:
        shutil.rmtree(d, ignore_errors=True)


def one(m):
    d = scratch_copy()
    try:
        rc, out = run(["patch", "-p1", "-s", "-i", os.path.join(MUT, m["patch"])], cwd=d)
        if rc != 0:
            return dict(m, result="patch-does-not-apply", detail=out[-400:])
        rc, out = check(d, m["property"], m["expect"])
        last = out.strip().splitlines()[-1] if out.strip() else ""
        res = {0: "killed", 1: "survived", 3: "does-not-type-check"}.get(rc, f"error-{rc}")
        return dict(m, result=res, detail=last[:400])
    finally:
        shutil.rmtree(d, ignore_errors=True)


def seeded_for(prop):
    base = os.path.join(HERE, "seeded")
    out = []
    if os.path.isdir(base):
        for d in sorted(os.listdir(base)):
            mp = os.path.join(base, d, "meta.json")
            if d.startswith(prop + "-") and os.path.exists(mp):
                meta = json.load(open(mp))
                out.append({"patch": os.path.join("..", "seeded", d, "patch.diff"), "property": prop, "expect": "R",
                            "what": "independently seeded change (sub-agent): needs " + meta.get("needs_to_manifest", ""), "tests_pass": True})
    return out


def cmd_run(a):
    t0 = time.time()
    ms = [m for m in load_index()["mutants"] if m["property"] == a.prop] + seeded_for(a.prop)
    with ThreadPoolExecutor(max_workers=int(os.environ.get("VERIF_JOBS", "4"))) as ex:
        results = list(ex.map(one, ms))
    killed = sum(1 for r in results if r["result"] == "killed")
    for r in results:
        print(f"  mutant {r['patch']}: {r['result']}  {r['detail']}")
    print(f"mutant self-test {a.prop}: {killed}/{len(results)} killed in {time.time()-t0:.0f}s")
    summary = {"selftest_mutants_total": len(results), "selftest_mutants_killed": killed,
               "selftest_note": "self-test of the rules on seeded variants of /repo (scratch copies, one process each); the verdict of the check is the analysis of /repo itself",
               "selftest_results": [{k: r[k] for k in ("patch", "expect", "result", "detail", "what")} for r in results]}
    if a.out:
        json.dump(summary, open(a.out, "w"), indent=1)
    # a stale mutant (patch no longer applies) or a survivor is reported but does not change the verdict on /repo
    return 0


ap = argparse.ArgumentParser()
sub = ap.add_subparsers(dest="cmd", required=True)
p = sub.add_parser("add")
p.add_argument("--prop", required=True)
p.add_argument("--name", required=True)
p.add_argument("--file", action="append", required=True)
p.add_argument("--old", action="append", required=True)
p.add_argument("--new", action="append", required=True)
p.add_argument("--expect", required=True)
p.add_argument("--what", default="")
p.add_argument("--notests", action="store_true")
p = sub.add_parser("addpatch")
p.add_argument("--prop", required=True)
p.add_argument("--name", required=True)
p.add_argument("--patch", required=True)
p.add_argument("--expect", default="none")
p.add_argument("--what", default="")
p.add_argument("--notests", action="store_true")
p = sub.add_parser("run")
p.add_argument("--prop", required=True)
p.add_argument("--out")
a = ap.parse_args()
sys.exit({"add": cmd_add, "run": cmd_run, "addpatch": cmd_addpatch}[a.cmd](a) or 0)
