#!/usr/bin/env python3
"""Prints the markdown table of /verif/seeded (from the meta.json files written by seed.py)."""
import json, glob, os, re
HERE = os.path.dirname(os.path.dirname(os.path.abspath(__file__)))
rows = []
for mp in sorted(glob.glob(os.path.join(HERE, "seeded", "*", "meta.json"))):
    m = json.load(open(mp))
    d = os.path.basename(os.path.dirname(mp))
    own = m["detected_by"].get(m["property"], [])
    # rule/first-construct, without the function suffix
    short = sorted({"/".join(k.split("/")[:2]) for k in own})
    others = sorted(p for p in m["detected_by"] if p != m["property"])
    rows.append((d, m.get("needs_to_manifest", ""), ", ".join(short[:3]) + (" …" if len(short) > 3 else ""), " ".join(others)))
print("| seeded change | needs, to manifest | caught by (own property's check) | also fires in |")
print("|---|---|---|---|")
for r in rows:
    print("| `%s` | %s | %s | %s |" % r)
print()
print("%d seeded changes, %d caught by the check of their own property." % (len(rows), sum(1 for r in rows if r[2])))
