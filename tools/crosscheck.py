#!/usr/bin/env python3
"""Thorough tier: re-evaluates the property's rules with the CHA call graph instead of VTA and reports every
obligation whose verdict differs (information for the evidence; the verdict of the check stays the VTA run)."""
import json, os, subprocess, sys

HERE = os.path.dirname(os.path.dirname(os.path.abspath(__file__)))
prop, out, repo = sys.argv[1], sys.argv[2], os.environ.get("TEXEL_REPO", "/repo")


def dump(env):
    p = subprocess.run([os.path.join(HERE, "bin", "texelcheck"), "-property", prop, "-repo", repo, "-dump"], env=env, stdout=subprocess.PIPE, stderr=subprocess.STDOUT, text=True)
    res = {}
    for line in p.stdout.splitlines():
        parts = line.split()
        if len(parts) >= 2 and parts[0] in ("discharged", "violated", "undecided"):
            res[parts[1]] = parts[0]
    return res

vta = dump(dict(os.environ))
cha = dump(dict(os.environ, TEXEL_CALLGRAPH="cha"))
diff = []
for k in sorted(set(vta) | set(cha)):
    if vta.get(k) != cha.get(k):
        diff.append({"obligation": k, "vta": vta.get(k, "absent"), "cha": cha.get(k, "absent")})
extra = {}
if os.path.exists(out):
    extra = json.load(open(out))
extra["cha_crosscheck"] = {"obligations_vta": len(vta), "obligations_cha": len(cha), "differences": diff,
                           "note": "CHA resolves interface and function-value calls by type only (superset of VTA); differences are reported, not counted"}
json.dump(extra, open(out, "w"), indent=1)
print(f"CHA cross-check {prop}: {len(vta)} obligations under VTA, {len(cha)} under CHA, {len(diff)} differ")
for d in diff[:10]:
    print("   ", d)
