#!/usr/bin/env python3
"""Replaces the generated seed table in DESIGN.md (section 8.6) by the current output of seedtable.py."""
import os, re, subprocess
HERE = os.path.dirname(os.path.dirname(os.path.abspath(__file__)))
p = os.path.join(HERE, "DESIGN.md")
s = open(p).read()
tab = subprocess.check_output(["python3", os.path.join(HERE, "tools", "seedtable.py")], text=True).rstrip("\n")
head = "| seeded change | needs, to manifest | caught by (own property's check) | also fires in |"
i = s.index(head)
# the table ends with the "N seeded changes, …" summary line
m = re.compile(r"^\d+ seeded changes, \d+ caught by the check of their own property\.$", re.M).search(s, i)
j = m.end() if m else None
if j is None:
    # older layout: table followed by a blank line
    j = s.index("\n\n", i)
s = s[:i] + tab + s[j:]
open(p, "w").write(s)
print(tab.splitlines()[-1])
