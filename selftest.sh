#!/bin/bash
# usage: selftest.sh <property id> <out.json> — runs the recorded mutants of the property (thorough tier)
HERE="$(cd "$(dirname "$0")" && pwd)"
exec python3 "$HERE/tools/mutant.py" run --prop "$1" --out "$2"
