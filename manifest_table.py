# Table for gen_manifest.py.  claim(id, category, level text, level note, technique, design ref); na(id, reason)

claim("C09", "other",
      "Static decision, for all polygons/flags/grids, of the structural clauses of outside-grid rejection: every quotient feeding the range check has a numerator proven non-negative by an earlier rejection (R21, the F2 defect class), every vertex is range-checked before anything is stored or snapped (R05, R08), both axes are treated alike (R02, R03), and a failed check ends in panic or a fresh empty map with snapping unreachable, the quiet exit only under IgnoreOutsideGrid for an OutsideGridError (R22, R14). Not decided: sub-1e-10 offsets and the exact position of the right/top border on grids that do not divide evenly (arithmetic).",
      "Assumes go-spatial geom.Polygon.LinearRings returns all rings.",
      "SSA path search + AST guard matching (must-pass-through, who-may-call)", "DESIGN.md section 4 C09")

_pending = "check under construction in this session (rules designed in DESIGN.md section 3/4, not yet implemented); not claimed until its evidence is produced by the checker"
for _p in ["C01", "C02", "C03", "C04", "C05", "C07", "C08", "C10", "C11", "C12", "C13", "C14", "C15", "C16", "C17"]:
    if _p not in CLAIMED:
        na(_p, _pending)

na("C06", "totality (no panic, no hang) needs arithmetic invariants of the hand-rolled KMP bookkeeping and a progress proof for a loop whose index is assigned computed values; no sound static argument in reach (the compiler's own BCE pass leaves 47 bounds checks in snap.go unproven) and an inventory of panic sites would only detect change")
na("C18", "equality of signed areas and edge sets produced by data-dependent ring surgery (KMP de-duplication, stack-based splitting, shell/hole cancellation); every clause quantifies over runtime point sequences and no clause is visible in the shape of the code")
