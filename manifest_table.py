# Table for gen_manifest.py.  claim(id, category, level text, level note, technique, design ref); na(id, reason)

OTHER = ("Level 'other': structural necessary conditions of the property, decided from the source for every input / schedule / configuration at once "
         "(the quantifier the tests cannot reach); it is not a decision of the numeric behaviour. ")

claim("C01", "other",
      OTHER + "Decides the three premises of the snap-rounding argument: every vertex of every ring is in the hot-pixel set before any edge is routed and only insertCoord writes that set (R05, R08); every edge incl. the closing edge is routed through the index and input coordinates can never reach an output structure (R06, R07 provenance/confinement by SSA value flow); pixel ownership tables and conversions agree (R03, R01). Not decided: numeric correctness of lineIntersects, edges invented by spike removal (F5).",
      "Trusts go-spatial geom.Polygon.LinearRings to return all rings.",
      "who-may-write + must-pass-through on SSA; interprocedural value-flow confinement; derived table cross-check", "DESIGN.md 4/C01, rules R01 R03 R05-R08")
claim("C02", "other",
      OTHER + "Decides: intersection point is (x,y) not (x,x) (R01, found and fixed); x/y formulas mirror each other with no cross-axis operand (R02); the six encodings of the half-open pixel agree, derived from Extent.Vertices/Edges (R03); shape of the 2x2 quadrant decision table: certain only for an endpoint inside the parent, mutex only for the two adjacent quadrants of the diagonal case, order of travel (R04). Not decided: float intersection numerics, exhaustive tie enumeration.",
      "Geometry of a segment in a 2x2 split is the oracle of R04.",
      "typed-AST symmetry check under axis substitution; derived-table agreement; decision-table shape with path conditions", "DESIGN.md 4/C02, rules R01-R04")
claim("C03", "other",
      OTHER + "Decides that every output coordinate is ToGeomPoint of a stored Quadrant.intCentroid written only from getQuadrantExtentAndCentroid (R07), whose x and y formulas are symmetric (R02), and that both copies of level = id + log2(tile width) + log2(16) agree (R09). Not decided: the arithmetic itself and the deviation bound.",
      "", "SSA provenance (who-may-write fields, who-may-convert), sibling expression agreement", "DESIGN.md 4/C03")
claim("C04", "other",
      OTHER + "Claims clause 1 only (every output vertex is the pixel centre of some input vertex): outputs are centroids of stored quadrants (R07), stored only by insertCoord for addresses computed from polygon vertices after the range check (R08, R05). Clauses 2 and 3 (half-pixel distance, coverage equivalence) are geometric and not decided.",
      "", "SSA provenance + ownership (who-may-call / who-may-write)", "DESIGN.md 4/C04")
claim("C05", "other",
      OTHER + "Decides the policy clauses: present tile matrix => at least one polygon (R11); rings < 3 vertices diverted before de-duplication and splitting, emitted only under keep-points-and-lines after the polygons, level dropped only when the shell collapses (R12); reversal is the last transformation and covers every ring (R13); each option read only where it acts (R14); no lossy int->float->int round trip for the repeated-vertex lookup (R10, found and fixed). Not decided: simplicity/orientation of split rings for every input.",
      "", "dominance on SSA, guard matching on typed AST, site classification of float->int conversions on the call graph", "DESIGN.md 4/C05")
claim("C07", "other",
      OTHER + "Determinism clause complete: no goroutine/channel/select/random/time/os/runtime/sync/unsafe/global store on the snapping call graph incl. dependencies (R16), and every map range and maps.Keys on it is proven order-independent (R15: per-key stores with injective keys, set insertion, key-addressed callee effects via bottom-up write-effect summaries, append-only collections whose uses are order-insensitive, followed across calls); same below ProcessFeatures (R15p). Reverse flag: R13, R14. Clause 2 only as necessary condition (rings normalised first).",
      "Callee read effects are not tracked (R18 covers cross-level reads). Standard library classified by table.",
      "commutativity analysis of map-range loops on SSA with interprocedural effect summaries; call-graph deny-list", "DESIGN.md 4/C07, rules R15 R16")
claim("C08", "other",
      OTHER + "Decides: result keyed by requested ids only (R20); each of the 40+ accesses to level-indexed state uses the current level / root level / descent counter, incl. one hop through parameters (R18); the requested set only selects what is recorded, never steers the descent; a level is dropped only for its own ring result (R19); shared level arithmetic (R09). Not decided: independence of coarser addresses from the deepest level (the property's own divisibility precondition).",
      "", "enumeration of typed map accesses with key-role classification; use-classification of the level-set parameter", "DESIGN.md 4/C08")
claim("C09", "other",
      OTHER + "Decides: every quotient feeding the range check has a numerator proven non-negative by an earlier rejection (R21, the F2 defect, found and fixed); every vertex is range-checked on all four sides and both axes before anything is stored or snapped (R05, R08, R02, R03); a failed check ends in panic or a fresh empty map, snapping unreachable, quiet exit only for OutsideGridError under IgnoreOutsideGrid (R22, R14). Not decided: sub-1e-10 offsets; right/top border on grids that do not divide evenly.",
      "Assumes go-spatial geom.Polygon.LinearRings returns all rings.",
      "AST guard matching for truncating division; edge-sensitive SSA path search (must-not-reach on error edges)", "DESIGN.md 4/C09")
claim("C10", "other",
      OTHER + "Decides for all streams and schedules: exactly one delivery per (feature, tile matrix in the result) carrying the received feature, that key and that key's geometry; default arm forwards untouched geometry once per id; router sends exactly once per feature on the channel chosen by TileMatrixID (R28, path counting per loop iteration on SSA); transparent wrapper (R29); multipolygon merge per id (R30); absent <=> no geometry (R11); per-target order from single sender/consumer (R23, R24); no in-place write to shared column storage (R27, found and fixed); map order cannot change deliveries (R15p).",
      "Snapped geometry itself is C01-C09.",
      "per-iteration exactly-once path counting on SSA; channel value-flow; shared-slice write detection with canary", "DESIGN.md 4/C10")
claim("C11", "other",
      OTHER + "Decides the premises of termination and join for all interleavings: single sender closes each channel once, outside loops, on every normal path after its sends (R23); every consumer incl. every module Target drains until close (R24); Add dominates go, Done deferred first, Wait before every return, closes before Wait, outer group joins the router (R25); all go statements joined or tail-terminating (R26); captured variables not reassigned, shared feature storage not written (R27). Acyclic stage graph + close at end + drain until close => terminates on finite input, ProcessFeatures returns only after every WriteFeatures returned.",
      "database/sql trusted goroutine-safe; Go memory model trusted.",
      "channel/wait-group typestate via SSA value flow, dominance and post-dominance on normal-return paths", "DESIGN.md 4/C11")
claim("C12", "other",
      OTHER + "Decides row completeness for every (count, page size > 0): go/cfg typestate of the page buffer (empty/dirty/flushed/mixed) — every appended feature flushed exactly once before return (R31); one INSERT per flushed feature through a statement prepared on the page's transaction, committed on every normal path, extent over every feature merged after commit (R32); column order agreement between reader and writer (R33). Not decided: SQLite/SpatiaLite behaviour.",
      "", "typestate dataflow on go/cfg; per-iteration path counting on SSA; sibling agreement of SQL builders", "DESIGN.md 4/C12")
claim("C13", "other",
      OTHER + "Decides the plumbing for all flag combinations: flags declared once, read with declared kind, each snap.Config field from the flag named after it, page size reaches TargetGeopackage.pagesize, overwrite guards os.Remove (R34, R14); same-typed arguments not swapped (R35); validation gates all work, one target per validated id named and keyed by it, remove before init on the same path, tables switched before and untouched after each run (R36); quadtree gate first (R37). Not decided: path.Split/Ext corner cases, SQLite.",
      "Per-table content follows from C10-C12.",
      "flag-table agreement on typed AST; SSA value flow flag->field; edge-sensitive dominance", "DESIGN.md 4/C13")
claim("C14", "other",
      OTHER + "Decides: no shape-assuming code before IsQuadTree accepted the set and its error is returned (R37a, found and fixed); every explicit panic reachable from validation is excluded by an IsQuadTree check on the same field; all guards on VariableMatrixWidths use one emptiness predicate (R37c, found and fixed); IsQuadTree covers the complete sorted id set and enforces all ten conditions for every matrix, pairwise ones only under previous != nil (R38); shared level arithmetic (R09). Not decided: verdicts on the 14 shipped documents; first id 0 / 1x1 root.",
      "", "call-graph reachability + edge-sensitive dominance; contradiction rule on predicates; condition inventory with role-resolved operands", "DESIGN.md 4/C14")
claim("C15", "other",
      OTHER + "Decides pairing clauses only: width-flavoured operands on the x side and height-flavoured on the y side in the four addressing functions (R02); identical corner-of-origin case analysis and sign convention, one common ToXYPoint (R42). Not decided: rounding at tile borders, EPSG axis table content.",
      "", "axis-flavour check on typed AST; sibling switch agreement", "DESIGN.md 4/C15")
claim("C16", "other",
      OTHER + "Decides: reader/writer JSON key sets agree for every hand-written codec, json:\"-\" fields are the re-added specials, CRS variants mutually exclusive on required keys (R39, found and fixed); decode has only checked assertions, in-range submatch indices (regexp/syntax), comma-ok lookups, no success without validate.Struct, positivity/required tags, integer ids with error returned, no explicit panic on the decode graph (R40). Not decided: marshmallow/validator internals.",
      "", "derived key-table comparison; idiom inventory on the decode call graph", "DESIGN.md 4/C16")
claim("C17", "proof",
      "Proof by abstract interpretation over all 2^64 address pairs: a bit-provenance domain (each result bit is 0, 1, a copy of one input bit, or mixed) is executed over the SSA of morton.ToZ/FromZ with loops unrolled on their constant counters and the mask tables read from the source. Obligations: interleave map exact (=> injective), FromZ inverts it, ToZ>>2 = ToZ of halved addresses, ok <=> both fit 32 bits (truth table), MustToZ panics iff !ok, callers use the checked encoder, tables immutable, 64-bit words. All must be discharged; any unsupported instruction yields no verdict and fails.",
      "Trusted: go/ssa translation, the ~60 lines of transfer functions, uint = 64 bit on amd64.",
      "bit-level abstract interpretation (known-bits / provenance) of the SSA", "DESIGN.md 4/C17, rule R41")

na("C06", "totality (no panic, no hang) needs arithmetic invariants of the hand-rolled KMP bookkeeping and a progress proof for a loop whose index is assigned computed values; no sound static argument in reach (the compiler's own BCE pass leaves 47 bounds checks in snap.go unproven) and an inventory of panic sites would only detect change. The size guards that are structural (R12) are reported under C05.")
na("C18", "equality of signed areas and edge sets produced by data-dependent ring surgery (KMP de-duplication, stack-based splitting, shell/hole cancellation, hole matching); every clause quantifies over runtime point sequences and no clause is visible in the shape of the code. The only structural fact nearby (no vertex is invented, R07) is claimed under C04.")
