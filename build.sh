#!/bin/bash
# Builds the checker binary from /verif/checker (offline, module cache only).
set -eu
cd "$(dirname "$0")/checker"
export GOFLAGS=-mod=mod GOPROXY=off GOSUMDB=off GOTOOLCHAIN=local
unset GOWORK || true
mkdir -p ../bin
go build -o ../bin/texelcheck ./cmd/texelcheck
