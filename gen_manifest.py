#!/usr/bin/env python3
"""Generates /verif/MANIFEST.json from the table below (kept next to the rules
in checker/internal/rules/table.go; `python3 gen_manifest.py` after editing)."""
import json, os, sys

HERE = os.path.dirname(os.path.abspath(__file__))

TRUST = ("Trusted: go/packages+go/types loading of /repo's working tree (default build configuration), "
         "x/tools v0.29.0 go/ssa + VTA call graph, the rule implementations; third-party code reached by reflection is not analysed.")

# id -> (category, level text, level note, technique, design_ref)
CLAIMED = {}
# id -> reason
NOT_APPLICABLE = {}


def claim(pid, category, text, note, technique, ref):
    CLAIMED[pid] = (category, text, note, technique, ref)


def na(pid, reason):
    NOT_APPLICABLE[pid] = reason


exec(open(os.path.join(HERE, "manifest_table.py")).read())

checks = []
for pid in sorted(CLAIMED):
    category, text, note, technique, ref = CLAIMED[pid]
    checks.append({
        "property_id": pid,
        "quick_cmd": f"./run_check.sh {pid} quick",
        "thorough_cmd": f"./run_check.sh {pid} thorough",
        "evidence_file": f"/verif/evidence/{pid}.json",
        "replay_cmd_template": "cat {path}",
        "engine": "texelcheck",
        "level_claimed": {"category": category, "text": text, "design_ref": ref},
        "level_note": note + " " + TRUST,
        "technique": technique,
    })

manifest = {
    "version": 1,
    "setup_cmd": "./build.sh",
    "hooks": {
        "guard": "verif",
        "enable": "none needed: the checks analyse source statically and never build or run texel; no hook commits exist",
        "baseline_off_cmd": "cd /repo && GOFLAGS=-mod=mod GOPROXY=off go test -vet=off -count=1 ./...",
        "source_commits": [],
        "add_only": True,
    },
    "engines": [{
        "name": "texelcheck",
        "path": "/verif/checker",
        "serves_properties": sorted(CLAIMED),
        "kind_free_text": "repository-specific static analyser (go/packages, go/types, go/ssa, VTA call graph, go/cfg) evaluating rules R01..R42 on /repo's current source; nothing of texel is executed",
    }],
    "checks": checks,
    "not_applicable": [{"property_id": p, "reason": NOT_APPLICABLE[p]} for p in sorted(NOT_APPLICABLE)],
    "notes": "Technique family: static analysis only. Every check loads /repo's working tree on every run and reports a construct (file:line, function, call site or call-graph path). "
             "Level 'other' = structural necessary conditions decided for all inputs/schedules; the clauses decided and not decided are listed in each evidence file and in DESIGN.md section 4. "
             "known_findings.json lists defects found by the rules (all repaired by fix: commits so far).",
}
json.dump(manifest, open(os.path.join(HERE, "MANIFEST.json"), "w"), indent=1)
print("MANIFEST.json:", len(checks), "checks,", len(NOT_APPLICABLE), "not applicable")
